#!/bin/bash
# Entry point of every registered command.
#   ./run.sh <ID> quick|thorough      run one check (VERIF_SEED, VERIF_TIER honoured)
#   ./run.sh replay <file>            re-run the case of a replay file
#   ./run.sh build                    build the harness only
# The harness is rebuilt on every call from /repo's current working tree
# (module replace directive), with the hooks enabled (-tags verif).
set -u
export GOFLAGS=-mod=mod GOPROXY=off GOSUMDB=off GOTOOLCHAIN=local
export CGO_ENABLED=${CGO_ENABLED:-1}
here="$(cd "$(dirname "$0")" && pwd)"
export VERIF_ROOT="$here"
# a replay file may be given relative to the caller's directory
if [ "${1:-}" = "replay" ] && [ -n "${2:-}" ]; then
  case "$2" in /*) replay_file="$2" ;; *) replay_file="$PWD/$2" ;; esac
fi
cd "$here/harness" || exit 2
mkdir -p bin

# VERIF_REPO (self-tests only): build against a scratch copy of the repository instead of /repo
modflag=""
suffix=""
if [ -n "${VERIF_REPO:-}" ]; then
  suffix=".alt$$"
  sed "s#=> /repo#=> ${VERIF_REPO}#" go.mod > "bin/alt$$.mod"
  modflag="-modfile=bin/alt$$.mod"
  trap 'rm -f "$here/harness/bin/alt$$.mod" "$here/harness/bin/alt$$.sum" "$here/harness/bin/twcheck$suffix" "$here/harness/bin/twcheck-race$suffix"' EXIT
fi

build() { # $1 = output, rest = extra flags
  local out="$1"; shift
  if ! go build -tags verif $modflag "$@" -o "$out" ./cmd/twcheck 2>"$here/harness/bin/build$suffix.log"; then
    echo "BUILD FAILED (harness against /repo's working tree):" >&2
    cat "$here/harness/bin/build$suffix.log" >&2
    return 1
  fi
}

cmd="${1:-}"
case "$cmd" in
  build)
    build bin/twcheck || exit 2
    build bin/twcheck-race -race || exit 2
    exit 0 ;;
  replay)
    file="${replay_file:?replay file}"
    id="$(python3 -c 'import json,sys; print(json.load(open(sys.argv[1]))["property"])' "$file")"
    bin=bin/twcheck
    if [ "$id" = "C15" ]; then build bin/twcheck-race -race || exit 2; bin=bin/twcheck-race; else build bin/twcheck || exit 2; fi
    exec "$bin" replay "$file" ;;
  C[0-9][0-9])
    id="$cmd"
    tier="${2:-${VERIF_TIER:-quick}}"
    seed="${VERIF_SEED:-0}"
    bin=bin/twcheck$suffix
    if [ "$id" = "C15" ]; then
      build bin/twcheck-race$suffix -race || exit 2; bin=bin/twcheck-race$suffix
    else
      build bin/twcheck$suffix || exit 2
    fi
    if [ -n "$suffix" ]; then "$bin" run "$id" "$tier" "$seed"; exit $?; fi
    exec "$bin" run "$id" "$tier" "$seed" ;;
  *)
    echo "usage: run.sh <ID> quick|thorough | replay <file> | build" >&2
    exit 2 ;;
esac
