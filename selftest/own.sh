#!/bin/bash
# usage: selftest/own.sh [tier] [seed-id ...]
# For each seeded change: scratch worktree of /repo HEAD + patch (patch.ported.diff when the original no
# longer applies), then the check of the property the seed breaks is run against the scratch copy
# (VERIF_REPO), never against /repo. Results: one line per seed in $OWN_OUT (default selftest/own.tsv)
tier="${1:-quick}"; shift || true
cd "$(dirname "$0")/.."
root=$PWD
seeds="$@"; [ -z "$seeds" ] && seeds=$(ls seeded)
# OWN_SHARD=k/n: only every n-th seed, starting with the k-th (for sweeps run side by side)
if [ -n "${OWN_SHARD:-}" ]; then
  k=${OWN_SHARD%%/*}; n=${OWN_SHARD##*/}
  seeds=$(echo $seeds | tr ' ' '\n' | awk -v k=$k -v n=$n 'NR % n == k % n')
fi
out="${OWN_OUT:-$root/selftest/own.tsv}"
: > "$out"
for s in $seeds; do
  id=${s%%-*}
  wt=$(mktemp -d /tmp/ownwt.XXXXXX); rmdir $wt
  git -C /repo worktree add -q --detach $wt HEAD || continue
  applied=""
  for pf in patch.ported.diff patch.diff; do
    [ -f $root/seeded/$s/$pf ] || continue
    if (cd $wt && (git apply $root/seeded/$s/$pf 2>/dev/null || git apply --3way $root/seeded/$s/$pf 2>/dev/null)); then applied=$pf; break; fi
    (cd $wt && git checkout -q -- . && git reset -q --hard)
  done
  if [ -z "$applied" ]; then echo -e "$s\t$id\tPATCH-DOES-NOT-APPLY" >> $out; git -C /repo worktree remove --force $wt; rm -rf $wt; continue; fi
  # does the demonstration still fail with the change (on this HEAD)?
  demo=$(ls $root/seeded/$s/demo*_test.go 2>/dev/null | head -1); demores="no-demo"
  if [ -n "$demo" ]; then
    pkg=$(grep -m1 '^package ' "$demo" | awk '{print $2}')
    case "$pkg" in textwire|textwire_test) dest=. ;; *) dest=${pkg%_test} ;; esac
    cp "$demo" $wt/$dest/zz_demo_test.go
    if (cd $wt && GOFLAGS=-mod=mod GOPROXY=off GOSUMDB=off GOTOOLCHAIN=local timeout 600 go test -vet=off -count=1 -run 'Demo|C[0-9][0-9]' ./$dest >/dev/null 2>&1); then demores="demo-passes(change-is-harmless-now)"; else demores="demo-fails"; fi
    rm -f $wt/$dest/zz_demo_test.go
  fi
  o=$(VERIF_REPO=$wt VERIF_OUT=/tmp/ownout.$$ VERIF_WALL=900 ./run.sh $id $tier 2>&1); rc=$?
  v=$(echo "$o" | grep -c '^VIOLATION')
  echo -e "$s\t$id\trc=$rc\tviolations=$v\t$applied\t$demores" >> $out
  git -C /repo worktree remove --force $wt; rm -rf $wt /tmp/ownout.$$
done
