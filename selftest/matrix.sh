#!/bin/bash
# usage: selftest/matrix.sh [tier] [seed-id ...]
# For each seeded change: scratch worktree of /repo HEAD + patch, then every registered check (or $CHECKS)
# is run against the scratch copy (VERIF_REPO), never against /repo. Results: selftest/matrix.tsv
tier="${1:-quick}"; shift || true
cd "$(dirname "$0")/.."
root=$PWD
seeds="$@"; [ -z "$seeds" ] && seeds=$(ls seeded)
checks="${CHECKS:-$(python3 -c "import json; print(' '.join(c['property_id'] for c in json.load(open('MANIFEST.json'))['checks']))")}"
out="${MATRIX_OUT:-$root/selftest/matrix.tsv}"
for s in $seeds; do
  wt=$(mktemp -d /tmp/mxwt.XXXXXX); rmdir $wt
  git -C /repo worktree add -q --detach $wt HEAD || continue
  if ! (cd $wt && (git apply $root/seeded/$s/patch.diff 2>/dev/null || git apply --3way $root/seeded/$s/patch.diff 2>/dev/null)); then echo -e "$s\tPATCH-DOES-NOT-APPLY" >> $out; git -C /repo worktree remove --force $wt; continue; fi
  for id in $checks; do
    o=$(VERIF_REPO=$wt VERIF_OUT=/tmp/mxout.$$ VERIF_WALL=900 ./run.sh $id $tier 2>&1); rc=$?
    v=$(echo "$o" | grep -c '^VIOLATION')
    echo -e "$s\t$id\trc=$rc\tviolations=$v" >> $out
  done
  git -C /repo worktree remove --force $wt; rm -rf $wt /tmp/mxout.$$
done
