package checks

import (
	"fmt"
	"math"
	"net/http"
	"os"
	"os/exec"
	"path/filepath"
	"reflect"
	"runtime/debug"
	"strings"
	"time"

	textwire "github.com/textwire/textwire/v2"
	"github.com/textwire/textwire/v2/config"

	"verif/core"
)

// C16 — a render depends only on its arguments, not on earlier calls.

// recorder is an http.ResponseWriter that records what is written
type recorder struct {
	hdr    http.Header
	body   strings.Builder
	writes []string
	status int
}

func newRecorder() *recorder { return &recorder{hdr: http.Header{}} }

func (r *recorder) Header() http.Header { return r.hdr }
func (r *recorder) Write(b []byte) (int, error) {
	r.body.Write(b)
	r.writes = append(r.writes, string(b))
	return len(b), nil
}
func (r *recorder) WriteHeader(code int) { r.status = code }

// headerProblem checks what a real server would enforce: a declared Content-Length equals the bytes written
func (r *recorder) headerProblem() string {
	if cl := r.hdr.Get("Content-Length"); cl != "" && cl != fmt.Sprint(r.body.Len()) {
		return fmt.Sprintf("Content-Length says %s but %d bytes were written (a server would cut or refuse the body)", cl, r.body.Len())
	}
	return ""
}

type histUser struct {
	Name  string
	Age   int
	Items []string
}

type histAccount struct {
	Name  string
	Qty   int
	Extra any
	Next  *histAccount
}

// histShared lives as long as the process, like data kept by a server between requests
var histShared = &histAccount{Name: "shared", Qty: 2, Next: &histAccount{Name: "next", Qty: 3}}

// histKept and what it holds are changed in place between calls, the way a server updates a record it keeps
var histKeptMeta = map[string]any{"tag": "t0", "rank": 0}
var histKeptItems = []string{"i0", "i1"}
var histKept = map[string]any{"name": "nobody", "age": 0, "items": histKeptItems, "meta": histKeptMeta}

func histKeptAs(name string, age int) map[string]any {
	histKept["name"] = name
	histKept["age"] = age
	histKeptItems[0] = "item of " + name
	histKeptMeta["tag"] = "tag of " + name
	histKeptMeta["rank"] = age * 10
	return map[string]any{"user": histKept, "zero": 0}
}

func histItemA() any {
	type histItem struct {
		Name string
		Qty  int
	}
	return histItem{Name: "Go", Qty: 90}
}

func histItemB() any {
	type histItem struct {
		Pages int
		Qty   string
		Name  []string
	}
	return &histItem{Pages: 7, Qty: "many", Name: []string{"n1", "n2"}}
}

type histEnv struct {
	dir, ext      string
	debug         bool
	errPage       bool
	brokenErrPage bool
	tpl           *textwire.Template
	fp            string
	state         textwire.VerifStateSnapshot
	absFile       string
}

func histFiles(ext string) map[string]string {
	return map[string]string{
		"layouts/main" + ext:     "<html>@reserve(\"title\")|@reserve(\"body\")</html>",
		"components/card" + ext:  "<card {{ t }}>@slot</card>",
		"home" + ext:             "@use(\"~main\")@insert(\"title\", \"Home \" + user.name)@insert(\"body\")@each(i in user.items)@component(\"~card\", {t: i})@slot[{{ loop.iter }}]@end@end@end@end",
		"profile" + ext:          "profile {{ user.name }} ({{ user.age }}) {{ user.items.len() }}",
		"list" + ext:             "{{ items.reverse().append(9) }}|{{ items.slice(1).prepend(0) }}|{{ items }}|{{ o }}",
		"bad" + ext:              "before bad\n@each(v in [1, 2])row {{ v }}\n@end{{ 1 / zero }} after",
		"bad2" + ext:             "l1\nl2 {{ user.nosuch }}\n",
		"errors/500" + ext:       "<custom error page>",
		"plain" + ext:            "plain file {{ n + 1 }}",
		"counter" + ext:          "{{ total = 3 }}{{ label = \"s\" }}counted {{ total }}",
		"reader" + ext:           "total is {{ total }}",
		"label" + ext:            "{{ total = \"text\" }}{{ label = 1 }}{{ total }}{{ label }}",
		"badloop" + ext:          "<ul>@each(u in users)<li>{{ u.name }}</li>@end</ul>",
		"goodloop" + ext:         "<ul>@each(u in users)<li>{{ u.name }}</li>@end</ul>@for(k = 0; k < 2; k++)[{{ k }}]@end",
		"badfor" + ext:           "@for(k = 0; k < 4; k++)[{{ 6 / (2 - k) }}]@end",
		"errors/broken" + ext:    "broken error page {{ reason }}",
		"layouts/bare" + ext:     "bare layout for {{ who }}@if(flag) flagged@end",
		"usesbare" + ext:         "@use(\"~bare\")ignored page text",
		"components/flag" + ext:  "@if(admin)ADMIN@else guest@end@each(n in names)[{{ n }}]@end",
		"usesflag" + ext:         "<@component(\"~flag\")>@each(k in [1, 2])(@component(\"~flag\"))@end",
		"prints" + ext:           "{{ \"~card\" }}|{{ \"~main\" }}|{{ \"~flag\" }}|{{ \"components/card\" }}|{{ '~card' + \"~bare\" }}",
		"rawpage" + ext:          "{{ frag.raw() }}|{{ frag }}",
		"components/frame" + ext: "<div>@slot</div><p>@slot(\"foot\")</p>",
		"framed" + ext:           "@component(\"~frame\")@slot{{ name }}@end@slot(\"foot\")@if(name == \"Anna\")A@else other@end@end@end",
		"repeats" + ext:          "{{ pattern.repeat(n) }}|{{ amount.decimal(sep, places) }}",
		"args" + ext:             "{{ word.at(-back) }}|{{ shown.then(!muted, \"n/a\") }}|{{ -n }}|{{ word.at(back - 1) }}|{{ [1, 2, 3].slice(-(back), 3) }}|@each(w in [word])@if(!muted){{ w.repeat(-(-back)) }}@end@end",
		"item" + ext:             "item {{ it.name }}/{{ it.qty }} {{ it }}",
		"strayinsert" + ext:      "@if(show)@insert(\"title\", \"T\")<b>{{ n }}</b><i>tail</i>@end|@each(k in [1, 2])@insert(\"x\")y@end({{ k }})<u>u</u>@end",
		"box" + ext:              "{{ {left: -shift, unit: \"px\"}.left }}|{{ [-shift, !flag, -1] }}|{{ {a: {b: -shift}}.a.b }}|@each(k in [1, 2]){{ {v: -k, w: !flag}.v }}@end|{{ {on: !flag}.on }}",
		"ratio" + ext:            "{{ total / count }}",
		"shapes" + ext:           "{{ [1, [2, [n]]] }}|{{ {a: {b: {c: n}}}.a.b.c }}|{{ \"abcdef\".at(n) }}|{{ \"x\".repeat(n) }}|{{ [1, 2, 3, 4].slice(n).len() }}|{{ 5.decimal(\".\", n) }}|{{ true.then(n, 0) }}|{{ false.then(0, s) }}|{{ \"a,b\".split(\",\").join(s) }}|{{ [s].contains(\"k\") ? 1 : 2 }}|{{ \"kz\".contains(s) }}|{{ (1 > 0) ? n : 0 }}|{{ -n }}|{{ !b }}|{{ [n, 0][0] }}|{{ {k: n, j: s}.k }}|{{ \"s\" + s }}|{{ 1 + n * 2 }}|{{ 1.5 * n.float() }}|{{ [[s, \"x\"], [n]][0][0] }}|{{ {list: [n, {deep: s}]}.list[1].deep }}|{{ \"%d\".len() + n }}|{{ [\"p\", \"q\", \"r\", \"s\"][n] }}|{{ \"abc\".truncate(n, s) }}|{{ [3, 1, 2].contains(n) }}|{{ n.str() + \"!\" }}|{{ b ? \"yes\" : \"no\" }}|{{ (b ? [1] : [1, 2]).len() }}|{{ [1, 2].append(n).len() }}|{{ [0].prepend(s)[0] }}|{{ n == 1 ? \"one\" : n == 3 ? \"three\" : \"many\" }}|@if(\"k\" == s)Y@elseif([3].contains(n))E@else N@end|@each(x in [1, n])<{{ x }}>@end|@for(i = 0; i < n; i++)({{ i }})@end|@each(x in [])@else{{ s }}@end|{{ v = [n, s] }}{{ v }}|{{ w = {k: n} }}{{ w.k }}",
		"ruler" + ext:            "@use(\"~main\")@insert(\"title\", \"=\".repeat(width))@insert(\"body\", [\"w\", width.str()].join(\":\"))",
		"badge" + ext:            "{{ \"admin,editor\".contains(role) ? \"staff\" : \"guest\" }}|{{ [role].contains(\"admin\") ? 1 : 2 }}|@if(\"admin\".contains(role))a@else b@end|{{ true.then(role, 0) }}|{{ role.len() > 5 ? \"long\" : \"short\" }}|{{ \"x\".repeat(role.len()) }}|{{ [1, 2, 3].slice(role.len() - 5).len() }}|@each(k in [1, 2]){{ \"ab\".contains(role.at(k)) ? \"y\" : \"n\" }}@end",
		// round 17: literals holding the characters that are escaped, printed, concatenated, in a loop, under raw(), as arguments
		"escapes" + ext: "<p>{{ \"Tom & Jerry <3\" }}</p>|{{ 'a > b' + \"&amp;\" }}|@each(k in [1, 2]){{ \"<\" + \"i>\" }}@end|{{ \"x & y\".raw() }}|{{ \"\\\"q\\\" & 'r'\" }}|@component(\"~card\", {t: \"<t&>\"})@slot{{ \"&\" }}@end@end|{{ [\"<\", \"&\"].join(\">\") }}",
		"numbers" + ext:          "{{ x.str() }}|{{ x }}|{{ (x * 1.0).str() }}|{{ (0.0 * x).str() }}|{{ [[n, n + 1], [0, 0]] }}|{{ [1, [n], \"s\"] }}|@each(k in [[n], [2]]){{ k }}@end|{{ {a: [n], b: {c: n}} }}|{{ [[]].len() + n }}|{{ [\"a\", [\"b\" + n.str()]] }}",
	}
}

type histOp struct {
	name string
	run  func(h *histEnv) string
}

func fmtFail(out string, msg string, line uint, path string) string {
	return fmt.Sprintf("out=%q err=%q line=%d path=%q", out, msg, line, path)
}

func histOps() []histOp {
	str := func(name string, data func() map[string]any) func(h *histEnv) string {
		return func(h *histEnv) string {
			out, fe := h.tpl.String(name, data())
			if fe != nil {
				return fmtFail(out, fe.Message(), fe.Line(), fe.Filepath())
			}
			return fmt.Sprintf("out=%q", out)
		}
	}
	resp := func(name string, data func() map[string]any) func(h *histEnv) string {
		return func(h *histEnv) string {
			rec := newRecorder()
			err := h.tpl.Response(rec, name, data())
			return fmt.Sprintf("body=%q err=%v", rec.body.String(), err)
		}
	}
	structData := func() map[string]any {
		return map[string]any{"user": histUser{Name: "Ann", Age: 30, Items: []string{"x", "y"}}, "zero": 0}
	}
	mapData := func() map[string]any {
		return map[string]any{"user": map[string]any{"name": "bob", "Name": "BOB", "age": 41, "items": []any{"p"}}, "zero": 0}
	}
	lowerMap := func() map[string]any {
		return map[string]any{"user": map[string]any{"name": "cy", "age": 1, "items": []any{}}, "zero": 0}
	}
	listData := func() map[string]any {
		return map[string]any{"items": []int{3, 1, 2}, "o": map[string]any{"b": 1, "a": []int{1}}}
	}
	noData := func() map[string]any { return nil }
	return []histOp{
		{"String(home, struct)", str("home", structData)},
		{"String(profile, struct)", str("profile", structData)},
		{"String(profile, map with name+Name)", str("profile", mapData)},
		{"String(profile, lower-case map)", str("profile", lowerMap)},
		{"String(bad)", str("bad", structData)},
		{"String(bad2, struct)", str("bad2", structData)},
		{"String(missing)", str("no/such/page", structData)},
		{"String(layout name)", str("layouts/main", noData)},
		{"String(list)", str("list", listData)},
		{"String(escapes)", str("escapes", noData)},
		{"Response(escapes)", resp("escapes", structData)},
		{"Response(home)", resp("home", mapData)},
		{"Response(bad)", resp("bad", structData)},
		{"Response(missing)", resp("ghost", noData)},
		{"EvaluateString(ok)", func(h *histEnv) string {
			out, err := textwire.EvaluateString("{{ a + 1 }} @each(v in [1, 2]){{ v }}@end", map[string]any{"a": 1})
			return fmt.Sprintf("out=%q err=%v", out, err)
		}},
		{"EvaluateString(fail)", func(h *histEnv) string {
			out, err := textwire.EvaluateString("x\n{{ nope }}", nil)
			return fmt.Sprintf("out=%q err=%v", out, err)
		}},
		{"EvaluateFile(ok)", func(h *histEnv) string {
			out, err := textwire.EvaluateFile(h.absFile, map[string]any{"n": 1})
			return fmt.Sprintf("out=%q err=%v", out, err)
		}},
		{"String(counter, nil)", str("counter", noData)},
		{"String(reader, nil)", str("reader", noData)},
		{"String(label, empty map)", str("label", func() map[string]any { return map[string]any{} })},
		{"EvaluateString(reads total, nil)", func(h *histEnv) string {
			out, err := textwire.EvaluateString("{{ total }}", nil)
			return fmt.Sprintf("out=%q err=%v", out, err)
		}},
		{"String(badloop: 3rd pass fails)", str("badloop", func() map[string]any {
			return map[string]any{"users": []map[string]any{{"name": "ann"}, {"name": "bob"}, {"nick": "x"}}}
		})},
		{"String(goodloop)", str("goodloop", func() map[string]any {
			return map[string]any{"users": []map[string]any{{"name": "zed"}}}
		})},
		{"Response(badfor: 3rd pass fails)", resp("badfor", noData)},
		// the same loaded call sites with other argument values
		{"String(args, back=1 muted=false)", str("args", func() map[string]any {
			return map[string]any{"word": "stair", "back": 1, "shown": true, "muted": false, "n": 4}
		})},
		{"String(args, back=3 muted=true)", str("args", func() map[string]any {
			return map[string]any{"word": "stair", "back": 3, "shown": true, "muted": true, "n": -4}
		})},
		// one page with the data buried in literals, calls on literal receivers, conditions and loop headers of every shape
		{"String(shapes, n=1 s=k b=true)", str("shapes", func() map[string]any { return map[string]any{"n": 1, "s": "k", "b": true} })},
		{"String(shapes, n=3 s=z b=false)", str("shapes", func() map[string]any { return map[string]any{"n": 3, "s": "z", "b": false} })},
		// a page without @use that holds inserts inside its blocks, rendered more than once
		{"String(strayinsert, n=1)", str("strayinsert", func() map[string]any { return map[string]any{"show": true, "n": 1} })},
		{"String(strayinsert, n=2)", str("strayinsert", func() map[string]any { return map[string]any{"show": true, "n": 2} })},
		// literals whose values are prefix expressions over the data
		{"String(box, shift=2)", str("box", func() map[string]any { return map[string]any{"shift": 2, "flag": true} })},
		{"String(box, shift=5)", str("box", func() map[string]any { return map[string]any{"shift": 5, "flag": false} })},
		// two different faults on one line of one page, written as error pages
		{"Response(ratio, count=0)", resp("ratio", func() map[string]any { return map[string]any{"total": 6, "count": 0} })},
		{"Response(ratio, count=\"two\")", resp("ratio", func() map[string]any { return map[string]any{"total": 6, "count": "two"} })},
		{"Response(ratio, no count)", resp("ratio", func() map[string]any { return map[string]any{"total": 6} })},
		// insert arguments that are calls on literal receivers with arguments from the data
		{"String(ruler, width=3)", str("ruler", func() map[string]any { return map[string]any{"width": 3} })},
		{"String(ruler, width=5)", str("ruler", func() map[string]any { return map[string]any{"width": 5} })},
		{"String(ruler, width=-1)", str("ruler", func() map[string]any { return map[string]any{"width": -1} })},
		// literal receivers whose arguments differ from render to render
		{"String(badge, role=admin)", str("badge", func() map[string]any { return map[string]any{"role": "admin"} })},
		{"String(badge, role=visitor)", str("badge", func() map[string]any { return map[string]any{"role": "visitor"} })},
		// one loaded page with zeros of either sign, and with literals nested in literals that hold different values each time
		{"String(numbers, +0.0 n=1)", str("numbers", func() map[string]any { return map[string]any{"x": 0.0, "n": 1} })},
		{"String(numbers, -0.0 n=5)", str("numbers", func() map[string]any { return map[string]any{"x": math.Copysign(0, -1), "n": 5} })},
		{"EvaluateString(-0.0 as string)", func(h *histEnv) string {
			out, err := textwire.EvaluateString("{{ x.str() }}|{{ (-0.0).str() }}|{{ 0.0.str() }}", map[string]any{"x": math.Copysign(0, -1)})
			return fmt.Sprintf("out=%q err=%v", out, err)
		}},
		// two different struct types that print the same type name
		{"String(item, local type A)", str("item", func() map[string]any { return map[string]any{"it": histItemA()} })},
		{"String(item, local type B)", str("item", func() map[string]any { return map[string]any{"it": histItemB()} })},
		// one long-lived pointer: first holding an unsupported value (the call fails), then repaired
		{"String(item, shared pointer holding a chan)", str("item", func() map[string]any {
			histShared.Extra = make(chan int)
			return map[string]any{"it": histShared}
		})},
		{"String(item, shared pointer repaired)", str("item", func() map[string]any {
			histShared.Extra = nil
			return map[string]any{"it": histShared}
		})},
		{"EvaluateString(shared pointer repaired)", func(h *histEnv) string {
			histShared.Extra = "fine"
			out, err := textwire.EvaluateString("{{ it.name }} {{ it.extra }} {{ it.next.name }}", map[string]any{"it": histShared})
			return fmt.Sprintf("out=%q err=%v", out, err)
		}},
		// pages whose layout (without reserves) or component (without arguments and slots) reads the data of the call
		{"String(usesbare, who=ann)", str("usesbare", func() map[string]any { return map[string]any{"who": "ann", "flag": true} })},
		{"String(usesbare, who=bob)", str("usesbare", func() map[string]any { return map[string]any{"who": "bob", "flag": false} })},
		{"String(usesbare, nil)", str("usesbare", noData)},
		{"String(usesflag, admin)", str("usesflag", func() map[string]any { return map[string]any{"admin": true, "names": []string{"a", "b"}} })},
		{"String(usesflag, guest)", str("usesflag", func() map[string]any { return map[string]any{"admin": false, "names": []string{}} })},
		{"Response(usesflag, nil)", resp("usesflag", noData)},
		// string literals spelled like the alias names of the components and layouts other pages use
		{"String(prints)", str("prints", noData)},
		{"EvaluateString(literal ~card, unknown ~label)", func(h *histEnv) string {
			out, err := textwire.EvaluateString("{{ \"~card\" }}{{ \"~label\" }}@component(\"~label\")", nil)
			return fmt.Sprintf("out=%q err=%v", out, err)
		}},
		// repeat/decimal requests whose string and count spell the same digits: ("0",12) and ("01",2), ("1",2) and ("",12)
		{"String(repeats, 5.decimal(., 12))", str("repeats", func() map[string]any {
			return map[string]any{"pattern": "x", "n": 1, "amount": 5, "sep": ".", "places": 12}
		})},
		{"String(repeats, 01.repeat(2))", str("repeats", func() map[string]any {
			return map[string]any{"pattern": "01", "n": 2, "amount": 7, "sep": ",", "places": 3}
		})},
		{"EvaluateString(1.repeat(2))", func(h *histEnv) string {
			out, err := textwire.EvaluateString("{{ \"1\".repeat(2) }}", nil)
			return fmt.Sprintf("out=%q err=%v", out, err)
		}},
		{"EvaluateString(empty.repeat(12))", func(h *histEnv) string {
			out, err := textwire.EvaluateString("{{ \"\".repeat(12) }}|{{ 0.decimal(\"1\", 2) }}|{{ \"12\".repeat(1) }}", nil)
			return fmt.Sprintf("out=%q err=%v", out, err)
		}},
		// two different fragments with equal CRC-32 through raw()
		{"String(rawpage, fragment 29685295)", str("rawpage", func() map[string]any { return map[string]any{"frag": "<b>fragment 29685295</b> &amp; more"} })},
		{"String(rawpage, fragment 32060020)", str("rawpage", func() map[string]any { return map[string]any{"frag": "<b>fragment 32060020</b> &amp; more"} })},
		// sources of equal length (whose 32-bit FNV-1a hashes also agree): each evaluates to its own text
		{"EvaluateString(invoice 232789)", func(h *histEnv) string {
			out, err := textwire.EvaluateString("<p>Invoice 232789: {{ total }} EUR</p>", map[string]any{"total": 5})
			return fmt.Sprintf("out=%q err=%v", out, err)
		}},
		{"EvaluateString(invoice 429192)", func(h *histEnv) string {
			out, err := textwire.EvaluateString("<p>Invoice 429192: {{ total }} EUR</p>", map[string]any{"total": 5})
			return fmt.Sprintf("out=%q err=%v", out, err)
		}},
		// a component file of text and placeholders only; what fills the placeholders depends on the data of the call
		{"String(framed, name=Anna)", str("framed", func() map[string]any { return map[string]any{"name": "Anna"} })},
		{"String(framed, name=Serhii)", str("framed", func() map[string]any { return map[string]any{"name": "Serhii"} })},
		{"String(framed, nil)", str("framed", noData)},
		// the same characters, an escaped quote among them, between quotes of either kind
		{"EvaluateString(single-quoted it\\'s)", func(h *histEnv) string {
			out, err := textwire.EvaluateString("{{ 'it\\'s' }}|{{ 'say \\\"hi\\\"' }}|{{ 'a\\\\b' }}", nil)
			return fmt.Sprintf("out=%q err=%v", out, err)
		}},
		{"EvaluateString(double-quoted it\\'s)", func(h *histEnv) string {
			out, err := textwire.EvaluateString("{{ \"it\\'s\" }}|{{ \"say \\\"hi\\\"\" }}|{{ \"a\\\\b\" }}", nil)
			return fmt.Sprintf("out=%q err=%v", out, err)
		}},
		// one record kept by the caller and updated in place between calls (same keys, same lengths)
		{"EvaluateString(kept record as ann)", func(h *histEnv) string {
			out, err := textwire.EvaluateString("{{ user.name }} {{ user.age }} {{ user.items }} {{ user.meta.tag }} {{ user.meta.rank / user.age }}", histKeptAs("ann", 1))
			return fmt.Sprintf("out=%q err=%v", out, err)
		}},
		{"EvaluateString(kept record as bob)", func(h *histEnv) string {
			out, err := textwire.EvaluateString("{{ user.name }} {{ user.age }} {{ user.items }} {{ user.meta.tag }} {{ user.meta.rank / user.age }}", histKeptAs("bob", 2))
			return fmt.Sprintf("out=%q err=%v", out, err)
		}},
		{"String(profile, kept record as nil-aged cy)", str("profile", func() map[string]any { return histKeptAs("cy", 0) })},
		{"EvaluateString(kept record as cy: division by zero)", func(h *histEnv) string {
			out, err := textwire.EvaluateString("{{ user.name }} {{ user.meta.rank / user.age }}", histKeptAs("cy", 0))
			return fmt.Sprintf("out=%q err=%v", out, err)
		}},
		// character built-ins on strings outside ASCII, the same string in several calls
		{"EvaluateString(żółw reversed)", func(h *histEnv) string {
			out, err := textwire.EvaluateString("{{ w.reverse() }}|{{ w.first() }}|{{ w.last() }}|{{ w.at(1) }}|{{ w.len() }}|{{ w }}", map[string]any{"w": "żółw 😀!"})
			return fmt.Sprintf("out=%q err=%v", out, err)
		}},
		{"EvaluateString(żółw first and last)", func(h *histEnv) string {
			out, err := textwire.EvaluateString("{{ w.first() }}{{ w.last() }}{{ w.at(2) }} {{ \"żółw 😀!\".reverse() }} {{ w.truncate(3) }} {{ w.upper() }}", map[string]any{"w": "żółw 😀!"})
			return fmt.Sprintf("out=%q err=%v", out, err)
		}},
		{"EvaluateString(中文 reversed)", func(h *histEnv) string {
			out, err := textwire.EvaluateString("{{ w.reverse() }}|{{ w.first() }}|{{ w.last() }}|{{ w.len() }}", map[string]any{"w": "中文字符"})
			return fmt.Sprintf("out=%q err=%v", out, err)
		}},
		// one path rewritten between calls with text of the same length, the modification time restored
		{"EvaluateFile(rewritten: bold)", func(h *histEnv) string { return evalRewritten(h, "<b>{{ 2 * 3 }}</b> first") }},
		{"EvaluateFile(rewritten: italic)", func(h *histEnv) string { return evalRewritten(h, "<i>{{ 2 * 5 }}</i> other") }},
		{"EvaluateFile(missing)", func(h *histEnv) string {
			out, err := textwire.EvaluateFile(h.absFile+".gone", nil)
			return fmt.Sprintf("out=%q err=%v", out, err)
		}},
	}
}

func evalRewritten(h *histEnv, content string) string {
	p := filepath.Join(filepath.Dir(h.absFile), "rewritten.txt")
	fixed := time.Unix(1700000000, 0)
	os.WriteFile(p, []byte(content), 0o644)
	os.Chtimes(p, fixed, fixed)
	out, err := textwire.EvaluateFile(p, nil)
	return fmt.Sprintf("out=%q err=%v", out, err)
}

var histConfigs = []struct {
	dir, ext string
}{{"h1", ".tw"}, {"h2/views", ".tw.html"}, {"./h3/", ".html"}}

func (h *histEnv) load(c *core.Ctx) bool {
	textwire.VerifResetConfig()
	cfg := &config.Config{TemplateDir: h.dir, TemplateExt: h.ext, DebugMode: h.debug}
	if h.errPage {
		cfg.ErrorPagePath = h.errPathSpelling("errors/500")
	}
	if h.brokenErrPage {
		cfg.ErrorPagePath = h.errPathSpelling("errors/broken")
	}
	var err error
	if c.Guard(func() { h.tpl, err = textwire.NewTemplate(cfg) }) {
		return false
	}
	if err != nil || h.tpl == nil {
		c.Violation("history:load-failed", fmt.Sprintf("the fixed tree did not load: %v", err), nil)
		return false
	}
	h.fp = h.tpl.VerifFingerprint()
	h.state = textwire.VerifState()
	return true
}

// histEnvFor builds the environment of configuration cfgNo (3 directory/extension
// settings x debug x error page none/valid/broken)
// errPathSpelling: the error page path as written in the configuration (with slashes around it under two of the settings)
func (h *histEnv) errPathSpelling(p string) string {
	switch h.ext {
	case ".tw.html":
		return "/" + p + "/"
	case ".html":
		return p + "/"
	}
	return p
}

func histEnvFor(cfgNo int) (*histEnv, string) {
	hc := histConfigs[cfgNo%len(histConfigs)]
	mode := cfgNo / len(histConfigs)
	h := &histEnv{dir: hc.dir, ext: hc.ext, debug: mode%2 == 1, errPage: mode/2 >= 1, brokenErrPage: mode/2 == 2}
	root := strings.Trim(strings.TrimPrefix(hc.dir, "./"), "/")
	h.absFile, _ = filepath.Abs(filepath.Join(root, "plain"+hc.ext))
	return h, root
}

func init() {
	ops := histOps()
	// one operation as the first call of a fresh process; the working directory holds the tree
	core.RegisterAux("c16-baseline", func(args []string) int {
		var cfgNo, o int
		fmt.Sscan(args[0], &cfgNo)
		fmt.Sscan(args[1], &o)
		h, _ := histEnvFor(cfgNo)
		textwire.VerifResetConfig()
		cfg := &config.Config{TemplateDir: h.dir, TemplateExt: h.ext, DebugMode: h.debug}
		if h.errPage {
			cfg.ErrorPagePath = h.errPathSpelling("errors/500")
		}
		if h.brokenErrPage {
			cfg.ErrorPagePath = h.errPathSpelling("errors/broken")
		}
		tpl, err := textwire.NewTemplate(cfg)
		if err != nil {
			fmt.Fprintln(os.Stderr, err)
			return 3
		}
		h.tpl = tpl
		fmt.Print(ops[o].run(h))
		return 0
	})
	core.Register(&core.Check{
		ID:    "C16",
		Level: "exploration",
		Rule: "histories are all sequences up to length 2 (quick; length 2 under 3 rotating configurations each) / 3 (thorough: lengths 1-2 under all configurations, length 3 under one rotating configuration each), sampled ones a step longer and random ones of length 30, over 48 concrete operations on a fixed template tree: String of a layout+component+loop page with struct data, of a page reading user.name with a Go struct, with a map holding name and Name, with a lower-case-only map, of two pages that fail at run time after producing output, of a missing name, of a layout name, of a page calling reverse/append/slice/prepend on data arrays; Response ok/failing/missing (the failing ones render the error page through the string API); EvaluateString ok/failing; EvaluateFile ok/missing - on 3 directory/extension settings x debug on/off x custom error page none/valid/failing; also renders without data that assign at top level followed by renders that read the name, loops that fail in a later pass followed by other loops, one page with call arguments built from prefix operators rendered with two data sets, two struct types that print the same type name, and one long-lived pointer that first holds an unsupported value and is then repaired. " +
			"Each step's observation (output, or message+line+path; body and returned error for Response) is compared with the same operation issued first on a fresh load; after every step the verif hooks VerifFingerprint (loaded ASTs) and VerifState (configuration) must equal their values after load. round 8: signed zeros as strings, literals nested in literals; round 9: literal receivers with arguments from the data; rounds 10-11: slash-wrapped error page paths, data-driven literals and insert arguments, three faults on one line; rounds 12-13: inserts without @use, a record updated in place between calls, character built-ins on the same non-ASCII strings; round 14: slot bodies printing the data, escaped quotes under either quote kind; round 17: a page of literals holding escaped characters; distinct_nontrivial = distinct (configuration, history) pairs",
		Assumptions: []string{
			"the baseline of an operation is its result as the first call of a fresh process that loaded the same tree with the same configuration (one child process per operation and configuration)",
		},
		Setup: func(c *core.Ctx) {
			if err := registerTracers(); err != nil {
				panic(err)
			}
		},
		Sections: func(tier core.Tier, seed int64) []core.Section {
			maxLen, nShort, nRandom := 2, 12000, 300
			if tier == core.Thorough {
				maxLen, nShort, nRandom = 3, 300000, 20000
			}
			nOps := len(ops)
			nCfg := len(histConfigs) * 6 // x debug on/off x error page none/valid/broken
			runHistory := func(c *core.Ctx, cfgNo int, seq []int) {
				hc := histConfigs[cfgNo%len(histConfigs)]
				h, root := histEnvFor(cfgNo)
				// the tree is written once per worker and configuration
				key := fmt.Sprintf("tree-written-%d", cfgNo%len(histConfigs))
				if c.State[key] == nil {
					files := histFiles(hc.ext)
					if err := writeFiles(root, files); err != nil {
						c.Inconclusive(err.Error())
						return
					}
					c.State[key] = true
				}
				desc := map[string]any{"dir": hc.dir, "ext": hc.ext, "debug": h.debug, "custom_error_page": h.errPage, "custom_error_page_fails": h.brokenErrPage}
				var names []string
				for _, o := range seq {
					names = append(names, ops[o].name)
				}
				desc["history"] = names
				c.Input(desc)
				// baselines: every operation of the history, alone, first after a fresh load
				// the baseline of an operation is what it returns as the first call of a fresh
				// process (same working directory, same files, same configuration)
				bkey := fmt.Sprintf("baselines-%d", cfgNo)
				base, _ := c.State[bkey].(map[int]string)
				if base == nil {
					base = map[int]string{}
					c.State[bkey] = base
				}
				// (the working directory is replaced by a placeholder, so that the workers of a run can share them)
				shared := filepath.Join(filepath.Dir(c.WorkDir), "c16-baselines")
				os.MkdirAll(shared, 0o755)
				for _, o := range seq {
					if _, ok := base[o]; ok {
						continue
					}
					cache := filepath.Join(shared, fmt.Sprintf("%d-%d", cfgNo, o))
					if b, err := os.ReadFile(cache); err == nil {
						base[o] = string(b)
						continue
					}
					exe, _ := os.Executable()
					cmd := exec.Command(exe, "aux", "c16-baseline", fmt.Sprint(cfgNo), fmt.Sprint(o))
					cmd.Dir = c.WorkDir
					out, err := cmd.Output()
					if err != nil {
						c.Inconclusive(fmt.Sprintf("baseline process for %s failed: %v", ops[o].name, err))
						return
					}
					base[o] = strings.ReplaceAll(string(out), c.WorkDir, "<workdir>")
					tmp := fmt.Sprintf("%s.%d", cache, os.Getpid())
					if os.WriteFile(tmp, []byte(base[o]), 0o644) == nil {
						os.Rename(tmp, cache)
					}
					c.Count("baselines_from_fresh_processes", 1)
				}
				if !h.load(c) {
					return
				}
				for step, o := range seq {
					var obs string
					c.Eval(1)
					if c.Guard(func() { obs = ops[o].run(h) }) {
						return
					}
					obs = strings.ReplaceAll(obs, c.WorkDir, "<workdir>")
					if obs != base[o] {
						c.Violation("history:"+ops[o].name, fmt.Sprintf("step %d %s gave\n%s\nbut as first call on a fresh load it gives\n%s", step+1, ops[o].name, clipS(obs, 600), clipS(base[o], 600)), desc)
						return
					}
					if fp := h.tpl.VerifFingerprint(); fp != h.fp {
						c.Violation("history:ast-changed", fmt.Sprintf("the loaded templates changed during step %d %s", step+1, ops[o].name), desc)
						return
					}
					if st := textwire.VerifState(); !reflect.DeepEqual(st, h.state) {
						c.Violation("history:config-changed", fmt.Sprintf("the configuration changed during step %d %s: %+v -> %+v", step+1, ops[o].name, h.state, st), desc)
						return
					}
					c.Count("steps_compared", 1)
				}
				c.Nontrivial(fmt.Sprint(cfgNo, seq))
			}
			var secs []core.Section
			// open file descriptors do not pile up with the number of calls (later calls would start to fail)
			secs = append(secs, core.Section{Name: "descriptor-growth", Exhaustive: true, N: 2,
				Run: func(c *core.Ctx, i int) {
					h, root := histEnvFor(i)
					if err := writeFiles(root, histFiles(histConfigs[i%len(histConfigs)].ext)); err != nil {
						c.Inconclusive(err.Error())
						return
					}
					countFDs := func() int {
						ents, err := os.ReadDir("/proc/self/fd")
						if err != nil {
							return -1
						}
						return len(ents)
					}
					if !h.load(c) {
						return
					}
					// finalizers would close leaked files at the next collection: none runs during the calls
					old := debug.SetGCPercent(-1)
					defer debug.SetGCPercent(old)
					before := countFDs()
					const calls = 400
					for k := 0; k < calls; k++ {
						textwire.EvaluateFile(h.absFile, map[string]any{"n": k})
						textwire.EvaluateFile(h.absFile+".gone", nil)
						if k%40 == 0 {
							h.load(c)
							h.tpl.String("home", map[string]any{"user": histUser{Name: "x"}})
						}
					}
					after := countFDs()
					c.Eval(calls * 2)
					c.Nontrivial(fmt.Sprint("fds", i))
					c.Sample(map[string]any{"open_descriptors_before": before, "after": after, "file_evaluations": calls * 2, "loads": calls / 40})
					if before >= 0 && after-before > 16 {
						c.Violation("history:descriptors-pile-up", fmt.Sprintf("%d file evaluations and %d loads left %d more open descriptors behind (%d -> %d) with the collector paused: later calls depend on how many came before", calls*2, calls/40, after-before, before, after), nil)
					}
				}})
			for L := 1; L <= maxLen; L++ {
				L := L
				n := 1
				for k := 0; k < L; k++ {
					n *= nOps
				}
				// in the quick tier every history of length >= 2 runs under three of the 18 configurations
				// (rotating with the history, so that every configuration meets every operation)
				perHistory := nCfg
				if tier != core.Thorough && L >= 2 {
					perHistory = 3
				}
				if tier == core.Thorough && L >= 3 {
					perHistory = 1 // about 80^3 histories, each under one configuration (rotating with the history)
				}
				secs = append(secs, core.Section{Name: fmt.Sprintf("histories-len%d", L), Exhaustive: true, N: n * perHistory,
					Run: func(c *core.Ctx, i int) {
						x := i / perHistory
						cfgNo := (i%perHistory*6 + x + x/nOps) % nCfg
						if perHistory == nCfg {
							cfgNo = i % nCfg
						}
						seq := make([]int, L)
						for k := L - 1; k >= 0; k-- {
							seq[k] = x % nOps
							x /= nOps
						}
						if i%5003 == 0 {
							var names []string
							for _, o := range seq {
								names = append(names, ops[o].name)
							}
							c.Sample(map[string]any{"history": names, "config": cfgNo})
						}
						runHistory(c, cfgNo, seq)
					}})
			}
			// one step longer than the exhaustive part, sampled
			secs = append(secs, core.Section{Name: fmt.Sprintf("random-histories-len%d", maxLen+1), N: nShort,
				Run: func(c *core.Ctx, i int) {
					seq := make([]int, maxLen+1)
					for k := range seq {
						seq[k] = c.Rng.Intn(nOps)
					}
					runHistory(c, c.Rng.Intn(nCfg), seq)
				}})
			secs = append(secs, core.Section{Name: "random-histories-len30", N: nRandom,
				Run: func(c *core.Ctx, i int) {
					seq := make([]int, 30)
					for k := range seq {
						seq[k] = c.Rng.Intn(nOps)
					}
					runHistory(c, c.Rng.Intn(nCfg), seq)
				}})
			return secs
		},
	})
}
