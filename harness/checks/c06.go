package checks

import (
	"fmt"
	"os"
	"sort"
	"strings"

	textwire "github.com/textwire/textwire/v2"
	"github.com/textwire/textwire/v2/config"

	"verif/core"
	"verif/model"
)

// C06 — a page using a layout renders the layout with reserves filled by
// its inserts.

type layoutCase struct {
	tree   *tmplTree
	pages  []string
	data   map[string]model.Value
	layout string
	// reserve names of the layout
	reserves []string
}

// genLayoutTree builds one layout with 1..3 reserves at random nesting
// positions and 1..3 pages inserting random subsets in block or expression form
func genLayoutTree(c *core.Ctx, cfgIdx int) layoutCase {
	r := c.Rng
	cfg := treeConfigs[cfgIdx%len(treeConfigs)]
	t := newTree(cfg.dir, cfg.ext)
	g := newStmtGen(r, stmtGenOpts{MaxDepth: 1 + r.Intn(3), IfHeavy: true, LoopHeavy: r.Intn(2) == 0})
	layoutName := []string{"layouts/main", "layouts/base.v2", "shared/frame", "layouts/mail.min", "layouts/odd" + cfg.ext, "layouts/~base", "layouts/a~b", "layouts/sub/inner",
		// directories and files whose names begin with dots
		".shared/base", ".layouts/main", "layouts/.hidden", "..shared/frame", ".a/.b/.c"}[r.Intn(13)]
	// reserve names: plain, starting with or holding '~' (only layout and component names know the alias), dotted, differing in case
	reserves := [][]string{{"r0", "r1", "r2"}, {"r0", "r1", "r2"}, {"~side", "a~b", "~"}, {"title", "Title", "t.1"}, {"layouts/x", "~r0", "r0"}}[r.Intn(5)][:1+r.Intn(3)]
	body := g.program(2 + r.Intn(4))
	body = insertReserves(r, body, reserves)
	// the layout and the insert blocks run in one scope: what an insert assigns is seen further down
	withAcc := r.Intn(3) == 0
	if withAcc {
		body = append(append([]model.Stmt{model.Assign{Name: "acc", E: model.Lit{V: model.Int(0)}}}, body...), model.Text{S: " acc="}, model.Print{E: model.Var{Name: "acc"}})
	}
	if r.Intn(5) == 0 {
		// the layout file begins with bytes editors like to add or drop: they are text of the layout like any other
		body = append([]model.Stmt{model.Text{S: []string{"\ufeff", "\ufeff\ufeff<", "\n", "\r\n", "\xef\xbb", " "}[r.Intn(6)]}}, body...)
	}
	if r.Intn(3) == 0 {
		// text with percent signs (style rules, discounts): it is text whichever entry point writes the page
		body = append([]model.Stmt{model.Text{S: "<style>main { width: 100%; margin: 5%d }</style>50% off %s %v%%"}}, body...)
	}
	t.files[layoutName] = body
	lc := layoutCase{tree: t, data: g.data, layout: layoutName, reserves: reserves}
	nPages := 1 + r.Intn(3)
	for p := 0; p < nPages; p++ {
		name := []string{"home", "sub/about", "a/b/c"}[p]
		spelling := layoutName
		if strings.HasPrefix(layoutName, "layouts/") && r.Intn(2) == 0 {
			spelling = "~" + strings.TrimPrefix(layoutName, "layouts/")
		}
		if r.Intn(4) == 0 {
			// spellings of the layout's path that name the same file
			spelling = []string{"./" + layoutName, strings.Replace(layoutName, "/", "//", 1), strings.Replace(layoutName, "/", "/./", 1)}[r.Intn(3)]
		}
		var useStmt model.Stmt = model.Use{Name: spelling}
		if r.Intn(5) == 0 {
			// the pinned test data writes @use and one-line inserts inside @if(true) as well
			useStmt = model.If{Conds: []model.Expr{model.Lit{V: model.Bool(true)}}, Bodies: [][]model.Stmt{{model.Use{Name: spelling}}}}
		}
		stmts := []model.Stmt{model.Text{S: "junk before "}, useStmt, model.Text{S: "\n junk after use\n"}}
		if r.Intn(3) == 0 {
			// statements of the page outside its inserts are no part of the result: not their text, and not what they assign
			// (names of the data, of the layout's accumulator and of their own, with values of any type)
			var junk []model.Stmt
			var names []string
			for name := range g.data {
				names = append(names, name)
			}
			sort.Strings(names)
			for k := 0; k < 2 && len(names) > 0; k++ {
				junk = append(junk, model.Assign{Name: names[r.Intn(len(names))], E: model.StrLit{S: "assigned by the page"}})
			}
			junk = append(junk, model.Assign{Name: "acc", E: model.Lit{V: model.Int(1000)}}, model.Assign{Name: "fresh", E: model.Lit{V: model.Float(1.5)}}, model.Print{E: model.Lit{V: model.Int(7)}})
			stmts = append(junk, stmts...)
		}
		for _, rn := range reserves {
			if r.Intn(4) == 0 {
				continue // this reserve stays empty
			}
			ig := newStmtGen(r, stmtGenOpts{MaxDepth: r.Intn(3), IfHeavy: r.Intn(2) == 0, LoopHeavy: r.Intn(2) == 0})
			ig.data = g.data
			switch r.Intn(4) {
			case 0:
				var ins model.Stmt = model.Insert{Name: rn, E: ig.expr(ig.anyKind(), 2)}
				if r.Intn(4) == 0 {
					ins = model.If{Conds: []model.Expr{model.Lit{V: model.Bool(true)}}, Bodies: [][]model.Stmt{{ins}}}
				}
				stmts = append(stmts, ins)
			case 1:
				stmts = append(stmts, model.Insert{Name: rn, Block: []model.Stmt{}})
			default:
				blk := append([]model.Stmt{model.Text{S: "<" + rn + ">"}}, ig.block(1+r.Intn(3), ig.o.MaxDepth)...)
				// a component used inside the insert body: directly, or one and two blocks down
				if r.Intn(3) == 0 {
					t.files["components/note"] = []model.Stmt{model.Text{S: "<note "}, model.Print{E: model.Var{Name: "n"}}, model.Text{S: ">"}, model.SlotRef{Name: ""}, model.Text{S: "</note>"}}
					use := model.Component{Name: "~note", Args: &model.ObjLit{Keys: []string{"n"}, Vals: []model.Expr{model.Lit{V: model.Int(int64(p + 1))}}}}
					one := []model.Stmt{use}
					switch r.Intn(5) {
					case 1:
						one = []model.Stmt{model.If{Conds: []model.Expr{model.Lit{V: model.Bool(true)}}, Bodies: [][]model.Stmt{{model.Text{S: "(if)"}, use}}}}
					case 2:
						one = []model.Stmt{model.Each{Var: "nn", Arr: intArr(1, 2), Body: []model.Stmt{use}}}
					case 3:
						one = []model.Stmt{model.If{Conds: []model.Expr{model.Lit{V: model.Bool(false)}}, Bodies: [][]model.Stmt{{model.Text{S: "no"}}}, Else: []model.Stmt{model.Each{Var: "nn", Arr: intArr(1), Body: []model.Stmt{use}}}}}
					case 4:
						one = []model.Stmt{model.Component{Name: "~note", Args: &model.ObjLit{Keys: []string{"n"}, Vals: []model.Expr{model.Lit{V: model.Int(0)}}}, Slots: []model.SlotBody{{Name: "", Body: []model.Stmt{use}}}}}
					}
					blk = append(blk, one...)
				}
				if withAcc {
					blk = append(blk, model.Assign{Name: "acc", E: model.Binary{Op: "+", L: model.Var{Name: "acc"}, R: model.Lit{V: model.Int(1)}}}, model.Print{E: model.Var{Name: "acc"}})
				}
				stmts = append(stmts, model.Insert{Name: rn, Block: blk})
			}
			stmts = append(stmts, model.Text{S: " junk between "})
		}
		// the order of @use and the inserts in the page does not matter
		if r.Intn(4) == 0 && len(stmts) > 4 {
			stmts = append(append(append([]model.Stmt{stmts[0]}, stmts[3:]...), stmts[1]), stmts[2])
		}
		t.files[name] = stmts
		lc.pages = append(lc.pages, name)
	}
	return lc
}

func init() {
	core.Register(&core.Check{
		ID:    "C06",
		Level: "exploration",
		Rule: "cases are template directories written to disk: a layout with 1..3 reserves placed at top level, inside @if branches or inside @each bodies (rendered once per pass), and 1..3 pages that @use it ('~name' or full spelling) and insert every subset of the reserves in block form (incl. an empty block), or expression form, with junk text around; four directory/extension settings; each page is rendered with two data maps and compared with the model (layout run with every reserve replaced by the model render of its insert). " +
			"Fault trees: one and several undefined inserts, duplicate inserts, a missing layout, a layout that uses a layout - each must be reported at load or at render. directory settings include dotted names and spellings that need cleaning (configured as spelled), layout names with '~' and dots; reserve names with '~'/dots/case variants, duplicate inserts around @use; round 9: statements before @use, path spellings of layouts; scale: 65 reserves, several layouts; concurrent replay of page renders; round 10: data-less sequences, Response compared, percent texts; round 12: layout files beginning with BOM or CRLF, dot-named layout directories; round 14: reserves inside layout loops; round 15: dot-named template directories; round 17: page names holding the text of the extension; distinct_nontrivial = distinct trees (by their sources) that hold at least one reserve and one page",
		Assumptions: []string{
			"insert bodies and layout text never contain control directives that would leave the insert; page-level statements outside inserts are never evaluated (they 'do not appear')",
			"the package configuration is reset through the verif hook before every load",
		},
		Setup: func(c *core.Ctx) {
			if err := registerTracers(); err != nil {
				panic(err)
			}
		},
		Sections: func(tier core.Tier, seed int64) []core.Section {
			n, nf := 8000, 2400
			if tier == core.Thorough {
				n, nf = 400000, 100000
			}
			return []core.Section{
				{Name: "layout-trees", N: n, Run: func(c *core.Ctx, i int) {
					lc := genLayoutTree(c, i)
					st := exprLayouts[[]int{0, 1, 3, 0}[i%4]].st(c.Rng)
					files := lc.tree.sources(st)
					tpl, err := loadTreeAs(c, treeDir(lc.tree), lc.tree.dir, files, lc.tree.ext)
					key := fmt.Sprint(files)
					c.Nontrivial(key)
					if i < 2 {
						c.Sample(map[string]any{"files": describeFiles(files), "dir": lc.tree.dir, "ext": lc.tree.ext})
					}
					if err != nil {
						c.Violation("load-failed", "a valid layout tree was rejected: "+err.Error(), map[string]any{"files": describeFiles(files)})
						return
					}
					if tpl == nil {
						return
					}
					for _, page := range lc.pages {
						for _, data := range dataVariants(c.Rng, lc.data) {
							exp := lc.tree.expectPage(page, data)
							c.Input(map[string]any{"files": describeFiles(files), "page": page, "data": model.DescribeData(data)})
							got, _ := renderPage(c, tpl, page, model.NativeData(data))
							if why := compare(exp, got, false, nil); why != "" {
								c.Violation("layout-render:"+scopeFailureClass(exp, got), why, map[string]any{"files": describeFiles(files), "page": page, "data": model.DescribeData(data), "expected": expectText(exp)})
							}
							// Response writes the same page
							if !got.Failed() {
								rec := newRecorder()
								var rerr error
								c.Eval(1)
								if !c.Guard(func() { rerr = tpl.Response(rec, page, model.NativeData(data)) }) && (rerr != nil || rec.body.String() != got.Out) {
									c.Violation("layout-render:response-differs", fmt.Sprintf("Response wrote %q (error %v), String gives %q", clipS(rec.body.String(), 300), rerr, clipS(got.Out, 300)), map[string]any{"files": describeFiles(files), "page": page, "data": model.DescribeData(data)})
								}
							}
							c.Count("page_renders_compared", 1)
						}
					}
					// the layout itself is not directly renderable
					if got, _ := renderPage(c, tpl, lc.layout, nil); !got.Failed() {
						c.Violation("layout-renderable", fmt.Sprintf("the layout %q rendered directly: %q", lc.layout, got.Out), map[string]any{"files": describeFiles(files)})
					}
				}},
				// layouts with 4..65 reserves, several layouts in one tree (the page names one of them), pages that insert every
				// reserve, every other one, none, in source order or reversed, in either form
				{Name: "many-reserves", Exhaustive: true, N: 9 * 5, Run: func(c *core.Ctx, i int) {
					n := []int{4, 8, 9, 16, 17, 32, 33, 64, 65}[i%9]
					variant := i / 9
					files := map[string]string{}
					nLayouts := 1 + variant
					for l := 0; l < nLayouts; l++ {
						var lay strings.Builder
						fmt.Fprintf(&lay, "layout %d:", l)
						for k := 0; k < n; k++ {
							fmt.Fprintf(&lay, "<r%d>@reserve(\"r%d\")</r%d>", k, k, k)
						}
						files[fmt.Sprintf("layouts/l%d.tw", l)] = lay.String() + "{{ who }}"
					}
					use := nLayouts - 1
					if variant == 3 {
						use = 1
					}
					var page, want strings.Builder
					fmt.Fprintf(&page, "@use(\"~l%d\")page text", use)
					fmt.Fprintf(&want, "layout %d:", use)
					order := make([]int, n)
					for k := range order {
						order[k] = k
						if variant%2 == 1 {
							order[k] = n - 1 - k
						}
					}
					inserted := map[int]string{}
					for _, k := range order {
						switch {
						case variant == 2 && k%2 == 1, variant == 4:
							continue // not inserted
						case k%3 == 0:
							fmt.Fprintf(&page, "@insert(\"r%d\", \"e%d-\" + who)", k, k)
							inserted[k] = fmt.Sprintf("e%d-w", k)
						case k%3 == 1:
							fmt.Fprintf(&page, "@insert(\"r%d\")b%d {{ who }}@end", k, k)
							inserted[k] = fmt.Sprintf("b%d w", k)
						default:
							fmt.Fprintf(&page, "\n@insert(\"r%d\")@end between", k)
							inserted[k] = ""
						}
					}
					for k := 0; k < n; k++ {
						fmt.Fprintf(&want, "<r%d>%s</r%d>", k, inserted[k], k)
					}
					want.WriteString("w")
					files["page.tw"] = page.String()
					tpl, err := loadTree(c, "c06many", files, ".tw")
					c.Nontrivial(fmt.Sprint(n, variant))
					if err != nil {
						c.Violation("load-failed", "a valid layout tree was rejected: "+err.Error(), map[string]any{"files": describeFiles(files)})
						return
					}
					if tpl == nil {
						return
					}
					got, _ := renderPage(c, tpl, "page", map[string]any{"who": "w"})
					if !got.Panicked && (got.Err != nil || got.Out != want.String()) {
						c.Violation("many-reserves", fmt.Sprintf("the page rendered %s, want %q", clipS(got.Describe(), 600), clipS(want.String(), 600)), map[string]any{"files": describeFiles(files)})
					}
				}},
				// reserves inside loops of the layout: the insert body sees the loop object of the pass it is rendered in, and a
				// loop object it kept from an earlier pass still describes that earlier pass
				{Name: "reserves-inside-layout-loops", Exhaustive: true, N: 4, Run: func(c *core.Ctx, i int) {
					var files map[string]string
					var want string
					data := map[string]any{"items": []string{"a", "b", "c"}}
					switch i {
					case 0:
						files = map[string]string{"layouts/list.tw": "<ul>@each(item in items)<li>@reserve(\"row\")</li>@end</ul>@reserve(\"foot\")",
							"page.tw": "@use(\"~list\")\n@insert(\"row\")@if(loop.index > 0)after #{{ prev.iter }} ({{ prev.last ? \"last\" : \"not last\" }}): @end{{ item }}{{ prev = loop }}@end\ntext between\n@insert(\"foot\", items.len())\n"}
						want = "<ul><li>a</li><li>after #1 (not last): b</li><li>after #2 (not last): c</li></ul>3"
					case 1: // the argument form reads the loop object of each pass
						files = map[string]string{"layouts/list.tw": "@each(item in items)[@reserve(\"row\")]@end|@for(k = 0; k < 2; k++)(@reserve(\"cell\"))@end",
							"page.tw": "@use(\"~list\")@insert(\"row\", item + loop.iter.str() + (loop.last ? \"!\" : \"\"))@insert(\"cell\", k * 10)"}
						want = "[a1][b2][c3!]|(0)(10)"
					case 2: // nested loops of the layout, the insert body loops itself
						files = map[string]string{"layouts/grid.tw": "@each(row in [1, 2])<@each(col in items){{ loop.index }}:@reserve(\"cell\");@end>@end",
							"page.tw": "@use(\"~grid\")@insert(\"cell\"){{ row }}{{ col }}{{ loop.iter }}@each(z in [9]){{ loop.iter }}@end{{ loop.iter }}@end"}
						want = "<0:1a111;1:1b212;2:1c313;><0:2a111;1:2b212;2:2c313;>"
					default: // loop objects of all passes collected by the insert body and read in the last pass (what the loop body assigns ends with the loop)
						files = map[string]string{"layouts/list.tw": "{{ seen = [] }}@each(item in items)@reserve(\"row\")@end|@reserve(\"sum\")",
							"page.tw": "@use(\"~list\")@insert(\"row\"){{ seen = seen.append(loop) }}{{ item }}@if(loop.last)<@each(s in seen){{ s.index }}{{ s.first ? \"F\" : \"\" }}{{ s.last ? \"L\" : \"\" }},@end>@end@end@insert(\"sum\", seen.len())"}
						want = "abc<0F,1,2L,>|0"
					}
					tpl, err := loadTree(c, "c06loops", files, ".tw")
					c.Nontrivial(fmt.Sprint("layout-loops", i))
					if err != nil {
						c.Violation("layout-loops:load-failed", err.Error(), map[string]any{"files": describeFiles(files)})
						return
					}
					if tpl == nil {
						return
					}
					for round := 0; round < 2; round++ {
						got, _ := renderPage(c, tpl, "page", data)
						if !got.Panicked && (got.Err != nil || got.Out != want) {
							c.Violation("layout-loops", fmt.Sprintf("render %d of the page gave %s, want %q", round+1, clipS(got.Describe(), 600), want), map[string]any{"files": describeFiles(files)})
							return
						}
					}
				}},
				// template directories whose names begin with a dot, and the directory settings ".", "./" and ".." (given from
				// inside the tree): the page renders its layout as under any other directory name
				{Name: "dot-named-template-directories", Exhaustive: true, N: 9, Run: func(c *core.Ctx, i int) {
					files := map[string]string{"layouts/main.tw": "<html>@reserve(\"body\")</html>", "page.tw": "@use(\"~main\")@insert(\"body\", who + \"!\")", "sub/deep.tw": "@use(\"~main\")@insert(\"body\")deep {{ who }}@end"}
					real := []string{".site", ".site", "t9/.hidden", ".a/.b", "c06dot", "c06dot", "c06dot", "..c06", ".c06/views.d"}[i]
					spelled := []string{".site", "./.site/", "t9/.hidden", ".a/.b/", ".", "./", "..", "..c06", "./.c06/views.d"}[i]
					tplDir, chdirTo := spelled, ""
					switch spelled {
					case ".", "./":
						chdirTo = real
					case "..":
						chdirTo = real + "/sub"
					}
					for _, d := range []string{".site", "t9", ".a", "c06dot", "..c06", ".c06"} {
						os.RemoveAll(d)
					}
					if err := writeFiles(real, files); err != nil {
						c.Inconclusive(err.Error())
						return
					}
					defer os.RemoveAll(strings.SplitN(real, "/", 2)[0])
					c.Input(map[string]any{"template_dir": spelled, "working_directory_inside_the_tree": chdirTo != "", "files": describeFiles(files)})
					c.Nontrivial("dotdir:" + spelled)
					if chdirTo != "" {
						back, _ := os.Getwd()
						if err := os.Chdir(chdirTo); err != nil {
							c.Inconclusive(err.Error())
							return
						}
						defer os.Chdir(back)
					}
					textwire.VerifResetConfig()
					var tpl *textwire.Template
					var err error
					c.Eval(1)
					if c.Guard(func() { tpl, err = textwire.NewTemplate(&config.Config{TemplateDir: tplDir, TemplateExt: ".tw"}) }) {
						return
					}
					if err != nil || tpl == nil {
						c.Violation("dot-directory:load-failed", fmt.Sprintf("the tree under %q (template directory %q) did not load: %v", real, spelled, err), nil)
						return
					}
					for page, want := range map[string]string{"page": "<html>w!</html>", "sub/deep": "<html>deep w</html>"} {
						var out string
						var fe error
						c.Eval(1)
						if c.Guard(func() {
							o, e := tpl.String(page, map[string]any{"who": "w"})
							out = o
							if e != nil {
								fe = e.Error()
							}
						}) {
							return
						}
						if fe != nil || out != want {
							c.Violation("dot-directory", fmt.Sprintf("template directory %q: page %q rendered (%q, %v), want %q", spelled, page, out, fe, want), nil)
						}
					}
				}},
				// round 17: pages (and directories) whose names hold the text of the configured extension before the real one:
				// the name of a page is its path without the final extension, whatever the rest looks like
				{Name: "page-names-holding-the-extension", Exhaustive: true, N: 3, Run: func(c *core.Ctx, i int) {
					ext := []string{".tw", ".html", ".tw.html"}[i]
					names := []string{"plain", "news" + ext + "itter", "drafts" + ext + "/note", "a" + ext + ".b", "x" + ext, "sub/" + strings.TrimPrefix(ext, ".") + "/page", "deep/er" + ext + "/in" + ext + "x/leaf", "index.html", "tw", "t" + ext + ext + "w"}
					files := map[string]string{"layouts/main" + ext: "<L>@reserve(\"b\")|@reserve(\"t\")</L>", "layouts/main" + ext + ".bak": "not a template @reserve(", "layouts/x" + ext + "y/wide" + ext: "<W>@reserve(\"b\")</W>"}
					for k, n := range names {
						lay := "~main"
						if k%4 == 3 {
							lay = "layouts/x" + ext + "y/wide"
						}
						files[n+ext] = "@use(\"" + lay + "\")@insert(\"b\")" + n + " {{ who }}@end"
						if k%4 != 3 {
							files[n+ext] += "@insert(\"t\", \"T\")"
						}
					}
					tpl, err := loadTree(c, "c06ext", files, ext)
					c.Nontrivial("names-holding-the-extension:" + ext)
					if err != nil {
						c.Violation("extension-in-name:load-failed", fmt.Sprintf("a valid tree (extension %q) whose names hold the text of the extension was rejected: %s", ext, clipS(err.Error(), 300)), map[string]any{"files": describeFiles(files)})
						return
					}
					if tpl == nil {
						return
					}
					for k, n := range names {
						want := "<L>" + n + " w|T</L>"
						if k%4 == 3 {
							want = "<W>" + n + " w</W>"
						}
						got, _ := renderPage(c, tpl, n, map[string]any{"who": "w"})
						c.Count("pages_with_the_extension_in_their_name_rendered", 1)
						if !got.Panicked && (got.Err != nil || got.Out != want) {
							c.Violation("extension-in-name", fmt.Sprintf("extension %q: page %q rendered %s, want %q", ext, n, got.Describe(), want), map[string]any{"files": describeFiles(files), "page": n})
						}
					}
				}},
				// pages of one loaded Template rendered one after the other without data: what the insert blocks and the layout
				// of one render assigned is not there in the next
				{Name: "data-less-renders-of-one-template", Exhaustive: true, N: 2, Run: func(c *core.Ctx, i int) {
					if i == 0 {
						judgeDataLessSequence(c, "c06nil", map[string]string{"layouts/l.tw": "<@reserve(\"b\")>", "a.tw": "@use(\"~l\")@insert(\"b\"){{ n = 1 }}{{ n }}@end", "b.tw": "@use(\"~l\")@insert(\"b\"){{ n = \"two\" }}{{ n }}@end",
							"c.tw": "@use(\"~l\")@insert(\"b\")[{{ n }}]@end", "d.tw": "@use(\"~l\")@insert(\"b\", n)"},
							[]dataLessStep{{"a", "<1>", false}, {"b", "<two>", false}, {"c", "", true}, {"d", "", true}, {"a", "<1>", false}}, "data-less")
						return
					}
					judgeDataLessSequence(c, "c06nil", map[string]string{"layouts/l.tw": "{{ count = 0 }}<@reserve(\"head\")|@reserve(\"b\")>{{ count }}", "layouts/m.tw": "<@reserve(\"b\")>{{ count }}",
						"a.tw": "@use(\"~l\")@insert(\"head\"){{ count = count + 1 }}{{ title = \"A\" }}h@end@insert(\"b\"){{ count = count + 10 }}{{ title }}@end", "b.tw": "@use(\"~l\")@insert(\"b\"){{ title = 7 }}{{ title }}@end",
						"c.tw": "@use(\"~m\")@insert(\"b\", \"x\")", "d.tw": "@use(\"~l\")@insert(\"b\", title)"},
						[]dataLessStep{{"a", "<h|A>11", false}, {"b", "<|7>0", false}, {"c", "", true}, {"d", "", true}, {"a", "<h|A>11", false}, {"b", "<|7>0", false}}, "data-less")
				}},
				{Name: "fault-trees", N: nf, Run: func(c *core.Ctx, i int) {
					lc := genLayoutTree(c, i)
					r := c.Rng
					page := lc.pages[r.Intn(len(lc.pages))]
					fault := i % 8
					stmts := append([]model.Stmt{}, lc.tree.files[page]...)
					switch fault {
					case 0: // one undefined insert: a name of its own, or a near miss of a reserve name
						name := "nowhere"
						if k := r.Intn(8); k > 0 {
							rn := lc.reserves[0]
							name = []string{"", rn + " ", " " + rn, rn + "\t", rn + "\n", strings.ToUpper(rn) + "x", rn + rn, rn[:len(rn)-1]}[k]
							for _, have := range lc.reserves {
								if have == name {
									name = "nowhere"
								}
							}
						}
						stmts = append(stmts, model.Insert{Name: name, E: model.Lit{V: model.Int(1)}})
					case 1: // several undefined inserts
						stmts = append(stmts, model.Insert{Name: "nowhere", Block: []model.Stmt{model.Text{S: "x"}}}, model.Insert{Name: "also-nowhere", E: model.Lit{V: model.Str("y")}}, model.Insert{Name: "zz", E: model.Lit{V: model.Int(2)}})
					case 2: // the same insert twice, after the @use, around it or before it
						dup1, dup2 := model.Insert{Name: lc.reserves[0], E: model.Lit{V: model.Int(1)}}, model.Insert{Name: lc.reserves[0], Block: []model.Stmt{model.Text{S: "again"}}}
						switch r.Intn(3) {
						case 0:
							stmts = append(stmts, dup1, dup2)
						case 1:
							stmts = append(append([]model.Stmt{dup1}, stmts...), dup2)
						default:
							stmts = append([]model.Stmt{dup2, dup1}, stmts...)
						}
					case 3: // the layout file does not exist
						for k, s := range stmts {
							switch n := s.(type) {
							case model.Use:
								stmts[k] = model.Use{Name: "layouts/ghost"}
							case model.If:
								if len(n.Bodies) == 1 && len(n.Bodies[0]) == 1 {
									if _, ok := n.Bodies[0][0].(model.Use); ok {
										stmts[k] = model.If{Conds: n.Conds, Bodies: [][]model.Stmt{{model.Use{Name: "layouts/ghost"}}}}
									}
								}
							}
						}
					case 4: // the layout uses a layout
						lc.tree.files["layouts/outer"] = []model.Stmt{model.Text{S: "outer<"}, model.Reserve{Name: "o"}, model.Text{S: ">"}}
						lc.tree.files[lc.layout] = append([]model.Stmt{model.Use{Name: "~outer"}}, lc.tree.files[lc.layout]...)
					case 6: // a layout without reserves that uses a layout
						lc.tree.files["layouts/outer"] = []model.Stmt{model.Text{S: "outer<"}, model.Reserve{Name: "o"}, model.Text{S: ">"}}
						lc.tree.files[lc.layout] = []model.Stmt{model.Use{Name: "~outer"}, model.Text{S: "bare layout"}}
						stmts = []model.Stmt{model.Use{Name: lc.layout}, model.Text{S: "page text"}}
					case 7: // the same, the layout's @use sits in a branch that is not taken
						lc.tree.files["layouts/outer"] = []model.Stmt{model.Text{S: "outer<"}, model.Reserve{Name: "o"}, model.Text{S: ">"}}
						lc.tree.files[lc.layout] = []model.Stmt{model.If{Conds: []model.Expr{model.Lit{V: model.Bool(false)}}, Bodies: [][]model.Stmt{{model.Use{Name: "~outer"}}}}, model.Text{S: "bare layout"}}
						stmts = []model.Stmt{model.Use{Name: lc.layout}, model.Text{S: "page text"}}
					case 5: // an undefined insert into a layout that has no reserve at all
						lc.tree.files[lc.layout] = []model.Stmt{model.Text{S: "bare layout"}}
						stmts = []model.Stmt{model.Use{Name: lc.layout}, model.Insert{Name: lc.reserves[0], E: model.Lit{V: model.Int(1)}}}
					}
					lc.tree.files[page] = stmts
					files := lc.tree.sources(model.Style{Layout: model.SpaceLayout})
					tpl, err := loadTreeAs(c, treeDir(lc.tree), lc.tree.dir, files, lc.tree.ext)
					c.Nontrivial(fmt.Sprint(fault, files))
					if i < 6 {
						c.Sample(map[string]any{"fault": fault, "page": page, "files": describeFiles(files)})
					}
					if err != nil {
						c.Count("faults_reported_at_load", 1)
						return
					}
					if tpl == nil {
						return
					}
					got, _ := renderPage(c, tpl, page, model.NativeData(lc.data))
					if got.Panicked {
						return
					}
					if got.Err == nil {
						names := []string{"an undefined insert", "several undefined inserts", "a duplicate insert", "a missing layout", "a layout that uses a layout", "an insert into a layout without reserves", "a reserve-less layout that uses a layout", "a reserve-less layout whose @use sits in an untaken branch"}
						c.Violation(fmt.Sprintf("fault-accepted:%d", fault), fmt.Sprintf("%s was neither reported at load nor at render; page rendered %q", names[fault], clipS(got.Out, 200)), map[string]any{"files": describeFiles(files), "page": page})
						return
					}
					c.Count("faults_reported_at_render", 1)
				}},
			}
		},
	})
}
