package checks

import (
	"fmt"
	textwire "github.com/textwire/textwire/v2"
	"math"
	"math/rand"
	"os"
	"reflect"
	"regexp"
	"strings"
	"unicode"
	"unicode/utf8"

	"verif/core"
	"verif/model"
)

// C12 — Go data passed to a render is visible in the template with the same
// structure, and is never modified.

type c12Point struct {
	X, Y   int
	hidden string
}

type c12User struct {
	Name    string
	Age     uint8
	Email   *string
	Tags    []string
	Address *c12Address
	Extra   any
	secret  int
	Scores  map[string]float64
}

type c12Address struct {
	City  string
	Zip   int32
	Geo   c12Point
	Owner *c12User
}

// field names that begin with letters outside ASCII: exported ones (upper case) and unexported ones (lower case)
type c12Odd struct {
	Name   string
	édad   int
	ñame   string
	ωeight float64
	_under int
	я      bool
	Ünit   string
	Ωmega  int
	Éa     []int
	Ǆep    string // a capital whose title case differs from its upper case
	ǈuba   int    // a title-case letter is not upper case: not exported
}

// types with methods: they are structs (maps, slices) like any other
type c12Account struct {
	Owner string
	Plan  *c12Plan
	Tags  c12TagList
}

type c12Plan struct {
	Name  string
	Seats int
}

type c12TagList []string

func (a c12Account) String() string            { return "account of " + a.Owner }
func (p *c12Plan) String() string              { return "plan " + p.Name }
func (t c12TagList) String() string            { return strings.Join(t, "+") }
func (a c12Account) Error() string             { return "not an error" }
func (p c12Plan) MarshalText() ([]byte, error) { return []byte("text"), nil }

type c12Wide struct {
	I8  int8
	I16 int16
	I32 int32
	I64 int64
	U   uint
	U16 uint16
	U32 uint32
	U64 uint64
	F32 float32
	B   bool
	pvt float64
}

// defined types whose underlying type is a string-keyed map, a string (as map key) and a slice
type c12Lang string
type c12Dict map[string]any
type c12Tags []string

var sharedChan = make(chan int)

// top-level names of the data map: identifiers and names no template can spell
var c12TopKeys = []string{"v", "v", "v", "page-title", "user.name", "2nd", "", "naïve", "in", "x y", "V", "_", "Loop", "LOOP", "loops", "Nil", "TRUE", "In"}

// top-level names that resemble reserved words: they are names like any other
var c12NamesLikeKeywords = []string{"Loop", "LOOP", "lOOp", "loops", "loop_", "Loops", "loop1", "In", "IN", "iN", "inn", "Nil", "NIL", "nIl", "nill", "True", "TRUE", "tRue", "trues", "False", "FALSE", "falses", "If", "End", "Each", "For", "Else", "Break", "Use", "Slot", "Dump", "e", "E", "_", "_loop", "x"}

// templates that do not refer to the data at all
var c12BlindTemplates = []string{"ok", "", " ", "\n", "{{-- c --}}", "{{ 1 }}", "@if(false)x@end"}

var identRe = regexp.MustCompile(`^[A-Za-z_][A-Za-z0-9_]*$`)

func isKeyword(s string) bool { return s == "in" || s == "true" || s == "false" || s == "nil" }

// valueGen builds a Go value together with its expected template view
type valueGen struct {
	r *rand.Rand
}

type genValue struct {
	goVal       any
	view        model.Value
	unsupported bool
	hiddenNames []string // unexported field names that must not be reachable on this object
}

var stringPool = []string{"", "plain", "<b>&amp;\"'</b>", "héllo wörld", "中文", "line\nbreak", " 1 ", "{{ x }}", "@if(y)"}

func (g *valueGen) scalar() genValue {
	r := g.r
	switch r.Intn(20) {
	case 0:
		v := []int{0, 1, -1, math.MaxInt32, math.MinInt64, math.MaxInt64}[r.Intn(6)]
		return genValue{goVal: v, view: model.Int(int64(v))}
	case 1:
		v := []int8{0, math.MinInt8, math.MaxInt8}[r.Intn(3)]
		return genValue{goVal: v, view: model.Int(int64(v))}
	case 2:
		v := []int16{-5, math.MinInt16, math.MaxInt16}[r.Intn(3)]
		return genValue{goVal: v, view: model.Int(int64(v))}
	case 3:
		v := []int32{7, math.MinInt32, math.MaxInt32}[r.Intn(3)]
		return genValue{goVal: v, view: model.Int(int64(v))}
	case 4:
		v := []int64{9, math.MinInt64, math.MaxInt64}[r.Intn(3)]
		return genValue{goVal: v, view: model.Int(v)}
	case 5:
		v := []uint{0, 42, math.MaxInt64}[r.Intn(3)]
		return genValue{goVal: v, view: model.Int(int64(v))}
	case 6:
		v := []uint8{0, 200, math.MaxUint8}[r.Intn(3)]
		return genValue{goVal: v, view: model.Int(int64(v))}
	case 7:
		v := []uint16{3, math.MaxUint16}[r.Intn(2)]
		return genValue{goVal: v, view: model.Int(int64(v))}
	case 8:
		v := []uint32{4, math.MaxUint32}[r.Intn(2)]
		return genValue{goVal: v, view: model.Int(int64(v))}
	case 9:
		v := []uint64{5, math.MaxInt64}[r.Intn(2)]
		return genValue{goVal: v, view: model.Int(int64(v))}
	case 10:
		v := []float64{0, 1.5, -2.25, 3.0, 0.1, 1e10 + 0.5, -7.0}[r.Intn(7)]
		return genValue{goVal: v, view: model.Float(v)}
	case 11:
		v := []float32{0, 1.5, 5.731, -0.25, 8.0}[r.Intn(5)]
		return genValue{goVal: v, view: model.Float(float64(v))}
	case 12:
		v := r.Intn(2) == 0
		return genValue{goVal: v, view: model.Bool(v)}
	case 13:
		return genValue{goVal: nil, view: model.Nil}
	default:
		s := stringPool[r.Intn(len(stringPool))]
		return genValue{goVal: s, view: model.Str(s)}
	}
}

func (g *valueGen) unsupportedLeaf() genValue {
	switch g.r.Intn(5) {
	case 0:
		return genValue{goVal: sharedChan, unsupported: true}
	case 1:
		return genValue{goVal: (func())(nil), unsupported: true}
	case 2:
		return genValue{goVal: complex(1, 2), unsupported: true}
	case 3:
		return genValue{goVal: [2]int{1, 2}, unsupported: true}
	}
	return genValue{goVal: uintptr(7), unsupported: true}
}

var fieldNames = []string{"Title", "Count", "Items", "Meta", "Flag", "Ratio", "Next", "URL", "Xy", "A", "In", "Nil", "True", "FALSE", "Loop", "Null", "None", "Undefined"}
var mapKeys = []string{"a", "b", "name", "Name", "title", "Title", "x y", "", "é", "in", "nil", "k1", "loop", "0", "In", "IN", "Nil", "NIL", "True", "False", "null", "none", "undefined", "end", "if", "else", "each",
	// quotes and backslashes inside keys: the index literal spells them, the key is found byte for byte
	"rock\\'n\\'roll", "rock'n'roll", "it's", "say \"hi\"", "a\\b", "\\'", "\\n", "tab\there", "a.b", "a]", "[0]", "{{ k }}", "@end", "--}}"}

func (g *valueGen) value(depth int) genValue {
	r := g.r
	if depth <= 0 || r.Intn(4) == 0 {
		if r.Intn(40) == 0 {
			return g.unsupportedLeaf()
		}
		return g.scalar()
	}
	switch r.Intn(11) {
	case 0: // pointer, 1-3 levels, possibly nil at the bottom
		inner := g.value(depth - 1)
		if inner.goVal == nil || r.Intn(5) == 0 {
			var p *c12Point
			var pp **c12Point
			switch r.Intn(4) {
			case 0:
				return genValue{goVal: p, view: model.Nil}
			case 1:
				return genValue{goVal: pp, view: model.Nil}
			case 2:
				// a non-nil pointer to a nil pointer
				return genValue{goVal: &p, view: model.Nil}
			}
			inner := &p
			return genValue{goVal: &inner, view: model.Nil}
		}
		v := inner.goVal
		for l := 0; l <= r.Intn(3); l++ {
			pv := reflect.New(reflect.TypeOf(v))
			pv.Elem().Set(reflect.ValueOf(v))
			v = pv.Interface()
		}
		inner.goVal = v
		return inner
	case 1: // []any
		n := r.Intn(4)
		if r.Intn(6) == 0 {
			return genValue{goVal: []any(nil), view: model.Arr()}
		}
		gv := genValue{view: model.Arr()}
		out := make([]any, n)
		for i := range out {
			e := g.value(depth - 1)
			out[i] = e.goVal
			gv.view.A = append(gv.view.A, e.view)
			gv.unsupported = gv.unsupported || e.unsupported
		}
		gv.goVal = out
		return gv
	case 2: // typed slices
		switch r.Intn(5) {
		case 0:
			s := []int{3, -1, 0}[:r.Intn(4)]
			return genValue{goVal: s, view: model.Arr(mapInts(s)...)}
		case 1:
			s := []string{"x", "<y>", ""}[:r.Intn(4)]
			var el []model.Value
			for _, e := range s {
				el = append(el, model.Str(e))
			}
			return genValue{goVal: s, view: model.Arr(el...)}
		case 2:
			one, two := 1, 2
			s := []*int{&one, nil, &two}[:r.Intn(4)]
			var el []model.Value
			for _, e := range s {
				if e == nil {
					el = append(el, model.Nil)
				} else {
					el = append(el, model.Int(int64(*e)))
				}
			}
			return genValue{goVal: s, view: model.Arr(el...)}
		case 3:
			s := []c12Point{{1, 2, "h"}, {3, 4, ""}}[:r.Intn(3)]
			var el []model.Value
			for _, e := range s {
				el = append(el, model.Obj(map[string]model.Value{"X": model.Int(int64(e.X)), "Y": model.Int(int64(e.Y))}))
			}
			return genValue{goVal: s, view: model.Arr(el...)}
		default:
			s := [][]float64{{1.5}, {}, {2, 3.25}}[:r.Intn(4)]
			var el []model.Value
			for _, e := range s {
				var in []model.Value
				for _, f := range e {
					in = append(in, model.Float(f))
				}
				el = append(el, model.Arr(in...))
			}
			return genValue{goVal: s, view: model.Arr(el...)}
		}
	case 3, 4: // map[string]any
		if r.Intn(8) == 0 {
			return genValue{goVal: map[string]any(nil), view: model.Obj(nil)}
		}
		gv := genValue{view: model.Obj(nil)}
		out := map[string]any{}
		for i := 0; i < r.Intn(5); i++ {
			k := mapKeys[r.Intn(len(mapKeys))]
			e := g.value(depth - 1)
			out[k] = e.goVal
			gv.view.O[k] = e.view
		}
		// unsupported is decided over what finally stays in the map
		gv.goVal = out
		gv.unsupported = containsUnsupported(out)
		return gv
	case 5: // typed maps, also of defined map, key and slice types
		switch r.Intn(5) {
		case 0:
			m := map[c12Lang]string{"en": "hello", "De": "hallo"}
			return genValue{goVal: m, view: model.Obj(map[string]model.Value{"en": model.Str("hello"), "De": model.Str("hallo")})}
		case 1:
			e := g.value(depth - 1)
			m := c12Dict{"k": e.goVal, "n": 1}
			return genValue{goVal: m, unsupported: e.unsupported, view: model.Obj(map[string]model.Value{"k": e.view, "n": model.Int(1)})}
		case 2:
			e := g.value(depth - 1)
			m := map[c12Lang]any{"first": c12Tags{"a", "b"}, "second": e.goVal}
			return genValue{goVal: m, unsupported: e.unsupported, view: model.Obj(map[string]model.Value{"first": model.Arr(model.Str("a"), model.Str("b")), "second": e.view})}
		}
		if r.Intn(2) == 0 {
			m := map[string]int{"one": 1, "Two": 2}
			return genValue{goVal: m, view: model.Obj(map[string]model.Value{"one": model.Int(1), "Two": model.Int(2)})}
		}
		p := c12Point{5, 6, "h"}
		m := map[string]*c12Point{"p": &p, "none": nil}
		return genValue{goVal: m, view: model.Obj(map[string]model.Value{"p": model.Obj(map[string]model.Value{"X": model.Int(5), "Y": model.Int(6)}), "none": model.Nil})}
	case 6: // static struct with unexported fields, pointers and interfaces
		email := "a@b.c"
		u := c12User{Name: stringPool[r.Intn(len(stringPool))], Age: uint8(r.Intn(256)), secret: 9, Tags: []string{"t1", "t2"}[:r.Intn(3)]}
		view := map[string]model.Value{"Name": model.Str(u.Name), "Age": model.Int(int64(u.Age)), "Email": model.Nil, "Address": model.Nil, "Extra": model.Nil, "Scores": model.Obj(nil)}
		var tags []model.Value
		for _, t := range u.Tags {
			tags = append(tags, model.Str(t))
		}
		view["Tags"] = model.Arr(tags...)
		if r.Intn(2) == 0 {
			u.Email = &email
			view["Email"] = model.Str(email)
		}
		if r.Intn(2) == 0 {
			u.Address = &c12Address{City: "Ülm", Zip: 89073, Geo: c12Point{1, -2, "h"}}
			view["Address"] = model.Obj(map[string]model.Value{"City": model.Str("Ülm"), "Zip": model.Int(89073), "Owner": model.Nil,
				"Geo": model.Obj(map[string]model.Value{"X": model.Int(1), "Y": model.Int(-2)})})
		}
		gv := genValue{hiddenNames: []string{"secret"}}
		if r.Intn(2) == 0 {
			e := g.value(depth - 1)
			u.Extra = e.goVal
			view["Extra"] = e.view
			gv.unsupported = e.unsupported
		}
		if r.Intn(2) == 0 {
			u.Scores = map[string]float64{"m": 1.5}
			view["Scores"] = model.Obj(map[string]model.Value{"m": model.Float(1.5)})
		}
		gv.goVal, gv.view = u, model.Obj(view)
		if r.Intn(2) == 0 {
			gv.goVal = &u
		}
		return gv
	case 7: // every integer width in one struct
		if r.Intn(3) == 0 {
			o := c12Odd{Name: "n", édad: 3, ñame: "x", ωeight: 1.5, _under: 1, я: true, Ünit: stringPool[r.Intn(len(stringPool))], Ωmega: r.Intn(100), Éa: []int{1, 2}, Ǆep: "dz", ǈuba: 5}
			gv := genValue{goVal: o, hiddenNames: []string{"édad", "ñame", "ωeight", "_under", "я"}, view: model.Obj(map[string]model.Value{
				"Name": model.Str("n"), "Ünit": model.Str(o.Ünit), "Ωmega": model.Int(int64(o.Ωmega)), "Éa": model.Arr(model.Int(1), model.Int(2)), "Ǆep": model.Str("dz")})}
			if r.Intn(2) == 0 {
				gv.goVal = &o
			}
			return gv
		}
		w := c12Wide{I8: math.MinInt8, I16: math.MaxInt16, I32: math.MinInt32, I64: math.MaxInt64, U: 7, U16: math.MaxUint16, U32: math.MaxUint32, U64: math.MaxInt64, F32: 0.5, B: true, pvt: 1}
		return genValue{goVal: w, hiddenNames: []string{"pvt"}, view: model.Obj(map[string]model.Value{
			"I8": model.Int(math.MinInt8), "I16": model.Int(math.MaxInt16), "I32": model.Int(math.MinInt32), "I64": model.Int(math.MaxInt64),
			"U": model.Int(7), "U16": model.Int(math.MaxUint16), "U32": model.Int(math.MaxUint32), "U64": model.Int(math.MaxInt64), "F32": model.Float(0.5), "B": model.Bool(true)})}
	default: // a struct type built at run time
		n := 1 + r.Intn(4)
		perm := r.Perm(len(fieldNames))[:n]
		var fields []reflect.StructField
		var vals []genValue
		for _, fi := range perm {
			e := g.value(depth - 1)
			t := reflect.TypeOf((*any)(nil)).Elem()
			if e.goVal != nil && r.Intn(2) == 0 {
				t = reflect.TypeOf(e.goVal)
			}
			fields = append(fields, reflect.StructField{Name: fieldNames[fi], Type: t})
			vals = append(vals, e)
		}
		sv := reflect.New(reflect.StructOf(fields)).Elem()
		gv := genValue{view: model.Obj(nil)}
		for i, e := range vals {
			if e.goVal != nil {
				sv.Field(i).Set(reflect.ValueOf(e.goVal))
			}
			gv.view.O[fields[i].Name] = e.view
			gv.unsupported = gv.unsupported || e.unsupported
		}
		gv.goVal = sv.Interface()
		return gv
	}
}

func mapInts(s []int) []model.Value {
	var out []model.Value
	for _, e := range s {
		out = append(out, model.Int(int64(e)))
	}
	return out
}

// containsUnsupported walks plain containers produced by the generator
func containsUnsupported(v any) bool {
	if v == nil {
		return false
	}
	rv := reflect.ValueOf(v)
	return unsupportedRV(rv, 0)
}

func unsupportedRV(rv reflect.Value, depth int) bool {
	if depth > 12 || !rv.IsValid() {
		return false
	}
	switch rv.Kind() {
	case reflect.Chan, reflect.Func, reflect.Complex64, reflect.Complex128, reflect.Array, reflect.Uintptr, reflect.UnsafePointer:
		return true
	case reflect.Pointer, reflect.Interface:
		if rv.IsNil() {
			return false
		}
		return unsupportedRV(rv.Elem(), depth+1)
	case reflect.Slice:
		for i := 0; i < rv.Len(); i++ {
			if unsupportedRV(rv.Index(i), depth+1) {
				return true
			}
		}
	case reflect.Map:
		for _, k := range rv.MapKeys() {
			if unsupportedRV(rv.MapIndex(k), depth+1) {
				return true
			}
		}
	case reflect.Struct:
		for i := 0; i < rv.NumField(); i++ {
			if rv.Type().Field(i).IsExported() && unsupportedRV(rv.Field(i), depth+1) {
				return true
			}
		}
	}
	return false
}

type accessPath struct {
	src  string
	want model.Value
	fail bool
	arr  *model.Value // for a ".len()" path: the array itself
}

// paths enumerates access paths into the view: dot syntax, index syntax and
// the lower-cased first letter, down to scalars; plus names that must not exist
func pathsInto(r *rand.Rand, root string, v model.Value, hidden []string) []accessPath {
	var out []accessPath
	var walk func(prefix string, v model.Value, depth int)
	walk = func(prefix string, v model.Value, depth int) {
		if depth > 5 {
			return
		}
		switch v.K {
		case model.KObj:
			for _, k := range v.Keys() {
				child := v.O[k]
				forms := []string{prefix + "[" + model.QuoteString(k, '"') + "]"}
				if identRe.MatchString(k) && !isKeyword(k) {
					forms = append(forms, prefix+"."+k)
					// the lower-cased first letter reaches the same field unless a key of exactly that name exists
					lower := strings.ToLower(k[:1]) + k[1:]
					if _, clash := v.O[lower]; !clash && lower != k && !isKeyword(lower) {
						forms = append(forms, prefix+"."+lower, prefix+"["+model.QuoteString(lower, '"')+"]")
					}
				}
				if first, size := utf8.DecodeRuneInString(k); first >= utf8.RuneSelf && first != utf8.RuneError && unicode.ToLower(first) != first {
					// a first letter outside ASCII is lower-cased like any other
					lower := string(unicode.ToLower(first)) + k[size:]
					if _, clash := v.O[lower]; !clash && unicode.ToUpper(unicode.ToLower(first)) == first {
						forms = append(forms, prefix+"["+model.QuoteString(lower, '"')+"]")
					}
				}
				if !model.CanQuote(k, '"') {
					continue
				}
				f := forms[r.Intn(len(forms))]
				walk(f, child, depth+1)
				if len(forms) > 1 {
					walk(forms[(r.Intn(len(forms)-1)+1)%len(forms)], child, depth+1)
				}
			}
			out = append(out, accessPath{src: prefix + ".noSuchField", fail: true}, accessPath{src: prefix + `["noSuchKey"]`, fail: true})
		case model.KArr:
			for i, e := range v.A {
				walk(fmt.Sprintf("%s[%d]", prefix, i), e, depth+1)
			}
			out = append(out, accessPath{src: fmt.Sprintf("%s[%d]", prefix, len(v.A)), want: model.Nil}, accessPath{src: prefix + "[-1]", want: model.Nil})
			arr := v
			out = append(out, accessPath{src: prefix + ".len()", want: model.Int(int64(len(v.A))), arr: &arr})
		default:
			out = append(out, accessPath{src: prefix, want: v})
		}
	}
	walk(root, v, 0)
	for _, h := range hidden {
		first, size := utf8.DecodeRuneInString(h)
		upper := string(unicode.ToUpper(first)) + h[size:]
		out = append(out, accessPath{src: root + `["` + h + `"]`, fail: true}, accessPath{src: root + `["` + upper + `"]`, fail: true})
		if identRe.MatchString(h) {
			out = append(out, accessPath{src: root + "." + h, fail: true}, accessPath{src: root + "." + upper, fail: true})
		}
	}
	return out
}

func init() {
	core.Register(&core.Check{
		ID:    "C12",
		Level: "exploration",
		Rule: "cases are Go values generated by type-directed recursion to depth 4: bool, string (empty, markup, UTF-8, template syntax), every integer width with its extremes (unsigned up to MaxInt64), float32/64, nil, pointers 1-3 levels deep and nil at every level, typed and untyped slices (nil, empty, of pointers, of structs), string-keyed maps (nil, empty, keys that differ only in case, non-identifier keys), static structs with unexported fields and interface fields, struct types built at run time with reflect.StructOf, unsupported kinds (chan, func, complex, array, uintptr) planted at any depth; " +
			"for each value the expected view gives a set of access paths (dot, index, lower-cased first letter, out-of-range and missing names, unexported names) with the expected text or error; each path is rendered by the real code; the value is built twice from the same seed and the copy handed to the render must stay deeply equal to the other. also defined map/key/slice types, unsupported values under unspellable top-level names with templates that ignore the data (incl. the empty one, EvaluateFile), data arrays re-printed after built-ins ran on them; postfix operators on data numbers, arguments named like data; round 8: fields named outside ASCII, keys with quotes and backslashes; round 9: values reachable twice, entry points; scale: large values; concurrent replay; rounds 10-11: names like keywords, digraph capitals, leading-zero positions, types with methods; round 12: keys held in variables; round 14: values as insert and component arguments and in slot bodies; round 15: values inside loops and branches, nil insert arguments; round 16: scalars of the data in every position of use against the equal literal; round 17: negative zero and a negative half against the equal literal; distinct_nontrivial = distinct (value, path) pairs",
		Assumptions: []string{
			"a nil map is seen as an empty object and a nil slice as an empty array; named scalar types and non-string map keys are not in the statement and not generated",
			"an unsupported value only counts when it is reachable through exported fields",
		},
		Sections: func(tier core.Tier, seed int64) []core.Section {
			n := 12000
			if tier == core.Thorough {
				n = 6000000
			}
			// one struct type, first with an unsupported value inside (the call must fail), then fully
			// supported (every exported field must be there): nothing learnt about a type in a failed
			// call may survive into a later one; also types that refer to themselves
			reuse := core.Section{Name: "type-reuse-after-failure", N: n / 20,
				Run: func(c *core.Ctx, i int) {
					// (values are repaired in place between renders)
					defer poolPause(c)()
					type node struct {
						Label string
						Any   any
						Next  *node
						Kids  []*node
						Last  int
					}
					bad := []any{sharedChan, func() {}, complex(1, 1), [1]int{1}}[i%4]
					city := "Ülm"
					cases := []struct {
						name        string
						failing, ok any
						fields      map[string]string // field -> expected text in the ok value
					}{
						{"c12User", c12User{Name: "n", Extra: bad}, c12User{Name: "n2", Age: 7, Extra: 1, Scores: map[string]float64{"m": 1.5}}, map[string]string{"name": "n2", "age": "7", "extra": "1", "scores.m": "1.5", "email": "", "address": ""}},
						{"*c12User", &c12User{Extra: []any{1, bad}}, &c12User{Name: "p", Extra: "x", Address: &c12Address{City: city, Owner: &c12User{Name: "owner", Scores: map[string]float64{"k": 2.5}}}}, map[string]string{"name": "p", "extra": "x", "address.city": city, "address.owner.name": "owner", "address.owner.scores.k": "2.5", "address.geo.x": "0", "address.owner.age": "0"}},
						{"node", node{Label: "a", Any: map[string]any{"k": bad}}, node{Label: "b", Any: 2, Next: &node{Label: "c", Last: 3, Kids: []*node{{Label: "d", Last: 4}}}, Last: 9}, map[string]string{"label": "b", "any": "2", "last": "9", "next.label": "c", "next.last": "3", "next.kids[0].label": "d", "next.kids[0].last": "4", "next.next": ""}},
						{"[]node", []node{{Label: "a"}, {Any: bad}}, []node{{Label: "x", Last: 1}, {Label: "y", Last: 2, Next: &node{Last: 5}}}, map[string]string{"[0].label": "x", "[1].last": "2", "[1].next.last": "5", "[0].last": "1"}},
					}
					cs := cases[(i/4)%len(cases)]
					order := i / 16 % 2 // also the other way round: a good call first, then the failing one, then good again
					render := func(v any, path string) Outcome {
						src := "\x01{{ v" + path + " }}\x02"
						c.Input(map[string]any{"source": src, "type": cs.name})
						return evalString(c, src, map[string]any{"v": v})
					}
					if order == 1 {
						render(cs.ok, "")
					}
					if got := render(cs.failing, ""); !got.Failed() {
						c.Violation("unsupported-accepted", fmt.Sprintf("a %s holding an unsupported value was accepted", cs.name), map[string]any{"type": cs.name})
					}
					c.Nontrivial(fmt.Sprint("reuse", cs.name, i%4, order))
					for path, want := range cs.fields {
						p := path
						if !strings.HasPrefix(p, "[") {
							p = "." + p
						}
						got := render(cs.ok, p)
						if got.Panicked {
							continue
						}
						if got.Err != nil || got.Out != "\x01"+want+"\x02" {
							c.Violation("type-reuse:"+cs.name, fmt.Sprintf("after a failed call with a %s, v%s of a fully supported value gave %s, want %q", cs.name, p, got.Describe(), want), map[string]any{"type": cs.name, "path": p})
						}
					}
				}}
			// two struct types of one name (declared in two functions), and one property read in a loop whose
			// elements spell it in different cases
			sameName := core.Section{Name: "same-named-types-and-mixed-spellings", Exhaustive: true, N: 6,
				Run: func(c *core.Ctx, i int) {
					type tc struct {
						src  string
						data map[string]any
						want string
					}
					a, b := c12LocalRowA(), c12LocalRowB()
					cases := []tc{
						{"{{ r.name }}/{{ r.age }}|{{ s.name }}/{{ s.age }}/{{ s.city }}", map[string]any{"r": a, "s": b}, "Ann/30|Bob/41/Ulm"},
						{"{{ s.city }}/{{ s.name }}|{{ r.age }}/{{ r.name }}", map[string]any{"s": b, "r": a}, "Ulm/Bob|30/Ann"},
						{"@each(x in xs){{ x.name }},@end", map[string]any{"xs": []any{a, b, a}}, "Ann,Bob,Ann,"},
						{"@each(u in users){{ u.name }};@end", map[string]any{"users": []any{c12User{Name: "Ann"}, map[string]any{"name": "bob"}, map[string]any{"Name": "Cy"}, map[string]any{"name": "dee", "Name": "DEE"}}}, "Ann;bob;Cy;dee;"},
						{"@for(k = 0; k < rows.len(); k++){{ rows[k].qty }},@end", map[string]any{"rows": []map[string]int{{"Qty": 1}, {"qty": 2}, {"Qty": 3, "qty": 4}}}, "1,2,4,"},
						{"@each(u in users){{ u[\"name\"] }}{{ u.name.len() }};@end", map[string]any{"users": []any{map[string]any{"Name": "Cy"}, map[string]any{"name": "bob"}}}, "Cy2;bob3;"},
					}
					// one map object rendered, changed by the caller, and rendered again through a loaded Template
					if i == 0 {
						resume := poolPause(c)
						defer resume()
						files := map[string]string{"page.tw": "{{ n }}|{{ user.name }}|{{ list[0] }}|{{ list.len() }}", "other.tw": "{{ n + 1 }}"}
						if tpl, err := loadTree(c, "c12same", files, ".tw"); err == nil && tpl != nil {
							u := &c12User{Name: "Ann"}
							d := map[string]any{"n": 1, "user": u, "list": []int{5, 6}}
							first, _ := renderPage(c, tpl, "page", d)
							d["n"], u.Name, d["list"] = 41, "Bob", []int{7}
							renderPage(c, tpl, "other", d)
							second, _ := renderPage(c, tpl, "page", d)
							d["bad"] = make(chan int)
							third, _ := renderPage(c, tpl, "page", d)
							if !first.Panicked && !second.Panicked && (first.Out != "1|Ann|5|2" || second.Out != "41|Bob|7|1" || !third.Failed()) {
								c.Violation("data-of-an-earlier-render", fmt.Sprintf("one map rendered, changed and rendered again gave %s, then %s (want 1|Ann|5|2 then 41|Bob|7|1); with a chan added: %s", first.Describe(), second.Describe(), third.Describe()), map[string]any{"files": describeFiles(files)})
							}
						}
					}
					t := cases[i]
					c.Input(map[string]any{"source": t.src})
					// in both orders of first use within the process: the first case of a worker decides
					got := evalString(c, t.src, t.data)
					c.Nontrivial(t.src)
					if !got.Panicked && (got.Err != nil || got.Out != t.want) {
						c.Violation("same-name-or-mixed-spelling", fmt.Sprintf("%s gave %s, want %q", t.src, got.Describe(), t.want), map[string]any{"source": t.src})
					}
				}}
			// large values: slices of 15..100000 elements, maps of 15..5000 keys, structs of up to 120 fields, nesting 15..300 deep,
			// strings up to 4 MiB - every part is where the Go value has it
			bigSizes := []int{15, 16, 17, 63, 64, 65, 255, 256, 257, 1000, 1024, 1025, 5000}
			large := core.Section{Name: "large-values", Exhaustive: true, N: len(bigSizes) * 5,
				Run: func(c *core.Ctx, i int) {
					n := bigSizes[i%len(bigSizes)]
					var data map[string]any
					var probes [][2]string // source, expected output
					switch i / len(bigSizes) {
					case 0: // a long slice
						m := n * 20
						xs := make([]int, m)
						for k := range xs {
							xs[k] = k * 7
						}
						data = map[string]any{"v": xs}
						probes = [][2]string{{"{{ v.len() }}", fmt.Sprint(m)}, {"{{ v[0] }}|{{ v[" + fmt.Sprint(m-1) + "] }}|{{ v[" + fmt.Sprint(m/2) + "] }}", fmt.Sprintf("0|%d|%d", (m-1)*7, (m/2)*7)},
							{"{{ v[" + fmt.Sprint(m) + "] }}", ""}, {"@each(x in v)@if(loop.last){{ x }}@end@end", fmt.Sprint((m - 1) * 7)},
							// positions written with leading zeros are the same positions
							{"{{ v[010] }}|{{ v[0100] }}|{{ v[08] }}|{{ v[007] }}|{{ v[00] }}", fmt.Sprintf("%d|%d|%d|%d|0", 10*7, 100*7, 8*7, 7*7)}}
					case 1: // a map with many keys
						mp := map[string]any{}
						for k := 0; k < n; k++ {
							mp[fmt.Sprintf("k%d", k)] = k
							mp[fmt.Sprintf("K%d", k)] = -k
						}
						data = map[string]any{"v": mp}
						probes = [][2]string{{"{{ v.k0 }}|{{ v.K0 }}", "0|0"}, {fmt.Sprintf("{{ v.k%d }}|{{ v[\"K%d\"] }}", n-1, n-1), fmt.Sprintf("%d|%d", n-1, -(n - 1))}, {fmt.Sprintf("{{ v.k%d }}", n/2), fmt.Sprint(n / 2)}}
					case 2: // a struct type with many fields
						nf := n
						if nf > 120 {
							nf = 120
						}
						var fields []reflect.StructField
						for k := 0; k < nf; k++ {
							fields = append(fields, reflect.StructField{Name: fmt.Sprintf("F%d", k), Type: reflect.TypeOf(0)})
						}
						sv := reflect.New(reflect.StructOf(fields)).Elem()
						for k := 0; k < nf; k++ {
							sv.Field(k).SetInt(int64(k * 11))
						}
						data = map[string]any{"v": sv.Interface()}
						probes = [][2]string{{"{{ v.F0 }}|{{ v.f0 }}", "0|0"}, {fmt.Sprintf("{{ v.F%d }}|{{ v.f%d }}", nf-1, nf-1), fmt.Sprintf("%d|%d", (nf-1)*11, (nf-1)*11)}, {fmt.Sprintf("{{ v[\"F%d\"] }}", nf/2), fmt.Sprint((nf / 2) * 11)}}
					case 3: // maps and slices inside one another
						d := n
						if d > 300 {
							d = 300
						}
						var v any = "bottom"
						path := "v"
						var rev []string
						for k := 0; k < d; k++ {
							if k%2 == 0 {
								v = map[string]any{"a": v, "other": k}
								rev = append(rev, ".a")
							} else {
								v = []any{k, v}
								rev = append(rev, "[1]")
							}
						}
						for k := len(rev) - 1; k >= 0; k-- {
							path += rev[k]
						}
						data = map[string]any{"v": v}
						probes = [][2]string{{"{{ " + path + " }}", "bottom"}}
					default: // a long string, printed and measured
						unit := "aé<&>\"'中😀\n"
						str := strings.Repeat(unit, n*40)
						data = map[string]any{"v": str}
						probes = [][2]string{{"{{ v.len() }}", fmt.Sprint(utf8.RuneCountInString(str))}, {"<{{ v }}>", "<" + str + ">"}, {"{{ v.last() }}{{ v.at(" + fmt.Sprint(utf8.RuneCountInString(str)-2) + ") }}", "\n😀"}}
					}
					for _, pr := range probes {
						c.Input(map[string]any{"source": pr[0], "size": n, "kind": i / len(bigSizes)})
						got := evalString(c, pr[0], data)
						c.Nontrivial(fmt.Sprint(pr[0], n, i/len(bigSizes)))
						if !got.Panicked && (got.Err != nil || got.Out != pr[1]) {
							c.Violation("large-value", fmt.Sprintf("%s on a value of size %d gave %s, want %q", pr[0], n, clipS(got.Describe(), 300), clipS(pr[1], 300)), map[string]any{"source": pr[0], "size": n})
						}
					}
				}}
			// one pointer, slice or map reachable through several places of the data (siblings, parent and child, several top-level
			// names): every place shows it
			type c12Doc struct {
				Owner, Editor *c12Point
				Tags, More    []string
				Meta, Extra   map[string]any
				Self          *c12Point
			}
			sharedCases := 8
			shared := core.Section{Name: "values-reachable-twice", Exhaustive: true, N: sharedCases,
				Run: func(c *core.Ctx, i int) {
					ann := &c12Point{X: 3, Y: 4, hidden: "h"}
					n := 41
					tags := []string{"a", "b"}
					meta := map[string]any{"k": 1, "p": ann}
					var data map[string]any
					var src, want string
					switch i {
					case 0:
						data = map[string]any{"v": c12Doc{Owner: ann, Editor: ann}}
						src, want = "{{ v.owner.x }}|{{ v.editor.y }}|{{ v.self }}", "3|4|"
					case 1:
						data = map[string]any{"v": []*int{&n, nil, &n, &n}}
						src, want = "{{ v[0] }}|{{ v[1] }}|{{ v[2] }}|{{ v[3] + 1 }}", "41||41|42"
					case 2:
						data = map[string]any{"v": map[string]*c12Point{"a": ann, "b": ann, "c": nil}}
						src, want = "{{ v.a.x }}|{{ v.b.x }}|{{ v.c }}", "3|3|"
					case 3:
						data = map[string]any{"v": c12Doc{Tags: tags, More: tags, Meta: meta, Extra: meta, Owner: ann}}
						src, want = "{{ v.tags }}|{{ v.more[1] }}|{{ v.meta.k }}|{{ v.extra.p.x }}|{{ v.owner.y }}", "a, b|b|1|3|4"
					case 4:
						data = map[string]any{"a": ann, "b": ann, "c": []any{ann, ann}, "d": map[string]any{"again": ann}}
						src, want = "{{ a.x }}|{{ b.y }}|{{ c[0].x }}|{{ c[1].y }}|{{ d.again.x }}", "3|4|3|4|3"
					case 5:
						pp := &ann
						data = map[string]any{"v": []any{pp, ann, pp, *ann}}
						src, want = "{{ v[0].x }}|{{ v[1].x }}|{{ v[2].y }}|{{ v[3].y }}", "3|3|4|4"
					case 6:
						row := []int{1, 2}
						data = map[string]any{"v": [][]int{row, row, nil, row}}
						src, want = "{{ v[0] }}|{{ v[1][1] }}|{{ v[2].len() }}|{{ v[3][0] }}", "1, 2|2|0|1"
					default:
						inner := map[string]any{"leaf": 9}
						data = map[string]any{"v": map[string]any{"x": inner, "y": inner, "z": map[string]any{"deep": inner}}}
						src, want = "{{ v.x.leaf }}|{{ v.y.leaf }}|{{ v.z.deep.leaf }}", "9|9|9"
					}
					c.Input(map[string]any{"source": src, "case": i})
					got := evalString(c, src, data)
					c.Nontrivial(fmt.Sprint("shared", i))
					if !got.Panicked && (got.Err != nil || got.Out != want) {
						c.Violation("value-reachable-twice", fmt.Sprintf("%s gave %s, want %q", src, got.Describe(), want), map[string]any{"source": src, "case": i})
					}
				}}
			// the same view through every entry point: a loaded page through String and Response, a file, a string
			entryStrings := []string{"50% off", "100%", "%d %s %v %%", "a%!b(MISSING)", "plain", "é中😀 & <b>", "%", "tab\tnew\nline", "", "a & b < c > \"q\" 'r' &amp; &#39;"}
			entries := core.Section{Name: "entry-points", Exhaustive: true, N: len(entryStrings),
				Run: func(c *core.Ctx, i int) {
					str := entryStrings[i]
					data := map[string]any{"s": str, "n": 7, "u": c12User{Name: str, Age: 3}, "xs": []string{str, str}, "np": (*string)(nil), "nm": map[string]any{"k": nil}, "ne": []any{str, nil}}
					src := "<{{ s }}>|{{ n }}|{{ u.name }}|{{ xs }}|{{ s.len() }}|@for(k = 0; k < 2; k++)[{{ s }}]@end|@each(q in xs)({{ q }})@end|@if(n){{ u.name }}@else x@end"
					want := evalString(c, src, data)
					c.Input(map[string]any{"source": src, "s": str})
					c.Nontrivial("entry:" + str)
					if want.Failed() {
						if !want.Panicked {
							c.Violation("entry-point:string", "the string API failed: "+want.Err.Error(), map[string]any{"s": str})
						}
						return
					}
					if exp := "<" + str + ">|7|" + str + "|" + str + ", " + str + "|" + fmt.Sprint(utf8.RuneCountInString(str)) + "|[" + str + "][" + str + "]|(" + str + ")(" + str + ")|" + str; want.Out != exp {
						c.Violation("entry-point:string", fmt.Sprintf("EvaluateString gave %q, want %q", want.Out, exp), map[string]any{"s": str})
					}
					files := map[string]string{"page.tw": src, "layouts/l.tw": "L[@reserve(\"b\")]", "with.tw": "@use(\"~l\")@insert(\"b\")" + src + "@end",
						// the values handed on as insert arguments, component arguments and in slot bodies
						"arg.tw": "@use(\"~l\")@insert(\"b\", s)", "argnil.tw": "@use(\"~l\")@insert(\"b\", np)", "argnilkey.tw": "@use(\"~l\")@insert(\"b\", nm.k)", "argnilelem.tw": "@use(\"~l\")@insert(\"b\", ne[1])", "argfield.tw": "@use(\"~l\")@insert(\"b\", u.name)", "argelem.tw": "@use(\"~l\")@insert(\"b\", xs[1])",
						"components/c.tw": "C[{{ v }}|{{ w }}|@slot]", "comp.tw": "@component(\"~c\", {v: s, w: xs[0]})@slot{{ u.name }}@end@end"}
					tpl, err := loadTree(c, "c12entry", files, ".tw")
					if err != nil || tpl == nil {
						if err != nil {
							c.Violation("entry-point:load", err.Error(), nil)
						}
						return
					}
					for page, w := range map[string]string{"page": want.Out, "with": "L[" + want.Out + "]", "arg": "L[" + str + "]", "argnil": "L[]", "argnilkey": "L[]", "argnilelem": "L[]", "argfield": "L[" + str + "]", "argelem": "L[" + str + "]", "comp": "C[" + str + "|" + str + "|" + str + "]"} {
						if o, _ := renderPage(c, tpl, page, data); !o.Panicked && (o.Err != nil || o.Out != w) {
							c.Violation("entry-point:String", fmt.Sprintf("Template.String(%s) gave %s, want %q", page, o.Describe(), w), map[string]any{"s": str})
						}
						rec := newRecorder()
						var rerr error
						c.Eval(1)
						if !c.Guard(func() { rerr = tpl.Response(rec, page, data) }) && (rerr != nil || rec.body.String() != w) {
							c.Violation("entry-point:Response", fmt.Sprintf("Response(%s) wrote %q (error %v), want %q", page, rec.body.String(), rerr, w), map[string]any{"s": str})
						}
					}
					var fout string
					var ferr error
					c.Eval(1)
					if !c.Guard(func() { fout, ferr = textwire.EvaluateFile("c12entry/page.tw", data) }) && (ferr != nil || fout != want.Out) {
						c.Violation("entry-point:EvaluateFile", fmt.Sprintf("EvaluateFile gave (%q, %v), want %q", fout, ferr, want.Out), map[string]any{"s": str})
					}
				}}
			namesLike := core.Section{Name: "top-level-names-like-keywords", Exhaustive: true, N: len(c12NamesLikeKeywords),
				Run: func(c *core.Ctx, i int) {
					name := c12NamesLikeKeywords[i]
					// every one of them at once, each with its own value; the template reads one (also as a field and as a map key)
					data := map[string]any{}
					for k, n := range c12NamesLikeKeywords {
						data[n] = 1000 + k
					}
					type rec struct{ In, Nil, True, False, Loop, Out int }
					data["r"] = rec{1, 2, 3, 4, 5, 6}
					data["m"] = map[string]int{name: 77, "other": 1}
					src := "{{ " + name + " }}|{{ " + name + " + 1 }}|{{ m[\"" + name + "\"] }}|{{ m." + name + " }}|{{ r.In }}{{ r.Nil }}{{ r.True }}{{ r.False }}{{ r.Loop }}{{ r.Out }}|{{ r[\"in\"] }}{{ r.loop }}{{ r[\"nil\"] }}"
					want := fmt.Sprintf("%d|%d|77|77|123456|152", 1000+i, 1001+i)
					c.Input(map[string]any{"source": src})
					got := evalString(c, src, data)
					c.Nontrivial(src)
					if !got.Panicked && (got.Err != nil || got.Out != want) {
						c.Violation("name-like-keyword", fmt.Sprintf("%s gave %s, want %q", src, got.Describe(), want), map[string]any{"source": src})
					}
				}}
			methods := core.Section{Name: "types-with-methods", Exhaustive: true, N: 4,
				Run: func(c *core.Ctx, i int) {
					acct := c12Account{Owner: "ann", Plan: &c12Plan{Name: "pro", Seats: 5}, Tags: c12TagList{"a", "b"}}
					var v any
					switch i {
					case 0:
						v = acct
					case 1:
						v = &acct
					case 2:
						v = []any{acct, &acct}[1]
					default:
						v = map[string]any{"wrapped": acct}["wrapped"]
					}
					src := "{{ v.owner }}|{{ v.plan.name }}|{{ v.plan.seats + 1 }}|{{ v.tags[1] }}|{{ v.tags.len() }}|{{ v[\"Owner\"] }}"
					c.Input(map[string]any{"source": src, "case": i})
					got := evalString(c, src, map[string]any{"v": v})
					c.Nontrivial(fmt.Sprint("methods", i))
					if want := "ann|pro|6|b|2|ann"; !got.Panicked && (got.Err != nil || got.Out != want) {
						c.Violation("type-with-methods", fmt.Sprintf("%s on a struct whose type has String/Error/MarshalText methods gave %s, want %q", src, got.Describe(), want), map[string]any{"source": src})
					}
				}}
			// keys taken from the data (not spelled in the template): the key is looked up byte for byte, whatever it looks like
			keyStrings := []string{"R&amp;D", "R&D", "a&lt;b", "a<b", "&#39;x", "'x", "&quot;", "\"", "caf\xe9", "café", " lead", "trail ", "", "Name", "name", "x.y", "0", "loop", "nil", "&amp;amp;", "%d", "a\nb"}
			varKeys := core.Section{Name: "keys-held-in-variables", Exhaustive: true, N: len(keyStrings),
				Run: func(c *core.Ctx, i int) {
					labels := map[string]any{}
					for k, ks := range keyStrings {
						labels[ks] = k + 100
					}
					k := keyStrings[i]
					src := "{{ labels[k] }}|{{ labels[ks[0]] }}|@each(x in ks)@if(loop.index == " + fmt.Sprint(i) + "){{ labels[x] }}@end@end"
					want := fmt.Sprintf("%d|%d|%d", i+100, i+100, i+100)
					c.Input(map[string]any{"source": src, "key": k})
					got := evalString(c, src, map[string]any{"labels": labels, "k": k, "ks": append([]string{k}, keyStrings[1:]...)})
					if i > 0 {
						got = evalString(c, src, map[string]any{"labels": labels, "k": k, "ks": func() []string { out := append([]string{}, keyStrings...); out[0], out[i] = out[i], out[0]; return out }()})
						// (position i of ks then holds key 0: adjust the third probe)
						want = fmt.Sprintf("%d|%d|%d", i+100, i+100, 100)
					}
					c.Nontrivial("varkey:" + k)
					if !got.Panicked && (got.Err != nil || got.Out != want) {
						c.Violation("key-held-in-variable", fmt.Sprintf("with k = %q, %s gave %s, want %q", k, src, got.Describe(), want), map[string]any{"source": src, "key": k})
					}
				}}
			// round 16: booleans, nil and numbers of the data in every position of use, against the same template written
			// with the equal literal ("as the equal literal would"): conditions of @if/@elseif/@for, ternaries, @breakIf and
			// @continueIf, prefix operators, elements of literals, arguments
			type c12Flags struct {
				On, Off bool
				POn     *bool
				Zero    int
				Nothing *int
				NegZero float64
				Half    float32
			}
			useTemplates := []string{
				"@if(T)y@else n@end|@if(F)y@else n@end", "@if(F)a@elseif(T)b@else c@end|@if(F)a@elseif(F)b@else c@end", "{{ T ? 1 : 2 }}|{{ F ? 1 : 2 }}",
				"@each(v in [1, 2, 3])[{{ v }}@continueIf(T)x]@end|@each(v in [1, 2, 3])[{{ v }}@continueIf(F)x]@end",
				"@each(v in [1, 2, 3])[{{ v }}@breakIf(T)x]@end|@each(v in [1, 2, 3])[{{ v }}@breakIf(F)x]@end",
				"@for(k = 0; k < 3; k++)[{{ k }}@breakIf(T)x]@end|@for(k = 0; k < 3; k++)[{{ k }}@continueIf(T)x]@end|@for(k = 0; F; k++)x@else none@end",
				"{{ !T }}|{{ !F }}|{{ !!T }}", "{{ T.then('a', 'b') }}|{{ F.then('a', 'b') }}", "{{ [T, F] }}|{{ {a: T, b: F}.a }}|{{ [F][0] ? 'y' : 'n' }}",
				"{{ x = T }}{{ x }}|{{ x ? 'y' : 'n' }}|@if(x)y@end", "@each(v in [T, F, T])@continueIf(v)[{{ loop.index }}]@end", "@each(v in [F, F, T, F])@breakIf(v)[{{ loop.index }}]@end",
				"@if(N)y@else n@end|{{ N ? 1 : 2 }}|{{ !N }}|@each(v in [1, 2])x@breakIf(N)@end|@each(v in [1, 2])x@continueIf(N)y@end", "{{ N }}|{{ [N, 1] }}|{{ x = N }}{{ x }}",
				"@if(Z)y@else n@end|{{ Z ? 1 : 2 }}|@each(v in [1, 2])x@breakIf(Z)@end|@each(v in [1, 2])x@continueIf(Z)y@end|{{ -Z }}|{{ Z + 1 }}",
				// round 17: floats whose sign or fraction a conversion may lose - negative zero and a negative half - printed, joined,
				// divided by, converted to text; the equal literal is the prefix minus applied to the literal of the magnitude
				"{{ M }}|{{ [M].join('|') }}|{{ 1.0 / M < 0.0 }}|{{ M.str() }}|{{ [M, 1.5] }}|{{ {k: M}.k }}|{{ x = M }}{{ x }}|{{ M + 0.0 }}|{{ M * 1.0 }}",
				"{{ H }}|{{ [H].join('|') }}|{{ H.round() }}|{{ H.str() }}|{{ H.abs() }}|{{ H * 2.0 }}|{{ H.ceil() }}|{{ H.floor() }}|{{ x = H }}{{ x.round() }}",
			}
			negZero, half32 := math.Copysign(0, -1), float32(-0.5)
			yes := true
			useData := map[string]any{"t": true, "f": false, "o": map[string]any{"t": true, "f": false, "n": nil, "z": 0, "nz": negZero, "h": -0.5}, "bs": []bool{true, false}, "pt": &yes, "st": c12Flags{On: true, POn: &yes, NegZero: negZero, Half: half32},
				"nz": negZero, "fs": []float64{negZero, -0.5}, "pnz": &negZero, "h": -0.5, "h32": half32,
				"n": nil, "z": 0, "z8": int8(0), "uz": uint(0), "any": []any{true, false, nil, 0}}
			spell := map[string][]string{
				"T": {"t", "o.t", "bs[0]", "pt", "st.On", "st.on", "st.pOn", "any[0]", "o['t']"},
				"F": {"f", "o.f", "bs[1]", "st.Off", "st.off", "any[1]"},
				"N": {"n", "o.n", "st.Nothing", "any[2]"},
				"Z": {"z", "o.z", "z8", "uz", "st.Zero", "any[3]"},
				"M": {"nz", "o.nz", "fs[0]", "pnz", "st.NegZero", "st.negZero"},
				"H": {"h", "o.h", "fs[1]", "h32", "st.Half", "st.half"},
			}
			literal := map[string]string{"T": "true", "F": "false", "N": "nil", "Z": "0", "M": "(-0.0)", "H": "(-0.5)"}
			inUse := core.Section{Name: "scalars-of-the-data-in-every-position-of-use", Exhaustive: true, N: len(useTemplates) * 9,
				Run: func(c *core.Ctx, i int) {
					tmpl, k := useTemplates[i/9], i%9
					sub := func(form func(ph string) string) string {
						out := tmpl
						for _, ph := range []string{"T", "F", "N", "Z", "M", "H"} {
							out = strings.ReplaceAll(out, "("+ph+")", "("+form(ph)+")")
							out = strings.ReplaceAll(out, " "+ph+" ", " "+form(ph)+" ")
							out = strings.ReplaceAll(out, " "+ph+".", " "+form(ph)+".")
							out = strings.ReplaceAll(out, "!"+ph+" ", "!("+form(ph)+") ") // a prefix operator binds tighter than the dot
							out = strings.ReplaceAll(out, "-"+ph+" ", "-("+form(ph)+") ")
							out = strings.ReplaceAll(out, "["+ph+",", "["+form(ph)+",")
							out = strings.ReplaceAll(out, "["+ph+"]", "["+form(ph)+"]")
							out = strings.ReplaceAll(out, " "+ph+",", " "+form(ph)+",")
							out = strings.ReplaceAll(out, " "+ph+"]", " "+form(ph)+"]")
							out = strings.ReplaceAll(out, " "+ph+"}", " "+form(ph)+"}")
							out = strings.ReplaceAll(out, "["+ph+"]", "["+form(ph)+"]")
						}
						return out
					}
					litSrc := sub(func(ph string) string { return literal[ph] })
					dataSrc := sub(func(ph string) string { return spell[ph][k%len(spell[ph])] })
					c.Input(map[string]any{"with_literals": litSrc, "with_data": dataSrc})
					want := evalString(c, litSrc, nil)
					got := evalString(c, dataSrc, useData)
					c.Nontrivial(dataSrc)
					c.Count("literal_vs_data_renders", 1)
					if want.Panicked || got.Panicked {
						return
					}
					if (want.Err != nil) != (got.Err != nil) || want.Out != got.Out {
						c.Violation("data-scalar-unlike-literal", fmt.Sprintf("%s gave %s with the data, but %s gave %s", dataSrc, got.Describe(), litSrc, want.Describe()),
							map[string]any{"with_literals": litSrc, "with_data": dataSrc})
					}
				}}
			return []core.Section{reuse, sameName, large, shared, entries, namesLike, methods, varKeys, inUse, {Name: "generated-values", N: n,
				Run: func(c *core.Ctx, i int) {
					depth := 1 + i%4
					// the same seed builds the value twice: one is rendered, one is the reference copy
					s1, s2 := rand.New(rand.NewSource(int64(c.Rng.Int63()))), (*rand.Rand)(nil)
					seedv := s1.Int63()
					s1 = rand.New(rand.NewSource(seedv))
					s2 = rand.New(rand.NewSource(seedv))
					gv := (&valueGen{r: s1}).value(depth)
					ref := (&valueGen{r: s2}).value(depth)
					data := map[string]any{"v": gv.goVal, "other": 1}
					refData := map[string]any{"v": ref.goVal, "other": 1}
					desc := fmt.Sprintf("%T %s", gv.goVal, gv.view.Describe())
					if gv.unsupported {
						desc = fmt.Sprintf("%T (holds an unsupported value)", gv.goVal)
					}
					if i < 4 {
						c.Sample(map[string]any{"value": clipS(desc, 300)})
					}
					if gv.unsupported {
						c.Count("values_with_unsupported_kind", 1)
						// under any top-level name, with any template: the call must fail
						key := c12TopKeys[c.Rng.Intn(len(c12TopKeys))]
						src := c12BlindTemplates[c.Rng.Intn(len(c12BlindTemplates))]
						bad := map[string]any{key: gv.goVal, "other": 1}
						c.Input(map[string]any{"source": src, "data": desc, "top_level_name": key})
						got := evalString(c, src, bad)
						c.Nontrivial("unsupported:" + key + "|" + src + "|" + desc)
						if !got.Failed() {
							c.Violation("unsupported-accepted", fmt.Sprintf("a value of an unsupported kind under the top-level name %q was accepted by the template %q", key, src), map[string]any{"data": desc})
						}
						// the same through a file
						if i%4 == 0 {
							if err := os.WriteFile("c12blind.tw", []byte(src), 0o644); err == nil {
								var ferr error
								c.Eval(1)
								if !c.Guard(func() { _, ferr = textwire.EvaluateFile("c12blind.tw", bad) }) && ferr == nil {
									c.Violation("unsupported-accepted", fmt.Sprintf("EvaluateFile accepted a value of an unsupported kind under the top-level name %q (file content %q)", key, src), map[string]any{"data": desc})
								}
								os.Remove("c12blind.tw")
							}
						}
						return
					}
					// a supported value under a name no template can spell changes nothing
					if i%8 == 0 {
						key := c12TopKeys[3+c.Rng.Intn(len(c12TopKeys)-3)]
						if got := evalString(c, "ok{{ other }}", map[string]any{key: gv.goVal, "other": 1}); !got.Panicked && (got.Err != nil || got.Out != "ok1") {
							c.Violation("unreachable-name-rejected", fmt.Sprintf("a supported value under the top-level name %q gave %s", key, got.Describe()), map[string]any{"data": desc})
						}
					}
					paths := pathsInto(c.Rng, "v", gv.view, gv.hiddenNames)
					allPaths := append([]accessPath{}, paths...)
					if len(paths) > 24 {
						c.Rng.Shuffle(len(paths), func(a, b int) { paths[a], paths[b] = paths[b], paths[a] })
						paths = paths[:24]
					}
					for _, p := range paths {
						src := "\x01{{ " + p.src + " }}\x02"
						c.Input(map[string]any{"source": src, "data": desc})
						got := evalString(c, src, data)
						c.Nontrivial(p.src + "|" + desc)
						if got.Panicked {
							continue
						}
						switch {
						case p.fail && got.Err == nil:
							c.Violation("reachable:"+pathKind(p.src), fmt.Sprintf("%s must not be reachable but rendered %q", p.src, got.Out), map[string]any{"path": p.src, "data": desc})
						case !p.fail && got.Err != nil:
							c.Violation("unreachable:"+pathKind(p.src), fmt.Sprintf("%s must give %q but failed: %s", p.src, p.want.Print(), ErrMessage(got.Err)), map[string]any{"path": p.src, "data": desc})
						case !p.fail && got.Out != "\x01"+p.want.Print()+"\x02":
							c.Violation("wrong-leaf:"+p.want.K.String(), fmt.Sprintf("%s rendered %q, the Go value holds %q", p.src, got.Out, p.want.Print()), map[string]any{"path": p.src, "data": desc})
						}
					}
					// arrays inside the data after built-ins that look mutating ran on them in the same render:
					// every position still shows what the Go value holds
					for _, p := range allPaths {
						if p.arr == nil || len(p.arr.A) < 2 {
							continue
						}
						a := strings.TrimSuffix(p.src, ".len()")
						p.want = *p.arr
						pre := "{{ " + a + ".shuffle().len() }}{{ " + a + ".slice(0, 1).append(\"<x>\").len() }}{{ " + a + ".reverse().len() }}{{ " + a + ".prepend(0).len() }}{{ " + a + ".slice(1).prepend(1).len() }}{{ " + a + ".append(1).append(2).len() }}"
						src := pre + "\x01{{ " + a + " }}\x02"
						c.Input(map[string]any{"source": src, "data": desc})
						got := evalString(c, src, data)
						c.Nontrivial("after-builtins|" + a + "|" + desc)
						if got.Panicked {
							continue
						}
						if i1 := strings.Index(got.Out, "\x01"); got.Err != nil || i1 < 0 || got.Out[i1:] != "\x01"+p.want.Print()+"\x02" {
							c.Violation("array-changed-by-builtins", fmt.Sprintf("after shuffle/slice+append/reverse/prepend on %s it renders %s, the Go value holds %q", a, got.Describe(), p.want.Print()), map[string]any{"path": a, "data": desc})
						}
						break
					}
					// numbers inside the data after the postfix operators were applied to them in the same render
					nNum := 0
					for _, p := range allPaths {
						if p.fail || p.arr != nil || (p.want.K != model.KFloat && p.want.K != model.KInt) || strings.HasSuffix(p.src, ")") || nNum >= 3 {
							continue
						}
						nNum++
						src := "{{ " + p.src + "-- }}{{ " + p.src + "++ }}{{ (" + p.src + ")-- }}\x01{{ " + p.src + " }}\x02"
						c.Input(map[string]any{"source": src, "data": desc})
						got := evalString(c, src, data)
						c.Nontrivial("after-postfix|" + p.src + "|" + desc)
						if got.Panicked {
							continue
						}
						if i1 := strings.Index(got.Out, "\x01"); got.Err != nil || i1 < 0 || got.Out[i1:] != "\x01"+p.want.Print()+"\x02" {
							c.Violation("number-changed-by-postfix", fmt.Sprintf("after -- and ++ on %s it renders %s, the Go value holds %q", p.src, got.Describe(), p.want.Print()), map[string]any{"path": p.src, "data": desc})
						}
					}
					// the data is still what the caller passed when a component argument list names it next to
					// arguments of the same names
					if i%16 == 0 {
						files := map[string]string{"components/card.tw": "[{{ label }}|{{ title }}|{{ zed }}]", "page.tw": "@component(\"~card\", {label: \"arg\", title: label, zed: other})"}
						if tpl, err := loadTree(c, "c12tree", files, ".tw"); err == nil && tpl != nil {
							if o, _ := renderPage(c, tpl, "page", map[string]any{"v": gv.goVal, "label": "from Go data", "other": 1}); !o.Panicked && (o.Err != nil || o.Out != "[arg|from Go data|1]") {
								c.Violation("data-shadowed-by-argument", fmt.Sprintf("component arguments {label: \"arg\", title: label, zed: other} with data label = \"from Go data\" rendered %s", o.Describe()), map[string]any{"files": describeFiles(files)})
							}
						}
					}
					// the whole value through functions that look mutating, then immutability
					for _, src := range []string{"{{ v }}", "@dump(v)", "@each(e in v){{ e }}@end", "{{ v.reverse().append(1) }}", "{{ x = v }}{{ x = v }}"} {
						c.Input(map[string]any{"source": src, "data": desc})
						evalString(c, src, data)
					}
					if !reflect.DeepEqual(data, refData) {
						c.Violation("data-modified", "the caller's data was modified by rendering", map[string]any{"data": desc})
					}
				}}}
		},
	})
}

func pathKind(p string) string {
	switch {
	case strings.Contains(p, "noSuch"):
		return "missing-name"
	case strings.Contains(p, "."):
		return "dot"
	}
	return "index"
}

// two different struct types that share package and name
func c12LocalRowA() any {
	type row struct {
		Name string
		Age  int
	}
	return row{Name: "Ann", Age: 30}
}

func c12LocalRowB() any {
	type row struct {
		Age  int
		City string
		Name string
	}
	return &row{Name: "Bob", Age: 41, City: "Ulm"}
}
