package checks

import (
	"fmt"
	"strings"

	"github.com/textwire/textwire/v2/lexer"
	"github.com/textwire/textwire/v2/token"
)

// posTable maps byte offsets of a source to zero-based (line, byte column)
// and back; it is built without looking at the lexer.
type posTable struct {
	src       string
	lineStart []int // offset of the first byte of each line
}

func newPosTable(src string) *posTable {
	t := &posTable{src: src, lineStart: []int{0}}
	for i := 0; i < len(src); i++ {
		if src[i] == '\n' {
			t.lineStart = append(t.lineStart, i+1)
		}
	}
	return t
}

// pos returns the position of offset off, 0 <= off <= len(src); the
// position of len(src) is "just past the last byte"
func (t *posTable) pos(off int) (line, col uint) {
	lo, hi := 0, len(t.lineStart)-1
	for lo < hi {
		mid := (lo + hi + 1) / 2
		if t.lineStart[mid] <= off {
			lo = mid
		} else {
			hi = mid - 1
		}
	}
	return uint(lo), uint(off - t.lineStart[lo])
}

// offset returns the offset of (line, col) when a byte of the source
// (or the end position) lies there
func (t *posTable) offset(line, col uint) (int, bool) {
	if int(line) >= len(t.lineStart) {
		return 0, false
	}
	off := t.lineStart[line] + int(col)
	end := len(t.src)
	if int(line)+1 < len(t.lineStart) {
		end = t.lineStart[line+1] - 1 // the newline byte belongs to the line
	}
	if off > end {
		return 0, false
	}
	return off, true
}

// gapOK reports whether gap consists of complete comments and, when
// allowWS is set, whitespace. A comment is "{{" followed by "--" and ends
// with the first "--}}" found from the byte after "{{" on (so "{{--}}"
// and "{{---}}" are complete comments).
func gapOK(gap string, allowWS bool) bool {
	i := 0
	for i < len(gap) {
		switch {
		case allowWS && (gap[i] == ' ' || gap[i] == '\t' || gap[i] == '\r' || gap[i] == '\n'):
			i++
		case strings.HasPrefix(gap[i:], "{{--"):
			end := strings.Index(gap[i+2:], "--}}")
			if end < 0 {
				return false
			}
			i += 2 + end + 4
		default:
			return false
		}
	}
	return true
}

func tokName(t token.TokenType) string { return fmt.Sprintf("token#%d", int(t)) }

// directive keywords, longest first; taken from the property statement
var directiveWords = []string{"@continueIf", "@component", "@continue", "@reserve", "@breakIf", "@elseif", "@insert",
	"@break", "@else", "@each", "@slot", "@dump", "@end", "@for", "@use", "@if"}

func startsWithDirective(s string) bool {
	for _, d := range directiveWords {
		if strings.HasPrefix(s, d) {
			return true
		}
	}
	return false
}

// removeEscapes is the text model of C05: a backslash immediately before
// "{{" or before a directive keyword is dropped
func removeEscapes(text string) string {
	var sb strings.Builder
	for i := 0; i < len(text); i++ {
		if text[i] == '\\' && i+1 < len(text) {
			rest := text[i+1:]
			if strings.HasPrefix(rest, "{{") || startsWithDirective(rest) {
				continue
			}
		}
		sb.WriteByte(text[i])
	}
	return sb.String()
}

type lexedToken struct {
	Tok        token.Token
	Start, End int  // byte offsets, End inclusive; -1 when not resolvable
	HTMLBefore bool // lexer was in text mode before producing this token
}

type tilingResult struct {
	Tokens               []lexedToken
	Problems             []string // each "kind: detail"
	Illegal              bool     // the stream ended with an ILLEGAL token
	Cursors              int      // cursor positions checked
	CounterDisagreements int      // internal line/col counters (hook) that disagree with the table
}

func (r *tilingResult) addf(kind, format string, a ...any) {
	if len(r.Problems) < 8 {
		r.Problems = append(r.Problems, kind+": "+fmt.Sprintf(format, a...))
	}
}

// checkTiling lexes src with a bare lexer and asserts the C19 invariants
// on the token stream. withCursors additionally evaluates
// Position.Contains for every (line, column) of the input.
func checkTiling(src string, withCursors bool) *tilingResult {
	res := &tilingResult{}
	tab := newPosTable(src)
	lx := lexer.New(src)
	limit := len(src) + 2
	prevEnd := -1
	prevPos := -1
	for n := 0; ; n++ {
		if n > limit {
			res.addf("progress", "more than len(src)+2 tokens before the end of input")
			return res
		}
		before := lx.VerifState()
		tok := lx.NextToken()
		after := lx.VerifState()
		lt := lexedToken{Tok: tok, Start: -1, End: -1, HTMLBefore: before.IsHTML}

		if tok.Type == token.EOF {
			el, ec := tab.pos(len(src))
			if tok.Pos.StartLine != el || tok.Pos.StartCol != ec || tok.Pos.EndLine != el || tok.Pos.EndCol != ec {
				res.addf("eof-position", "EOF at %d:%d-%d:%d, want %d:%d (just past the last byte)",
					tok.Pos.StartLine, tok.Pos.StartCol, tok.Pos.EndLine, tok.Pos.EndCol, el, ec)
			}
			gap := src[prevEnd+1:]
			if !gapOK(gap, true) {
				res.addf("gap", "bytes %q before EOF belong to no token", gap)
			}
			lt.Start, lt.End = len(src), len(src)
			res.Tokens = append(res.Tokens, lt)
			break
		}

		s, okS := tab.offset(tok.Pos.StartLine, tok.Pos.StartCol)
		e, okE := tab.offset(tok.Pos.EndLine, tok.Pos.EndCol)
		if !okS || !okE || s >= len(src) || e >= len(src) {
			res.addf("position-outside", "%s %q at %d:%d-%d:%d is not inside the source", tokName(tok.Type), tok.Literal,
				tok.Pos.StartLine, tok.Pos.StartCol, tok.Pos.EndLine, tok.Pos.EndCol)
			res.Tokens = append(res.Tokens, lt)
			if tok.Type == token.ILLEGAL {
				res.Illegal = true
				break
			}
			continue
		}
		lt.Start, lt.End = s, e
		res.Tokens = append(res.Tokens, lt)
		if e < s {
			res.addf("end-before-start", "%s %q at %d:%d-%d:%d", tokName(tok.Type), tok.Literal,
				tok.Pos.StartLine, tok.Pos.StartCol, tok.Pos.EndLine, tok.Pos.EndCol)
		} else {
			if s <= prevEnd {
				res.addf("overlap", "%s %q starts at offset %d, previous token ended at %d", tokName(tok.Type), tok.Literal, s, prevEnd)
			} else {
				gap := src[prevEnd+1 : s]
				if before.IsHTML {
					if !gapOK(gap, false) {
						res.addf("gap", "text bytes %q before %s %q belong to no token", gap, tokName(tok.Type), tok.Literal)
					}
				} else if !gapOK(gap, true) {
					res.addf("gap", "bytes %q before %s %q belong to no token", gap, tokName(tok.Type), tok.Literal)
				}
			}
			text := src[s : e+1]
			if why := tokenTextMismatch(tok, text); why != "" {
				res.addf("text", "%s", why)
			}
			prevEnd = e
		}

		if tok.Type == token.ILLEGAL {
			res.Illegal = true
			// an unterminated comment or string runs to the end of the input: the lexer has consumed everything
			// and the end-of-input token follows, just past the last byte
			if after.Pos >= len(src) {
				if eof := lx.NextToken(); eof.Type == token.EOF {
					el, ec := tab.pos(len(src))
					if eof.Pos.StartLine != el || eof.Pos.StartCol != ec || eof.Pos.EndLine != el || eof.Pos.EndCol != ec {
						res.addf("eof-position", "EOF (after the unterminated %q) at %d:%d-%d:%d, want %d:%d (just past the last byte)", tok.Literal,
							eof.Pos.StartLine, eof.Pos.StartCol, eof.Pos.EndLine, eof.Pos.EndCol, el, ec)
					}
				}
			}
			break
		}
		// logical progress: the lexer must have consumed input
		if after.Pos <= prevPos && after.Pos <= len(src) {
			res.addf("progress", "lexer position did not advance (%d) after %s %q", after.Pos, tokName(tok.Type), tok.Literal)
			return res
		}
		prevPos = after.Pos
		// internal counters must agree with the independent table
		if after.Pos <= len(src) {
			l, c := tab.pos(after.Pos)
			if after.Line != l || after.Col != c {
				// evidence only: what the property fixes are the positions of the tokens, checked above
				res.CounterDisagreements++
			}
		}
	}

	if withCursors && len(res.Problems) == 0 {
		res.checkCursors(src, tab)
	}
	return res
}

func tokenTextMismatch(tok token.Token, text string) string {
	switch tok.Type {
	case token.HTML:
		if removeEscapes(text) != tok.Literal {
			return fmt.Sprintf("text token covers %q but its literal is %q", text, tok.Literal)
		}
	case token.STR:
		if len(text) < 2 || (text[0] != '"' && text[0] != '\'') || text[len(text)-1] != text[0] {
			return fmt.Sprintf("string token covers %q which is not a quoted string", text)
		}
		q := string(text[0])
		raw := text[1 : len(text)-1]
		for i := 0; i < len(raw); i++ {
			if raw[i] == text[0] && (i == 0 || raw[i-1] != '\\') {
				return fmt.Sprintf("string token covers %q: closing quote inside", text)
			}
		}
		if strings.ReplaceAll(raw, "\\"+q, q) != tok.Literal {
			return fmt.Sprintf("string token covers %q but its literal is %q", text, tok.Literal)
		}
	case token.ILLEGAL:
		if len(text) == 1 {
			if tok.Literal != string(rune(text[0])) {
				return fmt.Sprintf("illegal token covers %q but its literal is %q", text, tok.Literal)
			}
		} else if text != tok.Literal {
			return fmt.Sprintf("illegal token covers %q but its literal is %q", text, tok.Literal)
		}
	default:
		if text != tok.Literal {
			return fmt.Sprintf("%s token covers %q but its literal is %q", tokName(tok.Type), text, tok.Literal)
		}
	}
	return ""
}

// checkCursors evaluates Position.Contains of every token for every
// (line, column) of the source, one column past each line and one line
// past the end: a byte covered by a token must be contained in exactly
// that token, any other position in at most one token.
func (r *tilingResult) checkCursors(src string, tab *posTable) {
	cover := make([]int, len(src)+1) // offset -> token index or -1
	for i := range cover {
		cover[i] = -1
	}
	for ti, lt := range r.Tokens {
		if lt.Start < 0 || lt.End < lt.Start {
			continue
		}
		if lt.Tok.Type == token.EOF {
			continue
		}
		for o := lt.Start; o <= lt.End && o < len(src); o++ {
			cover[o] = ti
		}
	}
	probe := func(line, col uint, want int, real bool) {
		r.Cursors++
		var in []int
		for ti, lt := range r.Tokens {
			if lt.Tok.Pos.Contains(line, col) {
				in = append(in, ti)
			}
		}
		if real {
			if want >= 0 {
				if len(in) != 1 || in[0] != want {
					r.addf("cursor", "cursor %d:%d is inside tokens %v, want exactly token %d (%q)", line, col, in, want, r.Tokens[want].Tok.Literal)
				}
			} else if len(in) > 0 {
				r.addf("cursor", "cursor %d:%d lies in a gap but is inside tokens %v", line, col, in)
			}
		} else if len(in) > 1 {
			r.addf("cursor", "cursor %d:%d (no byte there) is inside %d tokens %v", line, col, len(in), in)
		}
	}
	// every position when that is affordable (each probe asks every token), an even sample otherwise
	stride := 1
	if cost := len(r.Tokens) * (len(src) + 1); cost > 100_000_000 {
		stride = cost/100_000_000 + 1
	}
	for line := 0; line < len(tab.lineStart); line++ {
		start := tab.lineStart[line]
		end := len(src)
		if line+1 < len(tab.lineStart) {
			end = tab.lineStart[line+1]
		}
		if stride > 1 && line%stride != 0 && end-start < stride {
			continue
		}
		for off := start; off < end; off++ {
			if stride > 1 && off%stride != 0 && off != start && off != end-1 {
				continue
			}
			probe(uint(line), uint(off-start), cover[off], true)
		}
		probe(uint(line), uint(end-start), -1, false)
		probe(uint(line), uint(end-start+1), -1, false)
	}
	probe(uint(len(tab.lineStart)), 0, -1, false)
}
