package checks

import (
	"fmt"
	"math"
	"os"
	"reflect"
	"strings"
	"unicode/utf8"

	textwire "github.com/textwire/textwire/v2"
	"github.com/textwire/textwire/v2/config"

	"verif/core"
	"verif/model"
)

// C20 — custom functions: unique registration, faithful argument/result conversion.

type cfCall struct {
	fn   int
	recv any
	args []any
}

var cfLog []cfCall

var cfTypes = []string{"str", "arr", "int", "float", "bool"}
var cfTypeWords = map[string]string{"str": "STRING", "arr": "ARRAY", "int": "INTEGER", "float": "FLOAT", "bool": "BOOLEAN"}

// a built-in name per type (a built-in takes precedence over a custom function of that name)
var cfBuiltinName = map[string]string{"str": "len", "arr": "len", "int": "abs", "float": "abs", "bool": "binary"}

func cfNames(t string) []string { return []string{"f", "g", cfBuiltinName[t]} }

// registerCF registers function number id for a type; every function bakes
// its id into its result and logs its call
func registerCF(t, name string, id int) error {
	switch t {
	case "str":
		return textwire.RegisterStrFunc(name, func(s string, args ...any) string {
			cfLog = append(cfLog, cfCall{id, s, args})
			return fmt.Sprintf("%s#%d", s, id)
		})
	case "arr":
		return textwire.RegisterArrFunc(name, func(a []any, args ...any) []any {
			cfLog = append(cfLog, cfCall{id, a, args})
			return append(append([]any{}, a...), fmt.Sprintf("#%d", id))
		})
	case "int":
		return textwire.RegisterIntFunc(name, func(i int, args ...any) int {
			cfLog = append(cfLog, cfCall{id, i, args})
			return i*1000 + id
		})
	case "float":
		return textwire.RegisterFloatFunc(name, func(f float64, args ...any) float64 {
			cfLog = append(cfLog, cfCall{id, f, args})
			return f + float64(id)*1000
		})
	default:
		return textwire.RegisterBoolFunc(name, func(b bool, args ...any) bool {
			cfLog = append(cfLog, cfCall{id, b, args})
			return !b
		})
	}
}

// receiver per type: source text, data value, and the expected result of function id
var cfRecv = map[string]struct {
	lit     string
	data    any
	result  func(id int) string
	builtin string // result of the built-in of cfBuiltinName on this receiver
}{
	"str":   {`"ab"`, "ab", func(id int) string { return fmt.Sprintf("ab#%d", id) }, "2"},
	"arr":   {`[1, 2]`, []any{1, 2}, func(id int) string { return fmt.Sprintf("1, 2, #%d", id) }, "2"},
	"int":   {`7`, 7, func(id int) string { return fmt.Sprint(7000 + id) }, "7"},
	"float": {`1.5`, 1.5, func(id int) string { return model.FormatFloat(1.5 + float64(id)*1000) }, "1.5"},
	"bool":  {`true`, true, func(id int) string { return "0" }, "1"},
}

type cfSym struct {
	kind  int // 0 register, 1 call on literal, 2 call on variable, 3 load templates, 4 call inside a loaded template
	typ   string
	name  string
	label string
}

var cfAlphabet = func() []cfSym {
	var out []cfSym
	for _, t := range cfTypes {
		for _, n := range cfNames(t) {
			out = append(out, cfSym{0, t, n, fmt.Sprintf("Register(%s, %s)", t, n)})
			out = append(out, cfSym{1, t, n, fmt.Sprintf("Call(%s literal, %s)", t, n)})
			out = append(out, cfSym{2, t, n, fmt.Sprintf("Call(%s variable, %s)", t, n)})
			out = append(out, cfSym{4, t, n, fmt.Sprintf("CallInTemplate(%s, %s)", t, n)})
		}
	}
	return append(out, cfSym{3, "", "", "LoadTemplates"})
}()

// runRegistryHistory replays a history against the real registry and the model
func runRegistryHistory(c *core.Ctx, seq []cfSym) {
	textwire.VerifReset()
	model_ := map[string]int{} // type.name -> id of the first registered function
	var tpl *textwire.Template
	var labels []string
	for _, s := range seq {
		labels = append(labels, s.label)
	}
	desc := map[string]any{"history": labels}
	c.Input(desc)
	c.Nontrivial(strings.Join(labels, ";"))
	nextID := 1
	for step, s := range seq {
		key := s.typ + "." + s.name
		sig := fmt.Sprintf("registry:%d", s.kind)
		switch s.kind {
		case 0:
			id := nextID
			nextID++
			var err error
			c.Eval(1)
			if c.Guard(func() { err = registerCF(s.typ, s.name, id) }) {
				return
			}
			_, taken := model_[key]
			if taken && err == nil {
				c.Violation(sig+":second-registration-accepted", fmt.Sprintf("step %d %s succeeded although the name was already registered for that type", step+1, s.label), desc)
				return
			}
			if !taken && err != nil {
				c.Violation(sig+":first-registration-rejected", fmt.Sprintf("step %d %s failed: %v", step+1, s.label, err), desc)
				return
			}
			if taken && !(strings.Contains(err.Error(), s.name)) {
				c.Violation(sig+":error-text", fmt.Sprintf("the duplicate-registration error does not name the function: %v", err), desc)
			}
			if !taken {
				model_[key] = id
			}
		case 1, 2, 4:
			rv := cfRecv[s.typ]
			src := "<{{ " + rv.lit + "." + s.name + "() }}>"
			data := map[string]any{}
			if s.kind != 1 {
				src = "<{{ rcv." + s.name + "() }}>"
				data["rcv"] = rv.data
			}
			var got Outcome
			if s.kind == 4 {
				if tpl == nil {
					continue // nothing loaded yet at this point of the history
				}
				// the page calls the function; the file is rewritten and the tree reloaded is not wanted:
				// the page text is fixed per (type, name) and was written before loading
				got, _ = renderPage(c, tpl, "call_"+s.typ+"_"+s.name, data)
			} else {
				got = evalString(c, src, data)
			}
			if got.Panicked {
				return
			}
			id, registered := model_[key]
			isBuiltin := s.name == cfBuiltinName[s.typ]
			switch {
			case isBuiltin:
				if got.Err != nil || got.Out != "<"+rv.builtin+">" {
					c.Violation(sig+":builtin-shadowed", fmt.Sprintf("step %d %s: the built-in must win, got %s", step+1, s.label, got.Describe()), desc)
					return
				}
			case registered:
				if got.Err != nil || got.Out != "<"+rv.result(id)+">" {
					c.Violation(sig+":wrong-function", fmt.Sprintf("step %d %s: expected the result of function #%d (%q), got %s", step+1, s.label, id, rv.result(id), got.Describe()), desc)
					return
				}
			default:
				if got.Err == nil {
					c.Violation(sig+":unregistered-call-succeeded", fmt.Sprintf("step %d %s rendered %q although nothing is registered", step+1, s.label, got.Out), desc)
					return
				}
				msg := ErrMessage(got.Err)
				if !strings.Contains(msg, "'"+s.name+"'") || !strings.Contains(msg, cfTypeWords[s.typ]) {
					c.Violation(sig+":unregistered-error-text", fmt.Sprintf("the error for an unregistered call does not name function and receiver type: %q", msg), desc)
				}
			}
		case 3:
			files := map[string]string{}
			for _, t := range cfTypes {
				for _, n := range cfNames(t) {
					files["call_"+t+"_"+n+".tw"] = "<{{ rcv." + n + "() }}>"
				}
			}
			dir := "c20dir"
			if _, err := os.Stat(dir); err != nil {
				if err := writeFiles(dir, files); err != nil {
					c.Inconclusive(err.Error())
					return
				}
			}
			textwire.VerifResetConfig()
			var err error
			c.Eval(1)
			if c.Guard(func() { tpl, err = textwire.NewTemplate(&config.Config{TemplateDir: dir, TemplateExt: ".tw"}) }) {
				return
			}
			if err != nil {
				c.Violation(sig+":load-failed", "loading templates failed: "+err.Error(), desc)
				return
			}
		}
		c.Count("history_steps_checked", 1)
	}
}

// ---- argument / receiver / result conversion ----

var cfStrings = []string{"", "a", "plain text", "héllo", "中", "x y z", "0", "line\nbreak"}

// strings with HTML-special characters only travel through the data map or
// come back as results (a literal would be escaped, which is C10's business)
var cfSpecialStrings = []string{"<b>bold</b>", "a & b", "\"quoted\" 'single'", "&lt;already&gt;", "1 < 2 > 0",
	// bytes that are not UTF-8: the function receives them as they are
	"caf\xe9", "\xff\xfe", "a\xc3", "\x80 mid \xe2\x82",
	// character references as they are: the function receives the text, not what it stands for
	"it&#39;s &#34;here&#34;", "&amp;#39;", "&#x27; &apos; &quot;", "AT&amp;T", "&#60;b&#62;"}

func hasSpecial(v model.Value) bool {
	switch v.K {
	case model.KStr:
		return strings.ContainsAny(v.S, "<>&\"'\n") || !utf8.ValidString(v.S)
	case model.KArr:
		for _, e := range v.A {
			if hasSpecial(e) {
				return true
			}
		}
	case model.KObj:
		for _, e := range v.O {
			if hasSpecial(e) {
				return true
			}
		}
	}
	return false
}

// cfValue generates a value that template literals and data can express
func cfValue(r interface{ Intn(int) int }, depth int) model.Value {
	if depth <= 0 || r.Intn(3) == 0 {
		switch r.Intn(6) {
		case 0:
			return model.Int([]int64{0, 1, -1, 42, 9223372036854775807, -9223372036854775807 - 1}[r.Intn(6)])
		case 1:
			return model.Float([]float64{0, 0.5, -1.25, 3.0, 1e6 + 0.5, math.Copysign(0, -1)}[r.Intn(6)])
		case 2:
			return model.Bool(r.Intn(2) == 0)
		case 3:
			return model.Nil
		default:
			if r.Intn(4) == 0 {
				return model.Str(cfSpecialStrings[r.Intn(len(cfSpecialStrings))])
			}
			return model.Str(cfStrings[r.Intn(len(cfStrings))])
		}
	}
	if r.Intn(2) == 0 {
		n := r.Intn(4)
		el := make([]model.Value, n)
		for i := range el {
			el[i] = cfValue(r, depth-1)
		}
		return model.Arr(el...)
	}
	o := map[string]model.Value{}
	for _, k := range []string{"a", "b", "Key", "n"}[:r.Intn(4)] {
		o[k] = cfValue(r, depth-1)
	}
	return model.Obj(o)
}

// nativeOf is what a custom function must receive for a value: int64 for
// integers (int for an integer receiver), float64, string, bool, nil,
// []any, map[string]any
func nativeOf(v model.Value) any {
	switch v.K {
	case model.KArr:
		out := []any(nil)
		for _, e := range v.A {
			out = append(out, nativeOf(e))
		}
		return out
	case model.KObj:
		out := map[string]any{}
		for k, e := range v.O {
			out[k] = nativeOf(e)
		}
		return out
	}
	return v.Native()
}

func sameNative(a, b any) bool {
	// an empty []any may arrive as nil or as an empty slice
	if as, ok := a.([]any); ok {
		bs, ok := b.([]any)
		if !ok || len(as) != len(bs) {
			return false
		}
		for i := range as {
			if !sameNative(as[i], bs[i]) {
				return false
			}
		}
		return true
	}
	if am, ok := a.(map[string]any); ok {
		bm, ok := b.(map[string]any)
		if !ok || len(am) != len(bm) {
			return false
		}
		for k := range am {
			if !sameNative(am[k], bm[k]) {
				return false
			}
		}
		return true
	}
	// a zero keeps its sign (the two zeros print differently)
	if af, ok := a.(float64); ok {
		bf, ok := b.(float64)
		return ok && (af == bf && math.Signbit(af) == math.Signbit(bf) || af != af && bf != bf)
	}
	return reflect.DeepEqual(a, b)
}

var cfResult any // what the conversion functions return next

func registerConversionFuncs() {
	textwire.VerifReset()
	textwire.RegisterStrFunc("rec", func(s string, args ...any) string { cfLog = append(cfLog, cfCall{0, s, args}); return s })
	textwire.RegisterArrFunc("rec", func(a []any, args ...any) []any { cfLog = append(cfLog, cfCall{0, a, args}); return a })
	textwire.RegisterIntFunc("rec", func(i int, args ...any) int { cfLog = append(cfLog, cfCall{0, i, args}); return i })
	textwire.RegisterFloatFunc("rec", func(f float64, args ...any) float64 { cfLog = append(cfLog, cfCall{0, f, args}); return f })
	textwire.RegisterBoolFunc("rec", func(b bool, args ...any) bool { cfLog = append(cfLog, cfCall{0, b, args}); return b })
	textwire.RegisterStrFunc("give", func(s string, args ...any) string { return cfResult.(string) })
	textwire.RegisterArrFunc("give", func(a []any, args ...any) []any { return cfResult.([]any) })
	textwire.RegisterIntFunc("give", func(i int, args ...any) int { return cfResult.(int) })
	textwire.RegisterFloatFunc("give", func(f float64, args ...any) float64 { return cfResult.(float64) })
	textwire.RegisterBoolFunc("give", func(b bool, args ...any) bool { return cfResult.(bool) })
}

func init() {
	core.Register(&core.Check{
		ID:    "C20",
		Level: "exploration",
		Rule:  "histories are all sequences (up to a length bound, random longer ones) over {Register(type, name), Call on a literal, Call on a variable, CallInsideTemplate for 5 receiver types x names {f, g, a built-in name of that type}; LoadTemplates}, each replayed from the verif reset hook against a 20-line registry model: every registered function bakes a unique id into its result, so a call reveals which function is bound; conversion cases call a recording function with generated receivers and up to 3 arguments (integers incl. the 64-bit extremes, floats, strings, booleans, nil, nested arrays and objects to depth 3, as literals and as data) and compare what the function received with the plain Go value of the same content, and render a function result next to the same Go value passed as data, printed and probed through the same access paths; a callee that overwrites every map and slice it receives, called repeatedly with the same variables (each call must receive the original content, the variables and the caller's data stay as they were); functions returning a nil or an empty slice, whose result is used as an array; registered functions called through EvaluateFile, Template.String and Response (page, insert block, component file, slot body). round 8: non-UTF-8 receivers, unregistered names through every entry point under three error-page configurations; round 9: keyword-cased function names; scale: 400 names per type, 64 arguments; rounds 10-11: character references, signed zero, non-UTF-8 literals; round 13: 45 more function names (underscores, reserved words of other languages, directive words); round 15: white space around the dot of a call; distinct_nontrivial = distinct histories and distinct conversion cases",
		Assumptions: []string{
			"strings with < > & \" ' travel through the data map or come back as results only (a literal would be escaped, which is C10's business); an empty array may reach a function as a nil or an empty []any, never as untyped nil",
			"the result of a function is limited by its Go signature (string, []any, int, float64, bool)",
		},
		Sections: func(tier core.Tier, seed int64) []core.Section {
			A := len(cfAlphabet)
			maxLen, nRandom, nConv := 3, 20000, 8000
			if tier == core.Thorough {
				maxLen, nRandom, nConv = 3, 2000000, 500000
			}
			var secs []core.Section
			for L := 1; L <= maxLen; L++ {
				L := L
				n := 1
				for k := 0; k < L; k++ {
					n *= A
				}
				secs = append(secs, core.Section{Name: fmt.Sprintf("histories-len%d", L), Exhaustive: true, N: n,
					Run: func(c *core.Ctx, i int) {
						seq := make([]cfSym, L)
						x := i
						for k := L - 1; k >= 0; k-- {
							seq[k] = cfAlphabet[x%A]
							x /= A
						}
						if i%1999 == 0 {
							var l []string
							for _, s := range seq {
								l = append(l, s.label)
							}
							c.Sample(map[string]any{"history": l})
						}
						runRegistryHistory(c, seq)
					}})
			}
			// longer histories, biased to one type so that registrations and calls collide
			secs = append(secs, core.Section{Name: "random-histories", N: nRandom,
				Run: func(c *core.Ctx, i int) {
					t := cfTypes[c.Rng.Intn(len(cfTypes))]
					var pool []cfSym
					for _, s := range cfAlphabet {
						if s.typ == t || s.typ == "" || c.Rng.Intn(6) == 0 {
							pool = append(pool, s)
						}
					}
					seq := make([]cfSym, 3+c.Rng.Intn(6))
					for k := range seq {
						seq[k] = pool[c.Rng.Intn(len(pool))]
					}
					runRegistryHistory(c, seq)
				}})
			// conversion of receiver, arguments and result
			secs = append(secs, core.Section{Name: "conversion", N: nConv,
				Run: func(c *core.Ctx, i int) {
					if c.State["conv"] == nil || i%50 == 0 {
						registerConversionFuncs()
						c.State["conv"] = true
					}
					conversionCase(c, i)
				}})
			// many names per type and many arguments per call
			secs = append(secs, core.Section{Name: "many-names-and-arguments", Exhaustive: true, N: 5,
				Run: func(c *core.Ctx, i int) {
					textwire.VerifReset()
					c.State["conv"] = nil
					typ := []string{"string", "array", "int", "float", "bool"}[i]
					recvSrc := []string{`"r"`, "[1]", "7", "2.5", "true"}[i]
					const nNames = 400
					var got []any
					reg := func(name string, id int) error {
						switch i {
						case 0:
							return textwire.RegisterStrFunc(name, func(s string, a ...any) string { got = a; return fmt.Sprint("id", id) })
						case 1:
							return textwire.RegisterArrFunc(name, func(x []any, a ...any) []any { got = a; return []any{id} })
						case 2:
							return textwire.RegisterIntFunc(name, func(x int, a ...any) int { got = a; return id })
						case 3:
							return textwire.RegisterFloatFunc(name, func(x float64, a ...any) float64 { got = a; return float64(id) + 0.5 })
						default:
							return textwire.RegisterBoolFunc(name, func(x bool, a ...any) bool { got = a; return id%2 == 0 })
						}
					}
					want := func(id int) string {
						return []string{fmt.Sprint("id", id), fmt.Sprint(id), fmt.Sprint(id), fmt.Sprint(float64(id) + 0.5), map[bool]string{true: "1", false: "0"}[id%2 == 0]}[i]
					}
					c.Input(map[string]any{"type": typ, "names": nNames})
					c.Nontrivial("many-names:" + typ)
					for k := 0; k < nNames; k++ {
						if err := reg(fmt.Sprintf("fn%d", k), k); err != nil {
							c.Violation("registry:first-registration-refused", fmt.Sprintf("registering the %d-th %s function name failed: %v", k+1, typ, err), nil)
							return
						}
					}
					for k := 0; k < nNames; k++ {
						if err := reg(fmt.Sprintf("fn%d", k), 100000+k); err == nil {
							c.Violation("registry:second-registration-accepted", fmt.Sprintf("registering the %s function name fn%d a second time succeeded (%d names are registered)", typ, k, nNames), nil)
							return
						}
					}
					for _, k := range []int{0, 1, 15, 16, 17, 63, 64, 65, 127, 128, 255, 256, 399} {
						src := fmt.Sprintf("{{ %s.fn%d() }}", recvSrc, k)
						if g := evalString(c, src, nil); !g.Panicked && (g.Err != nil || g.Out != want(k)) {
							c.Violation("registry:wrong-function-bound", fmt.Sprintf("%s gave %s, want %q (the function registered first under that name)", src, g.Describe(), want(k)), map[string]any{"source": src})
							return
						}
					}
					// white space around the dot of a call, on literal and variable receivers
					for _, form := range []string{"{{ %s. fn5() }}", "{{ %s .fn5() }}", "{{ %s . fn5() }}", "{{ %s.\n\tfn5() }}", "{{ (%s). fn5() }}", "{{ v = %s }}{{ v. fn5() }}", "{{ v = %s }}{{ v\n.fn5() }}"} {
						src := fmt.Sprintf(form, recvSrc)
						if g := evalString(c, src, nil); !g.Panicked && (g.Err != nil || g.Out != want(5)) {
							c.Violation("registry:spaced-call", fmt.Sprintf("%q gave %s, want %q (the function registered as fn5)", src, g.Describe(), want(5)), map[string]any{"source": src})
							return
						}
					}
					// names that are keywords in another letter case are names like any other
					for _, name := range []string{"In", "Nil", "True", "False", "IN", "NIL", "tRUE", "fALSE", "iN", "nIl", "Inn", "trueish", "nilable", "If", "End", "Each", "Loop",
						// names that begin with or consist of underscores, and words that other languages reserve
						"_t", "_", "__html", "_2nd", "a_", "x9_y", "null", "none", "undefined", "and", "or", "not", "is", "as", "of", "this", "self", "var", "let", "func", "function", "return",
						"each", "if", "else", "elseif", "end", "for", "use", "insert", "reserve", "component", "slot", "dump", "break", "continue", "breakIf", "continueIf", "loop", "inn", "nill", "truth", "falsey"} {
						id := 7000 + len(name)*31 + int(name[0])
						before := evalString(c, fmt.Sprintf("{{ %s.%s(1) }}", recvSrc, name), nil)
						if before.Panicked {
							return
						}
						tname := []string{"STRING", "ARRAY", "INTEGER", "FLOAT", "BOOLEAN"}[i]
						if before.Err == nil || !strings.Contains(before.Err.Error(), name) || !strings.Contains(before.Err.Error(), tname) {
							c.Violation("conversion:unregistered-call-message", fmt.Sprintf("{{ %s.%s(1) }} before registration gave %s; want an error naming %q and %s", recvSrc, name, before.Describe(), name, tname), map[string]any{"name": name})
							return
						}
						if err := reg(name, id); err != nil {
							c.Violation("registry:first-registration-refused", fmt.Sprintf("registering the %s function name %q failed: %v", typ, name, err), nil)
							return
						}
						if err := reg(name, id+1); err == nil {
							c.Violation("registry:second-registration-accepted", fmt.Sprintf("registering the %s function name %q twice succeeded", typ, name), nil)
							return
						}
						for _, src := range []string{fmt.Sprintf("{{ %s.%s() }}", recvSrc, name), fmt.Sprintf("{{ v = %s }}{{ v.%s(1, 2) }}", recvSrc, name), fmt.Sprintf("@if(true){{ d.%s(nil) }}@end", name)} {
							if g := evalString(c, src, map[string]any{"d": []any{"r", []any{1}, 7, 2.5, true}[i]}); !g.Panicked && (g.Err != nil || g.Out != want(id)) {
								c.Violation("registry:keyword-cased-name", fmt.Sprintf("%s gave %s, want %q (the function registered as %q)", src, g.Describe(), want(id), name), map[string]any{"source": src})
								return
							}
						}
					}
					// 1..64 arguments arrive in order
					for _, n := range []int{1, 2, 3, 7, 8, 9, 15, 16, 17, 31, 32, 33, 64} {
						var parts []string
						for a := 0; a < n; a++ {
							parts = append(parts, []string{fmt.Sprint(a), fmt.Sprintf("\"s%d\"", a), fmt.Sprintf("%d.5", a), "nil", fmt.Sprintf("[%d]", a)}[a%5])
						}
						src := fmt.Sprintf("{{ %s.fn3(%s) }}", recvSrc, strings.Join(parts, ", "))
						got = nil
						g := evalString(c, src, nil)
						if g.Panicked {
							return
						}
						ok := g.Err == nil && len(got) == n
						for a := 0; ok && a < n; a++ {
							switch a % 5 {
							case 0:
								ok = sameNative(got[a], int64(a))
							case 1:
								ok = sameNative(got[a], fmt.Sprintf("s%d", a))
							case 2:
								ok = sameNative(got[a], float64(a)+0.5)
							case 3:
								ok = got[a] == nil
							default:
								ok = sameNative(got[a], []any{int64(a)})
							}
						}
						if !ok {
							c.Violation("conversion:many-arguments", fmt.Sprintf("a call with %d arguments gave %s and the function received %d arguments: %s", n, g.Describe(), len(got), clipS(fmt.Sprintf("%#v", got), 300)), map[string]any{"source": src})
							return
						}
					}
					textwire.VerifReset()
				}})
			// string literals whose bytes are not UTF-8 (a template saved in another encoding): the function receives the bytes
			badLits := []string{"caf\xe9", "\xff", "a\x80b", "\xe2\x82", "na\xefve \xfc", "ok é \xc3"}
			secs = append(secs, core.Section{Name: "literals-that-are-not-utf8", Exhaustive: true, N: len(badLits) * 2,
				Run: func(c *core.Ctx, i int) {
					registerConversionFuncs()
					c.State["conv"] = true
					lit := badLits[i/2]
					q := []string{"\"", "'"}[i%2]
					src := "{{ " + q + lit + q + ".rec(" + q + lit + q + ", [" + q + lit + q + ", 1]) }}|{{ v.rec(" + q + lit + q + ") }}"
					c.Input(map[string]any{"source": src})
					cfLog = cfLog[:0]
					got := evalString(c, src, map[string]any{"v": lit})
					c.Nontrivial(src)
					if got.Panicked {
						return
					}
					if got.Err != nil || len(cfLog) != 2 {
						c.Violation("conversion:call-failed", fmt.Sprintf("%q gave %s (the function ran %d times)", src, got.Describe(), len(cfLog)), map[string]any{"source": src})
						return
					}
					if !sameNative(cfLog[0].recv, lit) || len(cfLog[0].args) != 2 || !sameNative(cfLog[0].args[0], lit) || !sameNative(cfLog[0].args[1], []any{lit, int64(1)}) || !sameNative(cfLog[1].recv, lit) || !sameNative(cfLog[1].args[0], lit) {
						c.Violation("conversion:literal-bytes", fmt.Sprintf("the literal %q arrived as receiver %q with arguments %q; from the data as %q with %q", lit, cfLog[0].recv, cfLog[0].args, cfLog[1].recv, cfLog[1].args), map[string]any{"source": src})
					}
				}})
			secs = append(secs, core.Section{Name: "conversion-special", Exhaustive: true, N: len(mutTemplates) + 6 + len(argFaultCases) + len(zeroLiterals) + 5 + 1 + 5,
				Run: func(c *core.Ctx, i int) {
					registerConversionFuncs()
					registerMutators()
					textwire.RegisterStrFunc("nop", func(s string, args ...any) string { return s })
					textwire.RegisterArrFunc("nop", func(a []any, args ...any) []any { return a[:0] })
					c.State["conv"] = nil
					specialConversionCase(c, i)
				}})
			return secs
		},
	})
}

// mutateDeep changes every map and slice reachable from x in place, the
// way a careless callee might
func mutateDeep(x any) {
	switch t := x.(type) {
	case map[string]any:
		for k, v := range t {
			mutateDeep(v)
			delete(t, k)
		}
		t["seen"] = true
	case []any:
		for k, v := range t {
			mutateDeep(v)
			t[k] = "overwritten"
		}
	}
}

var cfSeen []string // what the mutating functions received, rendered before they mutate it

func registerMutators() {
	textwire.RegisterStrFunc("mut", func(s string, args ...any) string {
		cfSeen = append(cfSeen, fmt.Sprintf("%#v", args))
		for _, a := range args {
			mutateDeep(a)
		}
		return s
	})
	textwire.RegisterArrFunc("mut", func(a []any, args ...any) []any {
		cfSeen = append(cfSeen, fmt.Sprintf("%#v|%#v", a, args))
		mutateDeep(a)
		for _, x := range args {
			mutateDeep(x)
		}
		return a[:0]
	})
}

var argFaultCases = []string{
	`{{ "a".rec(1, 2.nosuchfn()) }}`, `{{ "a".rec(2.nosuchfn(), 1) }}`, `{{ "a".rec(1, 2, 3.nosuchfn()) }}`, `{{ "a".rec([1, 2.nosuchfn()]) }}`, `{{ "a".rec({k: 2.nosuchfn()}) }}`,
	`{{ [1, 2].rec("x", 2.nosuchfn()) }}`, `{{ [1, 2.nosuchfn()].rec() }}`, `{{ 7.rec(v, 2.nosuchfn()) }}`, `{{ true.rec(nil, 1.5, 2.nosuchfn()) }}`, `{{ 2.5.rec("s", [v, 2.nosuchfn()]) }}`,
	`@each(k in [1, 2]){{ v.rec(k, 2.nosuchfn()) }}@end`,
}

var zeroLiterals = []struct {
	lit string
	val int64
}{{"010", 10}, {"0100", 100}, {"012", 12}, {"08", 8}, {"09", 9}, {"007", 7}, {"00", 0}, {"0030", 30}, {"0777", 777}, {"0000000019", 19}}

var mutTemplates = []struct {
	src   string
	sites int  // call sites, evaluated round-robin
	same  bool // every call of a site passes the same variables, so it must receive the same content
}{
	{`{{ "a".mut(user) }}|{{ "b".mut(user) }}|{{ user }}`, 1, true},
	{`@each(k in [1, 2, 3]){{ "a".mut(user, rows) }}@end{{ user }}{{ rows }}`, 1, true},
	{`{{ o = {a: 1, b: [1, {c: 2}]} }}{{ "a".mut(o) }}{{ "a".mut(o) }}{{ o }}`, 1, true},
	{`{{ rows.mut(user) }}{{ rows.mut(user) }}{{ rows }}{{ user }}`, 1, true},
	{`@for(k = 0; k < 3; k++){{ rows.mut() }}{{ user.tags.mut(user.meta) }}@end{{ rows }}{{ user }}`, 2, true},
	{`{{ x = [user, user] }}{{ "a".mut(x) }}{{ "a".mut(x) }}{{ "a".mut(x[0], x[1]) }}{{ x }}`, 1, false},
	// empty objects and arrays: every one is a fresh, empty value for the callee, also after an earlier callee filled its copy
	{`{{ "a".mut({}) }}{{ "b".mut({}) }}{{ "c".mut({}) }}`, 1, true},
	{`{{ "c".mut({}, [], {}) }}{{ "d".mut({}, [], {}) }}`, 1, true},
	{`@each(k in [1, 2, 3]){{ "a".mut({}, [{}], emptyobj) }}@end{{ emptyobj }}`, 1, true},
	{`{{ e = {} }}{{ [e, {}].mut(e) }}{{ [e, {}].mut(e) }}{{ e }}`, 1, true},
	{`{{ e = {} }}{{ "z".mut(e, {}) }}{{ "z".mut(e, {}) }}{{ e }}@each(k in [1, 2]){{ "y".mut({}) }}@end`, 1, false},
}

// specialConversionCase: a callee that overwrites what it receives must not be felt by later
// calls; empty and nil array results behave as arrays; registered functions are callable
// through every entry point
func specialConversionCase(c *core.Ctx, i int) {
	user := func() map[string]any {
		return map[string]any{"name": "Ann", "tags": []any{"a", map[string]any{"deep": 1}}, "meta": map[string]any{"k": []any{1, 2}}}
	}
	switch {
	case i < len(mutTemplates):
		mt := mutTemplates[i]
		src := mt.src
		data := func() map[string]any {
			return map[string]any{"user": user(), "rows": []any{map[string]any{"id": 1}, map[string]any{"id": 2}, []any{3}}, "emptyobj": map[string]any{}}
		}
		desc := map[string]any{"source": src, "callee": "mut records its arguments, then overwrites every map and slice it was given"}
		c.Input(desc)
		cfSeen = cfSeen[:0]
		d := data()
		got := evalString(c, src, d)
		c.Nontrivial(src)
		if got.Panicked {
			return
		}
		if got.Err != nil {
			c.Violation("conversion:mutating-callee:failed", "the render failed: "+got.Err.Error(), desc)
			return
		}
		first := map[int]string{}
		for k, seen := range cfSeen {
			// no call may receive what an earlier callee wrote into its copy
			if strings.Contains(seen, "\"seen\"") || strings.Contains(seen, "overwritten") {
				c.Violation("conversion:mutating-callee:leak", fmt.Sprintf("call %d received %s: it holds what an earlier callee wrote into the copy it was given", k, clipS(seen, 300)), desc)
				return
			}
			site := k % mt.sites
			if f, ok := first[site]; !ok {
				first[site] = seen
			} else if f != seen && mt.same {
				c.Violation("conversion:mutating-callee:leak", fmt.Sprintf("call %d received %s, an earlier call with the same variables received %s: what a callee did to its copy leaked", k, clipS(seen, 300), clipS(f, 300)), desc)
				return
			}
		}
		if len(cfSeen) < 2 {
			c.Violation("conversion:mutating-callee:failed", fmt.Sprintf("the function ran %d times", len(cfSeen)), desc)
		}
		// the variables print as they do with a callee that leaves its arguments alone
		clean := evalString(c, strings.ReplaceAll(src, ".mut(", ".nop("), data())
		if clean.Err == nil && clean.Out != got.Out {
			c.Violation("conversion:mutating-callee:variable-changed", fmt.Sprintf("with a callee that overwrites its arguments the page renders %q, with one that leaves them alone %q", clipS(got.Out, 300), clipS(clean.Out, 300)), desc)
		}
		if !reflect.DeepEqual(d, data()) {
			c.Violation("conversion:mutating-callee:data-changed", "the caller's data map was changed through a function argument", desc)
		}
	case i < len(mutTemplates)+6:
		k := i - len(mutTemplates)
		var res []any
		if k%2 == 0 {
			res = []any{}
		}
		cfResult = res
		src := []string{"{{ [1].give().len() }}", "@each(e in [1].give())x@else empty@end", "{{ [1].give() ? \"yes\" : \"no\" }}"}[k/2]
		want := []string{"0", " empty", "yes"}[k/2]
		desc := map[string]any{"source": src, "function_returns": fmt.Sprintf("%#v", res)}
		c.Input(desc)
		got := evalString(c, src, nil)
		c.Nontrivial(fmt.Sprint(src, res == nil))
		if !got.Panicked && (got.Err != nil || got.Out != want) {
			c.Violation("conversion:empty-array-result", fmt.Sprintf("a function returning %#v: %s gave %s, want %q (an empty array)", res, src, got.Describe(), want), desc)
		}
		// an empty receiver and an empty argument handed back
		for s2, w2 := range map[string]string{"{{ [].rec().len() }}": "0", "{{ [].rec([]).len() }}": "0", "{{ e = [] }}{{ e.rec().append(1).len() }}": "1"} {
			if g2 := evalString(c, s2, nil); !g2.Panicked && (g2.Err != nil || g2.Out != w2) {
				c.Violation("conversion:empty-array-result", fmt.Sprintf("%s gave %s, want %q", s2, g2.Describe(), w2), map[string]any{"source": s2})
			}
		}
	case i < len(mutTemplates)+6+len(argFaultCases):
		// a failing argument, wherever it stands in the list, fails the call: the function does not run
		src := argFaultCases[i-len(mutTemplates)-6]
		desc := map[string]any{"source": src}
		c.Input(desc)
		cfLog = cfLog[:0]
		got := evalString(c, src, map[string]any{"v": "data"})
		c.Nontrivial(src)
		if got.Panicked {
			return
		}
		if got.Err == nil {
			c.Violation("conversion:failing-argument-accepted", fmt.Sprintf("%s rendered %q although an argument fails", src, got.Out), desc)
		} else if !strings.Contains(got.Err.Error(), "nosuchfn") || !strings.Contains(got.Err.Error(), "INTEGER") {
			c.Violation("conversion:unregistered-call-message", "the error does not name the unregistered function and its receiver type: "+got.Err.Error(), desc)
		}
		if len(cfLog) != 0 {
			c.Violation("conversion:function-ran-with-failing-argument", fmt.Sprintf("the function ran with %#v", cfLog[0].args), desc)
		}
	case i < len(mutTemplates)+6+len(argFaultCases)+len(zeroLiterals):
		// integer literals with leading zeros are decimal, as receivers and as arguments
		zl := zeroLiterals[i-len(mutTemplates)-6-len(argFaultCases)]
		src := "{{ " + zl.lit + ".rec(" + zl.lit + ", [" + zl.lit + "]) }}|{{ n = " + zl.lit + " }}{{ n.rec() }}"
		desc := map[string]any{"source": src}
		c.Input(desc)
		cfLog = cfLog[:0]
		got := evalString(c, src, nil)
		c.Nontrivial(src)
		if got.Panicked {
			return
		}
		want := fmt.Sprintf("%d|%d", zl.val, zl.val)
		if got.Err != nil || got.Out != want || len(cfLog) != 2 {
			c.Violation("conversion:leading-zero-literal", fmt.Sprintf("%s gave %s (function ran %d times), want %q", src, got.Describe(), len(cfLog), want), desc)
			return
		}
		if !sameNative(cfLog[0].recv, int(zl.val)) || len(cfLog[0].args) != 2 || !sameNative(cfLog[0].args[0], zl.val) || !sameNative(cfLog[0].args[1], []any{zl.val}) || !sameNative(cfLog[1].recv, int(zl.val)) {
			c.Violation("conversion:leading-zero-literal", fmt.Sprintf("the literal %s arrived as receiver %#v with arguments %#v", zl.lit, cfLog[0].recv, cfLog[0].args), desc)
		}
	case i < len(mutTemplates)+6+len(argFaultCases)+len(zeroLiterals)+5:
		// a name is taken by its first registration whatever was registered, a nil function included
		k := i - len(mutTemplates) - 6 - len(argFaultCases) - len(zeroLiterals)
		typ := []string{"string", "array", "int", "float", "bool"}[k]
		name := "taken" + typ
		var first, second error
		switch k {
		case 0:
			first = textwire.RegisterStrFunc(name, nil)
			second = textwire.RegisterStrFunc(name, func(s string, a ...any) string { return "second" })
		case 1:
			first = textwire.RegisterArrFunc(name, nil)
			second = textwire.RegisterArrFunc(name, func(x []any, a ...any) []any { return []any{"second"} })
		case 2:
			first = textwire.RegisterIntFunc(name, nil)
			second = textwire.RegisterIntFunc(name, func(x int, a ...any) int { return 2 })
		case 3:
			first = textwire.RegisterFloatFunc(name, nil)
			second = textwire.RegisterFloatFunc(name, func(x float64, a ...any) float64 { return 2 })
		default:
			first = textwire.RegisterBoolFunc(name, nil)
			second = textwire.RegisterBoolFunc(name, func(x bool, a ...any) bool { return !x })
		}
		desc := map[string]any{"type": typ, "first_registration": "nil function", "first_error": fmt.Sprint(first), "second_error": fmt.Sprint(second)}
		c.Input(desc)
		c.Nontrivial("nil-registration:" + typ)
		if first == nil && second == nil {
			c.Violation("registry:second-registration-accepted", fmt.Sprintf("a %s function name registered twice (first with a nil function): both attempts succeeded", typ), desc)
		}
	case i == len(mutTemplates)+6+len(argFaultCases)+len(zeroLiterals)+5:
		// a function whose result changes from call to call, called from a loaded page rendered three times without data,
		// and a function that registers another one while the page is being rendered
		var ticket int
		textwire.RegisterIntFunc("ticket", func(n int, a ...any) int { ticket++; return n + ticket })
		textwire.RegisterStrFunc("reg", func(s string, a ...any) string {
			textwire.RegisterStrFunc("late"+s, func(t string, b ...any) string { return strings.ToUpper(t) + "!" })
			return s
		})
		files := map[string]string{"ticket.tw": "ticket {{ 100.ticket() }}", "late.tw": "{{ \"one\".reg() }}:{{ \"hi\".lateone() }}@each(k in [1, 2]){{ \"two\".reg() }}{{ \"x\".latetwo() }}@end"}
		if err := writeFilesFresh("c20state", files); err != nil {
			c.Inconclusive(err.Error())
			return
		}
		tpl, err, panicked := newTemplate(c, "c20state", ".tw")
		c.Nontrivial("stateful-functions")
		if panicked {
			return
		}
		if err != nil || tpl == nil {
			c.Violation("conversion:entry-point:NewTemplate", fmt.Sprintf("loading failed: %v", err), nil)
			return
		}
		for k := 1; k <= 3; k++ {
			for _, data := range []map[string]any{nil, {}} {
				ticket = 10 * k
				want := fmt.Sprintf("ticket %d", 100+10*k+1)
				if o, _ := renderPage(c, tpl, "ticket", data); !o.Panicked && (o.Err != nil || o.Out != want) {
					c.Violation("conversion:function-not-called", fmt.Sprintf("render %d of a page calling a function whose result changes gave %s, want %q", k, o.Describe(), want), map[string]any{"files": describeFiles(files)})
				}
			}
		}
		if o, _ := renderPage(c, tpl, "late", nil); !o.Panicked && (o.Err != nil || o.Out != "one:HI!twoX!twoX!") {
			c.Violation("registry:registered-during-render", fmt.Sprintf("a function registered (successfully) by another function during the render gave %s, want %q", o.Describe(), "one:HI!twoX!twoX!"), map[string]any{"files": describeFiles(files)})
		}
		// ... or while the arguments of the very call are being evaluated; and a call whose argument list ends in a comma
		textwire.RegisterIntFunc("install", func(n int, a ...any) int {
			textwire.RegisterIntFunc("plus", func(x int, b ...any) int { return x + int(b[0].(int64)) })
			return n
		})
		for _, tc := range []struct{ src, want string }{
			{"{{ 40.plus(2.install()) }}", "42"},
			{"{{ \"a\".rec(1, 2,) }}|{{ [1].rec(\n 1,\n) }}|{{ 7.rec(\"x\",).str() }}", "a|1|7"},
			{"{{ true.rec([1, 2,], {k: 1,},) }}", "1"},
		} {
			if g := evalString(c, tc.src, nil); !g.Panicked && (g.Err != nil || g.Out != tc.want) {
				c.Violation("conversion:call-failed", fmt.Sprintf("%s gave %s, want %q", tc.src, g.Describe(), tc.want), map[string]any{"source": tc.src})
			}
		}
		if got := evalString(c, "{{ \"three\".reg() }}{{ \"y\".latethree() }}", nil); !got.Panicked && (got.Err != nil || got.Out != "threeY!") {
			c.Violation("registry:registered-during-render", fmt.Sprintf("EvaluateString: a function registered during the render gave %s", got.Describe()), nil)
		}
	default:
		// every entry point sees the registered functions
		recvs := []string{`"s"`, "[1, 2]", "7", "2.5", "true"}
		rs := recvs[(i-len(mutTemplates)-6-len(argFaultCases)-len(zeroLiterals)-6)%len(recvs)]
		src := "<{{ " + rs + ".rec(1, \"a\") }}>{{ v.rec() }}"
		data := map[string]any{"v": "from data"}
		want := evalString(c, src, data)
		desc := map[string]any{"source": src}
		c.Input(desc)
		c.Nontrivial("entry-points:" + rs)
		if want.Failed() {
			if !want.Panicked {
				c.Violation("conversion:call-failed", "calling a registered function failed: "+want.Err.Error(), desc)
			}
			return
		}
		files := map[string]string{"page.tw": src, "layouts/l.tw": "L[@reserve(\"b\")]", "with.tw": "@use(\"~l\")@insert(\"b\")" + src + "@end", "components/c.tw": "C[" + src + "|@slot]", "comp.tw": "@component(\"~c\", {v: v})@slot" + src + "@end@end"}
		if err := writeFilesFresh("c20tree", files); err != nil {
			c.Inconclusive(err.Error())
			return
		}
		var fout string
		var ferr error
		c.Eval(1)
		if !c.Guard(func() { fout, ferr = textwire.EvaluateFile("c20tree/page.tw", data) }) && (ferr != nil || fout != want.Out) {
			c.Violation("conversion:entry-point:EvaluateFile", fmt.Sprintf("EvaluateFile gave (%q, %v), EvaluateString gives %q", fout, ferr, want.Out), desc)
		}
		tpl, err, panicked := newTemplate(c, "c20tree", ".tw")
		if panicked {
			return
		}
		if err != nil || tpl == nil {
			c.Violation("conversion:entry-point:NewTemplate", fmt.Sprintf("loading pages that call registered functions failed: %v", err), desc)
			return
		}
		for page, w := range map[string]string{"page": want.Out, "with": "L[" + want.Out + "]", "comp": "C[" + want.Out + "|" + want.Out + "]"} {
			if o, _ := renderPage(c, tpl, page, data); !o.Panicked && (o.Err != nil || o.Out != w) {
				c.Violation("conversion:entry-point:String", fmt.Sprintf("Template.String(%s) gave %s, want %q", page, o.Describe(), w), desc)
			}
			rec := newRecorder()
			var rerr error
			c.Eval(1)
			if !c.Guard(func() { rerr = tpl.Response(rec, page, data) }) && (rerr != nil || rec.body.String() != w) {
				c.Violation("conversion:entry-point:Response", fmt.Sprintf("Response(%s) gave (%q, %v), want %q", page, rec.body.String(), rerr, w), desc)
			}
		}
		// an unregistered name is an error through every entry point, under every configuration of the error page
		typeName := map[string]string{`"s"`: "STRING", "[1, 2]": "ARRAY", "7": "INTEGER", "2.5": "FLOAT", "true": "BOOLEAN"}[rs]
		ghostSrc := "before {{ " + rs + ".rec() }} {{ " + rs + ".neverRegistered(1) }} after"
		files["ghost.tw"] = ghostSrc
		files["inslot.tw"] = "@component(\"~c\", {v: v})@slot" + ghostSrc + "@end@end"
		files["errors/e.tw"] = "<custom error page>"
		if err := writeFilesFresh("c20tree", files); err != nil {
			c.Inconclusive(err.Error())
			return
		}
		named := func(where string, err error) {
			if err == nil {
				c.Violation("registry:unregistered-call-accepted:"+where, fmt.Sprintf("%s: calling %s.neverRegistered(1) returned no error", where, rs), map[string]any{"source": ghostSrc})
			} else if !strings.Contains(err.Error(), "neverRegistered") || !strings.Contains(err.Error(), typeName) {
				c.Violation("conversion:unregistered-call-message", fmt.Sprintf("%s: the error does not name the function and the receiver type %s: %s", where, typeName, err.Error()), map[string]any{"source": ghostSrc})
			}
		}
		_, serr := textwire.EvaluateString(ghostSrc, data)
		named("EvaluateString", serr)
		_, ferr = textwire.EvaluateFile("c20tree/ghost.tw", data)
		named("EvaluateFile", ferr)
		for _, cfg := range []*config.Config{{TemplateDir: "c20tree", TemplateExt: ".tw"}, {TemplateDir: "c20tree", TemplateExt: ".tw", ErrorPagePath: "errors/e"}, {TemplateDir: "c20tree", TemplateExt: ".tw", ErrorPagePath: "errors/e", DebugMode: true}} {
			textwire.VerifResetConfig()
			var t2 *textwire.Template
			var lerr error
			c.Eval(1)
			if c.Guard(func() { t2, lerr = textwire.NewTemplate(cfg) }) || lerr != nil || t2 == nil {
				continue
			}
			for _, page := range []string{"ghost", "inslot"} {
				where := fmt.Sprintf("(error page %q, debug %v) %s", cfg.ErrorPagePath, cfg.DebugMode, page)
				if _, fe := t2.String(page, data); fe == nil {
					named("String "+where, nil)
				} else {
					named("String "+where, fe.Error())
				}
				rec := newRecorder()
				var rerr error
				c.Eval(1)
				if !c.Guard(func() { rerr = t2.Response(rec, page, data) }) {
					named("Response "+where, rerr)
				}
			}
		}
		textwire.VerifResetConfig()
	}
}

func conversionCase(c *core.Ctx, i int) {
	r := c.Rng
	// receiver of one of the five types
	var recv model.Value
	switch r.Intn(5) {
	case 0:
		recv = model.Str(cfStrings[r.Intn(len(cfStrings))])
	case 1:
		recv = cfValue(r, 2)
		for recv.K != model.KArr {
			recv = model.Arr(recv, cfValue(r, 1))
		}
	case 2:
		recv = model.Int([]int64{0, 5, -5, 2147483648, 9223372036854775807}[r.Intn(5)])
	case 3:
		recv = model.Float([]float64{0, 2.5, -0.125, 7.0}[r.Intn(4)])
	default:
		recv = model.Bool(r.Intn(2) == 0)
	}
	nArgs := r.Intn(4)
	args := make([]model.Value, nArgs)
	data := map[string]model.Value{}
	var argSrc []string
	recvSrc := model.Source(literalOf(recv), model.Style{Layout: model.SpaceLayout})
	if r.Intn(3) == 0 && recv.K == model.KStr {
		recv = model.Str(cfSpecialStrings[r.Intn(len(cfSpecialStrings))])
	}
	if hasSpecial(recv) || r.Intn(2) == 0 {
		data["rcv"] = recv
		recvSrc = "rcv"
	} else if recv.K == model.KInt && recv.I < 0 || recv.K == model.KFloat && recv.F < 0 {
		recvSrc = "(" + recvSrc + ")"
	}
	for k := range args {
		args[k] = cfValue(r, 3)
		if hasSpecial(args[k]) || r.Intn(2) == 0 {
			name := fmt.Sprintf("arg%d", k)
			data[name] = args[k]
			argSrc = append(argSrc, name)
		} else {
			argSrc = append(argSrc, model.Source(literalOf(args[k]), model.Style{Layout: model.SpaceLayout}))
		}
	}
	src := "{{ " + recvSrc + ".rec(" + strings.Join(argSrc, ", ") + ") }}"
	desc := map[string]any{"source": src, "data": model.DescribeData(data), "receiver": recv.Describe()}
	c.Input(desc)
	cfLog = cfLog[:0]
	got := evalString(c, src, model.NativeData(data))
	c.Nontrivial(src + fmt.Sprint(model.DescribeData(data)))
	if i < 3 {
		c.Sample(desc)
	}
	if got.Panicked {
		return
	}
	if got.Err != nil {
		c.Violation("conversion:call-failed", "calling a registered function failed: "+got.Err.Error(), desc)
		return
	}
	if len(cfLog) != 1 {
		c.Violation("conversion:call-count", fmt.Sprintf("the function ran %d times for one call", len(cfLog)), desc)
		return
	}
	call := cfLog[0]
	wantRecv := nativeOf(recv)
	if recv.K == model.KInt {
		wantRecv = int(recv.I)
	}
	if !sameNative(call.recv, wantRecv) {
		c.Violation("conversion:receiver", fmt.Sprintf("the function received receiver %#v, want %#v", call.recv, wantRecv), desc)
	}
	if len(call.args) != len(args) {
		c.Violation("conversion:arg-count", fmt.Sprintf("the function received %d arguments, want %d", len(call.args), len(args)), desc)
		return
	}
	for k, a := range args {
		if !sameNative(call.args[k], nativeOf(a)) {
			c.Violation("conversion:argument:"+a.K.String(), fmt.Sprintf("argument %d arrived as %#v, want %#v", k, call.args[k], nativeOf(a)), desc)
		}
	}
	// result: a function result must look like the same Go value passed as data
	var res model.Value
	var giver string
	switch r.Intn(5) {
	case 0:
		res, giver = model.Str(append(append([]string{}, cfStrings...), cfSpecialStrings...)[r.Intn(len(cfStrings)+len(cfSpecialStrings))]), `"x"`
		cfResult = res.S
	case 1:
		res = cfValue(r, 3)
		for res.K != model.KArr {
			res = model.Arr(res, cfValue(r, 2))
		}
		giver = "[1]"
		nat := nativeOf(res).([]any)
		if nat == nil {
			nat = []any{}
		}
		cfResult = nat
	case 2:
		res, giver = model.Int([]int64{0, -3, 77, 9223372036854775807}[r.Intn(4)]), "1"
		cfResult = int(res.I)
	case 3:
		res, giver = model.Float([]float64{0, 2.5, -0.125, 7.0, 1e6 + 0.5}[r.Intn(5)]), "1.5"
		cfResult = res.F
	default:
		res, giver = model.Bool(r.Intn(2) == 0), "true"
		cfResult = res.B
	}
	paths := pathsInto(r, "X", res, nil)
	if len(paths) > 6 {
		paths = paths[:6]
	}
	paths = append(paths, accessPath{src: "X", want: res})
	for _, p := range paths {
		viaFunc := "\x01{{ " + strings.Replace(p.src, "X", "("+giver+".give())", 1) + " }}\x02"
		viaData := "\x01{{ " + strings.Replace(p.src, "X", "dv", 1) + " }}\x02"
		d := map[string]any{"dv": cfResult}
		c.Input(map[string]any{"via_function": viaFunc, "via_data": viaData, "value": res.Describe()})
		a := evalString(c, viaFunc, d)
		b := evalString(c, viaData, d)
		if a.Panicked || b.Panicked {
			continue
		}
		if a.Out != b.Out || (a.Err == nil) != (b.Err == nil) {
			c.Violation("conversion:result:"+res.K.String(), fmt.Sprintf("%s gives %s through the function but %s as data", p.src, a.Describe(), b.Describe()), map[string]any{"value": res.Describe(), "path": p.src})
		}
		c.Count("result_paths_compared", 1)
	}
}
