package checks

import (
	"fmt"
	"os"
	"path/filepath"
	"strings"
	"sync"

	textwire "github.com/textwire/textwire/v2"

	"verif/core"
)

// C13 — errors name the line (and file) of the offending construct.

// prelude tokens: valid template text that ends in a newline and contains
// every kind of token that can span lines
var preludeKinds = []struct{ name, src string }{
	{"text", "first line\nsecond line\n"},
	{"crlf-text", "a\r\nb\r\n"},
	{"string-with-newlines", "{{ \"x\ny\nz\" }}\n"},
	{"single-quoted-multiline", "{{ 'p\n\nq' + \"r\" }}\n"},
	{"comment", "{{-- a\nb\n--}}\n"},
	{"comment-with-syntax", "{{--\n{{ nope }}\n@if(x)\n--}}\n"},
	{"braces-over-lines", "{{\n 1 +\n 2\n}}\n"},
	{"directive-args-over-lines", "@if(\n true\n)\nyes\n@end\n"},
	{"each-block", "@each(v9 in [1,\n 2])\n{{ v9 }}\n@end\n"},
	{"for-block", "@for(k9 = 0;\n k9 < 2;\n k9++)\n{{ k9 }}\n@end\n"},
	{"escapes", "\\{{ not code }}\n\\@if(x)\n"},
	{"object-literal", "{{ {a: 1,\n b: 2}.a }}\n"},
	{"assignment", "{{ z9 =\n 5 }}\n"},
	{"blank-lines", "\n\n\n"},
	{"brace-noise", "}} {\n}\n{ }}\n"},
	{"if-else-block", "@if(false)\nno\n@elseif(\n1)\nyes\n@else\nno\n@end\n"},
	{"call-args-over-lines", "{{ \"abc\".contains(\n\"a\"\n) }}\n"},
	{"crlf-in-code", "{{ 1 +\r\n 2 }}\r\n"},
	{"utf8", "é中\n😀 {{ \"é\n中\" }}\n"},
	{"no-newline-tokens", "{{ 1 }}{{ 2 }} text @if(true)x@end\n"},
	// a carriage return that is not part of a CRLF pair is not a line end
	{"stray-carriage-returns", "a\rb {{ 1 +\r 2 }} {{ 'x\ry' }}{{-- c\rd --}}\r@if(\rtrue)y@end\r\n"},
	{"carriage-return-before-crlf", "x\r\r\ny\r\n"},
	// literals and shorthand notations that occur again in the fault further down
	{"nil-true-false-literals", "{{ nil }}{{ true ? nil : false }}\n{{ x7 = nil }}\n"},
	{"shorthand-object-properties", "{{ s1 = 1 }}{{ {s1,\n s1}.s1 }}\n"},
	// a @dump whose argument fails shows the fault and lets the render go on
	{"dump-of-a-failing-expression", "@dump(missing9.prop)\n@dump(1 / 0, nope9)\n"},
	// strings whose first or last character is a line end, in both quote styles, next to empty ones
	{"strings-that-start-with-a-line-end", "{{ \"\nheredoc\n\" }}{{ '\n' }}\n{{ \"\" + \"\r\nx\" }}\n"},
	{"strings-that-end-with-a-line-end", "{{ \"x\n\" }}{{ 'a\\'\n' + '' }}{{ \"\n\n\" }}\n"},
	{"comments-with-dashes", "{{-- a - b\n -- c -\n- --}}{{-- - --}}\n"},
}

// c13Current is the Template the registered function render13 renders from
var c13Current *textwire.Template

type faultKind struct {
	name    string
	src     string // the faulty construct
	runtime bool   // needs evaluation to reach it
	offset  int    // newlines inside the construct before the offending token
}

// faultSlack: the failing operator sits on a later line than the end of its left operand; any line
// from the end of the left operand (offset-slack) to the operator (offset) names the construct
var faultSlack = map[string]int{"mistyped-operand-at-end-of-chain": 1, "division-by-zero-after-group": 1, "modulo-by-zero-after-chain": 1,
	"mistyped-operand-in-middle-of-chain": 1, "comparison-after-chain": 1}

var lineFaults = []faultKind{
	{"undefined-identifier", "{{ nope }}", true, 0},
	{"mistyped-operand", "{{ 1 + \"a\" }}", true, 0},
	{"mistyped-operand-comparison", "{{ 2 < \"b\" }}", true, 0},
	{"unknown-function", "{{ 5.nofn() }}", true, 0},
	{"unknown-property", "{{ {a: 1}.b }}", true, 0},
	{"division-by-zero", "{{ 1 / 0 }}", true, 0},
	{"modulo-by-zero", "{{ 7 % 0 }}", true, 0},
	{"each-non-array", "@each(q in 5)x@end", true, 0},
	{"retype", "{{ z8 = 1 }}{{ z8 = \"s\" }}", true, 0},
	{"illegal-character", "{{ # }}", false, 0},
	{"illegal-character-in-directive", "@if(1 ~ 2)x@end", false, 0},
	{"unexpected-token", "{{ 1 + }}", false, 0},
	{"unexpected-token-in-directive", "@if(1 2)x@end", false, 0},
	{"unexpected-token-each", "@each(q of [1])x@end", false, 0},
	{"bad-integer-literal", "{{ 99999999999999999999 }}", false, 0},
	// the fault lies in the operand of a postfix operator written on a later line, or of a prefix operator written on an earlier one
	{"undefined-identifier-under-later-postfix", "{{ nope9\n ++ }}", true, 0},
	{"unknown-function-under-later-postfix", "{{ 5.nofn()\n\n -- }}", true, 0},
	{"unknown-property-under-later-postfix", "{{ {a: 1}.b\r\n ++ }}", true, 0},
	{"undefined-identifier-under-earlier-prefix", "{{ -\n nope9 }}", true, 1},
	{"undefined-identifier-under-earlier-not", "{{ !\n\n nope9 }}", true, 2},
	// the offending token sits on a later line of a construct that spans lines
	{"unexpected-token-after-newline-in-array", "{{ [1, 2\n 3] }}", false, 1},
	{"unexpected-token-after-newline-in-directive", "@if(7\n 8)x@end", false, 1},
	{"unexpected-token-after-two-newlines-in-call", "{{ \"abc\".contains(\"a\"\n\n \"b\") }}", false, 2},
	{"unexpected-token-after-newline-each", "@each(q\n of [1])x@end", false, 1},
	{"unexpected-token-late-in-directive", "@if(1 ==\n\n 1 2)x@end", false, 2},
	{"expected-expression-after-newlines", "{{ 1 +\n\n }}", false, 2},
	{"illegal-character-after-newline", "{{ 1 +\n # }}", false, 1},
	{"illegal-character-at-line-start", "{{\n# }}", false, 1},
	{"undefined-identifier-after-newline", "{{ 1 +\n nope }}", true, 1},
	{"unknown-function-after-newline", "{{ 5\n.nofn() }}", true, 1},
	{"unknown-property-after-newline", "{{ {a: 1}\n.b }}", true, 1},
	{"each-non-array-after-newline", "@each(q in\n\n 5)x@end", true, 0},
	{"unknown-function-on-object-after-newlines", "{{ {a: 1}\n\n.nofn() }}", true, 2},
	{"unknown-function-on-nil-after-newline", "{{ nil\n.nofn(1) }}", true, 1},
	{"unknown-function-on-object-chain", "{{ {a: {b: 1}}\n.a\n.nofn() }}", true, 2},
	{"unknown-property-in-chain", "{{ {a: {b: 1}}\n.a\n.c }}", true, 2},
	// the offending construct is itself a token that spans lines: its last line counts
	{"mistyped-operand-multiline-string-left", "{{ \"Dear customer,\nyour total is \" + 5 }}", true, 1},
	{"mistyped-operand-multiline-string-left-3", "{{ 'a\n\nb' - 1 }}", true, 2},
	{"unknown-operator-multiline-string", "{{ \"x\ny\" * \"z\" }}", true, 1},
	{"unknown-property-multiline-key", "{{ {a: 1}['first\nsecond'] }}", true, 1},
	{"unknown-function-on-multiline-string", "{{ \"p\nq\".nofn() }}", true, 1},
	// the left operand is a literal that occurred before; a shorthand property names an undefined identifier;
	// a stray token between the last slot and the component's own @end
	{"mistyped-operand-nil-left", "{{ nil + 1 }}", true, 0},
	{"mistyped-operand-true-left", "{{ true - 1 }}", true, 0},
	{"undefined-identifier-shorthand-property", "{{ {nope} }}", true, 0},
	{"undefined-identifier-shorthand-property-later-line", "{{ {a: 1,\n nope,\n b: 2} }}", true, 1},
	{"stray-token-after-last-slot", "@component(\"c\")\n@slot\ns\n@end\n{{ 1 }}@end", false, 4},
	{"stray-directive-after-last-slot", "@component(\"c\")@slot(\"a\")s@end\n\n@if(true)x@end@end", false, 2},
	// structural faults whose offending token stands on a later line than the token before it
	{"elseif-after-else", "@if(true)a@else\nb\n@elseif(true)c@end", false, 2},
	{"elseif-after-else-same-line", "@if(true)a@else b @elseif(true)c@end", false, 0},
	{"assignment-without-value", "{{ a9 =\n\n }}", false, 2},
	{"assignment-without-value-second-statement", "{{ a9 = 1; b9 =\n}}", false, 1},
	// chains of operators written over several lines: the failing operator's own line counts
	{"mistyped-operand-at-end-of-chain", "{{ \"a\"\n + \"b\"\n + 1 }}", true, 2},
	{"division-by-zero-after-group", "{{ (4\n+ 2)\n/ 0 }}", true, 2},
	{"modulo-by-zero-after-chain", "{{ 1\n* 2\n* 3\n% 0 }}", true, 3},
	{"mistyped-operand-in-middle-of-chain", "{{ 1\n+ \"a\"\n+ 2 }}", true, 1},
	{"comparison-after-chain", "{{ 1\n+ 2\n< \"b\" }}", true, 2},
	// the fault stands inside index brackets, call parentheses, a ternary arm or an object value, on a later line than the opening token
	{"undefined-identifier-inside-index", "{{ [1, 2][\n nope ] }}", true, 1},
	{"unknown-function-inside-index", "{{ {a: 1}[\n\n 5.nofn() ] }}", true, 2},
	{"division-by-zero-inside-index", "{{ [1][\n 1 / 0 ] }}", true, 1},
	{"undefined-identifier-inside-call-arguments", "{{ \"abc\".contains(\n nope) }}", true, 1},
	{"undefined-identifier-second-call-argument", "{{ \"abc\".truncate(2,\n\n nope) }}", true, 2},
	{"division-by-zero-in-ternary-arm", "{{ true ?\n 1 / 0\n : 2 }}", true, 1},
	{"undefined-identifier-in-ternary-else-arm", "{{ false ? 1 :\n\n nope }}", true, 2},
	{"undefined-identifier-in-object-value", "{{ {a: 1,\n b: nope}.a }}", true, 1},
	{"unknown-function-in-array-element", "{{ [1,\n 2,\n 3.nofn()].len() }}", true, 2},
	{"undefined-identifier-in-parentheses", "{{ (\n nope\n) + 1 }}", true, 1},
	{"undefined-identifier-in-each-source-index", "@each(q in [[1]][\n nope])x@end", true, 1},
	{"division-by-zero-in-if-condition", "@if(1 ==\n 1 / 0)x@end", true, 1},
	// a slot header, an insert header or a component header that is not closed, the next token standing on a later line
	{"unclosed-slot-name-parenthesis", "@component(\"c\")@slot(\"s\"\n x@end@end", false, 1},
	{"unclosed-slot-name-parenthesis-later", "@component(\"c\")\n@slot(\"a\")y@end\n@slot(\"s\"\n\n x@end@end", false, 4},
	{"unclosed-insert-parenthesis", "@insert(\"i\"\n x@end", false, 1},
	{"unclosed-component-parenthesis", "@component(\"c\"\n\n x", false, 2},
	{"unclosed-reserve-parenthesis", "@reserve(\"r\"\n x", false, 1},
	{"unclosed-use-parenthesis", "@use(\"l\"\n x", false, 1},
	// faults in the clauses of a @for header that spans lines, and in the headers of other directives
	{"undefined-identifier-in-for-post", "@for(i9 = 0;\n i9 < 2;\n i9 + nope)x@end", true, 2},
	{"division-by-zero-in-for-post", "@for(j9 = 0; j9 < 2;\n j9 / 0)x@end", true, 1},
	{"unknown-function-in-for-post", "@for(k8 = 0;\n k8 < 2;\n\n k8.nofn())x@end", true, 3},
	{"mistyped-operand-in-for-post-assignment", "@for(m9 = 0; m9 < 2;\n m9 = m9 + \"s\")x@end", true, 1},
	{"undefined-identifier-in-for-condition", "@for(n9 = 0;\n n9 < nope;\n n9++)x@end", true, 1},
	{"undefined-identifier-in-for-init", "@for(p9 =\n nope; p9 < 2; p9++)x@end", true, 1},
	{"retype-in-for-post", "@for(q9 = 0; q9 < 2;\n q9 = \"s\")x@end", true, 1},
	{"undefined-identifier-in-breakif", "@each(q in [1])\n@breakIf(\n nope)\n@end", true, 2},
	{"division-by-zero-in-continueif", "@each(q in [1])@continueIf(1 ==\n 1 / 0)@end", true, 1},
	{"undefined-identifier-in-elseif", "@if(false)a@elseif(\n\n nope)b@end", true, 2},
	// an object literal as directive argument, written over several lines, with a comma missing: the token that
	// stands where the comma belongs is the unexpected one
	{"unexpected-token-in-component-arguments", "@component(\"c\", {a: 1,\n b: 2\n c: 3})", false, 2},
	{"unexpected-token-in-component-arguments-own-lines", "@component(\"c\", {\n  a: 1\n  b: 2\n})", false, 2},
	{"unexpected-token-in-component-arguments-nested", "@component(\"c\", {a: {x: 1\n y: 2},\n c: 3})", false, 1},
	{"unexpected-token-in-dump-arguments", "@dump({a: 1\n b: 2})", false, 1},
	{"unexpected-token-in-condition-object", "@if({a: 1\n b: 2}.a)x@end", false, 1},
	{"unexpected-token-second-component-argument", "@component(\"c\",\n 5)", false, 1},
	// an illegal character right behind a directive keyword, before its '(' and in front of bodies that span lines
	{"illegal-character-after-elseif", "@if(true)\na\n@elseif~(1)\nb\nc\n@end", false, 2},
	{"illegal-character-after-if", "@if~(true)\nb\nc\n@end", false, 0},
	{"illegal-character-after-each", "@each#(q in [1])\nb\nc\n@end", false, 0},
	{"illegal-character-after-for", "@for$(;;)\nb\n@break\n@end", false, 0},
	{"illegal-character-after-breakif", "@each(q in [1])\n@breakIf~(true)\nb\n@end", false, 1},
	{"illegal-character-after-component", "@component~(\"c\")\n@slot\nb\n@end\n@end", false, 0},
	{"illegal-character-after-dump", "@dump#(1)\nb", false, 0},
	// an unclosed string runs to the end of the input: its token ends on the line of the last byte
	{"unclosed-string-to-end-of-input", "{{ \"never closed", false, -1},
	{"unclosed-single-quoted-string-to-end-of-input", "@if('never closed", false, -1},
}

type wrapper struct{ name, open, close string }

var lineWrappers = []wrapper{
	{"none", "", ""},
	{"if", "@if(true)\n", "\n@end"},
	{"each", "@each(w9 in [1])\nrow\n", "\n@end"},
	{"if-in-each", "@each(w9 in [1])\n@if(w9)\n", "\n@end\n@end"},
	{"else-branch", "@if(false)\nno\n@else\n", "\n@end"},
}

// buildLineCase assembles prelude + wrapper + fault + suffix and returns the
// source with the 1-based line of the fault
func buildLineCase(preludes []int, w wrapper, f faultKind, lead string) (string, int) {
	var sb strings.Builder
	for _, p := range preludes {
		sb.WriteString(preludeKinds[p].src)
	}
	sb.WriteString(w.open)
	sb.WriteString(lead)
	line := 1 + strings.Count(sb.String(), "\n") + f.offset
	sb.WriteString(f.src)
	sb.WriteString(" tail\nafter\n")
	sb.WriteString(w.close)
	sb.WriteString("\nlast {{ 3 }}\n")
	if f.offset < 0 {
		// the line of the last byte of the input (a final newline belongs to the line it ends)
		src := sb.String()
		line = strings.Count(src, "\n")
		if !strings.HasSuffix(src, "\n") {
			line++
		}
	}
	return sb.String(), line
}

func init() {
	core.Register(&core.Check{
		ID:    "C13",
		Level: "exploration",
		Rule: "cases are valid templates with one single-line faulty construct injected on a line known by construction: every fault kind (undefined identifier, mistyped operand, unknown function/property, division/modulo by zero, non-array @each, re-typing, illegal character, unexpected token, out-of-range literal, undefined insert, unknown component) x every kind of multi-line token as the last token before the fault (multi-line and CRLF text, strings with newlines, multi-line comments, {{ }} blocks and directive/call argument lists broken over lines, whole blocks, escapes, UTF-8) x 0..2 further prelude tokens x 5 block wrappers x text or nothing before the fault on its line; single strings through EvaluateString and template trees (fault in the page, in an insert block, in a layout or in a component) through NewTemplate / Template.String; " +
			"the reported line (and, for trees, the absolute path) is read from the error and compared with the constructed one. also faults whose token is a multi-line string, operator chains over several lines, stray carriage returns, '%' in directory and page names, other pages rendered first; round 8: missing commas in multi-line directive arguments, illegal characters behind directive keywords, lines to 200003; round 9: faults inside brackets and arguments on later lines; concurrent replay; rounds 10-11: header clauses, faults in insert and component arguments; rounds 12-13: unclosed headers, strings starting or ending with a line end, sibling names around the extension dot; round 14: faults under postfix operators on later lines; round 15: overlapping renders of one template; round 16: files opening with blank lines and byte order marks; distinct_nontrivial = distinct sources",
		Assumptions: []string{
			"the faulty construct sits on one line, so 'the line on which its token ends' is unambiguous",
			"paths are checked for load-time faults and for faults in the page itself, as the statement restricts them",
		},
		Sections: func(tier core.Tier, seed int64) []core.Section {
			np, nf, nw := len(preludeKinds), len(lineFaults), len(lineWrappers)
			nRandom, nTree := 8000, 4000
			if tier == core.Thorough {
				nRandom, nTree = 6000000, 250000
			}
			judge := func(c *core.Ctx, src string, want int, f faultKind) {
				c.Input(src)
				got := evalString(c, src, nil)
				c.Nontrivial(src)
				if got.Panicked {
					return
				}
				if got.Err == nil {
					c.Violation("line:"+f.name+":no-error", fmt.Sprintf("the injected %s was not reported (output %q)", f.name, clipS(got.Out, 120)), map[string]any{"source": src, "line": want})
					return
				}
				line, _, ok := ErrLinePath(got.Err)
				if !ok || line > want || line < want-faultSlack[f.name] {
					c.Violation("line:"+f.name, fmt.Sprintf("%s on line %d was reported on line %d: %s", f.name, want, line, ErrMessage(got.Err)), map[string]any{"source": src, "line": want})
				}
			}
			var secs []core.Section
			// every fault x every prelude kind as last token x wrapper x lead
			secs = append(secs, core.Section{Name: "last-token-x-fault", Exhaustive: true, N: np * nf * nw * 2,
				Run: func(c *core.Ctx, i int) {
					lead := []string{"", "text before "}[i%2]
					i /= 2
					w := lineWrappers[i%nw]
					i /= nw
					f := lineFaults[i%nf]
					p := i / nf
					src, line := buildLineCase([]int{p}, w, f, lead)
					if i%211 == 0 {
						c.Sample(map[string]any{"source": src, "fault": f.name, "line": line})
					}
					judge(c, src, line, f)
				}})
			// two further prelude tokens before the last one
			secs = append(secs, core.Section{Name: "three-preludes", Exhaustive: true, N: np * np * np,
				Run: func(c *core.Ctx, i int) {
					ps := []int{i / (np * np), (i / np) % np, i % np}
					f := lineFaults[i%nf]
					w := lineWrappers[(i/nf)%nw]
					src, line := buildLineCase(ps, w, f, []string{"", "x "}[i%2])
					judge(c, src, line, f)
				}})
			// random preludes up to 40 lines
			secs = append(secs, core.Section{Name: "random-preludes", N: nRandom,
				Run: func(c *core.Ctx, i int) {
					var ps []int
					for k := 0; k < 1+c.Rng.Intn(12); k++ {
						ps = append(ps, c.Rng.Intn(np))
					}
					f := lineFaults[c.Rng.Intn(nf)]
					w := lineWrappers[c.Rng.Intn(nw)]
					src, line := buildLineCase(ps, w, f, []string{"", "lead ", "{{ 1 }}"}[c.Rng.Intn(3)])
					judge(c, src, line, f)
				}})
			// constructs far down a long file: line numbers beyond 16 bits (and around other widths)
			farLines := []int{255, 256, 32767, 32768, 65534, 65535, 65536, 65537, 70000, 131071, 131073, 200003}
			secs = append(secs, core.Section{Name: "far-lines", Exhaustive: true, N: len(farLines) * nf,
				Run: func(c *core.Ctx, i int) {
					f := lineFaults[i%nf]
					n := farLines[i/nf]
					filler := []string{"\n", "row {{ 1 }}\n", "\r\n"}[i%3]
					src, line := buildLineCase(nil, lineWrappers[i%nw], f, "")
					src = strings.Repeat(filler, n) + src
					if f.offset < 0 {
						line = strings.Count(src, "\n")
						if !strings.HasSuffix(src, "\n") {
							line++
						}
					} else {
						line += n
					}
					c.Input(map[string]any{"lines_before": n, "fault": f.name, "filler": filler})
					got := evalString(c, src, nil)
					c.Nontrivial(fmt.Sprint(n, f.name, i%3, i%nw))
					if got.Panicked {
						return
					}
					if got.Err == nil {
						c.Violation("far-line:"+f.name+":no-error", fmt.Sprintf("the injected %s on line %d was not reported", f.name, line), map[string]any{"lines_before": n, "fault": f.src})
						return
					}
					gl, _, ok := ErrLinePath(got.Err)
					if !ok || gl > line || gl < line-faultSlack[f.name] {
						c.Violation("far-line:"+f.name, fmt.Sprintf("%s on line %d was reported on line %d: %s", f.name, line, gl, ErrMessage(got.Err)), map[string]any{"lines_before": n, "filler": filler, "fault": f.src})
					}
				}})
			// template trees: line and absolute path
			// renders of one loaded Template that overlap: a page that renders another page through a registered function
			// before its own fault, and pages rendered from several goroutines at once - every fault names its own file
			secs = append(secs, core.Section{Name: "overlapping-renders-of-one-template", Exhaustive: true, N: 2,
				Run: func(c *core.Ctx, i int) {
					files := map[string]string{"other.tw": "other page\n", "deep/also.tw": "l1\nl2\n{{ missing_in_also }}\n",
						"nested.tw": "line one\n{{ \"other\".render13() }}\n{{ \"deep/also\".render13() }}\nline four\n{{ missing_in_nested }}\n"}
					for k := 0; k < 8; k++ {
						files[fmt.Sprintf("p%d.tw", k)] = strings.Repeat("text\n", k+1) + fmt.Sprintf("{{ \"other\".render13() }}{{ missing_%d }}\n", k)
					}
					tpl, err := loadTree(c, "c13overlap", files, ".tw")
					c.Nontrivial(fmt.Sprint("overlap", i))
					if err != nil || tpl == nil {
						if err != nil {
							c.Violation("overlap:load-failed", err.Error(), nil)
						}
						return
					}
					c13Current = tpl
					defer func() { c13Current = nil }()
					textwire.RegisterStrFunc("render13", func(name string, _ ...any) string {
						if c13Current == nil {
							return ""
						}
						out, _ := c13Current.String(name, nil)
						return out
					})
					abs := func(n string) string { p, _ := filepath.Abs("c13overlap/" + n + ".tw"); return p }
					if i == 0 {
						got, fe := renderPage(c, tpl, "nested", nil)
						if got.Panicked {
							return
						}
						if fe == nil || fe.Line() != 5 || fe.Filepath() != abs("nested") {
							c.Violation("overlap:nested-render", fmt.Sprintf("the fault on line 5 of nested.tw, after two pages were rendered from inside it, gave %s", got.Describe()), map[string]any{"files": describeFiles(files)})
						}
						return
					}
					var wg sync.WaitGroup
					bad := make([]string, 8)
					for g := 0; g < 8; g++ {
						wg.Add(1)
						go func(g int) {
							defer wg.Done()
							defer func() {
								if r := recover(); r != nil {
									bad[g] = fmt.Sprint("panic: ", r)
								}
							}()
							for n := 0; n < 150; n++ {
								_, fe := tpl.String(fmt.Sprintf("p%d", g), nil)
								if fe == nil || int(fe.Line()) != g+2 || fe.Filepath() != abs(fmt.Sprintf("p%d", g)) {
									bad[g] = fmt.Sprintf("the fault on line %d of p%d.tw was reported as %v", g+2, g, fe)
									return
								}
							}
						}(g)
					}
					wg.Wait()
					c.Eval(8 * 150)
					for _, b := range bad {
						if b != "" {
							c.Violation("overlap:concurrent-renders", b, map[string]any{"files": describeFiles(files)})
							return
						}
					}
				}})
			secs = append(secs, core.Section{Name: "trees", N: nTree, Run: func(c *core.Ctx, i int) { lineTreeCase(c, i) }})
			return secs
		},
	})
}

// lineTreeCase injects one fault into a file of a small tree
func lineTreeCase(c *core.Ctx, i int) {
	r := c.Rng
	np := len(preludeKinds)
	prelude := func() string {
		var sb strings.Builder
		for k := 0; k < r.Intn(4); k++ {
			sb.WriteString(preludeKinds[r.Intn(np)].src)
		}
		return sb.String()
	}
	ext := []string{".tw", ".tw.html", ".html"}[(i/8)%3]
	dirSpelled := []string{"c13tree", "./c13tree/", "c13tree/nested/views", "x13/../c13tree", "c13tree/50%d-off", "c13tree/100%done/%s"}[(i/24)%6]
	files := map[string]string{
		"layouts/main.tw":     "<html>\n@reserve(\"title\")\n<body>\n@reserve(\"body\")\n</body>\n",
		"components/card.tw":  "<card>\n{{ t }}\n@slot\n</card>\n",
		"plain.tw":            "plain page\n",
		"broken/elsewhere.tw": "one\ntwo\n{{ nowhere_defined }}\n",
		// siblings whose names continue another name with a character that sorts before the dot of the extension
		"page-alt.tw":                "sibling of the page\n",
		"plain+print.tw":             "sibling of plain\n",
		"layouts/main-wide.tw":       "<wide>@reserve(\"body\")</wide>\n",
		"components/card-header.tw":  "<h>{{ t }}</h>\n",
		"broken/elsewhere (copy).tw": "a copy without the fault\n",
	}
	type variant struct {
		name    string
		file    string // file that holds the construct
		render  string // page to render ("" = load-time fault)
		faults  []faultKind
		content func(fault string, pre string) (string, int)
	}
	at := func(before string) int { return 1 + strings.Count(before, "\n") }
	loadFaults := []faultKind{}
	runFaults := []faultKind{}
	for _, f := range lineFaults {
		if f.runtime {
			runFaults = append(runFaults, f)
		} else {
			loadFaults = append(loadFaults, f)
		}
	}
	// run-time faults that are one expression on one line: they can stand as an argument
	argFaults := []faultKind{{"undefined-identifier-as-argument", "nope", true, 0}, {"division-by-zero-as-argument", "1 / 0", true, 0}, {"unknown-function-as-argument", "5.nofn()", true, 0},
		{"mistyped-operand-as-argument", "1 + \"a\"", true, 0}, {"unknown-property-as-argument", "{a: 1}.b", true, 0}, {"undefined-identifier-in-argument-on-later-line", "1 +\n nope", true, 1}}
	insertFault := faultKind{"undefined-insert", "@insert(\"nowhere\", 1)", false, 0}
	insertBlockFault := faultKind{"undefined-insert-block", "@insert(\"nowhere\")x@end", false, 0}
	compFault := faultKind{"unknown-component", "@component(\"~ghost\")", false, 0}
	compFault2 := faultKind{"unknown-component-with-args", "@component(\"components/ghost\", {a: 1})", false, 0}
	variants := []variant{
		{"runtime-in-page", "page.tw", "page", runFaults, func(f, pre string) (string, int) {
			b := pre + "lead "
			return b + f + "\nrest\n", at(b)
		}},
		{"runtime-in-insert-block", "page.tw", "page", runFaults, func(f, pre string) (string, int) {
			b := "@use(\"~main\")\n" + pre + "@insert(\"title\", \"T\")\n@insert(\"body\")\nstart\n"
			return b + f + "\nrest\n@end\n", at(b)
		}},
		{"runtime-in-insert-argument", "page.tw", "page", argFaults, func(f, pre string) (string, int) {
			b := "@use(\"~main\")\n" + pre + "@insert(\"title\", \"T\")\n@insert(\"body\", "
			return b + f + ")\nrest\n", at(b)
		}},
		{"runtime-in-component-argument", "page.tw", "page", argFaults, func(f, pre string) (string, int) {
			b := pre + "lead @component(\"~card\", {t: "
			return b + f + "})\nrest\n", at(b)
		}},
		{"runtime-in-slot-body", "page.tw", "page", runFaults, func(f, pre string) (string, int) {
			b := pre + "@component(\"~card\", {t: 1})\n@slot\nin slot\n"
			return b + f + "\n@end\n@end\nrest\n", at(b)
		}},
		{"load-in-page", "page.tw", "", loadFaults, func(f, pre string) (string, int) {
			b := pre + "lead "
			return b + f + "\nrest\n", at(b)
		}},
		{"load-in-layout", "layouts/main.tw", "", loadFaults, func(f, pre string) (string, int) {
			b := "<html>\n@reserve(\"title\")\n" + pre
			return b + f + "\n@reserve(\"body\")\n", at(b)
		}},
		{"load-in-component", "components/card.tw", "", loadFaults, func(f, pre string) (string, int) {
			b := "<card>\n" + pre + "{{ t }}\n"
			return b + f + "\n@slot\n", at(b)
		}},
		{"undefined-insert", "page.tw", "", []faultKind{insertFault, insertBlockFault}, func(f, pre string) (string, int) {
			b := "@use(\"~main\")\n" + pre + "@insert(\"title\", \"T\")\n"
			return b + f + "\n@insert(\"body\")\nb\n@end\n", at(b)
		}},
		{"unknown-component", "page.tw", "", []faultKind{compFault, compFault2}, func(f, pre string) (string, int) {
			b := pre + "@component(\"~card\", {t: 1})\n@slot\ns\n@end\n@end\n"
			return b + f + "\nrest\n", at(b)
		}},
	}
	v := variants[i%len(variants)]
	f := v.faults[r.Intn(len(v.faults))]
	for f.offset < 0 {
		f = v.faults[r.Intn(len(v.faults))] // faults that run to the end of input do not fit the tree builders
	}
	// the page may be nested and its name may end in the text of the extension
	pageName := []string{"page", "sub/deep/page", "changelog.tw", "mail/digest.tw.html", "sale/20%off", "%v"}[(i/144)%6]
	pre := prelude()
	content, line := v.content(f.src, pre)
	line += f.offset
	// round 16: what a file may open with in front of its first construct - blank lines, a byte order mark, a byte order mark
	// followed by line breaks, white space only lines. Every line break counts, wherever it stands
	opening := []string{"", "", "\n\n", "\ufeff", "\ufeff\n\n", "\ufeff\r\n\r\n", " \n\t\n", "\r\n\r\n\r\n", "\ufeff\n \n\ufeff\n", "\n\n\n\n\n\n\n"}[(i/10)%10]
	content = opening + content
	line += strings.Count(opening, "\n")
	if v.file == "page.tw" {
		files["page.tw"] = content
	} else {
		files[v.file] = content
		files["page.tw"] = "@use(\"~main\")\n@insert(\"title\", \"T\")\n@insert(\"body\")\n@component(\"~card\", {t: 2})\n@slot\ns\n@end\n@end\n@end\n"
	}
	// the files are written with the configured extension
	renamed := map[string]string{}
	for k, content := range files {
		base := strings.TrimSuffix(k, ".tw")
		if base == "page" {
			base = pageName
		}
		if base == "page-alt" {
			base = pageName + "-alt"
		}
		renamed[base+ext] = content
	}
	if v.file == "page.tw" {
		v.file = pageName + ".tw"
	}
	if v.render == "page" {
		v.render = pageName
	}
	files = renamed
	os.MkdirAll("x13", 0o755)
	dir := dirSpelled
	wantPath, _ := filepath.Abs(filepath.Join(filepath.Clean(dir), strings.TrimSuffix(v.file, ".tw")+ext))
	desc := map[string]any{"variant": v.name, "fault": f.name, "file": v.file, "line": line, "files": describeFiles(files)}
	os.RemoveAll("c13tree")
	tpl, err := loadTree(c, dir, files, ext)
	c.Nontrivial(fmt.Sprint(files))
	if i < 8 {
		c.Sample(map[string]any{"variant": v.name, "fault": f.name, "file": v.file, "line": line, "content": content})
	}
	if v.render == "" {
		if err == nil {
			if tpl != nil {
				c.Violation("tree-line:"+v.name+":no-error", fmt.Sprintf("the injected %s in %s was not reported at load", f.name, v.file), desc)
			}
			return
		}
		gl, gp, ok := ErrLinePath(err)
		if !ok || gl > line || gl < line-faultSlack[f.name] {
			c.Violation("tree-line:"+v.name+":"+f.name, fmt.Sprintf("%s on line %d of %s was reported on line %d: %s", f.name, line, v.file, gl, err.Error()), desc)
		}
		if gp != wantPath {
			c.Violation("tree-path:"+v.name+":"+f.name, fmt.Sprintf("%s in %s was reported with path %q, want %q", f.name, v.file, gp, wantPath), desc)
		}
		return
	}
	if err != nil {
		c.Violation("tree-line:"+v.name+":load-failed", "a tree whose only fault is a run-time one failed to load: "+err.Error(), desc)
		return
	}
	if tpl == nil {
		return
	}
	// other pages of the same loaded tree are rendered first (successfully, and one failing on its own line)
	if i%2 == 1 {
		for _, other := range []string{"plain", "broken/elsewhere", "plain"}[:1+r.Intn(3)] {
			o, ofe := renderPage(c, tpl, other, nil)
			if other == "broken/elsewhere" && !o.Panicked {
				wantOther, _ := filepath.Abs(filepath.Join(filepath.Clean(dir), other+ext))
				if ofe == nil || int(ofe.Line()) != 3 || ofe.Filepath() != wantOther {
					c.Violation("tree-path:other-page", fmt.Sprintf("the fault on line 3 of %s was reported as %v", wantOther, ofe), desc)
				}
			}
		}
	}
	got, fe := renderPage(c, tpl, v.render, nil)
	if got.Panicked {
		return
	}
	if fe == nil {
		c.Violation("tree-line:"+v.name+":no-error", fmt.Sprintf("the injected %s was not reported at render (output %q)", f.name, clipS(got.Out, 100)), desc)
		return
	}
	if int(fe.Line()) > line || int(fe.Line()) < line-faultSlack[f.name] {
		c.Violation("tree-line:"+v.name+":"+f.name, fmt.Sprintf("%s on line %d of %s was reported on line %d: %s", f.name, line, v.file, fe.Line(), fe.Message()), desc)
	}
	if fe.Filepath() != wantPath {
		c.Violation("tree-path:"+v.name+":"+f.name, fmt.Sprintf("%s in %s was reported with path %q, want %q", f.name, v.file, fe.Filepath(), wantPath), desc)
	}
}
