package checks

import (
	"fmt"
	textwire "github.com/textwire/textwire/v2"
	"github.com/textwire/textwire/v2/config"
	"os"
	"strings"
	"unicode/utf8"

	"verif/core"
)

// C05 — text outside Textwire syntax is emitted byte for byte; escapes and
// comments work.

// scanText is the text model: it walks s as text and returns what must be
// emitted, stopping at the first byte that starts Textwire syntax (an
// unescaped "{{" or '@' + directive keyword); at = -1 when s is text only.
func scanText(s string) (out string, at int) {
	var sb strings.Builder
	i := 0
	for i < len(s) {
		rest := s[i:]
		switch {
		case s[i] == '\\' && strings.HasPrefix(rest[1:], "{{"):
			// the backslash goes, both braces are literal
			sb.WriteString("{{")
			i += 3
		case s[i] == '\\' && startsWithDirective(rest[1:]):
			// the backslash goes, the '@' is literal, what follows is plain text
			sb.WriteByte('@')
			i += 2
		case strings.HasPrefix(rest, "{{"):
			return sb.String(), i
		case s[i] == '@' && startsWithDirective(rest):
			return sb.String(), i
		default:
			sb.WriteByte(s[i])
			i++
		}
	}
	return sb.String(), -1
}

type splice struct {
	name string
	src  string
	out  string
}

var splices = []splice{
	{"print", "{{ 1 }}", "1"},
	{"print-string", "{{ 'q' }}", "q"},
	{"if", "@if(true)X@end", "X"},
	{"if-else", "@if(false)X@else Y@end", " Y"},
	{"each", "@each(v in [1])X@end", "X"},
	{"comment", "{{-- c --}}", ""},
	{"comment-syntax-inside", "{{-- {{ x }} @if(y) \" ' @end \\{{ --}}", ""},
	{"assign", "{{ zz = 1 }}", ""},
	{"for-assignment-post", "@for(k = 0; k < 2; k = k + 1)X@else Y@end", "XX"},
	{"for-without-post", "@for(k = 0; k < 2;){{ k = k + 1 }}X@else Y@end", "XX"},
	{"each-else", "@each(v in [])X@else Y@end", " Y"},
	// round 16: parentheses and brackets inside an object literal of a print, then a directive with parentheses: the text
	// behind the directive is text again only if every counter of the code segment went back to where it was
	{"object-paren-value-then-if", "{{ {a: (1)}.a }}|@if(true)X@end", "1|X"},
	{"object-call-value-then-each", "{{ {n: 'ab'.len()}.n }}@each(v in [1])X@end", "2X"},
	{"object-nested-parens-then-if-else", "{{ {a: {b: ((2))}}.a.b }}@if(false)X@else Y@end", "2 Y"},
	{"array-paren-element-then-if", "{{ [(1), {a: (2)}.a].len() }}@if((true))X@end", "2X"},
	{"if-object-cond-then-if", "@if({a: (true)}.a)X@end@if(true)Z@end", "XZ"},
}

func init() {
	judge := func(c *core.Ctx, kind, src, want string) {
		c.Input(src)
		got := evalString(c, src, nil)
		c.Nontrivial(src)
		c.Sample(map[string]any{"source": src, "expected": want, "class": kind})
		if got.Panicked {
			return
		}
		if got.Err != nil {
			c.Violation(kind+":rejected", fmt.Sprintf("text was rejected: %s", got.Err.Error()), map[string]any{"source": src, "expected": want})
			return
		}
		if got.Out != want {
			c.Violation(kind+":"+diffClass(want, got.Out), fmt.Sprintf("rendered %q, want %q", got.Out, want), map[string]any{"source": src, "expected": want, "observed": got.Out})
		}
	}
	// plain and escape classes
	runText := func(c *core.Ctx, s string) {
		out, at := scanText(s)
		if at >= 0 {
			c.Count("strings_with_syntax_not_judged", 1)
			return
		}
		if out == s {
			c.Count("plain_strings", 1)
			judge(c, "plain", s, out)
		} else {
			c.Count("escape_strings", 1)
			judge(c, "escape", s, out)
		}
	}
	// comment bodies: everything short of the terminator
	runComment := func(c *core.Ctx, body string) {
		full := "--" + body + "--}}"
		if strings.Index(full, "--}}") != len(full)-4 {
			c.Count("comment_bodies_with_early_terminator_skipped", 1)
			return
		}
		c.Count("comment_bodies", 1)
		judge(c, "comment", "a{{--"+body+"--}}b", "ab")
	}
	core.Register(&core.Check{
		ID:    "C05",
		Level: "exploration",
		Rule: "inputs are all sequences of up to k atoms of the text alphabet (@, backslash, braces, dashes, quotes, parentheses, CRLF, UTF-8, directive names that steer the lexer's mode switches and proper prefixes of directive names), the remaining directive names and prefixes in sequences of up to 2, comment bodies of up to k atoms, splices of every text string of up to 2-3 atoms on both sides of 8 constructs, and seeded random atom strings; " +
			"an independent scanner classifies each string (plain text / escapes only / contains syntax) and gives the expected bytes; plain and escape strings are rendered by the real code and compared byte for byte. also control and non-UTF-8 bytes between all pairs of atoms, texts through template files (String and Response), files up to 3 MiB, directive names in another case; texts at the very start of files incl. U+FEFF, loop splices; round 8: nests to 600 blocks, concurrent text rendering; round 9: 16 more headers and @else bodies in front of every text; concurrent replay; round 11: file API, empty pages; round 16: prints with parentheses inside object and array literals in front of directives with parentheses; round 17: escapes behind long runs of plain text; distinct_nontrivial = distinct judged sources (by hash)",
		Assumptions: []string{
			"a comment starts at '{{--' and ends at the first '--}}' found from the byte after '{{' on; bodies that would form an earlier terminator are skipped",
			"'\\{{' escapes both braces; '\\@keyword' escapes the '@' only (the keyword letters are plain text anyway)",
			"strings containing unescaped syntax are not judged here (they belong to C08/C19)",
		},
		Sections: func(tier core.Tier, seed int64) []core.Section {
			k, nrand := 4, 60000
			if tier == core.Thorough {
				k, nrand = 5, 8000000
			}
			var secs []core.Section
			secs = append(secs, seqSections("text-", TextAtoms, k, runText)...)
			more := append(append([]string{}, MoreDirectiveAtoms...), "\\", "{{", "@", " ", "(", "x")
			secs = append(secs, seqSections("more-directives-", more, 2, runText)...)
			secs = append(secs, seqSections("comment-body-", TextAtoms, k-1, runComment)...)
			// raw control and non-UTF-8 bytes in text and in comments, alone and between every pair of atoms
			ctrl := []string{"\x00", "\x01", "\b", "\t", "\v", "\f", "\x1b", "\x7f", "\x80", "\xa0", "\xc3", "\xff"}
			around := append([]string{""}, TextAtoms...)
			secs = append(secs, core.Section{Name: "control-bytes", Exhaustive: true, N: len(ctrl) * len(around),
				Run: func(c *core.Ctx, i int) {
					b, a := ctrl[i%len(ctrl)], around[i/len(ctrl)]
					for _, z := range around {
						runText(c, a+b+z)
						runComment(c, a+b+z)
						for _, sp := range splices[:3] {
							src := a + b + sp.src + b + z
							if _, at := scanText(src); at != len(a+b) {
								continue
							}
							o1, _ := scanText(a + b)
							if o2, at2 := scanText(b + z); at2 < 0 {
								judge(c, "control-splice-"+sp.name, src, o1+sp.out+o2)
							}
						}
					}
				}})
			// round 17: escapes whose backslash is the last byte of a run of plain text of every length around the powers of two
			// (a lexer that hands text on in pieces must not lose the backslash between two pieces)
			var escLens []int
			for p := 6; p <= 16; p++ {
				for d := -2; d <= 1; d++ {
					escLens = append(escLens, 1<<p+d)
				}
			}
			secs = append(secs, core.Section{Name: "escapes-behind-long-runs", Exhaustive: true, N: len(escLens),
				Run: func(c *core.Ctx, i int) {
					n := escLens[i]
					for _, fill := range []string{"t", "ab ", "é"} {
						run := strings.Repeat(fill, n/len(fill)+1)[:n]
						for !utf8.ValidString(run) {
							run = run[:len(run)-1]
						}
						for _, esc := range []string{"\\@if(x)", "\\@end", "\\{{ x }}", "\\@each(a in b)", "\\@", "\\"} {
							runText(c, run+esc+" tail")
							runText(c, "<p>\n"+run+esc+run+esc)
						}
					}
				}})
			// splices: t1 · C · t2 for all text strings of up to 2 atoms (3 on one side in thorough)
			var texts []string
			seen := map[string]bool{}
			for _, a := range append([]string{""}, TextAtoms...) {
				for _, b := range append([]string{""}, TextAtoms...) {
					s := a + b
					if out, at := scanText(s); at < 0 && !seen[s] {
						_ = out
						seen[s] = true
						texts = append(texts, s)
					}
				}
			}
			secs = append(secs, core.Section{Name: "splices", Exhaustive: true, N: len(texts) * len(splices),
				Run: func(c *core.Ctx, i int) {
					sp := splices[i%len(splices)]
					t1 := texts[i/len(splices)]
					for _, t2 := range texts {
						src := t1 + sp.src + t2
						// t1 must stay text up to the construct (no trailing backslash or brace fusing with it)
						if _, at := scanText(src); at != len(t1) {
							continue
						}
						o1, _ := scanText(t1)
						o2, at2 := scanText(t2)
						if at2 >= 0 {
							continue
						}
						judge(c, "splice-"+sp.name, src, o1+sp.out+o2)
					}
				}})
			// text inside blocks: right after ")" of a directive, right after a paren-less
			// keyword (@else), right before @end - also text that starts with letters
			holes := []struct{ name, pre, post, outPre string }{
				{"after-if-paren", "<@if(true)", "@end>", ""},
				{"after-else", "<@if(false)X@else", "@end>", ""},
				{"after-each-paren", "<@each(v in [1])", "@end>", ""},
				{"after-end", "<@if(true)X@end", ">", "X"},
				{"after-elseif-paren", "<@if(0)X@elseif(1)", "@else Z@end>", ""},
				{"before-else", "<@if(1)", "@else Z@end>", ""},
				{"after-comment", "<{{-- c --}}", "{{-- d --}}>", ""},
				// text after @break / @continue is never rendered, but it must still be text for the lexer
				{"after-break", "<@each(v in [1, 2])a@break", "@end>", "\x00a"},
				{"after-continue", "<@each(v in [1, 2])a@continue", "@end>", "\x00aa"},
				{"after-slot-keyword", "<@component(\"c\")@slot", "@end@end>", "\x00skip"},
				// headers with richer arguments: nested object literals (their closing braces stand side by side), trailing
				// commas, strings holding parentheses and braces; @else bodies of loops over arrays that built-ins emptied
				{"after-if-nested-objects", "<@if({a: {b: 1}}.a.b == 1)", "@end>", ""},
				{"after-if-quoted-keys", "<@if({\"a\": {\"b\": {\"c\": 1}}}.a.b.c == 1)", "@end>", ""},
				{"after-each-nested-objects", "<@each(u in [{name: {first: \"A\"}}])", "@end>", ""},
				{"after-elseif-nested-objects", "<@if(0)X@elseif({a: {b: [1, {c: 2}]}}.a.b[1].c == 2)", "@else Z@end>", ""},
				{"after-each-trailing-comma", "<@each(n in [\"a\",])", "@end>", ""},
				{"after-if-trailing-comma", "<@if([1, 2,].len() == 2)", "@end>", ""},
				{"after-if-call-trailing-comma", "<@if(\"abc\".contains(\"a\",))", "@end>", ""},
				{"after-if-object-trailing-comma", "<@if({a: 1, b: 2,}.b == 2)", "@end>", ""},
				{"after-if-string-with-parens", "<@if(\"a)b(\".len() == 4)", "@end>", ""},
				{"after-if-string-with-braces", "<@if(\"}}\".len() == 2 ? {x: {y: true}}.x.y : false)", "@end>", ""},
				{"after-each-ternary-source", "<@each(v in true ? [1] : [])", "@end>", ""},
				{"in-each-else-of-sliced-empty", "<@each(n in [1].slice(1))X@else", "@end>", ""},
				{"in-each-else-of-sliced-data", "<@each(n in [1, 2, 3].slice(1).slice(1).slice(1))X@else", "@end>", ""},
				{"in-each-else-of-reversed-empty", "<@each(n in [].reverse())X@else", "@end>", ""},
				{"in-for-else", "<@for(k = 0; k < 0; k++)X@else", "@end>", ""},
				{"in-nested-each-else", "<@each(o in [1])@each(n in [o].slice(1))X@else", "@end@end>", ""},
			}
			holeTexts := append(append([]string{}, texts...), "i", "f", "of", "off", "it works", "If", "Ifx", "if", "iffy", "Ignored", "I", "Is skipped", "IF", "I@end", "Iff", "(see note)", "( x )", "e", "end", "else", "each x", "for", "x@", "a@b.c")
			secs = append(secs, core.Section{Name: "text-in-blocks", Exhaustive: true, N: len(holeTexts),
				Run: func(c *core.Ctx, i int) {
					t := holeTexts[i]
					out, at := scanText(t)
					if at >= 0 {
						return
					}
					for _, h := range holes {
						// "@else" + "if…" spells @elseif; "@break"/"@continue" + "If…" their conditional forms
						if strings.HasSuffix(h.pre, "@else") && strings.HasPrefix(t, "if") {
							continue
						}
						if (h.name == "after-break" || h.name == "after-continue") && strings.HasPrefix(t, "If") {
							continue
						}
						if h.name == "after-slot-keyword" {
							continue // needs a template tree; the string API has no components
						}
						src := h.pre + t + h.post
						// the text must not fuse with what follows it into syntax (trailing backslash, brace)
						if _, at := scanText(t + h.post); at != len(t) && h.post != ">" {
							continue
						}
						if strings.HasSuffix(t, "\\") {
							continue
						}
						if strings.HasPrefix(h.outPre, "\x00") {
							// the text itself is not rendered: the expected output is fixed
							judge(c, "text-in-block-"+h.name, src, "<"+h.outPre[1:]+">")
							continue
						}
						judge(c, "text-in-block-"+h.name, src, "<"+h.outPre+out+">")
					}
				}})
			// the same texts through template files: page, layout, insert block, component file, slot body,
			// between slots; rendered with String and written with Response
			fileTexts := append(append([]string{}, texts...), "100% sure", "%d %s %v", "50%", "%", "%%", "a%", "\u00a0", "\f", "é\u3000", "i", "if", "It", "a\x00b", "\x00", "\xff\x01", "\ufeff", "\ufeff\ufeff", "\xef\xbb", "\xfe\xff", "\xff\xfe", "\u200b", "\u2060")
			secs = append(secs, core.Section{Name: "text-through-files", Exhaustive: true, N: len(fileTexts),
				Run: func(c *core.Ctx, i int) {
					t := fileTexts[i]
					out, at := scanText(t)
					if at >= 0 || strings.HasSuffix(t, "\\") || strings.HasSuffix(t, "{") {
						return
					}
					files := map[string]string{
						"layouts/main.tw":    "L<" + t + ">@reserve(\"body\")<" + t + ">",
						"components/box.tw":  "C<" + t + ">@slot(\"a\")|@slot(\"b\")<" + t + ">",
						"plain.tw":           "<" + t + ">",
						"withlayout.tw":      "@use(\"~main\")@insert(\"body\")I<" + t + ">@end",
						"withcomp.tw":        "P<" + t + ">@component(\"~box\")@slot(\"a\")S<" + t + ">@end {{-- between --}} @slot(\"b\")T<" + t + ">@end {{-- last --}} @end<" + t + ">",
						"gap.tw":             "G@component(\"~box\")<" + t + ">",
						"components/bare.tw": "[@slot(\"a\")]",
						"gapslot.tw":         "G@component(\"~bare\")" + t + "@slot(\"a\")S@end@end",
						// the text is the very first thing in the file
						"startpage.tw":         t + "|rest",
						"layouts/startlay.tw":  t + "|@reserve(\"body\")",
						"usesstartlay.tw":      "@use(\"~startlay\")@insert(\"body\", \"B\")",
						"components/startc.tw": t + "|C",
						"usesstartc.tw":        "[@component(\"~startc\")][@component(\"~startc\")]",
						// a page of no bytes at all is a page: it renders to nothing
						"empty.tw":     "",
						"sub/empty.tw": "",
					}
					tpl, err := loadTree(c, "c05tree", files, ".tw")
					c.Nontrivial("files:" + t)
					if err != nil {
						c.Violation("text-through-files:load", "a tree holding only text and basic constructs was rejected: "+err.Error(), map[string]any{"text": t, "files": describeFiles(files)})
						return
					}
					if tpl == nil {
						return
					}
					want := map[string]string{
						"plain":      "<" + out + ">",
						"withlayout": "L<" + out + ">I<" + out + "><" + out + ">",
						"withcomp":   "P<" + out + ">C<" + out + ">S<" + out + ">|T<" + out + "><" + out + "><" + out + ">",
						"gap":        "GC<" + out + ">|<" + out + "><" + out + ">",
					}
					want["startpage"] = out + "|rest"
					want["usesstartlay"] = out + "|B"
					want["usesstartc"] = "[" + out + "|C][" + out + "|C]"
					want["empty"], want["sub/empty"] = "", ""
					// the same files through the file API
					for file, w := range map[string]string{"startpage.tw": out + "|rest", "plain.tw": "<" + out + ">", "empty.tw": "", "components/startc.tw": out + "|C"} {
						var fout string
						var ferr error
						c.Eval(1)
						if !c.Guard(func() { fout, ferr = textwire.EvaluateFile("c05tree/"+file, nil) }) && (ferr != nil || fout != w) {
							c.Violation("text-through-files:evaluate-file", fmt.Sprintf("EvaluateFile(%s) gave (%q, %v), want %q", file, fout, ferr, w), map[string]any{"text": t, "files": describeFiles(files)})
						}
					}
					// a text run between a component and a slot directive is text unless it is only blanks:
					// whatever the slot then means, the run itself must come out
					if strings.Trim(t, " \t\r\n") != "" {
						if got, _ := renderPage(c, tpl, "gapslot", nil); !got.Panicked && got.Err == nil && !strings.Contains(got.Out, out) {
							c.Violation("text-through-files:gapslot", fmt.Sprintf("the text between @component(...) and @slot is missing from %q", got.Out), map[string]any{"text": t, "files": describeFiles(files)})
						}
					}
					for _, page := range []string{"plain", "withlayout", "withcomp", "gap", "startpage", "usesstartlay", "usesstartc", "empty", "sub/empty"} {
						got, _ := renderPage(c, tpl, page, nil)
						if got.Panicked {
							continue
						}
						if got.Err != nil || got.Out != want[page] {
							c.Violation("text-through-files:"+page, fmt.Sprintf("String(%s) gave %s, want %q", page, got.Describe(), want[page]), map[string]any{"text": t, "files": describeFiles(files)})
							continue
						}
						rec := newRecorder()
						var rerr error
						c.Eval(1)
						if c.Guard(func() { rerr = tpl.Response(rec, page, nil) }) {
							continue
						}
						if rerr != nil || rec.body.String() != want[page] {
							c.Violation("text-through-files:response", fmt.Sprintf("Response(%s) wrote %q (error %v), want %q", page, rec.body.String(), rerr, want[page]), map[string]any{"text": t, "files": describeFiles(files)})
						}
					}
				}})
			// long runs of plain text without a line break, around powers of two, on first and later lines, before
			// every kind of construct
			runLens := []int{15, 16, 17, 31, 32, 33, 63, 64, 65, 127, 128, 129, 255, 256, 257, 1000, 4096}
			secs = append(secs, core.Section{Name: "long-text-runs", Exhaustive: true, N: len(runLens) * 4,
				Run: func(c *core.Ctx, i int) {
					n := runLens[i%len(runLens)]
					fill := []string{"x", "ab cd ", "é", "<td class='c'>"}[i/len(runLens)]
					body := strings.Repeat(fill, n/len(fill)+1)[:n]
					for !utf8.ValidString(body) {
						body = body[:len(body)-1]
					}
					for _, pre := range []string{"", "<div>\n", "a\nb\n", "<p>", "\r\n"} {
						runText(c, pre+body)
						runText(c, pre+body+"\n"+body)
						runText(c, pre+body+"\\{{ x }}"+body)
						runText(c, pre+body+"\\@if(x)")
						for _, sp := range splices {
							judge(c, "long-run-"+sp.name, pre+body+sp.src+body, pre+body+sp.out+body)
						}
					}
				}})
			// text at every level of a deep nest of blocks (the count of open blocks passes powers of two)
			depths := []int{1, 7, 8, 9, 31, 32, 33, 63, 64, 65, 66, 100, 127, 128, 129, 255, 256, 257, 300, 600}
			nestKinds := [][2]string{{"@if(true)", "@end"}, {"@if(false)no@else", "@end"}, {"@each(v in [1])", "@end"}, {"@for(k = 0; k < 1; k++)", "@end"},
				{"@if(false)no@elseif(1)", "@end"}, {"@each(v in [])no@else", "@end"}}
			secs = append(secs, core.Section{Name: "deeply-nested-text", Exhaustive: true, N: len(depths) * (len(nestKinds) + 1),
				Run: func(c *core.Ctx, i int) {
					d := depths[i%len(depths)]
					kind := i / len(depths)
					var src, want strings.Builder
					var closers []string
					for l := 0; l < d; l++ {
						nk := nestKinds[(kind+l)%len(nestKinds)]
						if kind < len(nestKinds) {
							nk = nestKinds[kind]
						}
						t := fmt.Sprintf("<l%d é }} \\ {>", l)
						src.WriteString(t + nk[0])
						want.WriteString(t)
						closers = append(closers, nk[1]+fmt.Sprintf("</l%d>", l))
					}
					src.WriteString("innermost @ text")
					want.WriteString("innermost @ text")
					for l := d - 1; l >= 0; l-- {
						src.WriteString(closers[l])
						want.WriteString(fmt.Sprintf("</l%d>", l))
					}
					judge(c, fmt.Sprintf("nested-text-depth-%d", d), src.String(), want.String())
				}})
			// several goroutines render text at once, each its own: every byte still arrives, unchanged and in order
			secs = append(secs, core.Section{Name: "concurrent-text", N: 12,
				Run: func(c *core.Ctx, i int) {
					c.Input(map[string]any{"goroutines": 8, "inputs_each": 200, "round": i})
					c.Nontrivial(fmt.Sprint("text-burst", i, c.Seed))
					concurrentBurst(c, 8, 200, func(g, n int) (string, map[string]any, string) {
						id := fmt.Sprintf("%d.%d.%d.%d", c.Seed, i, g, n)
						run := strings.Repeat(string(rune('a'+g)), 1+(n*37+g*11)%300)
						src := "<p g" + id + ">" + run + " }} { \\ é中\n\\{{ x" + id + " }}" + run + "{{-- c" + id + " {{ y }} @if( --}}\\@if(" + id + ")" + run + "</p>"
						want := "<p g" + id + ">" + run + " }} { \\ é中\n{{ x" + id + " }}" + run + "@if(" + id + ")" + run + "</p>"
						return src, nil, want
					})
				}})
			// text of a custom error page, written by Response for a page that fails
			secs = append(secs, core.Section{Name: "text-in-custom-error-page", Exhaustive: true, N: len(fileTexts),
				Run: func(c *core.Ctx, i int) {
					t := fileTexts[i]
					out, at := scanText(t)
					if at >= 0 || strings.HasSuffix(t, "\\") || strings.HasSuffix(t, "{") {
						return
					}
					files := map[string]string{"errors/e.tw": "E<" + t + "> é中😀 <" + t + ">", "bad.tw": "before {{ 1 / zero }} after", "ok.tw": "O<" + t + ">"}
					if err := writeFilesFresh("c05err", files); err != nil {
						c.Inconclusive(err.Error())
						return
					}
					for _, f := range []string{"errors/e.tw", "bad.tw", "ok.tw"} {
						os.Chtimes("c05err/"+f, fixedMtime, fixedMtime)
					}
					textwire.VerifResetConfig()
					var tpl *textwire.Template
					var err error
					c.Eval(1)
					if c.Guard(func() {
						tpl, err = textwire.NewTemplate(&config.Config{TemplateDir: "c05err", TemplateExt: ".tw", ErrorPagePath: "errors/e"})
					}) {
						return
					}
					c.Nontrivial("errpage:" + t)
					if err != nil || tpl == nil {
						c.Violation("text-in-error-page:load", fmt.Sprintf("loading failed: %v", err), map[string]any{"text": t})
						return
					}
					for page, want := range map[string]string{"bad": "E<" + out + "> é中😀 <" + out + ">", "ok": "O<" + out + ">"} {
						rec := newRecorder()
						var rerr error
						c.Eval(1)
						if c.Guard(func() { rerr = tpl.Response(rec, page, map[string]any{"zero": 0}) }) {
							continue
						}
						if rec.body.String() != want || (page == "ok") != (rerr == nil) {
							c.Violation("text-in-error-page:"+page, fmt.Sprintf("Response(%s) wrote %q (error %v), want %q", page, rec.body.String(), rerr, want), map[string]any{"text": t})
						}
						if hp := rec.headerProblem(); hp != "" {
							c.Violation("text-in-error-page:content-length", hp, map[string]any{"text": t, "page": page})
						}
					}
				}})
			// large files: every byte of text, up to several MiB, through the file entry points
			sizes := []int{4095, 4096, 4097, 65535, 65536, 65537, 1<<20 - 7, 1 << 20, 1<<20 + 1, 3<<20 + 5, 1<<24 + 33}
			if tier == core.Thorough {
				sizes = append(sizes, 1<<25+1, 1<<26+7)
			}
			secs = append(secs, core.Section{Name: "large-files", Exhaustive: true, N: len(sizes),
				Run: func(c *core.Ctx, i int) {
					n := sizes[i]
					line := "<p>lorem ipsum dolor sit amet, é中 } {\\ @ -- </p>\n"
					body := strings.Repeat(line, n/len(line)+1)[:n]
					for !utf8.ValidString(body) {
						body = body[:len(body)-1]
					}
					// the cut must not leave a backslash or brace that would fuse with the footer
					body = strings.TrimRight(body, "\\{@")
					body += strings.Repeat(".", n-len(body))
					src := body + "{{ 1 + 1 }}FOOTER\n"
					want := body + "2FOOTER\n"
					c.Input(map[string]any{"text_bytes": len(body), "then": "{{ 1 + 1 }}FOOTER"})
					c.Nontrivial(fmt.Sprint("large", n))
					report := func(via, got string, err error) {
						if err != nil || got != want {
							at := 0
							for at < len(got) && at < len(want) && got[at] == want[at] {
								at++
							}
							c.Violation("large-file:"+via, fmt.Sprintf("%s of a %d-byte text gave %d bytes (error %v), want %d; first difference at byte %d", via, len(body), len(got), err, len(want), at), map[string]any{"text_bytes": len(body)})
						}
					}
					var out string
					var err error
					c.Eval(1)
					if !c.Guard(func() { out, err = textwire.EvaluateString(src, nil) }) {
						report("EvaluateString", out, err)
					}
					files := map[string]string{"big.tw": src, "layouts/main.tw": src + "@reserve(\"r\")", "usesbig.tw": "@use(\"~main\")@insert(\"r\", \"!\")", "components/big.tw": src, "usescomp.tw": "[@component(\"~big\")]"}
					if werr := writeFilesFresh("c05big", files); werr != nil {
						c.Inconclusive(werr.Error())
						return
					}
					defer os.RemoveAll("c05big")
					c.Eval(1)
					if !c.Guard(func() { out, err = textwire.EvaluateFile("c05big/big.tw", nil) }) {
						report("EvaluateFile", out, err)
					}
					tpl, lerr, panicked := newTemplate(c, "c05big", ".tw")
					if panicked {
						return
					}
					if lerr != nil || tpl == nil {
						c.Violation("large-file:load", fmt.Sprintf("a tree with %d-byte files did not load: %v", len(body), lerr), map[string]any{"text_bytes": len(body)})
						return
					}
					for page, w := range map[string]string{"big": want, "usesbig": want + "!", "usescomp": "[" + want + "]"} {
						saved := want
						want = w
						if o, _ := renderPage(c, tpl, page, nil); !o.Panicked {
							report("Template.String("+page+")", o.Out, o.Err)
						}
						want = saved
					}
				}})
			all := allAtoms()
			textish := append(append([]string{}, TextAtoms...), MoreDirectiveAtoms...)
			secs = append(secs, core.Section{Name: "random", N: nrand, Run: func(c *core.Ctx, i int) {
				atoms := textish
				if i%4 == 0 {
					atoms = all
				}
				// a long string of text only: an atom that would start syntax is dropped, not the rest of the string
				var sb strings.Builder
				target := 1 + c.Rng.Intn(400)
				for tries := 0; sb.Len() < target && tries < 400; tries++ {
					a := atoms[c.Rng.Intn(len(atoms))]
					if _, at := scanText(sb.String() + a); at >= 0 {
						continue
					}
					sb.WriteString(a)
				}
				runText(c, sb.String())
			}})
			return secs
		},
	})
}

func diffClass(want, got string) string {
	switch {
	case len(got) < len(want):
		return "bytes-lost"
	case len(got) > len(want):
		return "bytes-added"
	}
	return "bytes-changed"
}
