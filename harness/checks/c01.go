package checks

import (
	"fmt"
	"math"
	"math/rand"
	"strings"
	"unicode"
	"unicode/utf8"

	"verif/core"
	"verif/model"
)

// C01 — expressions follow the precedence table, left associativity and
// typed arithmetic; layout never changes the result.

var binOps = []string{"+", "-", "*", "/", "%", "==", "!=", "<", ">", "<=", ">="}

// operand sets chosen so that every regrouping changes the value or its type
type operandSet struct {
	name string
	vals []model.Value
}

var operandSets = []operandSet{
	{"int", []model.Value{model.Int(8), model.Int(4), model.Int(2), model.Int(3)}},
	{"float", []model.Value{model.Float(1.5), model.Float(0.25), model.Float(2.0), model.Float(4.5)}},
	{"string", []model.Value{model.Str("a"), model.Str("b"), model.Str("c"), model.Str("a")}},
	{"zeroish", []model.Value{model.Int(0), model.Int(1), model.Int(0), model.Int(7)}},
	// decimal fractions that are not exact in binary: products and sums land next to whole numbers
	{"inexact-float", []model.Value{model.Float(4.35), model.Float(100.0), model.Float(0.7), model.Float(0.1)}},
	// results far below one millionth and far above 10^21, where number printers like to change notation
	{"tiny-and-huge-float", []model.Value{model.Float(0.00000025), model.Float(8000000.0), model.Float(1000000000000000.0), model.Float(0.5)}},
	// strings that are valid UTF-8 only when joined
	{"split-utf8-string", []model.Value{model.Str("caf\xc3"), model.Str("\xa9"), model.Str("\xff"), model.Str("caf\xc3")}},
}

// bound values with methods of their own next to exported fields
type c01Point struct{ X, Y int }

func (p c01Point) String() string { return fmt.Sprintf("(%d,%d)", p.X, p.Y) }

type c01PtrPoint struct{ X, Y int }

func (p *c01PtrPoint) String() string { return "ptr-point" }

type c01ErrPoint struct{ X, Y int }

func (p c01ErrPoint) Error() string { return "err-point" }

type c01TextPoint struct{ X, Y int }

func (p c01TextPoint) MarshalText() ([]byte, error) { return []byte("text-point"), nil }

// variable names that only look like keywords: a keyword in another case, or with a keyword as prefix
var operandNames = []string{"In", "vb", "Nil", "TRUE"}

// operand i of a set in literal (form 0), variable (form 1) or mixed (form 2) form
func operand(set operandSet, i, form int) model.Expr {
	asVar := form == 1 || (form == 2 && i%2 == 0)
	if asVar {
		return model.Var{Name: operandNames[i]}
	}
	return model.Lit{V: set.vals[i]}
}

func operandData(set operandSet) map[string]model.Value {
	d := map[string]model.Value{}
	for i, n := range operandNames {
		d[n] = set.vals[i]
	}
	return d
}

// binary tree shapes over k+1 leaves, as functions of the operators
func shapes2(ops [2]string, l [3]model.Expr) []model.Expr {
	return []model.Expr{
		model.Binary{Op: ops[1], L: model.Binary{Op: ops[0], L: l[0], R: l[1]}, R: l[2]},
		model.Binary{Op: ops[0], L: l[0], R: model.Binary{Op: ops[1], L: l[1], R: l[2]}},
	}
}

func shapes3(o [3]string, l [4]model.Expr) []model.Expr {
	b := func(op string, x, y model.Expr) model.Expr { return model.Binary{Op: op, L: x, R: y} }
	return []model.Expr{
		b(o[2], b(o[1], b(o[0], l[0], l[1]), l[2]), l[3]),
		b(o[2], b(o[0], l[0], b(o[1], l[1], l[2])), l[3]),
		b(o[1], b(o[0], l[0], l[1]), b(o[2], l[2], l[3])),
		b(o[0], l[0], b(o[2], b(o[1], l[1], l[2]), l[3])),
		b(o[0], l[0], b(o[1], l[1], b(o[2], l[2], l[3]))),
	}
}

type exprLayout struct {
	name string
	st   func(r *rand.Rand) model.Style
}

var exprLayouts = []exprLayout{
	{"minimal-space", func(r *rand.Rand) model.Style {
		return model.Style{Parens: model.MinimalParens, Layout: model.SpaceLayout}
	}},
	{"minimal-tight", func(r *rand.Rand) model.Style {
		return model.Style{Parens: model.MinimalParens, Layout: model.TightLayout}
	}},
	{"full-space", func(r *rand.Rand) model.Style {
		return model.Style{Parens: model.FullParens, Layout: model.SpaceLayout}
	}},
	{"redundant-newline", func(r *rand.Rand) model.Style {
		return model.Style{Parens: model.RedundantParens, Layout: model.NewlineLayout, Rng: r}
	}},
}

// judgeExpr renders <{{ e }}> in every layout and compares each with the model
func judgeExpr(c *core.Ctx, e model.Expr, data map[string]model.Value, kind string) {
	stmts := []model.Stmt{model.Text{S: "<"}, model.Print{E: e}, model.Text{S: ">"}}
	judgeProgram(c, stmts, data, kind, false)
}

// judgeProgram renders a statement list in every layout and compares each with the model
func judgeProgram(c *core.Ctx, stmts []model.Stmt, data map[string]model.Value, kind string, withEvents bool) {
	exp := expectRun(stmts, data)
	switch {
	case exp.Unspecified:
		c.Count("cases_unspecified_by_the_statement", 1)
	case exp.Fails:
		c.Count("cases_model_expects_error", 1)
	default:
		c.Count("cases_model_expects_output", 1)
		if withEvents {
			c.Count("tracer_events_expected", len(exp.Events))
		}
	}
	native := model.NativeData(data)
	for _, lay := range exprLayouts {
		st := lay.st(c.Rng)
		src := model.PrintStmts(stmts, st)
		c.Input(map[string]any{"source": src, "data": model.DescribeData(data), "layout": lay.name})
		traceReset()
		got := evalString(c, src, native)
		ev := traceTake()
		if why := compare(exp, got, withEvents, ev); why != "" {
			c.Violation(kind+":"+lay.name, why, map[string]any{
				"source": src, "data": model.DescribeData(data), "layout": lay.name,
				"expected": expectText(exp), "observed": got.Describe(),
			})
		}
		if !exp.Unspecified {
			c.Nontrivial(src)
		}
		if lay.name == "minimal-space" {
			c.Sample(map[string]any{"source": src, "expected": expectText(exp)})
		}
	}
}

func expectText(e Expect) string {
	switch {
	case e.Unspecified:
		return "(not specified)"
	case e.Fails:
		return "error"
	}
	return fmt.Sprintf("%q", e.Out)
}

func decorate(e model.Expr, d int) model.Expr {
	switch d {
	case 1:
		return model.Unary{Op: "-", X: e}
	case 2:
		return model.Postfix{Op: "++", X: e}
	case 3:
		return model.Postfix{Op: "--", X: e}
	}
	return e
}

// memberData is the data of the member/index/call rows
func memberData() map[string]model.Value {
	return map[string]model.Value{
		"x":   model.Int(5),
		"f":   model.Float(2.5),
		"t":   model.Bool(true),
		"arr": model.Arr(model.Int(7), model.Int(-8), model.Int(9)),
		"o": model.Obj(map[string]model.Value{
			"n": model.Int(3), "a": model.Arr(model.Int(4), model.Int(-5)), "Neg": model.Float(-2.5),
			// a key and its capitalised twin: the spelled key is the one read
			"N": model.Int(40), "A": model.Str("twin"),
			"o": model.Obj(map[string]model.Value{"n": model.Int(-6), "a": model.Arr(model.Int(1)), "N": model.Float(0.5)}),
		}),
		"none": model.Arr(),
	}
}

var memberBases = []model.Expr{
	model.Var{Name: "x"}, model.Var{Name: "f"}, model.Var{Name: "arr"}, model.Var{Name: "o"},
	model.Lit{V: model.Int(5)}, model.Lit{V: model.Float(2.5)}, model.Var{Name: "t"},
	model.Var{Name: "none"}, model.ArrLit{},
}

// unary-ish operators applied in chains
var memberOps = []func(model.Expr) model.Expr{
	func(e model.Expr) model.Expr { return model.Unary{Op: "-", X: e} },
	func(e model.Expr) model.Expr { return model.Unary{Op: "!", X: e} },
	func(e model.Expr) model.Expr { return model.Postfix{Op: "++", X: e} },
	func(e model.Expr) model.Expr { return model.Postfix{Op: "--", X: e} },
	func(e model.Expr) model.Expr { return model.Dot{X: e, Name: "n"} },
	func(e model.Expr) model.Expr { return model.Dot{X: e, Name: "a"} },
	func(e model.Expr) model.Expr { return model.Dot{X: e, Name: "o"} },
	func(e model.Expr) model.Expr { return model.Dot{X: e, Name: "neg"} },
	func(e model.Expr) model.Expr { return model.Index{X: e, I: model.Lit{V: model.Int(0)}} },
	func(e model.Expr) model.Expr { return model.Index{X: e, I: model.Lit{V: model.Int(1)}} },
	func(e model.Expr) model.Expr { return model.Index{X: e, I: model.Lit{V: model.Str("n")}} },
	func(e model.Expr) model.Expr { return model.Call{X: e, Name: "abs"} },
	func(e model.Expr) model.Expr { return model.Call{X: e, Name: "len"} },
	func(e model.Expr) model.Expr { return model.Call{X: e, Name: "float"} },
	func(e model.Expr) model.Expr {
		return model.Binary{Op: "*", L: e, R: model.Lit{V: model.Int(2)}}
	},
	func(e model.Expr) model.Expr {
		return model.Binary{Op: "-", L: model.Lit{V: model.Int(1)}, R: e}
	},
}

var kindSamples = []model.Value{
	model.Int(3), model.Float(1.5), model.Str("s"), model.Bool(true), model.Nil,
	model.Arr(model.Int(1)), model.Obj(map[string]model.Value{"k": model.Int(1)}),
}

func literalOf(v model.Value) model.Expr {
	switch v.K {
	case model.KArr:
		var el []model.Expr
		for _, e := range v.A {
			el = append(el, literalOf(e))
		}
		return model.ArrLit{Elems: el}
	case model.KObj:
		var ol model.ObjLit
		for _, k := range v.Keys() {
			ol.Keys = append(ol.Keys, k)
			ol.Vals = append(ol.Vals, literalOf(v.O[k]))
		}
		return ol
	case model.KInt:
		if v.I == math.MinInt64 {
			// the most negative integer has no literal: -9223372036854775807 - 1
			return model.Paren{X: model.Binary{Op: "-", L: model.Unary{Op: "-", X: model.Lit{V: model.Int(math.MaxInt64)}}, R: model.Lit{V: model.Int(1)}}}
		}
		if v.I < 0 {
			return model.Unary{Op: "-", X: model.Lit{V: model.Int(-v.I)}}
		}
	case model.KFloat:
		if v.F < 0 {
			return model.Unary{Op: "-", X: model.Lit{V: model.Float(-v.F)}}
		}
	}
	return model.Lit{V: v}
}

// ---- random typed trees ----

type exprGen struct {
	r    *rand.Rand
	data map[string]model.Value
}

func newExprGen(r *rand.Rand) *exprGen {
	g := &exprGen{r: r}
	ints := []int64{0, 1, 2, 3, 7, -4, 10, 255}
	floats := []float64{0.5, 1.5, 2.25, -0.75, 3.0, 0.0, 10.5}
	strs := []string{"a", "bc", "", "x y", "é"}
	g.data = map[string]model.Value{
		"i1": model.Int(ints[r.Intn(len(ints))]), "i2": model.Int(ints[r.Intn(len(ints))]),
		"f1": model.Float(floats[r.Intn(len(floats))]), "f2": model.Float(floats[r.Intn(len(floats))]),
		"s1": model.Str(strs[r.Intn(len(strs))]), "s2": model.Str(strs[r.Intn(len(strs))]),
		"b1": model.Bool(r.Intn(2) == 0), "n1": model.Nil,
		"ai": model.Arr(model.Int(ints[r.Intn(len(ints))]), model.Int(ints[r.Intn(len(ints))]), model.Int(3)),
		"ob": model.Obj(map[string]model.Value{
			"i": model.Int(ints[r.Intn(len(ints))]), "f": model.Float(floats[r.Intn(len(floats))]),
			"s": model.Str(strs[r.Intn(len(strs))]), "Cap": model.Int(9),
		}),
	}
	return g
}

func (g *exprGen) gen(k model.Kind, depth int) model.Expr {
	r := g.r
	if r.Intn(40) == 0 {
		// a deliberately mistyped operand
		k = []model.Kind{model.KInt, model.KFloat, model.KStr, model.KBool}[r.Intn(4)]
	}
	if depth <= 0 || r.Intn(6) == 0 {
		return g.leaf(k)
	}
	if r.Intn(12) == 0 {
		return model.Paren{X: g.gen(k, depth-1)}
	}
	if r.Intn(7) == 0 {
		ck := []model.Kind{model.KInt, model.KFloat, model.KStr, model.KBool}[r.Intn(4)]
		return model.Ternary{C: g.gen(ck, depth-1), A: g.gen(k, depth-1), B: g.gen(k, depth-1)}
	}
	switch k {
	case model.KInt:
		switch r.Intn(9) {
		case 0:
			return model.Unary{Op: "-", X: g.gen(model.KInt, depth-1)}
		case 1:
			return model.Postfix{Op: []string{"++", "--"}[r.Intn(2)], X: g.gen(model.KInt, depth-1)}
		case 2:
			return model.Index{X: model.Var{Name: "ai"}, I: g.gen(model.KInt, depth-2)}
		case 3:
			return model.Call{X: g.gen([]model.Kind{model.KStr, model.KInt}[r.Intn(2)], depth-1), Name: "len"}
		case 4:
			return model.Call{X: g.gen(model.KInt, depth-1), Name: "abs"}
		default:
			op := []string{"+", "-", "*", "/", "%"}[r.Intn(5)]
			return model.Binary{Op: op, L: g.gen(model.KInt, depth-1), R: g.gen(model.KInt, depth-1)}
		}
	case model.KFloat:
		switch r.Intn(7) {
		case 0:
			return model.Unary{Op: "-", X: g.gen(model.KFloat, depth-1)}
		case 1:
			return model.Postfix{Op: []string{"++", "--"}[r.Intn(2)], X: g.gen(model.KFloat, depth-1)}
		case 2:
			return model.Call{X: g.gen(model.KInt, depth-1), Name: "float"}
		default:
			op := []string{"+", "-", "*", "/"}[r.Intn(4)]
			return model.Binary{Op: op, L: g.gen(model.KFloat, depth-1), R: g.gen(model.KFloat, depth-1)}
		}
	case model.KStr:
		if r.Intn(5) == 0 {
			return model.Call{X: g.gen(model.KInt, depth-1), Name: "str"}
		}
		return model.Binary{Op: "+", L: g.gen(model.KStr, depth-1), R: g.gen(model.KStr, depth-1)}
	case model.KBool:
		if r.Intn(5) == 0 {
			return model.Unary{Op: "!", X: g.gen(model.KBool, depth-1)}
		}
		ok := []model.Kind{model.KInt, model.KFloat, model.KStr}[r.Intn(3)]
		ops := []string{"==", "!=", "<", ">", "<=", ">="}
		if ok == model.KStr {
			ops = []string{"==", "!="}
		}
		return model.Binary{Op: ops[r.Intn(len(ops))], L: g.gen(ok, depth-1), R: g.gen(ok, depth-1)}
	}
	return g.leaf(k)
}

func (g *exprGen) leaf(k model.Kind) model.Expr {
	r := g.r
	switch k {
	case model.KInt:
		switch r.Intn(5) {
		case 0:
			return model.Var{Name: []string{"i1", "i2"}[r.Intn(2)]}
		case 1:
			return model.Dot{X: model.Var{Name: "ob"}, Name: []string{"i", "cap", "Cap"}[r.Intn(3)]}
		case 2:
			return model.Index{X: model.Var{Name: "ai"}, I: model.Lit{V: model.Int(int64(r.Intn(3)))}}
		}
		return model.Lit{V: model.Int(int64(r.Intn(12)))}
	case model.KFloat:
		switch r.Intn(4) {
		case 0:
			return model.Var{Name: []string{"f1", "f2"}[r.Intn(2)]}
		case 1:
			return model.Dot{X: model.Var{Name: "ob"}, Name: "f"}
		}
		return model.Lit{V: model.Float([]float64{0.5, 1.5, 2.0, 0.25, 3.75, 0.0}[r.Intn(6)])}
	case model.KStr:
		switch r.Intn(4) {
		case 0:
			return model.Var{Name: []string{"s1", "s2"}[r.Intn(2)]}
		case 1:
			return model.Index{X: model.Var{Name: "ob"}, I: model.Lit{V: model.Str("s")}}
		}
		return model.StrLit{S: []string{"a", "b c", "", "q", "a&b", "<i>", "x > y", "it's", "say \"hi\"", "'", "\"\"", "O'Br\"ien", "a\\b"}[r.Intn(13)], Quote: "\"'"[r.Intn(2)]}
	case model.KBool:
		switch r.Intn(3) {
		case 0:
			return model.Var{Name: "b1"}
		}
		return model.Lit{V: model.Bool(r.Intn(2) == 0)}
	}
	return model.Lit{V: model.Nil}
}

func init() {
	core.Register(&core.Check{
		ID:    "C01",
		Level: "exploration",
		Rule: "cases are expression trees (all shapes over every pair and triple of the 11 binary operators, with prefix/postfix decorations, ternaries in every position, chains of member access/index/call/prefix/postfix, assignments, operator x operand-kind error rows, boundary literals, seeded random typed trees); " +
			"each tree is printed with minimal, full and redundant parentheses in spaced, tight and newline layouts, rendered by the real EvaluateString and compared with an independent typed evaluator applied to the tree (output text, or error-ness). " +
			"also floats with a fraction around every power of two under ++/--/-, quote characters inside literals of both styles, lone CR and padded directive parentheses in the varied layout, leading-zero integer literals, failing sub-expressions at every position, trees re-evaluated in loops; lists ending in a comma, variables named In/Nil/TRUE; round 8: keys with capitalised twins, empty arrays as index bases; round 9: inexact-float operands, names after blocks; scale: chains to 1000 operands, nests to 300; concurrent replay of sampled evaluations; rounds 10-11: tricky names, native number bindings; rounds 12-13: look-alike data sets on one loaded page, tiny and huge float results, strings valid only when joined, operands from values with methods; round 14: integer literal ladder 0..70000; round 15: keys spelling character references; round 16: values compared with themselves (NaN and infinities from data and arithmetic, kept in names, elements, properties); round 17: calls on arithmetic results that are halves of either sign; distinct_nontrivial = distinct source texts (by hash) whose result the statement specifies",
		Assumptions: []string{
			"operations the statement does not define (bool/nil/array/object comparisons, ordering of strings, float %, '!' on non-booleans, '-' on non-numbers, float '--' where the pinned decimal decrement differs from IEEE x-1) are executed for the crash monitor but not judged",
			"floats stay below 1e15 in magnitude; error texts are not compared, only error-ness",
		},
		Setup: func(c *core.Ctx) {
			if err := registerTracers(); err != nil {
				panic(err)
			}
		},
		Sections: func(tier core.Tier, seed int64) []core.Section {
			nOps := len(binOps)
			nRandom, depth := 30000, 4
			if tier == core.Thorough {
				nRandom, depth = 1500000, 6
			}
			var secs []core.Section
			// (a) pairs: op1 x op2 x shape x operand set x form
			secs = append(secs, core.Section{Name: "pairs", Exhaustive: true, N: nOps * nOps * 2 * len(operandSets) * 3,
				Run: func(c *core.Ctx, i int) {
					form := i % 3
					i /= 3
					set := operandSets[i%len(operandSets)]
					i /= len(operandSets)
					shape := i % 2
					i /= 2
					ops := [2]string{binOps[i/nOps], binOps[i%nOps]}
					l := [3]model.Expr{operand(set, 0, form), operand(set, 1, form), operand(set, 2, form)}
					judgeExpr(c, shapes2(ops, l)[shape], operandData(set), "pair")
				}})
			// triples
			secs = append(secs, core.Section{Name: "triples", Exhaustive: true, N: nOps * nOps * nOps * 5 * len(operandSets) * 2,
				Run: func(c *core.Ctx, i int) {
					form := i % 2
					i /= 2
					set := operandSets[i%len(operandSets)]
					i /= len(operandSets)
					shape := i % 5
					i /= 5
					ops := [3]string{binOps[i/(nOps*nOps)], binOps[(i/nOps)%nOps], binOps[i%nOps]}
					var l [4]model.Expr
					for k := range l {
						l[k] = operand(set, k, form)
					}
					judgeExpr(c, shapes3(ops, l)[shape], operandData(set), "triple")
				}})
			// pairs with prefix/postfix on every operand position
			secs = append(secs, core.Section{Name: "decorated-pairs", Exhaustive: true, N: nOps * nOps * 2 * 64 * 2,
				Run: func(c *core.Ctx, i int) {
					set := operandSets[i%2]
					i /= 2
					dec := i % 64
					i /= 64
					shape := i % 2
					i /= 2
					ops := [2]string{binOps[i/nOps], binOps[i%nOps]}
					var l [3]model.Expr
					for k := range l {
						l[k] = decorate(operand(set, k, k%2), (dec>>(2*k))&3)
					}
					judgeExpr(c, shapes2(ops, l)[shape], operandData(set), "decorated")
				}})
			// ternaries around and inside binary operators
			secs = append(secs, core.Section{Name: "ternaries", Exhaustive: true, N: nOps * nOps * 8 * len(operandSets),
				Run: func(c *core.Ctx, i int) {
					set := operandSets[i%len(operandSets)]
					i /= len(operandSets)
					t := i % 8
					i /= 8
					o1, o2 := binOps[i/nOps], binOps[i%nOps]
					a, b, cc, d := operand(set, 0, 2), operand(set, 1, 2), operand(set, 2, 2), operand(set, 3, 2)
					bin := func(op string, x, y model.Expr) model.Expr { return model.Binary{Op: op, L: x, R: y} }
					ter := func(x, y, z model.Expr) model.Expr { return model.Ternary{C: x, A: y, B: z} }
					trees := []model.Expr{
						ter(bin(o1, a, b), bin(o2, cc, d), d),
						ter(a, bin(o1, b, cc), bin(o2, cc, d)),
						bin(o1, ter(a, b, cc), d),
						bin(o1, a, ter(b, cc, d)),
						ter(a, b, ter(bin(o1, cc, d), bin(o2, a, b), b)),
						ter(ter(a, b, cc), bin(o1, a, b), bin(o2, cc, d)),
						ter(a, ter(b, cc, d), bin(o2, a, b)),
						ter(bin(o1, a, b), cc, ter(bin(o2, cc, d), a, b)),
					}
					judgeExpr(c, trees[t], operandData(set), "ternary")
				}})
			// a complete expression (ternary, comparison, sum) inside the brackets, braces and parentheses of
			// literals, indexes and calls: no parentheses of its own are needed there
			secs = append(secs, core.Section{Name: "expressions-inside-literals-and-calls", Exhaustive: true, N: nOps * 10 * len(operandSets),
				Run: func(c *core.Ctx, i int) {
					set := operandSets[i%len(operandSets)]
					i /= len(operandSets)
					t := i % 10
					o1 := binOps[i/10]
					a, b, cc, d := operand(set, 0, 2), operand(set, 1, 2), operand(set, 2, 2), operand(set, 3, 2)
					bin := func(op string, x, y model.Expr) model.Expr { return model.Binary{Op: op, L: x, R: y} }
					ter := func(x, y, z model.Expr) model.Expr { return model.Ternary{C: x, A: y, B: z} }
					inner := []model.Expr{ter(a, bin(o1, b, cc), d), ter(bin(o1, a, b), cc, ter(d, a, b)), bin(o1, a, b)}[t%3]
					zero, one := model.Lit{V: model.Int(0)}, model.Lit{V: model.Int(1)}
					var tree model.Expr
					switch t {
					case 0, 1, 2:
						tree = model.Dot{X: model.ObjLit{Keys: []string{"k", "z"}, Vals: []model.Expr{inner, one}}, Name: "k"}
					case 3, 4, 5:
						tree = model.Index{X: model.ArrLit{Elems: []model.Expr{one, inner}}, I: ter(zero, zero, one)}
					case 6, 7:
						tree = model.Call{X: model.Lit{V: model.Bool(true)}, Name: "then", Args: []model.Expr{inner, zero}}
					default:
						tree = model.Call{X: model.Lit{V: model.Bool(false)}, Name: "then", Args: []model.Expr{zero, ter(zero, one, inner)}}
					}
					judgeExpr(c, tree, operandData(set), "inside-literal")
				}})
			// chains of member access / index / call / prefix / postfix
			nb, no := len(memberBases), len(memberOps)
			secs = append(secs, core.Section{Name: "member-chains", Exhaustive: true, N: nb * (no + no*no + no*no*no),
				Run: func(c *core.Ctx, i int) {
					base := memberBases[i%nb]
					i /= nb
					var chain []int
					switch {
					case i < no:
						chain = []int{i}
					case i < no+no*no:
						i -= no
						chain = []int{i / no, i % no}
					default:
						i -= no + no*no
						chain = []int{i / (no * no), (i / no) % no, i % no}
					}
					e := base
					for _, k := range chain {
						e = memberOps[k](e)
					}
					judgeExpr(c, e, memberData(), "member")
				}})
			// assignment: the right-hand side is a complete expression
			secs = append(secs, core.Section{Name: "assign", Exhaustive: true, N: nOps * nOps * 2 * len(operandSets) * 2,
				Run: func(c *core.Ctx, i int) {
					withTernary := i%2 == 1
					i /= 2
					set := operandSets[i%len(operandSets)]
					i /= len(operandSets)
					shape := i % 2
					i /= 2
					ops := [2]string{binOps[i/nOps], binOps[i%nOps]}
					l := [3]model.Expr{operand(set, 0, 2), operand(set, 1, 2), operand(set, 2, 2)}
					rhs := shapes2(ops, l)[shape]
					if withTernary {
						rhs = model.Ternary{C: operand(set, 3, 0), A: rhs, B: operand(set, 0, 1)}
					}
					stmts := []model.Stmt{model.Assign{Name: "res", E: rhs}, model.Text{S: "<"}, model.Print{E: model.Var{Name: "res"}}, model.Text{S: ">"}}
					judgeProgram(c, stmts, operandData(set), "assign", false)
				}})
			// error rows: operator x ordered pair of operand kinds, as literals and as data
			nk := len(kindSamples)
			secs = append(secs, core.Section{Name: "kind-matrix", Exhaustive: true, N: nOps * nk * nk * 2,
				Run: func(c *core.Ctx, i int) {
					asData := i%2 == 1
					i /= 2
					l, r := kindSamples[(i/nk)%nk], kindSamples[i%nk]
					op := binOps[i/(nk*nk)]
					data := map[string]model.Value{}
					var le, re model.Expr = literalOf(l), literalOf(r)
					if asData {
						data["lv"], data["rv"] = l, r
						le, re = model.Var{Name: "lv"}, model.Var{Name: "rv"}
					}
					judgeExpr(c, model.Binary{Op: op, L: le, R: re}, data, "kinds")
				}})
			// boundaries: zero divisors, unknown identifiers, literal range, wrap-around
			bounds := boundaryCases()
			secs = append(secs, core.Section{Name: "boundaries", Exhaustive: true, N: len(bounds),
				Run: func(c *core.Ctx, i int) { bounds[i](c) }})
			// a failing sub-expression fails the render wherever it stands: later elements of arrays,
			// later call arguments, object literal values, index expressions, ternary parts
			failing := []model.Expr{
				model.Var{Name: "nope"},
				model.Binary{Op: "/", L: model.Lit{V: model.Int(1)}, R: model.Lit{V: model.Int(0)}},
				model.Binary{Op: "+", L: model.Lit{V: model.Int(1)}, R: model.Lit{V: model.Str("s")}},
				model.Dot{X: model.Lit{V: model.Int(3)}, Name: "k"},
			}
			one, two, sx := model.Lit{V: model.Int(1)}, model.Lit{V: model.Int(2)}, model.Lit{V: model.Str("abc")}
			holes := []func(h model.Expr) model.Expr{
				func(h model.Expr) model.Expr { return model.ArrLit{Elems: []model.Expr{one, h}} },
				func(h model.Expr) model.Expr { return model.ArrLit{Elems: []model.Expr{h, one}} },
				func(h model.Expr) model.Expr { return model.ArrLit{Elems: []model.Expr{one, two, h}} },
				func(h model.Expr) model.Expr {
					return model.Call{X: model.ArrLit{Elems: []model.Expr{one, h}}, Name: "len"}
				},
				func(h model.Expr) model.Expr {
					return model.Index{X: model.ArrLit{Elems: []model.Expr{one, h}}, I: model.Lit{V: model.Int(0)}}
				},
				func(h model.Expr) model.Expr {
					return model.ArrLit{Elems: []model.Expr{model.ArrLit{Elems: []model.Expr{one, h}}}}
				},
				func(h model.Expr) model.Expr { return model.Call{X: sx, Name: "truncate", Args: []model.Expr{two, h}} },
				func(h model.Expr) model.Expr {
					return model.Call{X: sx, Name: "truncate", Args: []model.Expr{model.Lit{V: model.Int(50)}, h}}
				},
				func(h model.Expr) model.Expr { return model.Call{X: sx, Name: "contains", Args: []model.Expr{h}} },
				func(h model.Expr) model.Expr {
					return model.Call{X: model.Lit{V: model.Bool(true)}, Name: "then", Args: []model.Expr{sx, h}}
				},
				func(h model.Expr) model.Expr {
					return model.Call{X: model.Lit{V: model.Bool(false)}, Name: "then", Args: []model.Expr{h, sx}}
				},
				func(h model.Expr) model.Expr { return model.Call{X: one, Name: "tr", Args: []model.Expr{two, h}} },
				func(h model.Expr) model.Expr {
					return model.Call{X: model.ArrLit{Elems: []model.Expr{one}}, Name: "append", Args: []model.Expr{two, h}}
				},
				func(h model.Expr) model.Expr {
					return model.Call{X: model.ArrLit{Elems: []model.Expr{one}}, Name: "slice", Args: []model.Expr{model.Lit{V: model.Int(0)}, h}}
				},
				func(h model.Expr) model.Expr {
					return model.Dot{X: model.ObjLit{Keys: []string{"a", "b"}, Vals: []model.Expr{one, h}}, Name: "a"}
				},
				func(h model.Expr) model.Expr {
					return model.Index{X: model.ArrLit{Elems: []model.Expr{one, two}}, I: h}
				},
				func(h model.Expr) model.Expr { return model.Ternary{C: h, A: one, B: two} },
				func(h model.Expr) model.Expr { return model.Ternary{C: one, A: h, B: two} },
				func(h model.Expr) model.Expr { return model.Ternary{C: model.Lit{V: model.Int(0)}, A: one, B: h} },
				func(h model.Expr) model.Expr { return model.Binary{Op: "+", L: one, R: h} },
				func(h model.Expr) model.Expr { return model.Unary{Op: "-", X: h} },
				func(h model.Expr) model.Expr { return model.Postfix{Op: "++", X: h} },
				func(h model.Expr) model.Expr { return model.Call{X: h, Name: "len"} },
				func(h model.Expr) model.Expr { return model.Paren{X: h} },
			}
			secs = append(secs, core.Section{Name: "failing-subexpressions", Exhaustive: true, N: len(holes) * len(failing),
				Run: func(c *core.Ctx, i int) {
					judgeExpr(c, holes[i/len(failing)](failing[i%len(failing)]), nil, "failing-subexpression")
				}})
			// a name assigned inside a block is unknown after it: the expression that reads it fails; a name of the enclosing
			// block re-assigned inside keeps its value for the expressions after the block
			blockKinds := 7
			secs = append(secs, core.Section{Name: "names-after-blocks", Exhaustive: true, N: blockKinds * 2 * 2,
				Run: func(c *core.Ctx, i int) {
					outerKnown := i%2 == 1
					i /= 2
					useAfter := i%2 == 1
					kind := i / 2
					n := model.Var{Name: "n"}
					asg := []model.Stmt{model.Assign{Name: "v", E: model.Binary{Op: "+", L: n, R: model.Lit{V: model.Int(10)}}}, model.Print{E: model.Var{Name: "v"}}, model.Text{S: ","}}
					tt, ff := model.Lit{V: model.Bool(true)}, model.Lit{V: model.Bool(false)}
					var blk model.Stmt
					switch kind {
					case 0:
						blk = model.If{Conds: []model.Expr{tt}, Bodies: [][]model.Stmt{asg}}
					case 1:
						blk = model.If{Conds: []model.Expr{ff, model.Binary{Op: "==", L: n, R: model.Lit{V: model.Int(0)}}}, Bodies: [][]model.Stmt{{model.Text{S: "neg"}}, asg}}
					case 2:
						blk = model.If{Conds: []model.Expr{ff, ff, tt}, Bodies: [][]model.Stmt{{model.Text{S: "a"}}, {model.Text{S: "b"}}, asg}, Else: []model.Stmt{model.Text{S: "c"}}}
					case 3:
						blk = model.If{Conds: []model.Expr{ff, ff}, Bodies: [][]model.Stmt{{model.Text{S: "a"}}, {model.Text{S: "b"}}}, Else: asg}
					case 4:
						blk = model.Each{Var: "e", Arr: literalOf(model.Arr(model.Int(1), model.Int(2))), Body: asg}
					case 5:
						blk = model.For{Init: &model.Assign{Name: "k", E: model.Lit{V: model.Int(0)}}, Cond: model.Binary{Op: "<", L: model.Var{Name: "k"}, R: model.Lit{V: model.Int(2)}}, Post: model.Print{E: model.Postfix{Op: "++", X: model.Var{Name: "k"}}}, Body: asg}
					default:
						blk = model.Each{Var: "e", Arr: literalOf(model.Arr()), Body: []model.Stmt{model.Text{S: "x"}}, Else: asg}
					}
					prog := []model.Stmt{model.Text{S: "<"}}
					if outerKnown {
						prog = append(prog, model.Assign{Name: "v", E: model.Lit{V: model.Int(1)}})
					}
					prog = append(prog, blk)
					if useAfter {
						prog = append(prog, model.Print{E: model.Binary{Op: "*", L: model.Var{Name: "v"}, R: model.Lit{V: model.Int(2)}}})
					}
					prog = append(prog, model.Text{S: ">"})
					judgeProgram(c, prog, map[string]model.Value{"n": model.Int(0)}, "names-after-blocks", false)
				}})
			// names that only resemble reserved words or other bound names: they are ordinary variables (from the data, or
			// assigned); a name that is not bound is unknown even when a capitalised or otherwise similar one is
			trickyNames := []string{"loops", "loopCount", "loop_", "loop2", "looping", "Loop", "LOOP", "lOOP", "inn", "In", "iN", "index", "nile", "Nil", "nIL", "nill", "truE", "trueish", "TRUE", "falsey", "False",
				"iff", "ifx", "elsewhere", "ended", "endx", "eachOne", "forx", "breakIfNot", "breaks", "continued", "use_", "insertion", "slotted", "dumped", "reserved", "component1", "_x", "x_1", "a1b2", "e", "E"}
			secs = append(secs, core.Section{Name: "tricky-names", Exhaustive: true, N: len(trickyNames) * 4,
				Run: func(c *core.Ctx, i int) {
					name := trickyNames[i/4]
					v := model.Var{Name: name}
					three := model.Binary{Op: "+", L: model.Binary{Op: "*", L: v, R: model.Lit{V: model.Int(2)}}, R: model.Lit{V: model.Int(1)}}
					switch i % 4 {
					case 0: // bound by the data
						judgeExpr(c, three, map[string]model.Value{name: model.Int(4)}, "tricky-name")
					case 1: // assigned, then read
						judgeProgram(c, []model.Stmt{model.Assign{Name: name, E: model.Binary{Op: "+", L: model.Lit{V: model.Int(2)}, R: model.Binary{Op: "*", L: model.Lit{V: model.Int(3)}, R: model.Lit{V: model.Int(4)}}}},
							model.Text{S: "<"}, model.Print{E: model.Binary{Op: "-", L: v, R: model.Lit{V: model.Int(1)}}}, model.Text{S: ">"}}, nil, "tricky-name", false)
					case 2: // not bound; look-alikes are: other letter case, capitalised, with a suffix, without the last letter
						first, size := utf8.DecodeRuneInString(name)
						data := map[string]model.Value{name + "x": model.Int(1), name[:len(name)-1]: model.Int(2)}
						for _, other := range []string{string(unicode.ToUpper(first)) + name[size:], string(unicode.ToLower(first)) + name[size:], strings.ToUpper(name), strings.ToLower(name)} {
							if other != name {
								data[other] = model.Int(5)
							}
						}
						delete(data, "")
						delete(data, "loop")
						judgeExpr(c, three, data, "tricky-name-unbound")
					default: // as a property and as an object key
						obj := model.ObjLit{Keys: []string{name}, Vals: []model.Expr{model.Lit{V: model.Int(6)}}}
						judgeExpr(c, model.Binary{Op: "+", L: model.Dot{X: obj, Name: name}, R: model.Index{X: obj, I: model.Lit{V: model.Str(name)}}}, nil, "tricky-name-property")
					}
				}})
			// numbers bound through the data map as Go values of every width: expressions over them give what they give over the
			// equal 64-bit integer or double
			type natNum struct {
				name string
				v    any
				eq   model.Value
			}
			natNums := []natNum{
				{"int8 min", int8(math.MinInt8), model.Int(math.MinInt8)}, {"int8 max", int8(math.MaxInt8), model.Int(math.MaxInt8)}, {"int16 min", int16(math.MinInt16), model.Int(math.MinInt16)},
				{"int32 min", int32(math.MinInt32), model.Int(math.MinInt32)}, {"int32 max", int32(math.MaxInt32), model.Int(math.MaxInt32)}, {"int -7", -7, model.Int(-7)},
				{"uint8 200", uint8(200), model.Int(200)}, {"uint8 255", uint8(255), model.Int(255)}, {"uint16 40000", uint16(40000), model.Int(40000)}, {"uint16 max", uint16(math.MaxUint16), model.Int(math.MaxUint16)},
				{"uint32 2^31", uint32(1 << 31), model.Int(1 << 31)}, {"uint32 3000000000", uint32(3000000000), model.Int(3000000000)}, {"uint32 max", uint32(math.MaxUint32), model.Int(math.MaxUint32)},
				{"uint 2^40", uint(1 << 40), model.Int(1 << 40)}, {"uint64 2^62", uint64(1 << 62), model.Int(1 << 62)}, {"uint64 max int64", uint64(math.MaxInt64), model.Int(math.MaxInt64)}, {"int64 min", int64(math.MinInt64), model.Int(math.MinInt64)},
				{"float32 0.5", float32(0.5), model.Float(0.5)}, {"float32 16777216", float32(16777216), model.Float(16777216)}, {"float32 -2.25", float32(-2.25), model.Float(-2.25)}, {"float64 1e15+0.5", 1e15 + 0.5, model.Float(1e15 + 0.5)},
			}
			secs = append(secs, core.Section{Name: "native-number-bindings", Exhaustive: true, N: len(natNums),
				Run: func(c *core.Ctx, i int) {
					nn := natNums[i]
					srcs := []string{"{{ x }}", "{{ x + 1 }}", "{{ x * 2 - x }}", "{{ x > 0 ? \"pos\" : \"neg\" }}", "{{ -x }}", "{{ x == x }}", "{{ [x][0] }}", "{{ {k: x}.k + x }}", "{{ x / 3 }}", "{{ x % 7 }}"}
					if nn.eq.K == model.KFloat {
						srcs = []string{"{{ x }}", "{{ x + 1.0 }}", "{{ x * 2.0 - x }}", "{{ x > 0.0 ? \"pos\" : \"neg\" }}", "{{ -x }}", "{{ x == x }}", "{{ [x][0] }}", "{{ x / 4.0 }}"}
					}
					for _, src := range srcs {
						c.Input(map[string]any{"source": src, "x": nn.name})
						got := evalString(c, src, map[string]any{"x": nn.v})
						want := evalString(c, src, model.NativeData(map[string]model.Value{"x": nn.eq}))
						c.Nontrivial(src + nn.name)
						if !got.Panicked && !want.Panicked && got.Describe() != want.Describe() {
							c.Violation("native-number-binding", fmt.Sprintf("with x bound to %s, %s gave %s; with the equal %s it gives %s", nn.name, src, got.Describe(), nn.eq.Describe(), want.Describe()), map[string]any{"source": src, "x": nn.name})
						}
					}
					judgeExpr(c, model.Binary{Op: "+", L: model.Var{Name: "x"}, R: model.Var{Name: "x"}}, map[string]model.Value{"x": nn.eq}, "native-number")
				}})
			// every integer literal from 0 to 70000 (and the neighbours of every power of two and ten beyond), alone, negated,
			// in a sum and a product, as float literal N.0 and N.5: a literal evaluates to the number it spells
			{
				const chunk = 500
				var ladder []int64
				for n := int64(0); n <= 70000; n++ {
					ladder = append(ladder, n)
				}
				for p := 17; p < 63; p++ {
					for d := int64(-2); d <= 2; d++ {
						ladder = append(ladder, int64(1)<<p+d)
					}
				}
				for t := int64(100000); t < 1e18; t *= 10 {
					ladder = append(ladder, t-1, t, t+1)
				}
				nChunks := (len(ladder) + chunk - 1) / chunk
				secs = append(secs, core.Section{Name: "integer-literal-ladder", Exhaustive: true, N: nChunks * 3,
					Run: func(c *core.Ctx, i int) {
						form := i % 3
						lo := (i / 3) * chunk
						hi := lo + chunk
						if hi > len(ladder) {
							hi = len(ladder)
						}
						var src, want strings.Builder
						for _, n := range ladder[lo:hi] {
							switch form {
							case 0:
								fmt.Fprintf(&src, "{{ %d }},{{ -%d }};", n, n)
								fmt.Fprintf(&want, "%d,%d;", n, -n)
							case 1:
								fmt.Fprintf(&src, "{{ 2 * %d - 46 }},{{ x == %d ? 1 : 0 }},{{ %d + 0 == x }};", n, n, n)
								fmt.Fprintf(&want, "%d,%d,%d;", 2*n-46, b2i(n == 1023), b2i(n == 1023))
							default:
								if n >= 1<<52 {
									continue
								}
								fmt.Fprintf(&src, "{{ %d.0 }},{{ %d.5 + 0.25 }};", n, n)
								fmt.Fprintf(&want, "%s,%s;", model.FormatFloat(float64(n)), model.FormatFloat(float64(n)+0.75))
							}
						}
						c.Input(map[string]any{"literals_from": ladder[lo], "literals_to": ladder[hi-1], "form": form})
						c.Nontrivial(fmt.Sprint("ladder", i))
						got := evalString(c, src.String(), map[string]any{"x": 1023})
						if !got.Panicked && (got.Err != nil || got.Out != want.String()) {
							c.Violation("integer-literal-ladder", fmt.Sprintf("literals %d..%d (form %d): %s", ladder[lo], ladder[hi-1], form, firstDifference(got, want.String())), map[string]any{"source": clipS(src.String(), 2000)})
						}
					}})
			}
			// an index that is a string value reads the key of exactly that spelling: keys that spell character references next to
			// the characters they stand for, the index from a variable, a concatenation, an element, a loop variable
			{
				refKeys := []string{"&lt;", "<", "&amp;", "&", "&#39;", "'", "&quot;", "\"", "&amp;lt;", "&gt", "&#60;", "a&b"}
				secs = append(secs, core.Section{Name: "keys-that-spell-character-references", Exhaustive: true, N: len(refKeys),
					Run: func(c *core.Ctx, i int) {
						k := refKeys[i]
						o := map[string]any{}
						for n, rk := range refKeys {
							o[rk] = 100 + n
						}
						half := len(k) / 2
						data := map[string]any{"o": o, "k": k, "k1": k[:half], "k2": k[half:], "ks": []string{"zz", k}}
						src := "{{ o[k] }}|{{ o[k1 + k2] }}|{{ o[ks[1]] }}|@each(q in ks)@if(loop.last){{ o[q] + 1 }}@end@end|{{ o[k] == o[k1 + k2] }}|{{ {a: o}.a[k] * 2 }}"
						want := fmt.Sprintf("%d|%d|%d|%d|1|%d", 100+i, 100+i, 100+i, 101+i, 2*(100+i))
						c.Input(map[string]any{"source": src, "k": k})
						c.Nontrivial("refkey:" + k)
						got := evalString(c, src, data)
						if !got.Panicked && (got.Err != nil || got.Out != want) {
							c.Violation("keys-that-spell-character-references", fmt.Sprintf("with k = %q, %s gave %s, want %q", k, src, got.Describe(), want), map[string]any{"source": src, "k": k})
						}
					}})
			}
			// operands that are fields of bound values with methods (String, Error, MarshalText): such a value is the object of its
			// exported fields like any other struct - directly, behind a pointer, as element and as map value
			methodVals := []struct {
				name string
				mk   func(x, y int) any
			}{
				{"Stringer", func(x, y int) any { return c01Point{x, y} }}, {"pointer to Stringer", func(x, y int) any { return &c01Point{x, y} }},
				{"pointer-receiver Stringer", func(x, y int) any { return &c01PtrPoint{x, y} }}, {"pointer-receiver Stringer by value", func(x, y int) any { return c01PtrPoint{x, y} }},
				{"error", func(x, y int) any { return c01ErrPoint{x, y} }}, {"TextMarshaler", func(x, y int) any { return c01TextPoint{x, y} }},
			}
			secs = append(secs, core.Section{Name: "operands-from-values-with-methods", Exhaustive: true, N: len(methodVals),
				Run: func(c *core.Ctx, i int) {
					mv := methodVals[i]
					srcs := []string{"{{ p.X + 1 }}", "{{ p.X / p.Y * 2 }}", "{{ pts[1].Y > pts[0].Y ? pts[1].Y : 0 }}", "{{ (m.a).X % 3 }}", "{{ -p.Y + pts[0].X * m.a.Y }}", "{{ p.X == 8 && m.a.Y == 4 }}", "{{ [p.X, p.Y][1] - 1 }}"}
					data := map[string]any{"p": mv.mk(8, 4), "pts": []any{mv.mk(1, 2), mv.mk(3, 9)}, "m": map[string]any{"a": mv.mk(8, 4)}}
					plain := func(x, y int) any { return map[string]any{"X": x, "Y": y} }
					same := map[string]any{"p": plain(8, 4), "pts": []any{plain(1, 2), plain(3, 9)}, "m": map[string]any{"a": plain(8, 4)}}
					for _, src := range srcs {
						c.Input(map[string]any{"source": src, "p": mv.name})
						got := evalString(c, src, data)
						want := evalString(c, src, same)
						c.Nontrivial(src + mv.name)
						if !got.Panicked && !want.Panicked && got.Describe() != want.Describe() {
							c.Violation("operands-with-methods", fmt.Sprintf("with p, pts, m.a bound to %s values {X, Y}, %s gave %s; with plain objects of the same fields it gives %s", mv.name, src, got.Describe(), want.Describe()), map[string]any{"source": src, "p": mv.name})
						}
					}
					judgeExpr(c, model.Binary{Op: "+", L: model.Dot{X: model.Var{Name: "p"}, Name: "X"}, R: model.Lit{V: model.Int(1)}}, map[string]model.Value{"p": model.Obj(map[string]model.Value{"X": model.Int(8), "Y": model.Int(4)})}, "operands-with-methods")
				}})
			// one loaded page of expressions rendered with data sets that print alike but are of different types, through
			// String and Response (strings holding percent signs included); struct bindings with unexported fields in front
			type c01Acct struct {
				hidden  int
				Owner   string
				secret  string
				Limit   int
				Rate    float64
				private []int
				Note    string
			}
			lookAlike := []map[string]any{
				{"a": 1, "b": 2, "s": "75% or more"}, {"a": 1.0, "b": 2.0, "s": "75% or more"}, {"a": "1", "b": "2", "s": "75% or more"}, {"a": uint8(1), "b": int64(2), "s": "75% or more"},
				{"a": 1, "b": 2.0, "s": "75% or more"}, {"a": true, "b": false, "s": "50% off %v"}, {"a": int32(1), "b": uint16(2), "s": "75% or more"}, {"a": []int{1}, "b": []int{2}, "s": "%d %s"},
				{"a": []any{1}, "b": []any{2}, "s": "%d %s"}, {"a": []string{"1"}, "b": []string{"2"}, "s": "%d %s"}, {"a": 2, "b": 1, "s": "75% or more"},
			}
			secs = append(secs, core.Section{Name: "loaded-page-with-look-alike-data", Exhaustive: true, N: 2,
				Run: func(c *core.Ctx, i int) {
					page := "{{ a + b }}|{{ a == b }}|{{ s + \"!\" }}|{{ \"20% of \" + s }}|{{ acc.limit + 2 }}|{{ acc.owner }}|{{ acc.rate * 2.0 }}|{{ acc.note }}"
					files := map[string]string{"page.tw": page}
					tpl, err := loadTree(c, "c01tree", files, ".tw")
					c.Nontrivial(fmt.Sprint("look-alike", i))
					if err != nil || tpl == nil {
						if err != nil {
							c.Violation("loaded-page:load-failed", err.Error(), nil)
						}
						return
					}
					order := lookAlike
					if i == 1 {
						order = append(append([]map[string]any{}, lookAlike[4:]...), lookAlike[:4]...)
					}
					for round := 0; round < 2; round++ {
						for _, d := range order {
							data := map[string]any{"acc": c01Acct{hidden: 1, Owner: "ann", secret: "x", Limit: 40, Rate: 1.25, Note: "n"}}
							for k, v := range d {
								data[k] = v
							}
							want := evalString(c, page, data)
							got, _ := renderPage(c, tpl, "page", data)
							if want.Panicked || got.Panicked {
								return
							}
							same := got.Out == want.Out && (got.Err == nil) == (want.Err == nil)
							if same && got.Err != nil {
								same = ErrMessage(got.Err) == ErrMessage(want.Err)
							}
							if !same {
								c.Violation("loaded-page:differs", fmt.Sprintf("the loaded page with a=%#v b=%#v s=%q gave %s; the same source as a string gives %s", d["a"], d["b"], d["s"], clipS(got.Describe(), 200), clipS(want.Describe(), 200)), map[string]any{"page": page})
								return
							}
						}
					}
					// what the string API gives is judged too
					first := evalString(c, page, map[string]any{"a": 1, "b": 2, "s": "75% or more", "acc": c01Acct{Owner: "ann", Limit: 40, Rate: 1.25, Note: "n"}})
					if want := "3|0|75% or more!|20% of 75% or more|42|ann|2.5|n"; !first.Panicked && (first.Err != nil || first.Out != want) {
						c.Violation("loaded-page:string", fmt.Sprintf("the page as a string gave %s, want %q", first.Describe(), want), map[string]any{"page": page})
					}
				}})
			// the same expression evaluated in several passes of a loop gives the same value every time
			// long and deep expressions: chains of 16..1000 operands, nests of 64..300 parentheses, ternaries, prefix
			// operators, member calls, literals with many elements
			sizes := []int{15, 16, 17, 63, 64, 65, 127, 128, 129, 255, 256, 257, 1000}
			const nBig = 9
			secs = append(secs, core.Section{Name: "long-and-deep-expressions", Exhaustive: true, N: len(sizes) * nBig,
				Run: func(c *core.Ctx, i int) {
					n := sizes[i%len(sizes)]
					ilit := func(v int64) model.Expr { return model.Lit{V: model.Int(v)} }
					var e model.Expr
					switch i / len(sizes) {
					case 0: // a + b - c * d ... left to right, mixed precedence
						e = ilit(1)
						for k := 1; k < n; k++ {
							e = model.Binary{Op: []string{"+", "-", "*", "+", "%", "/"}[k%6], L: e, R: ilit(int64(k%7 + 1))}
						}
					case 1: // the same chain nested to the right in parentheses
						e = ilit(int64(n))
						for k := 1; k < n && k < 300; k++ {
							e = model.Binary{Op: []string{"-", "+", "*"}[k%3], L: ilit(int64(k%5 + 1)), R: model.Paren{X: e}}
						}
					case 2: // redundant parentheses around one operand
						e = model.Binary{Op: "+", L: model.Var{Name: "a"}, R: ilit(1)}
						for k := 0; k < n && k < 300; k++ {
							e = model.Paren{X: e}
						}
						e = model.Binary{Op: "*", L: e, R: ilit(2)}
					case 3: // ternaries nested in the else part
						e = model.StrLit{S: "last"}
						for k := n; k > 0 && n <= 300; k-- {
							e = model.Ternary{C: model.Binary{Op: "==", L: model.Var{Name: "a"}, R: ilit(int64(k))}, A: model.StrLit{S: fmt.Sprint("is", k)}, B: e}
						}
					case 4: // prefix operators in a row
						e = model.Var{Name: "a"}
						for k := 0; k < n && k < 300; k++ {
							e = model.Unary{Op: "-", X: e}
						}
					case 5: // string concatenation of n pieces
						e = model.StrLit{S: "s0"}
						for k := 1; k < n; k++ {
							e = model.Binary{Op: "+", L: e, R: model.StrLit{S: fmt.Sprint("|", k)}}
						}
					case 6: // member calls in a row
						e = model.Var{Name: "a"}
						for k := 0; k < n; k++ {
							e = model.Call{X: e, Name: []string{"abs", "float", "int"}[k%3]}
						}
					case 7: // an array literal of n elements, read at its ends
						var el []model.Expr
						for k := 0; k < n; k++ {
							el = append(el, model.Binary{Op: "+", L: model.Var{Name: "a"}, R: ilit(int64(k))})
						}
						arr := model.ArrLit{Elems: el}
						e = model.Binary{Op: "+", L: model.Index{X: arr, I: ilit(int64(n - 1))}, R: model.Binary{Op: "*", L: model.Index{X: arr, I: ilit(0)}, R: model.Call{X: arr, Name: "len"}}}
					default: // comparisons and equality at the end of a long sum
						e = ilit(0)
						for k := 1; k < n; k++ {
							e = model.Binary{Op: "+", L: e, R: ilit(1)}
						}
						e = model.Binary{Op: "==", L: model.Binary{Op: "<", L: e, R: ilit(int64(n))}, R: model.Binary{Op: ">=", L: ilit(int64(n - 1)), R: e}}
					}
					judgeExpr(c, e, map[string]model.Value{"a": model.Int(int64(n/2 + 1))}, "long")
				}})
			secs = append(secs, core.Section{Name: "random-trees-in-loops", N: nRandom / 6,
				Run: func(c *core.Ctx, i int) {
					g := newExprGen(c.Rng)
					g.data["s1"], g.data["s2"] = model.Str("a&b"), model.Str("<i>")
					k := []model.Kind{model.KInt, model.KFloat, model.KStr, model.KBool}[c.Rng.Intn(4)]
					e := g.gen(k, 1+c.Rng.Intn(depth))
					var loop model.Stmt = model.Each{Var: "pass", Arr: intArr(1, 2, 3), Body: []model.Stmt{model.Print{E: e}, model.Text{S: ","}}}
					if i%2 == 1 {
						loop = upFor("pass", 1, 3, []model.Stmt{model.Print{E: e}, model.Text{S: ","}}, nil)
					}
					judgeProgram(c, []model.Stmt{model.Text{S: "<"}, loop, model.Text{S: ">"}}, g.data, "random-in-loop", false)
				}})
			// (d) random typed trees
			secs = append(secs, core.Section{Name: "random-trees", N: nRandom,
				Run: func(c *core.Ctx, i int) {
					g := newExprGen(c.Rng)
					k := []model.Kind{model.KInt, model.KFloat, model.KStr, model.KBool}[c.Rng.Intn(4)]
					judgeExpr(c, g.gen(k, 1+c.Rng.Intn(depth)), g.data, "random")
				}})
			return secs
		},
	})
}

func boundaryCases() []func(c *core.Ctx) {
	var out []func(c *core.Ctx)
	lit := func(v model.Value) model.Expr { return model.Lit{V: v} }
	bin := func(op string, x, y model.Expr) model.Expr { return model.Binary{Op: op, L: x, R: y} }
	add := func(e model.Expr, data map[string]model.Value) {
		out = append(out, func(c *core.Ctx) { judgeExpr(c, e, data, "boundary") })
	}
	maxI := int64(9223372036854775807)
	data := map[string]model.Value{"mx": model.Int(maxI), "mn": model.Int(-maxI - 1), "z": model.Int(0), "m1": model.Int(-1), "zf": model.Float(0)}
	for _, op := range []string{"/", "%"} {
		add(bin(op, lit(model.Int(1)), lit(model.Int(0))), nil)
		add(bin(op, lit(model.Int(7)), model.Var{Name: "z"}), data)
		add(bin(op, model.Var{Name: "mn"}, model.Var{Name: "m1"}), data)
		add(bin(op, lit(model.Int(0)), lit(model.Int(5))), nil)
		add(bin(op, bin("-", lit(model.Int(0)), lit(model.Int(7))), lit(model.Int(2))), nil)
		add(bin(op, lit(model.Int(7)), model.Unary{Op: "-", X: lit(model.Int(2))}), nil)
		add(bin(op, lit(model.Int(3)), bin("-", lit(model.Int(2)), lit(model.Int(2)))), nil)
	}
	add(bin("+", model.Var{Name: "mx"}, lit(model.Int(1))), data)
	add(bin("-", model.Var{Name: "mn"}, lit(model.Int(1))), data)
	add(bin("*", model.Var{Name: "mx"}, lit(model.Int(2))), data)
	add(model.Unary{Op: "-", X: model.Var{Name: "mn"}}, data)
	add(model.Postfix{Op: "++", X: model.Var{Name: "mx"}}, data)
	add(model.Postfix{Op: "--", X: model.Var{Name: "mn"}}, data)
	add(bin("+", lit(model.Int(maxI)), lit(model.Int(1))), nil)
	add(bin("<", model.Var{Name: "mn"}, lit(model.Int(1))), data)
	add(bin(">", model.Var{Name: "mx"}, model.Var{Name: "m1"}), data)
	add(bin("<=", model.Var{Name: "mn"}, model.Var{Name: "mx"}), data)
	add(bin(">=", model.Var{Name: "mx"}, model.Var{Name: "mn"}), data)
	add(bin("/", lit(model.Float(1.5)), model.Var{Name: "zf"}), data)
	// results one or two units in the last place away from a whole number, or from each other
	fl := func(f float64) model.Expr { return lit(model.Float(f)) }
	fdata := map[string]model.Value{"price": model.Float(1.15), "qty": model.Float(100.0), "third": model.Float(0.1)}
	for _, e := range []model.Expr{
		bin("*", fl(4.35), fl(100.0)), bin("+", bin("+", fl(0.7), fl(0.2)), fl(0.1)), bin("*", model.Var{Name: "price"}, model.Var{Name: "qty"}), bin("+", fl(0.1), fl(0.2)),
		bin("-", fl(1.0), fl(0.9)), bin("*", fl(3.0), fl(1.1)), bin("*", fl(0.57), fl(100.0)), bin("*", fl(1.1), fl(1.1)), bin("/", fl(1.0), fl(3.0)), bin("*", bin("/", fl(1.0), fl(3.0)), fl(3.0)),
		bin("+", fl(1e15), fl(0.3)), bin("-", fl(9007199254740992.0), fl(1.0)), bin("*", model.Var{Name: "third"}, fl(3.0)), bin("+", bin("*", model.Var{Name: "third"}, fl(3.0)), fl(0.7)),
		bin("==", bin("+", fl(0.1), fl(0.2)), fl(0.3)), bin("<", bin("*", fl(4.35), fl(100.0)), fl(435.0)), bin(">=", bin("+", bin("+", fl(0.7), fl(0.2)), fl(0.1)), fl(1.0)),
		bin("*", fl(2.675), fl(100.0)), bin("*", fl(1.005), fl(1000.0)), bin("-", fl(0.3), fl(0.1)), bin("*", fl(8.2), fl(100.0)), bin("/", fl(434.99999999999994), fl(1.0)), bin("+", fl(0.99999999999999), fl(0.0)),
	} {
		add(e, fdata)
	}
	// round 16: a value compared with itself. Only for a float that is not a number does the outcome differ from "equal", and
	// such a float arises from arithmetic or from the data only; both sides read the same variable, element or property
	nan := math.NaN()
	ndata := map[string]model.Value{"nn": model.Float(nan), "inf": model.Float(math.Inf(1)), "zf": model.Float(0), "one": model.Float(1),
		"arr": model.Arr(model.Float(1), model.Float(nan)), "o": model.Obj(map[string]model.Value{"v": model.Float(nan), "w": model.Float(2)})}
	nn, inf, zf := model.Var{Name: "nn"}, model.Var{Name: "inf"}, model.Var{Name: "zf"}
	a1 := model.Index{X: model.Var{Name: "arr"}, I: lit(model.Int(1))}
	ov := model.Dot{X: model.Var{Name: "o"}, Name: "v"}
	for _, op := range []string{"==", "!=", "<", "<=", ">", ">="} {
		for _, pair := range [][2]model.Expr{{nn, nn}, {model.Paren{X: nn}, nn}, {nn, model.Paren{X: nn}}, {a1, a1}, {ov, ov}, {nn, a1}, {inf, inf}, {zf, zf},
			{model.Var{Name: "one"}, model.Var{Name: "one"}}, {bin("/", zf, zf), bin("/", zf, zf)}, {bin("-", inf, inf), nn}, {model.Index{X: model.Var{Name: "arr"}, I: lit(model.Int(0))}, model.Index{X: model.Var{Name: "arr"}, I: lit(model.Int(0))}}} {
			add(bin(op, pair[0], pair[1]), ndata)
			add(model.Ternary{C: bin(op, pair[0], pair[1]), A: lit(model.Str("yes")), B: lit(model.Str("no"))}, ndata)
		}
		// the same through a name assigned in the template: the result of an arithmetic expression kept and read twice
		for _, rhs := range []model.Expr{bin("/", zf, zf), bin("-", inf, inf), bin("*", inf, zf), nn, bin("+", nn, model.Var{Name: "one"}), model.Var{Name: "one"}, bin("/", model.Var{Name: "one"}, zf)} {
			kept := model.Var{Name: "kept"}
			out = append(out, func(c *core.Ctx) {
				judgeProgram(c, []model.Stmt{model.Assign{Name: "kept", E: rhs}, model.Text{S: "<"}, model.Print{E: bin(op, kept, kept)}, model.Text{S: "|"},
					model.Print{E: model.Ternary{C: bin(op, kept, model.Paren{X: kept}), A: lit(model.Int(1)), B: lit(model.Int(2))}}, model.Text{S: ">"}}, ndata, "boundary", false)
			})
		}
	}
	// round 17: calls on the results of arithmetic, inside further arithmetic, comparisons and ternaries: the call applies to
	// the value of the parenthesised expression (halves of either sign, which only arithmetic or the data produce)
	rdata := map[string]model.Value{"a": model.Float(0.5), "b": model.Float(3.0), "f": model.Float(-0.5), "g": model.Float(2.5), "one": model.Float(1)}
	av, bv, fv, gv := model.Var{Name: "a"}, model.Var{Name: "b"}, model.Var{Name: "f"}, model.Var{Name: "g"}
	for _, fn := range []string{"round", "ceil", "floor", "abs", "int"} {
		call := func(x model.Expr) model.Expr { return model.Call{X: x, Name: fn} }
		for _, x := range []model.Expr{model.Paren{X: bin("-", av, bv)}, fv, gv, model.Paren{X: model.Unary{Op: "-", X: gv}}, model.Paren{X: bin("*", fv, lit(model.Float(3.0)))}, model.Paren{X: bin("-", fv, model.Var{Name: "one"})},
			model.Paren{X: bin("/", gv, model.Paren{X: model.Unary{Op: "-", X: lit(model.Float(1.0))}})}} {
			add(call(x), rdata)
			add(bin("+", bin("*", call(x), lit(model.Int(2))), lit(model.Int(1))), rdata)
			add(model.Ternary{C: bin("<", call(x), lit(model.Int(0))), A: lit(model.Str("neg")), B: lit(model.Str("not"))}, rdata)
		}
		out = append(out, func(c *core.Ctx) {
			judgeProgram(c, []model.Stmt{model.Assign{Name: "kept", E: model.Unary{Op: "-", X: av}}, model.Text{S: "<"}, model.Print{E: call(model.Var{Name: "kept"})}, model.Text{S: ">"}}, rdata, "boundary", false)
		})
	}
	add(model.Var{Name: "nope"}, nil)
	add(bin("+", lit(model.Int(1)), model.Var{Name: "nope"}), nil)
	add(model.Ternary{C: lit(model.Bool(true)), A: lit(model.Int(1)), B: model.Var{Name: "nope"}}, nil)
	add(model.Ternary{C: lit(model.Bool(false)), A: lit(model.Int(1)), B: model.Var{Name: "nope"}}, nil)
	// floats with a fraction on both sides of every power of two a conversion might be cut at, under
	// the postfix and prefix operators and next to small operands; as literals, as data, from arithmetic
	for _, f := range []float64{0.5, 1.5, 255.5, 256.5, 65535.5, 65536.5, 2147483647.5, 2147483648.5, 4294967295.5, 4294967296.5, 4294967297.25,
		1099511627776.5, 4503599627370495.5, 1e15 + 0.5, 123456789012.125} {
		for _, sign := range []float64{1, -1} {
			v := model.Float(sign * f)
			fd := map[string]model.Value{"fv": v, "half": model.Float(0.5)}
			var le model.Expr = lit(v)
			if sign < 0 {
				le = model.Paren{X: model.Unary{Op: "-", X: lit(model.Float(f))}}
			}
			for _, x := range []model.Expr{le, model.Var{Name: "fv"}, model.Paren{X: bin("+", bin("-", model.Var{Name: "fv"}, model.Var{Name: "half"}), lit(model.Float(0.5)))}} {
				add(model.Postfix{Op: "--", X: x}, fd)
				add(model.Postfix{Op: "++", X: x}, fd)
				add(model.Unary{Op: "-", X: x}, fd)
				add(bin("-", x, lit(model.Float(1.0))), fd)
				add(bin("<", model.Postfix{Op: "--", X: x}, x), fd)
				add(bin("==", bin("+", model.Postfix{Op: "--", X: x}, lit(model.Float(1.0))), x), fd)
			}
		}
	}
	// a failing right-hand side fails the render also when the assigned name is new and never read again
	for _, src := range []string{"{{ t9 = 1 / 0 }}done", "{{ t9 = nope9 }}done", "{{ t9 = 1 + \"a\" }}done", "{{ t9 = 7 % zz }}done", "{{ t9 = -\"s\" }}", "x{{ t9 = [1, nope9] }}", "{{ t9 = {k: 1 / 0} }}",
		"{{ t9 = 1 }}{{ u9 = t9 / 0 }}{{ t9 }}", "@if(true){{ t9 = nope9 }}@end ok", "@each(v in [1, 2]){{ w9 = v / 0 }}@end", "{{ t9 = true ? nope9 : 1 }}", "{{ t9 = nope9.x.y }}"} {
		src := src
		out = append(out, func(c *core.Ctx) {
			c.Input(src)
			got := evalString(c, src, map[string]any{"zz": 0})
			c.Nontrivial(src)
			if !got.Panicked && got.Err == nil {
				c.Violation("boundary:failing-assignment", fmt.Sprintf("%s rendered %q although the right-hand side fails", src, got.Out), map[string]any{"source": src})
			}
		})
	}
	// a list written one element per line may end in a comma: same tree, same value
	for _, tc := range []struct{ src, out string }{
		{"{{ [1, 2,] }}", "1, 2"}, {"{{ [1,].len() }}", "1"}, {"{{ \"abc\".contains(\"b\",) }}", "1"}, {"{{ true.then(\"y\", \"n\",) }}", "y"},
		{"{{ (1 < 2).then(1 + 2 * 3, 0,) + 1 }}", "8"}, {"{{ \"abc\".contains(\n  \"b\",\n) }}", "1"}, {"{{ [1, 2, 3].slice(\n 1,\n 2,\n).len() }}", "1"},
		{"{{ {a: 1, b: 2,}.b }}", "2"}, {"{{ {\n a: 1,\n}.a }}", "1"}, {"{{ [[1,], [2, 3,],][1][1] }}", "3"}, {"{{ \"x\".repeat(2,) + \"y\".repeat(\n1\n,\n) }}", "xxy"},
	} {
		tc := tc
		out = append(out, func(c *core.Ctx) {
			c.Input(tc.src)
			got := evalString(c, tc.src, nil)
			c.Nontrivial(tc.src)
			if !got.Panicked && (got.Err != nil || got.Out != tc.out) {
				c.Violation("boundary:trailing-comma", fmt.Sprintf("%s gave %s, want %q", tc.src, got.Describe(), tc.out), map[string]any{"source": tc.src})
			}
		})
	}
	// integer literals at and beyond the 64-bit range: source written by hand
	for _, src := range []struct {
		lit   string
		fails bool
		out   string
	}{
		{"9223372036854775807", false, "9223372036854775807"},
		{"9223372036854775808", true, ""},
		{"18446744073709551616", true, ""},
		{"99999999999999999999999", true, ""},
		{"0", false, "0"},
		{"007", false, "7"}, {"010", false, "10"}, {"08", false, "8"}, {"0100", false, "100"}, {"00", false, "0"}, {"0019", false, "19"},
	} {
		src := src
		out = append(out, func(c *core.Ctx) {
			for _, tpl := range []string{"<{{ %s }}>", "<{{ 1 + %s }}>", "<{{ x = %s }}{{ x }}>"} {
				s := fmt.Sprintf(tpl, src.lit)
				c.Input(s)
				got := evalString(c, s, nil)
				c.Nontrivial(s)
				if src.fails && !got.Failed() {
					c.Violation("boundary:literal-range", fmt.Sprintf("out-of-range integer literal accepted: %s", got.Describe()), map[string]any{"source": s})
				}
				if !src.fails && tpl == "<{{ %s }}>" && (got.Failed() || got.Out != "<"+src.out+">") {
					c.Violation("boundary:literal-range", fmt.Sprintf("literal %s rendered as %s", src.lit, got.Describe()), map[string]any{"source": s})
				}
			}
		})
	}
	return out
}

func b2i(b bool) int {
	if b {
		return 1
	}
	return 0
}

// firstDifference says where an outcome departs from the wanted text
func firstDifference(got Outcome, want string) string {
	if got.Err != nil {
		return "error " + got.Err.Error()
	}
	g, w := strings.Split(got.Out, ";"), strings.Split(want, ";")
	for k := range w {
		if k >= len(g) || g[k] != w[k] {
			have := "(nothing)"
			if k < len(g) {
				have = g[k]
			}
			return fmt.Sprintf("item %d is %q, want %q", k, have, w[k])
		}
	}
	return fmt.Sprintf("output has %d items, want %d", len(g), len(w))
}
