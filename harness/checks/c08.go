package checks

import (
	"fmt"
	"os"
	"path/filepath"
	"strings"

	textwire "github.com/textwire/textwire/v2"
	"github.com/textwire/textwire/v2/config"
	"github.com/textwire/textwire/v2/lexer"
	"github.com/textwire/textwire/v2/parser"
	"github.com/textwire/textwire/v2/token"

	"verif/core"
	"verif/model"
)

// C08 — lexing and parsing terminate on every input and end in a program
// or an error.

// parseContract drives the real lexer and parser on src and asserts: bounded
// progress of the lexer, no panic, and "program without errors, or at least
// one error and every error carries a line". mustFail adds: the input is
// a truncation of one of the named kinds and has to be rejected.
func parseContract(c *core.Ctx, src string, mustFail string) {
	c.Input(src)
	// (1) logical progress of the lexer (no clock involved)
	c.Guard(func() {
		lx := lexer.New(src)
		prev := -1
		for n := 0; ; n++ {
			tok := lx.NextToken()
			if tok.Type == token.EOF || tok.Type == token.ILLEGAL {
				break
			}
			st := lx.VerifState()
			if n > len(src)+2 || st.Pos <= prev {
				c.Violation("lexer-no-progress", fmt.Sprintf("the lexer stopped making progress at offset %d (token %d)", st.Pos, n), map[string]any{"source": src})
				break
			}
			prev = st.Pos
		}
	})
	// (2) parser contract, under the CPU/heap watchdog of the worker
	c.Eval(1)
	var nErr int
	var zeroLine bool
	var progNil bool
	panicked := c.Guard(func() {
		p := parser.New(lexer.New(src), "")
		prog := p.ParseProgram()
		progNil = prog == nil
		nErr = len(p.Errors())
		for _, e := range p.Errors() {
			if e.Line() < 1 {
				zeroLine = true
			}
		}
	})
	if panicked {
		return
	}
	if nErr == 0 && progNil {
		c.Violation("no-program-no-error", "parsing returned neither a program nor an error", map[string]any{"source": src})
	}
	if zeroLine {
		c.Violation("error-without-line", "a parse error carries no line number", map[string]any{"source": src})
	}
	if mustFail != "" && nErr == 0 {
		c.Violation("accepted:"+mustFail, fmt.Sprintf("a template that ends inside %s was accepted without an error", mustFail), map[string]any{"source": src})
	}
	if nErr > 0 {
		c.Count("inputs_rejected", 1)
	} else {
		c.Count("inputs_parsed", 1)
	}
	c.Nontrivial(src)
	// (3) the string API: output, or an error with a line. Programs with a
	// @for loop are not rendered: an edited loop may legitimately never end,
	// which is not a lexing or parsing fault
	if strings.Contains(src, "@for") {
		return
	}
	got := evalString(c, src, nil)
	if !got.Panicked && got.Err != nil {
		if line, _, ok := ErrLinePath(got.Err); !ok || line < 1 {
			c.Violation("error-without-line", fmt.Sprintf("EvaluateString failed without a line: %s", got.Err.Error()), map[string]any{"source": src})
		}
	}
	if mustFail != "" && !got.Failed() {
		c.Violation("accepted:"+mustFail, fmt.Sprintf("EvaluateString rendered %q for a template that ends inside %s", got.Out, mustFail), map[string]any{"source": src})
	}
}

var spanNames = map[string]string{"p": "", "b": "an unterminated block", "s": "an unterminated string", "o": "an unterminated object literal",
	"c": "an unterminated comment", "a": "an unterminated directive argument list"}

// corpusTemplate is a generated valid template with the spans of its constructs
func corpusTemplate(c *core.Ctx) (string, []model.Span) {
	g := newStmtGen(c.Rng, stmtGenOpts{MaxDepth: 1 + c.Rng.Intn(3), Syntax: true, IfHeavy: c.Rng.Intn(2) == 0, LoopHeavy: c.Rng.Intn(2) == 0})
	prog := g.program(2 + c.Rng.Intn(4))
	marked := model.PrintStmts(prog, model.Style{Layout: model.SpaceLayout, Marks: true})
	return model.StripMarks(marked)
}

func insideSpan(spans []model.Span, o int) string {
	for _, sp := range spans {
		if sp.Open <= o && o < sp.Close && spanNames[sp.Kind] != "" {
			return spanNames[sp.Kind]
		}
	}
	return ""
}

// inCode reports whether offset o lies in code (a print block, a directive
// argument list or an object literal) and outside strings and comments
func inCode(spans []model.Span, o int) bool {
	code := false
	for _, sp := range spans {
		if sp.Open <= o && o < sp.Close {
			switch sp.Kind {
			case "s", "c":
				return false
			case "p", "a", "o":
				code = true
			}
		}
	}
	return code
}

// characters that are neither part of the language nor white space in code (blank, tab, CR, LF)
var illegalChars = []string{"#", "~", "$", "&", "|", "^", "`", "\\", "\x7f", "\v", "\f", "\x85", "\xa0", "\x00", "\x1b", "\xc2\xa0", "\u2028", "\ufeff"}

// templates with an illegal character in code, and operands directly followed by "("
var illegalTable = []string{
	"@reserve(#)", "@use(#)", "@insert(#)x@end", "@insert(#, 1)", "@component(#)", "@each(# in [1, 2])x@end", "@each(v in #)x@end", "{{ {#: 1} }}", "{{ {a: #} }}",
	"@component('c')@slot($)x@end@end", "@slot(#)", "{{ # }}", "{{ 1 # 2 }}", "@if(#)x@end", "@if(true)x@elseif(#)y@end", "@dump(#)", "@dump(1, #)", "@breakIf(#)", "@continueIf(~)",
	"@for(#;;)x@break@end", "@for(i = 0; #; i++)x@break@end", "@for(i = 0; i < 1; #)x@end", "{{ x.# }}", "{{ x[#] }}", "{{ [#] }}", "{{ [1, #] }}", "{{ x ? # : 1 }}", "{{ x ? 1 : # }}",
	"{{ x = # }}", "{{ # = 1 }}", "{{ x.f(#) }}", "{{ -# }}", "{{ !# }}", "{{ (#) }}", "@component(\"c\", {a: #})", "@component(\"c\", #)", "{{ a & b }}", "{{ a | b }}", "{{ a ^ b }}", "{{ `x` }}",
	"{{ 1 +\v2 }}", "{{ 1 +\f2 }}", "{{ 1\x85+ 2 }}", "{{ 1 + 2\xa0}}", "@if(\vx)y@end", "@each(v\fin [1])y@end", "{{\u00a01 }}", "{{ x\u2028.y }}", "@component(\"c\",\v{a: 1})", "{{ [1,\f2] }}",
}

var mustReturnTable = []string{
	"{{ len(items) }}", "@if(isset(user))yes@end", "{{ a.b(1)(2) }}", "{{ items[0](1) }}", "{{ (a)(b) }}", "{{ n (", "@dump(a, b(c))", "{{ 1(2) }}", "{{ \"s\"(1) }}", "{{ f() }}", "{{ x.f()() }}",
	"@each(v in f(x))a@end", "{{ [1](0) }}", "{{ {a: 1}(1) }}", "{{ nil(1) }}", "{{ true(false) }}", "@if(a(b)(c))x@end", "{{ x++(1) }}", "{{ -x(1) }}",
}

// explicit truncations of every named kind
var truncations = []struct{ src, kind string }{
	{"@if(true)x", "b"}, {"@if(true)x@else y", "b"}, {"@if(true)x@elseif(false)y", "b"}, {"@if(true)", "b"}, {"@if(true)@if(false)a@end", "b"},
	{"@each(v in [1])x", "b"}, {"@each(v in [1]){{ v }}", "b"}, {"@each(v in [])x@else y", "b"},
	{"@for(i = 0; i < 2; i++)x", "b"}, {"@for(;;)x", "b"}, {"@insert(\"a\")x", "b"}, {"@insert(\"a\")", "b"},
	{"@component(\"c\")@slot(\"s\")x", "b"}, {"@component(\"c\")@slot x", "b"}, {"@component(\"c\")@slot(\"s\")x@end", "b"},
	{"@component(\"c\", {a: 1})@slot y@end", "b"}, {"@component(\"c\") @slot(\"s\")x@end ", "b"}, {"@component(\"c\")\n  @slot(\"top\")x@end\n<p>after</p>", "b"}, {"@component(\"c\")\t@slot x@end", "b"},
	{"{{ {a: 1", "o"}, {"{{ {a: 1,", "o"}, {"{{ {", "o"}, {"{{ {a:", "o"}, {"{{ x = {a: {b: 2}", "o"}, {"@component(\"c\", {a: 1", "o"}, {"{{ {a: 1, b", "o"}, {"@if({a: 1", "o"},
	{"{{ \"abc", "s"}, {"{{ 'a", "s"}, {"@if(\"x", "s"}, {"{{ \"a\\\"", "s"}, {"{{ \"a\nb", "s"}, {"{{ \"", "s"}, {"@use(\"l", "s"}, {"{{ 1 + 'x", "s"},
	{"{{-- abc", "c"}, {"{{--", "c"}, {"a{{-- --}", "c"}, {"{{-- -- }}", "c"}, {"{{ 1 }}{{-- x", "c"}, {"{{---", "c"},
	{"@if(x", "a"}, {"@if(", "a"}, {"@if(true)a@elseif(x", "a"}, {"@each(v in arr", "a"}, {"@each(v in", "a"}, {"@each(v", "a"}, {"@each(", "a"},
	{"@for(i = 0; i < 2", "a"}, {"@for(i = 0;", "a"}, {"@for(", "a"}, {"@for(i = 0; i < 2; i++", "a"},
	{"@use(\"l\"", "a"}, {"@use(", "a"}, {"@reserve(\"r\"", "a"}, {"@reserve(", "a"}, {"@insert(\"i\", 1", "a"}, {"@insert(\"i\"", "a"}, {"@insert(\"i\",", "a"}, {"@insert(", "a"},
	{"@breakIf(x", "a"}, {"@breakIf(", "a"}, {"@continueIf(x", "a"}, {"@continueIf(", "a"}, {"@dump(x", "a"}, {"@dump(x, y", "a"}, {"@dump(", "a"},
	{"@component(\"c\"", "a"}, {"@component(\"c\", {a: 1}", "a"}, {"@component(", "a"}, {"@component(\"c\",", "a"}, {"@slot(\"s\"", "a"}, {"@slot(", "a"},
	{"@if(x.f(1)", "a"}, {"@if((1 + 2)", "a"}, {"@each(v in [1, 2]", "a"},
}

// block openers left unclosed, and closed constructs to nest in them
var unclosedOuters = []string{
	"@if(x)", "@if(x)a@else", "@if(x)a@elseif(y)", "@if(x)@elseif(y)@else", "@each(v in a)", "@each(v in a)q@else", "@for(;;)", "@for(i = 0; i < 1; i++)q@else",
	"@insert(\"o\")", "@component(\"c\")@slot(\"s\")", "@component(\"c\")@slot(\"s\")x@end", "@component(\"c\")@slot",
	// the same with the line ends of other platforms between the component and its slots
	"@component(\"c\")\r\n@slot(\"s\")\r\n", "@component(\"c\")\r@slot", "<div>\r\n@component(\"c\", {a: 1})\r\n\t@slot(\"s\")x@end\r\n", "@component(\"c\") \n\t\r\n @slot(\"s\")",
}

var closedInners = []string{
	"", "@if(x)@end", "@if(x)a@end", "@if(x)@else@end", "@if(x)a@elseif(y)@end", "@if(x)@elseif(y)@else@end", "@each(v in a)@end", "@each(v in a)b@else@end", "@each(v in a)@else@end",
	"@for(;;)@end", "@for(;;)@else@end", "@insert(\"a\")@end", "@insert(\"a\")b@end", "@insert(\"a\", 1)", "@component(\"d\")@slot(\"s\")@end@end", "@component(\"d\")@slot@end@end",
	"@component(\"d\")@slot(\"s\")z@end @slot@end@end", "@component(\"d\")", "@component(\"d\", {a: 1})", "{{-- c --}}", "{{ 1 }}", "@break", "@continue", "@breakIf(x)", "@dump(x)", "@reserve(\"r\")", "@use(\"l\")",
}

// complete templates that are wrong in their structure (a clause, a branch, an argument or a closer too many or too few)
var structuralFaults = []string{
	"@for(i = 0; i < 3; i++; j = 1)y@end", "@for(i = 0; i < 3; i++; j = 1; k = 2)y@end", "@for(i = 0; i < n; i++; i = i + 1\n@end", "@for(i = 0)y@end", "@for(i = 0; i < 3)y@end", "@for()y@end",
	"@each(x in y)a@else b@else c@end", "@each(x in y)a@else b@else c@else d@end", "@each(x in y)a@else b@elseif(z)c@end", "@for(;;)a@else b@else c@end",
	"@if(a)x@else y@else z@end", "@if(a)x@else y@elseif(b)z@end", "@if(a)x@else y@elseif(b)z@else w@end", "@if(a)x@end@end", "@if(a)x@elseif()y@end", "@if()x@end", "@if(a b)x@end",
	"@each(x in y, z)a@end", "@each(x y)a@end", "@each(x in)a@end", "@each(in y)a@end", "@each(x, i in y)a@end", "@each(1 in y)a@end",
	"@component(\"c\", {a: 1}, 2)", "@component(\"c\", 5)", "@component(\"c\", \"d\")", "@component(\"c\", x)", "@component(\"c\", [1, 2])", "@component()", "@component(c)", "@component(\"c\")@slot(\"a\", \"b\")x@end@end",
	"@component(\"c\")@slot(a)x@end@end", "@component(\"c\")@slot(1)x@end@end", "@component(\"c\")@slot x@end@slot y@end@end",
	"@insert(\"a\", 1, 2)", "@insert()", "@insert(a)", "@insert(\"a\", 1)x@end", "@use(\"a\", \"b\")", "@use()", "@use(a)", "@use(1)", "@reserve(\"a\", 1)", "@reserve()", "@reserve(r)",
	"@slot(\"a\", \"b\")", "@dump()", "@dump(a,)", "@dump(, a)", "@breakIf()", "@breakIf(a, b)", "@continueIf()", "@continueIf(a b)",
	"{{ a b }}", "{{ 1 2 }}", "{{ x = = 1 }}", "{{ x = }}", "{{ = 1 }}", "{{ a ? b }}", "{{ a ? b : }}", "{{ a ? : c }}", "{{ ? b : c }}", "{{ [1 2] }}", "{{ [1,, 2] }}", "{{ {a 1} }}", "{{ {a: 1 b: 2} }}", "{{ {: 1} }}", "{{ {1: 1} }}",
	"{{ f(1 2) }}", "{{ x.f(1,, 2) }}", "{{ x. }}", "{{ x.1 }}", "{{ x..y }}", "{{ x[ }}", "{{ x[1 }}", "{{ x[] }}", "{{ x[1, 2] }}", "{{ 1 + }}", "{{ + 1 }}", "{{ * }}", "{{ () }}", "{{ (1 }}", "{{ 1) }}", "{{ ++ }}", "{{ x ++ ++ }}",
	"{{ 99999999999999999999 }}", "{{ 1.2.3 }}", "{{ 1. }}", "{{ .5 }}", "{{ }}", "{{ ; }}", "{{ 1; 2 }}", "{{ 1;; }}", "{{ x = 1; }}",
	"@end", "@else", "@elseif(x)", "@slot x@end", "@slot(\"s\")x@end", "@break@end", "x@else y@end", "@if(a)x@elseif(99999999999999999999)@end", "@if(a)x@elseif(user.)@elseif(b)y@end", "@if(a)x@elseif(list[0)@else z@end",
}

var truncationPrefixes = []string{"", "text ", "{{ 1 }}", "@if(true)in\n", "line1\nline2\n", "{{-- c --}}", "@each(q in [1])"}

func init() {
	core.Register(&core.Check{
		ID:        "C08",
		CPUBudget: 6,
		Level:     "exploration",
		Rule: "inputs are all sequences of up to k lexemes of the full lexeme alphabet (glued and space-separated), every prefix and every single-token deletion, duplication and adjacent swap of generated valid templates, a table of truncations of every named kind under several prefixes, random lexeme/byte soups, and the same inputs as the single file of a template directory; " +
			"monitors: logical progress of the lexer (position strictly grows, at most len+2 tokens), CPU/heap budget around parse and render (worker watchdog, confirmed alone with a doubled budget), panic monitor, and the contract 'program without errors, or >=1 error and every error has a line'; a prefix that cuts a generated block, string, object literal, comment or directive argument list (spans known from the generator) must be rejected. also every closed construct inside every unclosed opener (two levels), truncations followed by hostile bytes, 16 trees with circular references, 16 rounds of concurrent parsing of fresh inputs; 18 illegal characters; round 8: a second fault at every offset of 100 structurally wrong templates, truncations and closed constructs; scale: tokens and lists to 1 MiB; round 11: pinned mtimes, files rewritten in place; rounds 12-13: extension repeated in sibling names, every load error carries a line, faulty files in use, names that leave the template directory; round 17: escapes whose backslash ends a long text run; distinct_nontrivial = distinct inputs (by hash)",
		Assumptions: []string{
			"termination is decided as bounded progress: 20 s of CPU per input (median is microseconds), 2 GiB of heap",
			"inputs are at most a few hundred bytes; recursion-depth exhaustion on megabyte inputs is out of reach and not claimed",
			"an unterminated '{{ }}' print block at top level is not one of the named kinds; either outcome is accepted for it",
		},
		Sections: func(tier core.Tier, seed int64) []core.Section {
			k, nCorpus, nSoup, nFile := 2, 1500, 30000, 1500
			if tier == core.Thorough {
				k, nCorpus, nSoup, nFile = 3, 40000, 1500000, 20000
			}
			var secs []core.Section
			run := func(c *core.Ctx, s string) { parseContract(c, s, "") }
			// "every byte string": the lexeme alphabet plus raw bytes the lexer might treat specially
			lexemes := append(append([]string{}, LexemeAtoms...), "\x00", "\xff", "\t", "\x7f")
			secs = append(secs, seqSections("lexemes-glued-", lexemes, k, run)...)
			spaced := make([]string, len(lexemes))
			for i, a := range lexemes {
				spaced[i] = a + " "
			}
			secs = append(secs, seqSections("lexemes-spaced-", spaced, k, run)...)
			// in thorough, one more atom over the directive/delimiter core of the alphabet
			core4 := LexemeAtoms[:36]
			secs = append(secs, seqSections("core-glued-", core4, k+1, run)...)
			// explicit truncations
			secs = append(secs, core.Section{Name: "truncations", Exhaustive: true, N: len(truncations) * len(truncationPrefixes),
				Run: func(c *core.Ctx, i int) {
					t := truncations[i%len(truncations)]
					pre := truncationPrefixes[i/len(truncations)]
					src := pre + t.src
					c.Sample(map[string]any{"source": src, "must_fail_because": spanNames[t.kind]})
					parseContract(c, src, spanNames[t.kind])
				}})
			// an illegal character in code must be rejected, wherever it stands
			secs = append(secs, core.Section{Name: "illegal-character-table", Exhaustive: true, N: len(illegalTable) * len(truncationPrefixes),
				Run: func(c *core.Ctx, i int) {
					src := truncationPrefixes[i/len(illegalTable)]
					if strings.HasSuffix(src, ")") || strings.Contains(src, "@if(true)in") || strings.Contains(src, "@each(q") {
						src = "" // prefixes that open a block would need their @end
					}
					src += illegalTable[i%len(illegalTable)]
					c.Sample(map[string]any{"source": src, "must_fail_because": "an illegal character in code"})
					parseContract(c, src, "code with an illegal character")
				}})
			// an unclosed block around every closed construct (empty and non-empty bodies): the inner
			// @end must not stand in for the outer one
			secs = append(secs, core.Section{Name: "unclosed-nesting", Exhaustive: true, N: len(unclosedOuters) * (len(unclosedOuters) + 1) * len(closedInners),
				Run: func(c *core.Ctx, i int) {
					in := closedInners[i%len(closedInners)]
					i /= len(closedInners)
					o1 := unclosedOuters[i%len(unclosedOuters)]
					o2 := ""
					if k := i / len(unclosedOuters); k > 0 {
						o2 = unclosedOuters[k-1]
					}
					for _, tail := range []string{"", " ", "text", "\n<p>after</p>\n", in} {
						src := o2 + o1 + in + tail
						c.Sample(map[string]any{"source": src, "must_fail_because": spanNames["b"]})
						parseContract(c, src, spanNames["b"])
						if o2 != "" {
							parseContract(c, src+"@end", spanNames["b"])
						}
					}
				}})
			// an unterminated construct right after a closed one (with or without blanks in between) is still unterminated
			openers := []struct{ src, kind string }{{"{{-- TODO", "c"}, {"{{--", "c"}, {"{{ \"abc", "s"}, {"{{ {a: 1", "o"}, {"@if(x", "a"}, {"@if(x)y", "b"}, {"@each(v in a)", "b"}, {"@component(\"d\")@slot x", "b"}}
			secs = append(secs, core.Section{Name: "unterminated-after-closed", Exhaustive: true, N: len(closedInners) * len(openers),
				Run: func(c *core.Ctx, i int) {
					in, op := closedInners[i%len(closedInners)], openers[i/len(closedInners)]
					for _, ws := range []string{"", " ", "\n", " \t\r\n  ", "text", " x "} {
						parseContract(c, in+ws+op.src, spanNames[op.kind])
						parseContract(c, "<p>"+in+ws+in+ws+op.src, spanNames[op.kind])
					}
				}})
			// files larger than any buffer a loader might use: a fault at the very end is still found
			bigFaults := []struct{ src, kind string }{{"{{ total # }}", "code with an illegal character"}, {"@if(true)never closed", spanNames["b"]}, {"{{ \"never closed", spanNames["s"]}, {"{{-- never closed", spanNames["c"]}, {"{{ 1 + }}", "an expression without its operand"}}
			bigSizes := []int{1<<16 + 3, 1<<20 - 5, 1<<20 + 77, 2<<20 + 1}
			secs = append(secs, core.Section{Name: "large-file-faults", Exhaustive: true, N: len(bigFaults) * len(bigSizes),
				Run: func(c *core.Ctx, i int) {
					f, n := bigFaults[i%len(bigFaults)], bigSizes[i/len(bigFaults)]
					line := "<li>row {{ 1 }} of a long page</li>\n"
					src := strings.Repeat(line, n/len(line)+1)[:n]
					src = src[:strings.LastIndex(src, "\n")+1] + f.src
					c.Input(map[string]any{"bytes": len(src), "ends_with": f.src})
					c.Nontrivial(fmt.Sprint("big", n, f.src))
					for _, dirFile := range []string{"page.tw", "layouts/l.tw", "components/c.tw"} {
						os.RemoveAll("c08big")
						if err := writeFiles("c08big", map[string]string{dirFile: src, "ok.tw": "fine"}); err != nil {
							c.Inconclusive(err.Error())
							return
						}
						textwire.VerifResetConfig()
						var tpl *textwire.Template
						var err error
						c.Eval(1)
						if c.Guard(func() { tpl, err = textwire.NewTemplate(&config.Config{TemplateDir: "c08big", TemplateExt: ".tw"}) }) {
							continue
						}
						if err == nil && tpl != nil {
							c.Violation("accepted:large-file", fmt.Sprintf("a %d-byte file %s that ends in %s (%q) was loaded without an error", len(src), dirFile, f.kind, f.src), map[string]any{"bytes": len(src), "file": dirFile, "ends_with": f.src})
						}
					}
					os.RemoveAll("c08big")
					// the same bytes as a string
					var serr error
					c.Eval(1)
					if !c.Guard(func() { _, serr = textwire.EvaluateString(src, nil) }) && serr == nil {
						c.Violation("accepted:large-string", fmt.Sprintf("a %d-byte template that ends in %s was accepted", len(src), f.kind), map[string]any{"bytes": len(src), "ends_with": f.src})
					}
				}})
			// hostile bytes and more text after the point of truncation never close anything
			secs = append(secs, core.Section{Name: "truncations-with-hostile-tail", Exhaustive: true, N: len(truncations),
				Run: func(c *core.Ctx, i int) {
					t := truncations[i]
					for _, b := range []string{"\x00", "\xff", "\x7f", "\x01", "\\"} {
						for _, tail := range []string{"", " b", "\n<p>y</p>", "x\x00", " \"", " '", " )", " }}", " --}}", "@end"} {
							switch {
							case t.kind == "s" && strings.ContainsAny(tail, "\"'"), t.kind == "a" && strings.Contains(tail, ")"),
								t.kind == "c" && strings.Contains(tail, "--}}"), t.kind == "b" && strings.Contains(tail, "@end"),
								t.kind == "o" && strings.Contains(tail, "}"):
								continue
							}
							if t.kind == "c" && strings.HasSuffix(t.src, "-") && b == "\\" {
								continue
							}
							parseContract(c, t.src+b+tail, spanNames[t.kind])
						}
					}
				}})
			// a second fault next to a first one: an illegal character (or a stray closer) at every offset of templates that are
			// already wrong in their structure, of every truncation and of every closed construct; parsing still returns
			secs = append(secs, core.Section{Name: "illegal-character-in-faulty-templates", Exhaustive: true, N: len(structuralFaults) + len(truncations) + len(closedInners),
				Run: func(c *core.Ctx, i int) {
					var src string
					switch {
					case i < len(structuralFaults):
						src = structuralFaults[i]
						parseContract(c, src, "")
					case i < len(structuralFaults)+len(truncations):
						src = truncations[i-len(structuralFaults)].src
					default:
						src = closedInners[i-len(structuralFaults)-len(truncations)]
					}
					for o := 0; o <= len(src); o++ {
						for _, ch := range []string{"#", "~", "\x00", "\\", "$ ", " & ", "@", "@end", "}}", ")"} {
							parseContract(c, src[:o]+ch+src[o:], "")
							c.Count("second_faults_injected", 1)
						}
					}
				}})
			// long tokens and long argument lists (255 bytes .. 1 MiB): parsing returns, and what is cut short is rejected
			longLens := []int{255, 256, 257, 4096, 65535, 65536, 65537, 1 << 20}
			secs = append(secs, core.Section{Name: "long-tokens", Exhaustive: true, N: len(longLens),
				Run: func(c *core.Ctx, i int) {
					for _, src := range longTokenInputs(longLens[i]) {
						parseContract(c, src, "")
						if strings.HasSuffix(src, " }}") {
							parseContract(c, strings.TrimSuffix(src, " }}"), "")
						}
					}
					n := longLens[i]
					parseContract(c, "{{ \""+strings.Repeat("s", n), spanNames["s"])
					parseContract(c, "{{-- "+strings.Repeat("c ", n/2), spanNames["c"])
					parseContract(c, "@if(x)"+strings.Repeat("text ", n/5), spanNames["b"])
					parseContract(c, "{{ {a: "+strings.Repeat("[", n%2000), spanNames["o"])
					parseContract(c, "@if("+strings.Repeat("(", n%2000), spanNames["a"])
				}})
			secs = append(secs, core.Section{Name: "call-syntax-table", Exhaustive: true, N: len(mustReturnTable),
				Run: func(c *core.Ctx, i int) { parseContract(c, mustReturnTable[i], "") }})
			// illegal characters injected into the code of generated templates
			secs = append(secs, core.Section{Name: "illegal-character-injection", N: nCorpus,
				Run: func(c *core.Ctx, i int) {
					src, spans := corpusTemplate(c)
					var spots []int
					for o := 1; o < len(src); o++ {
						if src[o] == ' ' && inCode(spans, o) && inCode(spans, o-1) {
							spots = append(spots, o)
						}
					}
					for k := 0; k < 12 && len(spots) > 0; k++ {
						o := spots[c.Rng.Intn(len(spots))]
						ch := illegalChars[c.Rng.Intn(len(illegalChars))]
						// inserted between two tokens
						parseContract(c, src[:o]+" "+ch+src[o:], "code with an illegal character")
						// in the place of the token that follows
						e := o + 1
						for e < len(src) && src[e] != ' ' && inCode(spans, e) {
							e++
						}
						if e > o+1 {
							parseContract(c, src[:o+1]+ch+src[e:], "code with an illegal character")
						}
						c.Count("illegal_characters_injected", 2)
					}
				}})
			// every prefix of generated valid templates
			secs = append(secs, core.Section{Name: "prefixes", N: nCorpus,
				Run: func(c *core.Ctx, i int) {
					src, spans := corpusTemplate(c)
					if i < 2 {
						c.Sample(map[string]any{"template": src, "spans": len(spans)})
					}
					parseContract(c, src, "")
					if c.Replay {
						fmt.Printf("template %q\nspans %v\n", src, spans)
					}
					for o := 0; o < len(src); o++ {
						why := insideSpan(spans, o)
						if why != "" {
							c.Count("prefixes_that_must_fail", 1)
						}
						parseContract(c, src[:o], why)
					}
				}})
			// single-token deletion, duplication and adjacent swap
			secs = append(secs, core.Section{Name: "token-edits", N: nCorpus,
				Run: func(c *core.Ctx, i int) {
					src, _ := corpusTemplate(c)
					res := checkTiling(src, false)
					var cuts [][2]int
					for _, lt := range res.Tokens {
						if lt.Start >= 0 && lt.End >= lt.Start && lt.End < len(src) {
							cuts = append(cuts, [2]int{lt.Start, lt.End + 1})
						}
					}
					for k, ct := range cuts {
						parseContract(c, src[:ct[0]]+src[ct[1]:], "")
						parseContract(c, src[:ct[1]]+src[ct[0]:ct[1]]+src[ct[1]:], "")
						if k+1 < len(cuts) {
							nx := cuts[k+1]
							parseContract(c, src[:ct[0]]+src[nx[0]:nx[1]]+src[ct[1]:nx[0]]+src[ct[0]:ct[1]]+src[nx[1]:], "")
						}
					}
				}})
			// random soups
			all := allAtoms()
			secs = append(secs, core.Section{Name: "soups", N: nSoup,
				Run: func(c *core.Ctx, i int) {
					var s string
					switch i % 3 {
					case 0:
						s = randomAtomString(c.Rng, lexemes, 300)
					case 1:
						s = randomAtomString(c.Rng, all, 300)
					default:
						b := make([]byte, 1+c.Rng.Intn(120))
						alphabet := "@{}()[]\"'\\-+=!<>.,;:?/%* \n\r\tifelsnduaborkcmpt01x#~\xc3\xa9\x00\xff"
						for k := range b {
							b[k] = alphabet[c.Rng.Intn(len(alphabet))]
						}
						s = string(b)
					}
					if i < 3 {
						c.Sample(s)
					}
					parseContract(c, s, "")
				}})
			// the same kinds of inputs as the content of a file in the template directory
			secs = append(secs, core.Section{Name: "file-api", N: nFile,
				Run: func(c *core.Ctx, i int) {
					var src, mustFail string
					switch i % 3 {
					case 0:
						full, spans := corpusTemplate(c)
						o := c.Rng.Intn(len(full) + 1)
						src = full[:o]
						if o < len(full) {
							mustFail = insideSpan(spans, o)
						}
					case 1:
						t := truncations[c.Rng.Intn(len(truncations))]
						src = truncationPrefixes[c.Rng.Intn(len(truncationPrefixes))] + t.src
						mustFail = spanNames[t.kind]
					default:
						src = randomAtomString(c.Rng, all, 200)
					}
					loadOneFile(c, src, mustFail)
				}})
			// one file rewritten in place with faulty bytes of the same length (same path, same modification time), loaded
			// again in the same process: the fault is found
			rewrites := [][2]string{{"text {{ 1 }} ok", "text {{ # }} ok"}, {"@if(true)x@end", "@if(true)x@enx"}, {"{{ \"abc\" }}", "{{ \"abc  }}"}, {"a{{-- c --}}b", "a{{-- c -- }b"}, {"@each(v in [1])x@end", "@each(v in [1)]x@end"},
				{"{{ {a: 1}.a }}", "{{ {a: 1,.a }}"}, {"<p>plain</p>", "<p>{{ ~ }}</p>"}}
			secs = append(secs, core.Section{Name: "files-rewritten-in-place", Exhaustive: true, N: len(rewrites) * 2,
				Run: func(c *core.Ctx, i int) {
					rw := rewrites[i/2]
					if i%2 == 1 {
						// the file is a layout or a component that a valid page uses
						for _, f := range []string{"layouts/l.tw", "components/c.tw"} {
							dir := "c08rw"
							os.RemoveAll(dir)
							page := "@use(\"~l\")@insert(\"b\", 1)"
							other := map[string]string{"layouts/l.tw": "<@reserve(\"b\")>" + rw[0]}
							if f == "components/c.tw" {
								page = "@component(\"~c\")"
								other = map[string]string{"components/c.tw": rw[0]}
							}
							other["page.tw"] = page
							if err := writeFiles(dir, other); err != nil {
								c.Inconclusive(err.Error())
								return
							}
							os.Chtimes(filepath.Join(dir, f), fixedMtime, fixedMtime)
							textwire.VerifResetConfig()
							var err error
							var tpl *textwire.Template
							c.Eval(2)
							if c.Guard(func() { tpl, err = textwire.NewTemplate(&config.Config{TemplateDir: dir, TemplateExt: ".tw"}) }) {
								return
							}
							if err != nil || tpl == nil {
								c.Violation("valid-tree-rejected", fmt.Sprintf("%v", err), map[string]any{"files": describeFiles(other)})
								return
							}
							bad := strings.Replace(other[f], rw[0], rw[1], 1)
							os.WriteFile(filepath.Join(dir, f), []byte(bad), 0o644)
							os.Chtimes(filepath.Join(dir, f), fixedMtime, fixedMtime)
							if c.Guard(func() { tpl, err = textwire.NewTemplate(&config.Config{TemplateDir: dir, TemplateExt: ".tw"}) }) {
								return
							}
							c.Nontrivial(fmt.Sprint("rewritten", f, rw))
							if err == nil {
								c.Violation("accepted-file:rewritten-in-place", fmt.Sprintf("%s was rewritten in place from %q to %q (same length, same modification time) and the tree loaded without an error", f, other[f], bad), map[string]any{"file": f})
							}
							os.RemoveAll(dir)
						}
						return
					}
					loadOneFile(c, rw[0], "")
					loadOneFile(c, rw[1], "a construct the rewrite broke")
					loadOneFile(c, rw[0], "")
				}})
			// a faulty layout or component that valid pages use (pages sorting before and after it; the component used with
			// slots), and faulty files whose names hold percent signs: loading returns an error that carries a line
			useFaults := append(append([]string{}, illegalTable[:12]...), "{{ \"never closed", "{{-- never closed", "@if(x)never closed", "{{ {a: 1", "@each(v in", "{{ 1 + }}", "{{ ~ }}", "text {{ 1 # 2 }} more", "\n\n{{ 'x", "@component(\"x\", 5)")
			secs = append(secs, core.Section{Name: "faulty-files-in-use", Exhaustive: true, N: len(useFaults) * 3,
				Run: func(c *core.Ctx, i int) {
					fault := useFaults[i/3]
					var files map[string]string
					switch i % 3 {
					case 0:
						files = map[string]string{"layouts/main.tw": "<@reserve(\"b\")>" + fault, "home.tw": "@use(\"~main\")@insert(\"b\", 1)", "zz.tw": "@use(\"layouts/main\")@insert(\"b\")x@end", "other.tw": "fine"}
					case 1:
						files = map[string]string{"components/card.tw": "<@slot|@slot(\"f\")>" + fault, "a.tw": "@component(\"~card\")@slot s@end@slot(\"f\")t@end@end", "zz.tw": "@component(\"components/card\")", "widgets/w.tw": "W"}
					default:
						files = map[string]string{"sale-50%off.tw": "ok so far\n" + fault, "q%sx/a%%b.tw": "fine", "100%d.tw": "also fine"}
					}
					os.RemoveAll("c08use")
					if err := writeFiles("c08use", files); err != nil {
						c.Inconclusive(err.Error())
						return
					}
					defer os.RemoveAll("c08use")
					textwire.VerifResetConfig()
					var tpl *textwire.Template
					var err error
					c.Eval(1)
					c.Input(map[string]any{"files": describeFiles(files)})
					if c.Guard(func() { tpl, err = textwire.NewTemplate(&config.Config{TemplateDir: "c08use", TemplateExt: ".tw"}) }) {
						return
					}
					c.Nontrivial(fmt.Sprint("in-use", i, fault))
					switch {
					case err == nil && tpl != nil:
						c.Violation("accepted-file:in-use", fmt.Sprintf("a tree with the faulty file content %q loaded without an error", fault), map[string]any{"files": describeFiles(files)})
					case err == nil:
						c.Violation("load-contract", "NewTemplate returned neither a template nor an error", map[string]any{"files": describeFiles(files)})
					default:
						if line, _, ok := ErrLinePath(err); !ok || line < 1 {
							c.Violation("load-error-without-line", "the load error carries no line number: "+err.Error(), map[string]any{"files": describeFiles(files)})
						}
					}
				}})
			// names that leave the template directory (../shared/card), present and absent, in @component and @use, plain and
			// behind a detour: whatever loading makes of them, an error it returns carries a line
			outNames := []string{"../shared/card", "../nowhere/card", "sub/../../shared/card", "../../c08out/shared/card", "..", "../", "../shared", "./../shared/card", "~../../shared/card"}
			secs = append(secs, core.Section{Name: "names-that-leave-the-template-directory", Exhaustive: true, N: len(outNames) * 3,
				Run: func(c *core.Ctx, i int) {
					name := outNames[i/3]
					page := []string{"a\n@component(\"" + name + "\", {t: 1})", "b\n\n@component(\"" + name + "\")@slot s@end@end", "@insert(\"b\", 2)\n@use(\"" + name + "\")"}[i%3]
					files := map[string]string{"tpl/p.tw": page, "tpl/q.tw": "fine", "shared/card.tw": "<card {{ t }}@slot>@reserve(\"b\")", "tpl/sub/x.tw": "x"}
					os.RemoveAll("c08out")
					if err := writeFiles("c08out", files); err != nil {
						c.Inconclusive(err.Error())
						return
					}
					defer os.RemoveAll("c08out")
					textwire.VerifResetConfig()
					var tpl *textwire.Template
					var err error
					c.Eval(1)
					c.Input(map[string]any{"files": describeFiles(files), "template_dir": "c08out/tpl"})
					if c.Guard(func() { tpl, err = textwire.NewTemplate(&config.Config{TemplateDir: "c08out/tpl", TemplateExt: ".tw"}) }) {
						return
					}
					c.Nontrivial(fmt.Sprint("out-name", i, name))
					switch {
					case err == nil && tpl == nil:
						c.Violation("load-contract", "NewTemplate returned neither a template nor an error", map[string]any{"files": describeFiles(files)})
					case err != nil:
						c.Count("outside_names_rejected", 1)
						if line, _, ok := ErrLinePath(err); !ok || line < 1 {
							c.Violation("load-error-without-line", "the load error carries no line number: "+err.Error(), map[string]any{"files": describeFiles(files)})
						}
					default:
						c.Count("outside_names_loaded", 1)
						got, _ := renderPage(c, tpl, "p", nil)
						_ = got
					}
				}})
			// several goroutines lex and parse at once, every input with words never seen before in the process
			secs = append(secs, core.Section{Name: "concurrent-parsing", N: 16,
				Run: func(c *core.Ctx, i int) {
					c.Input(map[string]any{"goroutines": 8, "inputs_each": 250, "round": i})
					c.Nontrivial(fmt.Sprint("burst", i, c.Seed))
					concurrentBurst(c, 8, 250, func(g, n int) (string, map[string]any, string) {
						id := fmt.Sprintf("%d_%d_%d_%d", c.Seed, i, g, n)
						src := "mail" + id + "@host" + id + ".example @w" + id + " \\@if @e" + id + "{{ \"s" + id + "\" }}{{-- c" + id + " --}}@if(true)t" + id + "@end"
						return src, nil, "mail" + id + "@host" + id + ".example @w" + id + " @if @e" + id + "s" + id + "t" + id
					})
				}})
			// files that refer to each other in a circle (components, layouts, mixed), also files no page
			// uses: loading returns, every page renders or fails
			secs = append(secs, core.Section{Name: "reference-cycles", Exhaustive: true, N: len(cycleTrees),
				Run: func(c *core.Ctx, i int) {
					files := cycleTrees[i]
					tpl, err := loadTree(c, "c08cycle", files, ".tw")
					defer os.RemoveAll("c08cycle")
					c.Nontrivial(fmt.Sprint(files))
					c.Sample(map[string]any{"files": describeFiles(files), "load_error": fmt.Sprint(err)})
					if tpl == nil || err != nil {
						if err != nil && !strings.Contains(err.Error(), "Textwire ERROR") {
							c.Violation("load-error-shape", "load error is not a Textwire error: "+err.Error(), map[string]any{"files": describeFiles(files)})
						}
						return
					}
					for _, name := range tpl.VerifNames() {
						got, _ := renderPage(c, tpl, name, nil)
						if !got.Panicked && got.Err == nil {
							c.Count("cyclic_pages_rendered", 1)
						}
					}
				}})
			return secs
		},
	})
}

// trees whose files refer to each other in a circle
var cycleTrees = []map[string]string{
	{"page.tw": `a@component("page")b`},
	{"page.tw": `a@component("page")@slot x@end@end b`},
	{"page.tw": `a@component("~x")b`, "components/x.tw": `X@component("~x")`},
	{"page.tw": `a@component("~x")b`, "components/x.tw": `X@component("~y")`, "components/y.tw": `Y@component("~x")`},
	{"page.tw": `a@component("~x")b`, "components/x.tw": `X@component("~y")`, "components/y.tw": `Y@component("~z")`, "components/z.tw": `Z@component("~x")@slot@end@end`},
	{"page.tw": "plain", "components/x.tw": `X@component("~y")`, "components/y.tw": `Y@component("~x")`},
	{"page.tw": "plain", "unused/self.tw": `@if(true)@component("unused/self")@end`},
	{"page.tw": `@component("~x")`, "components/x.tw": `X@component("page")`},
	{"page.tw": `@use("page")`},
	{"page.tw": `@use("page")@insert("a", 1)`},
	{"page.tw": `@use("~main")`, "layouts/main.tw": `@use("~main")@reserve("a")`},
	{"page.tw": `@use("~a")@insert("a", 1)`, "layouts/a.tw": `@use("~b")@reserve("a")`, "layouts/b.tw": `@use("~a")@reserve("a")`},
	{"page.tw": `@use("~a")`, "layouts/a.tw": `<@reserve("a")>@component("~x")`, "components/x.tw": `@use("~a")X`},
	{"page.tw": `@use("~a")@insert("a")@component("~x")@end`, "layouts/a.tw": `<@reserve("a")>`, "components/x.tw": `X@component("~x")@each(v in [1])@component("~x")@end`},
	{"page.tw": `@component("~x", {a: 1})`, "components/x.tw": `@if(a)@component("~x", {a: 0})@end`},
	{"a.tw": `@component("b")`, "b.tw": `@component("c")`, "c.tw": `@component("a")`},
}

// loadOneFile writes src as the only file of a template directory and loads it
func loadOneFile(c *core.Ctx, src string, mustFail string) {
	dir := "c08dir"
	os.RemoveAll(dir)
	os.MkdirAll(dir, 0o755)
	defer os.RemoveAll(dir)
	// files an editor, a version control system or a file manager leaves in a template directory
	os.WriteFile(filepath.Join(dir, ".gitkeep"), nil, 0o644)
	os.WriteFile(filepath.Join(dir, ".DS_Store"), []byte("\x00\x00\x00\x01Bud1"), 0o644)
	os.MkdirAll(filepath.Join(dir, ".git"), 0o755)
	os.WriteFile(filepath.Join(dir, ".git", "HEAD"), []byte("ref: refs/heads/main\n"), 0o644)
	os.WriteFile(filepath.Join(dir, "page.tw~"), []byte("{{ backup of an editor"), 0o644)
	// siblings whose names hold the extension twice, or a percent sign: templates of their own, and no reason to miss a fault
	os.WriteFile(filepath.Join(dir, "page.tw.tw"), []byte("a valid sibling"), 0o644)
	os.WriteFile(filepath.Join(dir, "zz.tw.tw.tw"), []byte("another {{ 1 }}"), 0o644)
	if err := os.WriteFile(filepath.Join(dir, "page.tw"), []byte(src), 0o644); err != nil {
		c.Inconclusive("cannot write scratch file: " + err.Error())
		return
	}
	// (one path and one modification time for every content: what is known about a file from an earlier load says nothing
	// about this one)
	os.Chtimes(filepath.Join(dir, "page.tw"), fixedMtime, fixedMtime)
	c.Input(map[string]any{"file": "page.tw", "content": src})
	textwire.VerifResetConfig()
	c.Eval(1)
	var tpl *textwire.Template
	var err error
	if c.Guard(func() { tpl, err = textwire.NewTemplate(&config.Config{TemplateDir: dir, TemplateExt: ".tw"}) }) {
		return
	}
	c.Nontrivial("file:" + src)
	if (tpl == nil) == (err == nil) {
		c.Violation("load-contract", fmt.Sprintf("NewTemplate returned template=%v error=%v", tpl != nil, err), map[string]any{"content": src})
		return
	}
	if err == nil && mustFail != "" {
		c.Violation("accepted-file:"+mustFail, fmt.Sprintf("a template file that ends inside %s was loaded without an error", mustFail), map[string]any{"content": src})
	}
	if err != nil {
		c.Count("file_loads_rejected", 1)
		if !strings.Contains(err.Error(), "Textwire ERROR") {
			c.Violation("load-error-shape", "load error is not a Textwire error: "+err.Error(), map[string]any{"content": src})
		} else if line, _, ok := ErrLinePath(err); !ok || line < 1 {
			c.Violation("load-error-without-line", "the load error carries no line number: "+err.Error(), map[string]any{"content": src})
		}
		return
	}
	c.Count("file_loads_accepted", 1)
	// a loaded page renders to output or an error, never a crash
	if !strings.Contains(src, "@for") {
		c.Guard(func() { tpl.String("page", nil) })
	}
}
