package checks

import (
	"fmt"
	"math/rand"

	"verif/model"
)

// stmtGen is the seeded generator of statement trees shared by the checks
// on control flow, scoping, error lines and determinism. It mirrors the
// block structure statically (which names are visible, with which type) so
// that most generated programs render successfully; the model interpreter
// decides what each program must produce either way.

type stmtGenOpts struct {
	MaxDepth   int
	IfHeavy    bool
	LoopHeavy  bool
	ScopeHeavy bool
	Tracers    bool // wrap conditions, loop metadata and loop variables in tr(id)
	IllTyped   int  // one in IllTyped assignments/bindings changes a type (0 = never)
	Syntax     bool // also emit constructs that only matter to the lexer/parser (comments, @dump, object literals, layout and component directives)
}

type stmtGen struct {
	r         *rand.Rand
	o         stmtGenOpts
	data      map[string]model.Value
	scopes    []map[string]model.Kind
	nextID    int64
	nextVar   int
	loopDepth int
	eachDepth int
}

var textAtoms = []string{"[a]", " x ", "|", "<b>", "\n", "(1)", "é", ". ", "#", " - ", "}", "1 ", "\r\n", "{ "}

func newStmtGen(r *rand.Rand, o stmtGenOpts) *stmtGen {
	g := &stmtGen{r: r, o: o}
	g.data = map[string]model.Value{
		"di": model.Int(int64(r.Intn(7) - 2)),
		"df": model.Float([]float64{0, 0.5, 1.5, -2.25}[r.Intn(4)]),
		"ds": model.Str([]string{"", "s", "two words", "é"}[r.Intn(4)]),
		"db": model.Bool(r.Intn(2) == 0),
		"dn": model.Nil,
		"da": model.Arr(model.Int(3), model.Int(1), model.Int(2)),
		"de": model.Arr(),
		"do": model.Obj(map[string]model.Value{"n": model.Int(4), "s": model.Str("os"), "Up": model.Bool(true)}),
	}
	root := map[string]model.Kind{}
	for k, v := range g.data {
		root[k] = v.K
	}
	g.scopes = []map[string]model.Kind{root}
	return g
}

func (g *stmtGen) push() { g.scopes = append(g.scopes, map[string]model.Kind{}) }
func (g *stmtGen) pop()  { g.scopes = g.scopes[:len(g.scopes)-1] }

func (g *stmtGen) lookup(name string) (model.Kind, bool) {
	for i := len(g.scopes) - 1; i >= 0; i-- {
		if k, ok := g.scopes[i][name]; ok {
			return k, true
		}
	}
	return 0, false
}

func (g *stmtGen) visible(k model.Kind) []string {
	seen := map[string]bool{}
	var out []string
	for i := len(g.scopes) - 1; i >= 0; i-- {
		for n, kk := range g.scopes[i] {
			if seen[n] {
				continue
			}
			seen[n] = true
			if kk == k {
				out = append(out, n)
			}
		}
	}
	// map order must not leak into the case: sort
	for i := 1; i < len(out); i++ {
		for j := i; j > 0 && out[j] < out[j-1]; j-- {
			out[j], out[j-1] = out[j-1], out[j]
		}
	}
	return out
}

func (g *stmtGen) id() model.Expr {
	g.nextID++
	return model.Lit{V: model.Int(g.nextID)}
}

func (g *stmtGen) traced(e model.Expr, k model.Kind) model.Expr {
	if g.o.Tracers && traceable(k) && g.r.Intn(3) != 0 {
		return model.Call{X: e, Name: "tr", Args: []model.Expr{g.id()}}
	}
	return e
}

var scalarKinds = []model.Kind{model.KInt, model.KFloat, model.KStr, model.KBool}

func (g *stmtGen) anyKind() model.Kind { return scalarKinds[g.r.Intn(len(scalarKinds))] }

// expr generates an expression of kind k from visible names and literals
func (g *stmtGen) expr(k model.Kind, depth int) model.Expr {
	r := g.r
	if depth <= 0 || r.Intn(3) == 0 {
		if names := g.visible(k); len(names) > 0 && r.Intn(3) != 0 {
			return model.Var{Name: names[r.Intn(len(names))]}
		}
		switch k {
		case model.KInt:
			if g.eachDepth > 0 && r.Intn(4) == 0 {
				return model.Dot{X: model.Var{Name: "loop"}, Name: []string{"index", "iter"}[r.Intn(2)]}
			}
			return model.Lit{V: model.Int(int64(r.Intn(6)))}
		case model.KFloat:
			return model.Lit{V: model.Float([]float64{0, 0.5, 1.5, 2.25}[r.Intn(4)])}
		case model.KStr:
			return model.StrLit{S: []string{"", "a", "b c", "z", "it's", "say \"hi\"", "'"}[r.Intn(7)], Quote: "\"'"[r.Intn(2)]}
		case model.KBool:
			if g.eachDepth > 0 && r.Intn(3) == 0 {
				return model.Dot{X: model.Var{Name: "loop"}, Name: []string{"first", "last"}[r.Intn(2)]}
			}
			return model.Lit{V: model.Bool(r.Intn(2) == 0)}
		case model.KArr:
			n := r.Intn(4)
			ek := []model.Kind{model.KInt, model.KStr}[r.Intn(2)]
			var el []model.Expr
			for i := 0; i < n; i++ {
				el = append(el, g.expr(ek, 0))
			}
			return model.ArrLit{Elems: el}
		case model.KNil:
			return model.Lit{V: model.Nil}
		}
		return model.Lit{V: model.Int(1)}
	}
	switch k {
	case model.KInt:
		switch r.Intn(6) {
		case 0:
			return model.Postfix{Op: []string{"++", "--"}[r.Intn(2)], X: g.expr(model.KInt, depth-1)}
		case 1:
			return model.Call{X: g.expr(model.KStr, depth-1), Name: "len"}
		case 2:
			return model.Ternary{C: g.expr(g.anyKind(), depth-1), A: g.expr(model.KInt, depth-1), B: g.expr(model.KInt, depth-1)}
		}
		return model.Binary{Op: []string{"+", "-", "*"}[r.Intn(3)], L: g.expr(model.KInt, depth-1), R: g.expr(model.KInt, depth-1)}
	case model.KFloat:
		return model.Binary{Op: []string{"+", "-", "*"}[r.Intn(3)], L: g.expr(model.KFloat, depth-1), R: g.expr(model.KFloat, depth-1)}
	case model.KStr:
		if r.Intn(4) == 0 {
			return model.Call{X: g.expr(model.KInt, depth-1), Name: "str"}
		}
		return model.Binary{Op: "+", L: g.expr(model.KStr, depth-1), R: g.expr(model.KStr, depth-1)}
	case model.KBool:
		ok := []model.Kind{model.KInt, model.KFloat, model.KStr}[r.Intn(3)]
		ops := []string{"==", "!=", "<", ">", "<=", ">="}
		if ok == model.KStr {
			ops = ops[:2]
		}
		if r.Intn(5) == 0 {
			return model.Unary{Op: "!", X: g.expr(model.KBool, depth-1)}
		}
		return model.Binary{Op: ops[r.Intn(len(ops))], L: g.expr(ok, depth-1), R: g.expr(ok, depth-1)}
	}
	return g.expr(k, 0)
}

func (g *stmtGen) cond() model.Expr {
	k := g.anyKind()
	if g.r.Intn(8) == 0 {
		k = model.KNil
	}
	e := g.expr(k, 1)
	return g.traced(e, k)
}

func (g *stmtGen) text() model.Stmt {
	return model.Text{S: textAtoms[g.r.Intn(len(textAtoms))]}
}

// safeText never starts with a letter (used right after @else, @break, @continue)
func (g *stmtGen) safeText() model.Stmt {
	return model.Text{S: []string{"[a]", " x ", "|", "<b>", "\n", "(1)", ". "}[g.r.Intn(7)]}
}

func (g *stmtGen) program(n int) []model.Stmt { return g.block(n, g.o.MaxDepth) }

// block generates n statements starting with text; now and then a nested body is empty
func (g *stmtGen) block(n int, depth int) []model.Stmt {
	if depth < g.o.MaxDepth && g.r.Intn(14) == 0 {
		return []model.Stmt{} // an empty body is a body too
	}
	out := []model.Stmt{g.safeText()}
	for i := 0; i < n; i++ {
		out = append(out, g.stmt(depth)...)
	}
	return out
}

func (g *stmtGen) stmt(depth int) []model.Stmt {
	r := g.r
	w := r.Intn(100)
	ifW, loopW, scopeW := 14, 12, 18
	if g.o.IfHeavy {
		ifW = 34
	}
	if g.o.LoopHeavy {
		loopW = 30
	}
	if g.o.ScopeHeavy {
		scopeW = 40
	}
	if depth <= 0 {
		ifW, loopW = 0, 0
	}
	if g.o.Syntax && r.Intn(5) == 0 {
		return g.syntaxStmt(depth)
	}
	switch {
	case w < ifW:
		return []model.Stmt{g.ifStmt(depth)}
	case w < ifW+loopW:
		if r.Intn(2) == 0 {
			return []model.Stmt{g.eachStmt(depth)}
		}
		return []model.Stmt{g.forStmt(depth)}
	case w < ifW+loopW+scopeW:
		if r.Intn(2) == 0 {
			return []model.Stmt{g.assign()}
		}
		return []model.Stmt{model.Text{S: "<"}, model.Print{E: g.read()}, model.Text{S: ">"}}
	case w < ifW+loopW+scopeW+10 && g.loopDepth > 0:
		return g.control()
	case w < 85:
		k := g.anyKind()
		return []model.Stmt{model.Print{E: g.traced(g.expr(k, 2), k)}}
	}
	return []model.Stmt{g.text()}
}

// read prints a visible name
func (g *stmtGen) read() model.Expr {
	k := g.anyKind()
	names := g.visible(k)
	if len(names) == 0 {
		return g.expr(k, 0)
	}
	return model.Var{Name: names[g.r.Intn(len(names))]}
}

var assignNames = []string{"a", "b", "c", "d"}

func (g *stmtGen) assign() model.Stmt {
	name := assignNames[g.r.Intn(len(assignNames))]
	k, bound := g.lookup(name)
	if !bound {
		k = g.anyKind()
		if g.r.Intn(6) == 0 {
			k = model.KArr
		}
	} else if g.o.IllTyped > 0 && g.r.Intn(g.o.IllTyped) == 0 {
		k = scalarKinds[(int(k)+1+g.r.Intn(3))%len(scalarKinds)]
	}
	e := g.expr(k, 2)
	if _, visible := g.lookup(name); !visible || true {
		g.scopes[len(g.scopes)-1][name] = k
	}
	return model.Assign{Name: name, E: e}
}

func (g *stmtGen) control() []model.Stmt {
	var ctl model.Stmt
	switch g.r.Intn(4) {
	case 0:
		ctl = model.Break{}
	case 1:
		ctl = model.Continue{}
	case 2:
		ctl = model.BreakIf{E: g.cond()}
	default:
		ctl = model.ContinueIf{E: g.cond()}
	}
	// usually under an @if, sometimes bare
	if g.r.Intn(3) != 0 {
		g.push()
		body := []model.Stmt{g.safeText(), ctl, g.safeText()}
		g.pop()
		return []model.Stmt{model.If{Conds: []model.Expr{g.cond()}, Bodies: [][]model.Stmt{body}}}
	}
	return []model.Stmt{ctl, g.safeText()}
}

func (g *stmtGen) ifStmt(depth int) model.Stmt {
	n := model.If{}
	branches := 1 + g.r.Intn(3)
	for i := 0; i < branches; i++ {
		n.Conds = append(n.Conds, g.cond())
		g.push()
		n.Bodies = append(n.Bodies, g.block(1+g.r.Intn(2), depth-1))
		g.pop()
	}
	if g.r.Intn(2) == 0 {
		g.push()
		n.Else = g.block(1+g.r.Intn(2), depth-1)
		g.pop()
	}
	return n
}

func (g *stmtGen) freshVar(prefix string) string {
	g.nextVar++
	return fmt.Sprintf("%s%d", prefix, g.nextVar)
}

func (g *stmtGen) eachStmt(depth int) model.Stmt {
	r := g.r
	ek := []model.Kind{model.KInt, model.KStr, model.KFloat, model.KBool}[r.Intn(4)]
	var arr model.Expr
	switch r.Intn(5) {
	case 0:
		arr, ek = model.Var{Name: "da"}, model.KInt
	case 1:
		arr = model.Var{Name: "de"}
	default:
		n := r.Intn(5)
		var el []model.Expr
		for i := 0; i < n; i++ {
			el = append(el, g.expr(ek, 0))
		}
		arr = model.ArrLit{Elems: el}
	}
	name := g.freshVar("v")
	if names := g.visible(ek); len(names) > 0 && r.Intn(6) == 0 {
		name = names[r.Intn(len(names))] // rebinding a visible name of the same type
	}
	if g.o.IllTyped > 0 && r.Intn(g.o.IllTyped*2) == 0 {
		name = "loop"
	}
	n := model.Each{Var: name, Arr: arr}
	g.push()
	g.scopes[len(g.scopes)-1][name] = ek
	g.loopDepth++
	g.eachDepth++
	body := []model.Stmt{g.safeText()}
	if g.o.Tracers && traceable(ek) {
		body = append(body, model.Print{E: model.Call{X: model.Var{Name: name}, Name: "tr", Args: []model.Expr{g.id()}}})
	}
	if g.o.Tracers || r.Intn(2) == 0 {
		for _, f := range []string{"index", "iter", "first", "last"} {
			if r.Intn(2) == 0 {
				var e model.Expr = model.Dot{X: model.Var{Name: "loop"}, Name: f}
				if g.o.Tracers {
					e = model.Call{X: e, Name: "tr", Args: []model.Expr{g.id()}}
				}
				body = append(body, model.Print{E: e}, model.Text{S: ","})
			}
		}
	}
	body = append(body, g.block(1+r.Intn(3), depth-1)...)
	n.Body = body
	g.eachDepth--
	g.loopDepth--
	g.pop()
	if r.Intn(3) == 0 {
		g.push()
		n.Else = g.block(1+r.Intn(2), depth-1)
		g.pop()
	}
	return n
}

func (g *stmtGen) forStmt(depth int) model.Stmt {
	r := g.r
	name := g.freshVar("k")
	start := int64(r.Intn(5) - 1)
	span := int64(r.Intn(4)) // passes (roughly)
	up := r.Intn(2) == 0
	var cond model.Expr
	var post model.Stmt
	v := model.Var{Name: name}
	lit := func(i int64) model.Expr { return literalOf(model.Int(i)) }
	if up {
		bound := start + span
		switch r.Intn(3) {
		case 0:
			cond = model.Binary{Op: "<", L: v, R: lit(bound)}
		case 1:
			cond = model.Binary{Op: "<=", L: v, R: lit(bound - 1)}
		default:
			cond = model.Binary{Op: "!=", L: v, R: lit(bound)}
		}
		post = model.Print{E: model.Postfix{Op: "++", X: v}}
		if r.Intn(4) == 0 {
			post = model.Assign{Name: name, E: model.Binary{Op: "+", L: v, R: lit(1)}}
		}
	} else {
		bound := start - span
		switch r.Intn(3) {
		case 0:
			cond = model.Binary{Op: ">", L: v, R: lit(bound)}
		case 1:
			cond = model.Binary{Op: ">=", L: v, R: lit(bound + 1)}
		default:
			cond = model.Binary{Op: "!=", L: v, R: lit(bound)}
		}
		post = model.Print{E: model.Postfix{Op: "--", X: v}}
		if r.Intn(4) == 0 {
			post = model.Assign{Name: name, E: model.Binary{Op: "-", L: v, R: lit(1)}}
		}
	}
	if g.o.Tracers && r.Intn(2) == 0 {
		cond = model.Call{X: cond, Name: "tr", Args: []model.Expr{g.id()}}
	}
	n := model.For{Init: &model.Assign{Name: name, E: lit(start)}, Cond: cond, Post: post}
	g.push()
	g.scopes[len(g.scopes)-1][name] = model.KInt
	g.loopDepth++
	// the loop variable is never assigned in the body (k-names are not in assignNames)
	n.Body = append([]model.Stmt{g.safeText(), model.Print{E: v}}, g.block(1+r.Intn(3), depth-1)...)
	g.loopDepth--
	g.pop()
	if r.Intn(3) == 0 {
		g.push()
		g.scopes[len(g.scopes)-1][name] = model.KInt
		n.Else = g.block(1+r.Intn(2), depth-1)
		g.pop()
	}
	return n
}

// syntaxStmt emits constructs whose rendering no model is asked about
func (g *stmtGen) syntaxStmt(depth int) []model.Stmt {
	r := g.r
	name := []string{"main", "side", "a b", "x"}[r.Intn(4)]
	obj := func() model.ObjLit {
		ol := model.ObjLit{}
		for i, k := range []string{"a", "b", "c"}[:1+r.Intn(3)] {
			ol.Keys = append(ol.Keys, k)
			if i == 1 && r.Intn(3) == 0 {
				ol.Vals = append(ol.Vals, model.ObjLit{Keys: []string{"n"}, Vals: []model.Expr{g.expr(model.KInt, 1)}})
			} else {
				ol.Vals = append(ol.Vals, g.expr(g.anyKind(), 1))
			}
		}
		return ol
	}
	switch r.Intn(9) {
	case 0:
		return []model.Stmt{model.Comment{Body: []string{" note ", "", " {{ x }} @if(y) ", "\n multi\n line\n", " - -- } "}[r.Intn(5)]}}
	case 1:
		return []model.Stmt{model.Dump{Args: []model.Expr{g.expr(g.anyKind(), 1), obj()}[:1+r.Intn(2)]}}
	case 2:
		return []model.Stmt{model.Print{E: model.Dot{X: obj(), Name: "a"}}}
	case 3:
		return []model.Stmt{model.Reserve{Name: name}}
	case 4:
		return []model.Stmt{model.Use{Name: "~" + name}}
	case 5:
		// the block form is only written at the top level of a page
		if r.Intn(2) == 0 || depth < g.o.MaxDepth {
			return []model.Stmt{model.Insert{Name: name, E: g.expr(g.anyKind(), 1)}}
		}
		g.push()
		b := g.block(1+r.Intn(2), depth-1)
		g.pop()
		return []model.Stmt{model.Insert{Name: name, Block: b}}
	case 6:
		cmp := model.Component{Name: "~" + name, GapFirst: []string{"", " ", "\n  "}[r.Intn(3)], Gap: []string{"", " ", "\n  ", "\t", " {{-- c --}} "}[r.Intn(5)]}
		if r.Intn(2) == 0 {
			o := obj()
			cmp.Args = &o
		}
		for i := 0; i < r.Intn(3); i++ {
			g.push()
			cmp.Slots = append(cmp.Slots, model.SlotBody{Name: []string{"", "head", "foot"}[i], Body: g.block(1, depth-1)})
			g.pop()
		}
		return []model.Stmt{cmp, g.safeText()}
	case 7:
		return []model.Stmt{model.SlotRef{Name: []string{"", "head"}[r.Intn(2)]}, g.safeText()}
	}
	return []model.Stmt{model.Assign{Name: "o", E: obj()}}
}
