package checks

import (
	"math"
	"math/big"
	"math/rand"
	"strings"

	"verif/core"
)

// TextAtoms is the adversarial alphabet for text outside Textwire syntax
// (C05) and for lexer positions (C19): everything that steers the lexer's
// mode switches, plus prefixes of directive names, newlines and UTF-8.
var TextAtoms = []string{
	"@", "\\", "{", "}", "{{", "}}", "-", "--", "\n", "\r\n", "é", "中", "\"", "'", "(", ")", "x", " ",
	"@if", "@else", "@elseif", "@end", "@each", "@break", "@breakIf", "@slot", "@dump",
	"@e", "@els", "@en", "@i", "@breakI",
}

// MoreDirectiveAtoms are the remaining directive names and proper prefixes
var MoreDirectiveAtoms = []string{
	"@for", "@use", "@reserve", "@insert", "@continue", "@continueIf", "@component",
	"@f", "@fo", "@u", "@us", "@r", "@res", "@reserv", "@in", "@inser", "@c", "@cont", "@continu", "@continueI",
	"@comp", "@componen", "@s", "@slo", "@d", "@dum", "@b", "@brea", "@ea", "@eac", "@elsei", "@el",
	// directive names in another case are plain text
	"@elseIf", "@breakif", "@continueif", "@ElseIf", "@IF", "@End", "@breakIF", "@Each", "@elseIF",
	// a block name glued to @end is text after @end
	"@endif", "@endeach", "@endfor", "@endslot", "@endinsert", "@endcomponent", "@ends", "@endi",
}

// LexemeAtoms is the lexeme alphabet for lexing/parsing (C08) and positions (C19)
var LexemeAtoms = []string{
	"@if", "@if(", "@else", "@elseif", "@elseif(", "@end", "@for", "@for(", "@each", "@each(", "@use(", "@reserve(",
	"@insert(", "@break", "@breakIf(", "@continue", "@continueIf(", "@component(", "@slot", "@slot(", "@dump(",
	"{{", "}}", "{{--", "--}}", "{", "}", "(", ")", "[", "]", ",", ".", ";", ":", "?",
	"+", "-", "*", "/", "%", "++", "--", "!", "=", "==", "!=", "<", ">", "<=", ">=",
	"True", "FALSE", "Nil", "IN", "truE", "010", "08",
	"true", "false", "nil", "in", "x", "loop", "1", "2.5", "\"s\"", "'t'", "\"", "'", "a b", "\n", " ", "\\", "@", "#", "~",
}

// seqSections builds the sections "all sequences of exactly L atoms", for
// L = 0..maxLen. Each case of a section covers a block: a fixed prefix and
// all combinations of the last `tail` atoms.
func seqSections(prefix string, atoms []string, maxLen int, run func(c *core.Ctx, s string)) []core.Section {
	var secs []core.Section
	A := len(atoms)
	for L := 0; L <= maxLen; L++ {
		L := L
		tail := 2
		if L < tail {
			tail = L
		}
		n := 1
		for k := 0; k < L-tail; k++ {
			n *= A
		}
		block := 1
		for k := 0; k < tail; k++ {
			block *= A
		}
		secs = append(secs, core.Section{
			Name: prefix + "len" + string(rune('0'+L)), N: n, Exhaustive: true,
			Run: func(c *core.Ctx, i int) {
				var sb strings.Builder
				x := i
				idx := make([]int, L-tail)
				for k := L - tail - 1; k >= 0; k-- {
					idx[k] = x % A
					x /= A
				}
				for _, d := range idx {
					sb.WriteString(atoms[d])
				}
				head := sb.String()
				for b := 0; b < block; b++ {
					s := head
					y := b
					var parts [2]int
					for k := tail - 1; k >= 0; k-- {
						parts[k] = y % A
						y /= A
					}
					for k := 0; k < tail; k++ {
						s += atoms[parts[k]]
					}
					run(c, s)
				}
			},
		})
	}
	return secs
}

// randomAtomString draws a string of up to maxBytes bytes from the atoms
func randomAtomString(r *rand.Rand, atoms []string, maxBytes int) string {
	var sb strings.Builder
	target := 1 + r.Intn(maxBytes)
	for sb.Len() < target {
		sb.WriteString(atoms[r.Intn(len(atoms))])
	}
	return sb.String()
}

func allAtoms() []string {
	var all []string
	all = append(all, TextAtoms...)
	all = append(all, MoreDirectiveAtoms...)
	all = append(all, LexemeAtoms...)
	return all
}

// longTokenInputs: names, numbers, strings, comments, white space inside code and argument lists of about n bytes
func longTokenInputs(n int) []string {
	return []string{
		"a {{ " + strings.Repeat("x", n) + " }} b",
		"{{ " + strings.Repeat("7", n) + " }}",
		"{{ 1." + strings.Repeat("5", n) + " + 2 }}",
		"{{ \"" + strings.Repeat("sé", n/3) + "\" }}\n{{ y }}",
		"{{ '" + strings.Repeat("s\n", n/2) + "' }}{{ y }}",
		"a{{--" + strings.Repeat(" c\n", n/3) + "--}}b {{ z }}",
		"{{ 1 +" + strings.Repeat(" ", n) + "2 }} {{ w }}",
		"{{ 1 +" + strings.Repeat("\n", n) + "2 }}\n{{ w }}",
		"@if(" + strings.Repeat("(", n%1000) + "1" + strings.Repeat(")", n%1000) + ")x@end",
		"{{ [" + strings.Repeat("1, ", n/3) + "1] }}",
		strings.Repeat("@", n) + "{{ v }}",
		strings.Repeat("\\", n) + "{{ v }}",
		"{{ x" + strings.Repeat(".y", n/2) + " }}",
		// round 17: an escape whose backslash is the n-th byte (or a neighbour) of a run of plain text
		strings.Repeat("t", n-2) + "\\@if(x) tail {{ v }}",
		strings.Repeat("t", n-1) + "\\@if(x) tail {{ v }}",
		strings.Repeat("t", n) + "\\@end tail",
		strings.Repeat("t", n-1) + "\\{{ x }} tail",
		"{{ v }}" + strings.Repeat("é", (n-1)/2) + "\\@each(x in y) tail\n{{ w }}",
		"{{ v }}\n" + strings.Repeat("t", n-1) + "\\@if(x)" + strings.Repeat("u", n-1) + "\\{{ x }} tail",
	}
}

// wrappingCounts gives, for a byte length L, counts whose product with L passes a multiple of 2^64 by little
// (a size computed as L*count wraps to a small number), and counts around 2^61..2^63 divided by L
func wrappingCounts(L int) []int64 {
	var out []int64
	two64 := new(big.Int).Lsh(big.NewInt(1), 64)
	maxI := big.NewInt(math.MaxInt64)
	for m := int64(1); m <= 3; m++ {
		q := new(big.Int).Mul(two64, big.NewInt(m))
		q.Add(q, big.NewInt(int64(L-1)))
		q.Div(q, big.NewInt(int64(L))) // ceil(m*2^64 / L)
		for d := int64(0); d <= 2; d++ {
			v := new(big.Int).Add(q, big.NewInt(d))
			if v.Cmp(maxI) <= 0 {
				out = append(out, v.Int64())
			}
		}
	}
	for k := uint(60); k <= 63; k++ {
		q := new(big.Int).Lsh(big.NewInt(1), k)
		q.Div(q, big.NewInt(int64(L)))
		for d := int64(-1); d <= 1; d++ {
			v := new(big.Int).Add(q, big.NewInt(d))
			if v.Sign() > 0 && v.Cmp(maxI) <= 0 {
				out = append(out, v.Int64())
			}
		}
	}
	return out
}

// stringsOfByteLength: one valid UTF-8 string per byte length 1..16
var stringsOfByteLength = []string{"a", "é", "中", "😀", "ab中", "中中", "😀中", "😀😀", "中中中", "😀😀é", "😀😀中", "😀😀😀", "😀😀😀a", "😀😀😀é", "😀😀😀中", "😀😀😀😀"}
