package checks

import (
	"fmt"
	"path/filepath"
	"sort"
	"strings"

	"verif/core"
	"verif/model"
)

// C07 — each @component use renders the component file with its own
// arguments and slots.

type compDef struct {
	name  string   // registered name, e.g. components/card
	args  []string // argument names used by the file
	slots []string // declared slots ("" = default)
	// the file sets sv = 0 before its placeholders and prints it after each
	slotVar bool
}

type compCase struct {
	tree  *tmplTree
	comps []compDef
	pages []string
	data  map[string]model.Value
	site  int
}

func (cc *compCase) nextSite() int { cc.site++; return cc.site }

// genComponentFile: text, arguments in text and in conditions, slot
// placeholders at the top level of the file
func genComponentFile(c *core.Ctx, idx int) (compDef, []model.Stmt) {
	r := c.Rng
	def := compDef{name: []string{"components/card", "components/box.v2", "ui/panel", "components/list.min", "components/odd.tw", "ui/card~v2", "components/item~", ".partials/item", "components/.hidden", "ui/..card", "components/sale-50%off", "ui/%d%s"}[idx%12]}
	nArgs := r.Intn(3)
	for a := 0; a < nArgs; a++ {
		def.args = append(def.args, fmt.Sprintf("p%d", a))
	}
	switch r.Intn(7) {
	case 0:
	case 1:
		def.slots = []string{""}
	case 2:
		def.slots = []string{"head"}
	case 3:
		def.slots = []string{"head", ""}
	case 4: // names with blanks at their ends and inside, and a name that is one blank
		def.slots = []string{" note ", "a b", ""}
	case 5:
		def.slots = []string{" ", "head ", " head"}
	default:
		def.slots = []string{"head", "foot", ""}
	}
	tag := strings.ToUpper(def.name[strings.LastIndex(def.name, "/")+1:])
	stmts := []model.Stmt{model.Text{S: "<" + tag + " "}}
	if r.Intn(5) == 0 {
		stmts = []model.Stmt{model.Text{S: "<" + tag + " style=\"width: 100%; %d%s\" "}}
	}
	if r.Intn(6) == 0 {
		// the file begins with bytes editors like to add or drop: they are text of the component like any other
		stmts = []model.Stmt{model.Text{S: []string{"\ufeff", "\ufeff\ufeff", "\n", "\r\n", " ", "\t"}[r.Intn(6)] + "<" + tag + " "}}
	}
	for _, a := range def.args {
		stmts = append(stmts, model.Text{S: a + "="}, model.Print{E: model.Var{Name: a}}, model.Text{S: ";"})
		if r.Intn(2) == 0 {
			stmts = append(stmts, model.If{Conds: []model.Expr{model.Var{Name: a}}, Bodies: [][]model.Stmt{{model.Text{S: "(" + a + " set)"}}}, Else: []model.Stmt{model.Text{S: " (" + a + " empty)"}}})
		}
	}
	// the surrounding variables stay visible inside the component
	if r.Intn(2) == 0 {
		stmts = append(stmts, model.Text{S: " outer="}, model.Print{E: model.Var{Name: "ds"}})
	}
	// a component is a block of its own: what it assigns stays inside it
	if r.Intn(3) == 0 {
		stmts = append(stmts, model.Assign{Name: "ds", E: model.StrLit{S: "set-inside-" + tag}}, model.Assign{Name: "clocal", E: model.Lit{V: model.Int(1)}}, model.Text{S: " now="}, model.Print{E: model.Var{Name: "ds"}})
	}
	// a slot body stands in the place of its placeholder: what it assigns is seen by the rest of the
	// component file and by the slot bodies placed after it
	if len(def.slots) > 0 && r.Intn(2) == 0 {
		def.slotVar = true
		stmts = append(stmts, model.Assign{Name: "sv", E: model.Lit{V: model.Int(0)}})
	}
	for _, s := range def.slots {
		after := "]"
		if s == "" && r.Intn(3) == 0 {
			after = " (optional)]" // text after a default placeholder, not a slot name
		}
		stmts = append(stmts, model.Text{S: " [" + s + ":"}, model.SlotRef{Name: s}, model.Text{S: after})
		if def.slotVar {
			stmts = append(stmts, model.Text{S: "sv="}, model.Print{E: model.Var{Name: "sv"}})
		}
	}
	stmts = append(stmts, model.Text{S: ">"})
	return def, stmts
}

// genUse writes one use site with unique argument values and slot bodies
func (cc *compCase) genUse(c *core.Ctx, def compDef, scopeVar string, forceNoSlots bool) model.Stmt {
	r := c.Rng
	site := cc.nextSite()
	name := def.name
	if strings.HasPrefix(name, "components/") && r.Intn(2) == 0 {
		name = "~" + strings.TrimPrefix(name, "components/")
	}
	use := model.Component{Name: name, GapFirst: []string{"", "", " ", "\n  ", "\r\n\t"}[r.Intn(5)],
		Gap: []string{"", "", " ", "\n  ", "\r\n\t", " {{-- between slots --}} ", "\n{{-- a --}}\n{{-- b --}}\n"}[r.Intn(7)]}
	if len(def.args) > 0 {
		ol := model.ObjLit{}
		for ai, a := range def.args {
			var v model.Expr
			switch r.Intn(5) {
			case 0: // a surrounding variable whose name is also an argument key of this call
				v = model.Var{Name: def.args[(ai+1)%len(def.args)]}
			case 1:
				if scopeVar != "" {
					v = model.Binary{Op: "+", L: model.StrLit{S: fmt.Sprintf("s%d-", site)}, R: model.Call{X: model.Var{Name: scopeVar}, Name: "str"}}
				} else {
					v = model.Var{Name: "ds"}
				}
			case 2:
				v = model.StrLit{S: ""}
				if r.Intn(2) == 0 {
					// a nested object literal: its closing brace stands right before the one of the argument object
					v = model.ObjLit{Keys: []string{"k", "n"}, Vals: []model.Expr{model.StrLit{S: fmt.Sprintf("s%d.%s.k", site, a)}, model.ObjLit{Keys: []string{"deep"}, Vals: []model.Expr{model.Lit{V: model.Int(int64(site))}}}}}
					ol.Keys = append(ol.Keys, a)
					ol.Vals = append(ol.Vals, v)
					continue
				}
			default:
				v = model.StrLit{S: fmt.Sprintf("s%d.%s", site, a)}
			}
			ol.Keys = append(ol.Keys, a)
			ol.Vals = append(ol.Vals, trID(v, site*10+ai))
		}
		if r.Intn(25) == 0 {
			ol.Keys = append(ol.Keys, "loop")
			ol.Vals = append(ol.Vals, model.StrLit{S: "mine"})
		}
		// keys in any source order
		if len(ol.Keys) == 2 && r.Intn(2) == 0 {
			ol.Keys[0], ol.Keys[1] = ol.Keys[1], ol.Keys[0]
			ol.Vals[0], ol.Vals[1] = ol.Vals[1], ol.Vals[0]
		}
		use.Args = &ol
	}
	if !forceNoSlots {
		for _, s := range def.slots {
			if r.Intn(3) == 0 {
				continue // this slot is not passed
			}
			if r.Intn(6) == 0 {
				// an empty body is a body too: the placeholder renders nothing
				use.Slots = append(use.Slots, model.SlotBody{Name: s, Body: []model.Stmt{}})
				continue
			}
			body := []model.Stmt{model.Text{S: fmt.Sprintf("body%d.%s", site, s)}}
			if r.Intn(4) == 0 {
				// a body that begins with a blank and a parenthesis is still the body of this slot
				body = []model.Stmt{model.Text{S: fmt.Sprintf(" (see body%d.%s)", site, s)}}
			}
			if scopeVar != "" && r.Intn(2) == 0 {
				body = append(body, model.Text{S: "~"}, model.Print{E: model.Var{Name: scopeVar}})
			}
			if r.Intn(3) == 0 {
				body = append(body, model.If{Conds: []model.Expr{model.Var{Name: "db"}}, Bodies: [][]model.Stmt{{model.Text{S: "(db)"}}}})
			}
			if len(cc.comps) > 0 && r.Intn(4) == 0 {
				// a use inside a slot body (a block of the page like any other), without slots of its own
				body = append(body, model.Text{S: "{"}, cc.genUse(c, cc.comps[r.Intn(len(cc.comps))], scopeVar, true), model.Text{S: "}"})
			}
			if def.slotVar && r.Intn(2) == 0 {
				body = append(body, model.Text{S: "was"}, model.Print{E: model.Var{Name: "sv"}}, model.Assign{Name: "sv", E: model.Binary{Op: "+", L: model.Var{Name: "sv"}, R: model.Lit{V: model.Int(int64(site))}}})
			}
			use.Slots = append(use.Slots, model.SlotBody{Name: s, Body: body})
		}
	}
	return use
}

func genComponentTree(c *core.Ctx, i int) *compCase {
	r := c.Rng
	cfg := treeConfigs[i%len(treeConfigs)]
	cc := &compCase{tree: newTree(cfg.dir, cfg.ext)}
	cc.data = map[string]model.Value{
		"ds": model.Str([]string{"outer", "", "o<u>t"}[r.Intn(3)]), "db": model.Bool(r.Intn(2) == 0), "di": model.Int(int64(r.Intn(5))),
		"da": model.Arr(model.Int(4), model.Int(5), model.Int(6)),
		// surrounding variables that share their names with argument keys
		"p0": model.Str("outer-p0"), "p1": model.Str("outer-p1"),
	}
	nComps := 1 + r.Intn(2)
	for k := 0; k < nComps; k++ {
		def, stmts := genComponentFile(c, k+i)
		cc.comps = append(cc.comps, def)
		cc.tree.files[def.name] = stmts
	}
	nPages := 1 + r.Intn(2)
	for p := 0; p < nPages; p++ {
		name := []string{"index", "pages/list"}[p]
		var stmts []model.Stmt
		stmts = append(stmts, model.Text{S: "page " + name + ": "})
		nUses := 1 + r.Intn(4)
		if r.Intn(4) == 0 {
			nUses = 5 + r.Intn(8)
		}
		for u := 0; u < nUses; u++ {
			def := cc.comps[r.Intn(len(cc.comps))]
			if u > 0 && r.Intn(2) == 0 {
				def = cc.comps[0] // the same component several times
			}
			switch r.Intn(6) {
			case 0: // inside @if
				stmts = append(stmts, model.If{Conds: []model.Expr{model.Lit{V: model.Bool(true)}}, Bodies: [][]model.Stmt{{model.Text{S: "(if "}, cc.genUse(c, def, "", false), model.Text{S: ")"}}}})
			case 1: // inside @each, arguments per pass
				stmts = append(stmts, model.Each{Var: "item", Arr: model.Var{Name: "da"}, Body: []model.Stmt{model.Text{S: "(each "}, cc.genUse(c, def, "item", false), model.Text{S: ")"}}})
			case 3: // inside the @else of a @for that makes no pass: the init variable is visible there
				stmts = append(stmts, model.For{Init: &model.Assign{Name: "fi", E: model.Lit{V: model.Int(int64(7 + u))}}, Cond: model.Binary{Op: "<", L: model.Var{Name: "fi"}, R: model.Lit{V: model.Int(3)}},
					Post: model.Print{E: model.Postfix{Op: "++", X: model.Var{Name: "fi"}}}, Body: []model.Stmt{model.Text{S: "never"}},
					Else: []model.Stmt{model.Text{S: "(for-else "}, cc.genUse(c, def, "fi", false), model.Text{S: ")"}}})
			case 2: // a use without slots (also after a use with slots), followed by any text incl. whitespace only
				stmts = append(stmts, cc.genUse(c, def, "", true), model.Text{S: []string{"|", "\n", "  ", "\n\t", " x"}[r.Intn(5)]})
			default:
				stmts = append(stmts, cc.genUse(c, def, "", false), model.Text{S: []string{"|", "\n", " ", "|"}[r.Intn(4)]})
			}
		}
		stmts = append(stmts, model.Text{S: " after:"}, model.Print{E: model.Var{Name: "ds"}}, model.Text{S: "/"}, model.Print{E: model.Var{Name: "p0"}}, model.Text{S: "/"}, model.Print{E: model.Var{Name: "p1"}})
		if r.Intn(6) == 0 {
			stmts = append(stmts, model.Print{E: model.Var{Name: "clocal"}}) // never visible out here
		}
		cc.tree.files[name] = stmts
		cc.pages = append(cc.pages, name)
	}
	// sometimes a page with a layout whose insert block holds a component
	if r.Intn(3) == 0 {
		cc.tree.files["layouts/shell"] = []model.Stmt{model.Text{S: "<shell>"}, model.Reserve{Name: "body"}, model.Text{S: "</shell>"}}
		def := cc.comps[0]
		cc.tree.files["withlayout"] = []model.Stmt{model.Use{Name: "~shell"}, model.Insert{Name: "body", Block: []model.Stmt{model.Text{S: "in-insert "}, cc.genUse(c, def, "", false), model.Text{S: "|"}, cc.genUse(c, def, "", false), model.Text{S: " done"}}}}
		cc.pages = append(cc.pages, "withlayout")
	}
	// the reserve sits in a loop of the layout: the insert block, and the component in it, is evaluated per pass
	if r.Intn(3) == 0 {
		cc.tree.files["layouts/loopshell"] = []model.Stmt{model.Text{S: "<loop>"}, model.Each{Var: "cell", Arr: model.Var{Name: "da"}, Body: []model.Stmt{model.Text{S: "("}, model.Print{E: model.Dot{X: model.Var{Name: "loop"}, Name: "index"}}, model.Text{S: ":"}, model.Reserve{Name: "body"}, model.Text{S: ")"}}}, model.Text{S: "</loop>"}}
		def := cc.comps[r.Intn(len(cc.comps))]
		cc.tree.files["withloop"] = []model.Stmt{model.Use{Name: "~loopshell"}, model.Insert{Name: "body", Block: []model.Stmt{model.Text{S: "cell "}, model.Print{E: model.Var{Name: "cell"}}, model.Text{S: " "}, cc.genUse(c, def, "cell", false)}}}
		cc.pages = append(cc.pages, "withloop")
	}
	return cc
}

// treeDir is the directory the files of a tree are written to (its configured spelling cleaned)
func treeDir(t *tmplTree) string {
	return filepath.Clean(t.dir)
}

func init() {
	core.Register(&core.Check{
		ID:    "C07",
		Level: "exploration",
		Rule: "cases are template directories written to disk: 1..2 component files (0..2 arguments used in text and in conditions, 0..3 slot placeholders incl. the default slot, a surrounding variable printed inside) and 1..3 pages with 1..4 uses each - the same component several times with different arguments and slot bodies, uses without slots after uses with slots, uses inside @if, inside @each with per-pass arguments, inside an insert block of a layout page, '~name' and full spelling, argument values that name surrounding variables which are also keys of the same call; every use site has unique argument values and slot sentinels and every argument is wrapped in a tracer probe. " +
			"Oracles: output vs the model, tracer log (each argument evaluated once per evaluation of its use site, with the values of the place of use); the verif hook VerifShared() (AST nodes reachable from two use sites) is recorded as evidence. Fault trees: undeclared slot, slot passed twice (named and default), missing component file - reported by NewTemplate, naming the component. slot bodies may assign what the component prints after the placeholder; text and comments between slots; dotted component names, nested object arguments, reserve inside a layout loop; round 8: uses inside slot bodies, up to 12 uses per page, component files beginning with BOM/CRLF; round 9: files to 5 MiB; scale: 65 slots, 17 arguments; concurrent replay of page renders; rounds 10-11: data-less sequences, arguments from one array, operators/loops/quotes around uses, fault positions; rounds 12-13: slot names with blanks, leading-zero numbers as arguments; round 14: shuffled argument next to the array itself; round 15: object literals of many pairs as arguments; round 17: prefix operators on page values in component files and arguments; distinct_nontrivial = distinct trees (by sources)",
		Assumptions: []string{
			"slot placeholders sit at the top level of a component file (nested placeholders are outside what the statement describes); slot bodies may be empty",
			"argument names that collide in type with a visible variable are an error (C04) and are generated with matching types here",
		},
		Setup: func(c *core.Ctx) {
			if err := registerTracers(); err != nil {
				panic(err)
			}
		},
		Sections: func(tier core.Tier, seed int64) []core.Section {
			n, nf := 3000, 900
			if tier == core.Thorough {
				n, nf = 400000, 100000
			}
			return []core.Section{
				{Name: "component-trees", N: n, Run: func(c *core.Ctx, i int) {
					cc := genComponentTree(c, i)
					files := cc.tree.sources(exprLayouts[[]int{0, 1, 3, 1}[i%4]].st(c.Rng))
					tpl, err := loadTreeAs(c, treeDir(cc.tree), cc.tree.dir, files, cc.tree.ext)
					c.Nontrivial(fmt.Sprint(files))
					if i < 2 {
						c.Sample(map[string]any{"files": describeFiles(files)})
					}
					if err != nil {
						c.Violation("load-failed", "a valid component tree was rejected: "+err.Error(), map[string]any{"files": describeFiles(files)})
						return
					}
					if tpl == nil {
						return
					}
					// structure shared between use sites is how a use can come to show another use's slots; it is
					// recorded as evidence (the verdict comes from what the uses render: sharing is only a fault
					// when it shows, and an implementation may share immutable structure legitimately)
					c.Count("ast_nodes_shared_between_use_sites", tpl.VerifShared())
					c.Count("sharing_hook_checks", 1)
					for _, page := range cc.pages {
						for _, data := range []map[string]model.Value{cc.data, flipData(cc.data)} {
							exp := cc.tree.expectPage(page, data)
							c.Input(map[string]any{"files": describeFiles(files), "page": page, "data": model.DescribeData(data)})
							traceReset()
							got, _ := renderPage(c, tpl, page, model.NativeData(data))
							// the statement fixes no order among the arguments of one use: compare the logs as multisets
							ev := sortEvents(traceTake())
							exp.Events = sortEvents(exp.Events)
							if why := compare(exp, got, true, ev); why != "" {
								c.Violation("component-render:"+scopeFailureClass(exp, got), why, map[string]any{"files": describeFiles(files), "page": page, "data": model.DescribeData(data), "expected": expectText(exp)})
							}
							// Response writes the same page
							if !got.Failed() {
								rec := newRecorder()
								var rerr error
								c.Eval(1)
								if !c.Guard(func() { rerr = tpl.Response(rec, page, model.NativeData(data)) }) && (rerr != nil || rec.body.String() != got.Out) {
									c.Violation("component-render:response-differs", fmt.Sprintf("Response wrote %q (error %v), String gives %q", clipS(rec.body.String(), 300), rerr, clipS(got.Out, 300)), map[string]any{"files": describeFiles(files), "page": page})
								}
								traceReset()
							}
							c.Count("page_renders_compared", 1)
							c.Count("tracer_events_expected", len(exp.Events))
						}
					}
				}},
				// k plain uses, then a use whose slot bodies hold uses of their own, then more uses: every one shows
				{Name: "uses-inside-slot-bodies", Exhaustive: true, N: 20 * 3, Run: func(c *core.Ctx, i int) {
					before, shape := i%20, i/20
					var page, want strings.Builder
					for k := 0; k < before; k++ {
						fmt.Fprintf(&page, "@component(\"~item\", {n: %d})", k)
						fmt.Fprintf(&want, "<i %d>", k)
					}
					switch shape {
					case 0:
						page.WriteString(`@component("~box")@slot@component("~item", {n: 100})@end@end`)
						want.WriteString("[box <i 100> | ]")
					case 1:
						page.WriteString(`@component("~box")@slot a @component("~item", {n: 100}) b @component("~item", {n: 101})@end@slot("foot")@component("~item", {n: 200})@end@end`)
						want.WriteString("[box  a <i 100> b <i 101> | <i 200>]")
					default:
						page.WriteString(`@component("~box")@slot@component("~box")@slot("foot")@component("~item", {n: 300})@end@end@end@end`)
						want.WriteString("[box [box  | <i 300>] | ]")
					}
					page.WriteString(`@component("~item", {n: 900})`)
					want.WriteString("<i 900>")
					files := map[string]string{"components/item.tw": "<i {{ n }}>", "components/box.tw": `[box @slot | @slot("foot")]`, "page.tw": page.String()}
					tpl, err := loadTree(c, "c07nest", files, ".tw")
					c.Nontrivial(page.String())
					if err != nil {
						c.Violation("load-failed", "a valid component tree was rejected: "+err.Error(), map[string]any{"files": describeFiles(files)})
						return
					}
					if tpl == nil {
						return
					}
					got, _ := renderPage(c, tpl, "page", nil)
					if !got.Panicked && (got.Err != nil || got.Out != want.String()) {
						c.Violation("use-inside-slot-body", fmt.Sprintf("the page rendered %s, want %q", got.Describe(), want.String()), map[string]any{"files": describeFiles(files)})
					}
				}},
				// components with 4..65 slots (named ones and the default one), the caller passing all, every other one or
				// none, in declaration order or reversed; with 1..17 arguments
				{Name: "many-slots-and-arguments", Exhaustive: true, N: 9 * 4, Run: func(c *core.Ctx, i int) {
					n := []int{4, 8, 9, 16, 17, 32, 33, 64, 65}[i%9]
					variant := i / 9
					var comp, page, want strings.Builder
					nArgs := 1 + n%17
					comp.WriteString("<c")
					want.WriteString("[<c")
					page.WriteString("[@component(\"~many\", {")
					for a := 0; a < nArgs; a++ {
						fmt.Fprintf(&comp, " {{ a%d }}", a)
						fmt.Fprintf(&want, " v%d", a*a)
						if a > 0 {
							page.WriteString(", ")
						}
						fmt.Fprintf(&page, "a%d: \"v\" + %d.str()", a, a*a)
					}
					comp.WriteString(">")
					want.WriteString(">")
					page.WriteString("})")
					order := make([]int, n)
					for k := range order {
						order[k] = k
						if variant%2 == 1 {
							order[k] = n - 1 - k
						}
					}
					passed := map[int]string{}
					for _, k := range order {
						if variant == 2 && k%2 == 0 || variant == 3 {
							continue
						}
						if k == n/2 {
							fmt.Fprintf(&page, "@slot default body %d@end", k)
							passed[k] = fmt.Sprintf(" default body %d", k)
						} else {
							fmt.Fprintf(&page, "@slot(\"s%d\")body %d {{ a0 }}@end", k, k)
							passed[k] = fmt.Sprintf("body %d v0", k)
						}
					}
					for k := 0; k < n; k++ {
						if k == n/2 {
							comp.WriteString("(@slot)")
						} else {
							fmt.Fprintf(&comp, "(@slot(\"s%d\"))", k)
						}
						fmt.Fprintf(&want, "(%s)", passed[k])
					}
					comp.WriteString("</c>")
					want.WriteString("</c>]")
					if variant != 3 {
						page.WriteString("@end")
					}
					page.WriteString("]")
					files := map[string]string{"components/many.tw": comp.String(), "page.tw": page.String()}
					tpl, err := loadTree(c, "c07many", files, ".tw")
					c.Nontrivial(page.String())
					if err != nil {
						c.Violation("load-failed", "a valid component tree was rejected: "+err.Error(), map[string]any{"files": describeFiles(files)})
						return
					}
					if tpl == nil {
						return
					}
					got, _ := renderPage(c, tpl, "page", nil)
					if !got.Panicked && (got.Err != nil || got.Out != want.String()) {
						c.Violation("many-slots", fmt.Sprintf("the page rendered %s, want %q", clipS(got.Describe(), 600), clipS(want.String(), 600)), map[string]any{"files": describeFiles(files)})
					}
				}},
				// component and page files of 64 KiB .. 5 MiB: the placeholder at the very end of the component file, the use at
				// the very end of the page
				{Name: "large-files", Exhaustive: true, N: 6, Run: func(c *core.Ctx, i int) {
					size := []int{64 << 10, 1<<20 - 100, 1 << 20, 1<<20 + 4096, 2<<20 + 1, 5 << 20}[i]
					line := "<li>a row of the sheet, é</li>\n"
					filler := strings.Repeat(line, size/len(line)+1)
					comp := "<sheet {{ t }}>" + filler + "[@slot][@slot(\"foot\")]</sheet {{ t }}>"
					page := filler + "@component(\"~sheet\", {t: \"T\" + n.str()})@slot body {{ n }}@end@slot(\"foot\")foot@end@end" + "<end>"
					want := filler + "<sheet T7>" + filler + "[ body 7][foot]</sheet T7><end>"
					files := map[string]string{"components/sheet.tw": comp, "page.tw": page}
					tpl, err := loadTree(c, "c07big", files, ".tw")
					c.Input(map[string]any{"file_bytes_about": size})
					c.Nontrivial(fmt.Sprint("large-files", size))
					if err != nil {
						c.Violation("load-failed", fmt.Sprintf("a valid component tree with files of %d bytes was rejected: %s", size, clipS(err.Error(), 300)), map[string]any{"file_bytes_about": size})
						return
					}
					if tpl == nil {
						return
					}
					got, _ := renderPage(c, tpl, "page", map[string]any{"n": 7})
					if !got.Panicked && (got.Err != nil || got.Out != want) {
						c.Violation("large-files", fmt.Sprintf("files of about %d bytes: the page rendered %d bytes (error %v), want %d bytes ending in %q", size, len(got.Out), got.Err, len(want), want[len(want)-40:]), map[string]any{"file_bytes_about": size})
					}
				}},
				// pages of one loaded Template rendered one after the other without data: a use sees the arguments and the
				// surrounding variables of its own render only
				{Name: "data-less-renders-of-one-template", Exhaustive: true, N: 2, Run: func(c *core.Ctx, i int) {
					if i == 0 {
						judgeDataLessSequence(c, "c07nil", map[string]string{"components/c.tw": "<{{ title }}>", "components/counter.tw": "[{{ title + 1 }}]", "a.tw": "{{ title = \"About us\" }}@component(\"~c\")",
							"b.tw": "@component(\"~counter\", {title: 3})", "c.tw": "@component(\"~c\")", "d.tw": "@component(\"~c\", {title: \"own\"})@component(\"~c\")"},
							[]dataLessStep{{"a", "<About us>", false}, {"b", "[4]", false}, {"c", "", true}, {"d", "", true}, {"a", "<About us>", false}, {"b", "[4]", false}}, "data-less")
						return
					}
					judgeDataLessSequence(c, "c07nil", map[string]string{"components/box.tw": "{{ inside = 1 }}<@slot|{{ t }}>", "a.tw": "{{ t = \"page-t\" }}@component(\"~box\", {t: t + \"!\"})@slot{{ s = 5 }}{{ s }}@end@end{{ t }}",
						"b.tw": "@component(\"~box\", {t: 2.5})@slot{{ s = \"str\" }}{{ s }}@end@end", "c.tw": "@component(\"~box\", {t: 1})@slot{{ s }}@end@end", "d.tw": "@component(\"~box\", {t: 1}){{ inside }}"},
						[]dataLessStep{{"a", "<5|page-t!>page-t", false}, {"b", "<str|2.5>", false}, {"c", "", true}, {"d", "", true}, {"a", "<5|page-t!>page-t", false}}, "data-less")
				}},
				// arguments built by built-ins from one array of the page (lengths 1..9, from the data and as a literal): every
				// argument, every use and the array itself show their own elements
				{Name: "arguments-built-from-one-array", Exhaustive: true, N: 9 * 2, Run: func(c *core.Ctx, i int) {
					n := 1 + i%9
					fromData := i/9 == 1
					var elems, lits []string
					for k := 0; k < n; k++ {
						elems = append(elems, string(rune('a'+k)))
						lits = append(lits, fmt.Sprintf("%q", string(rune('a'+k))))
					}
					base := strings.Join(elems, "")
					pre := "{{ base = [" + strings.Join(lits, ", ") + "] }}"
					var data map[string]any
					if fromData {
						pre = ""
						data = map[string]any{"base": elems}
					}
					page := pre + `@component("~pair", {left: base.append("L"), right: base.append("R")})` +
						`@component("~pair", {right: base.prepend("P"), left: base.slice(0, 1).append("x")})` +
						`@each(k in [1, 2])@component("~pair", {left: base.append(k.str()), right: base.slice(0, 1).append("y").append("z")})@end` +
						`@component("~count", {n: base.shuffle().len(), right: base})@each(k in [1, 2])@component("~count", {right: base, n: base.shuffle().shuffle().len() + k})@end` +
						`@component("~pair", {left: base, right: base.reverse()})@slot{{ base.append("S").join("") }}@end@end{{ base.join("") }}`
					first := base[:1]
					rev := []byte(base)
					for a, b := 0, len(rev)-1; a < b; a, b = a+1, b-1 {
						rev[a], rev[b] = rev[b], rev[a]
					}
					files := map[string]string{"components/pair.tw": "<{{ left.join(\"\") }}|{{ right.join(\"\") }}:@slot>", "components/count.tw": "({{ n }}|{{ right.join(\"\") }})", "page.tw": page}
					// (the default slot is only passed by the last use; every use prints ':' before it)
					want := "<" + base + "L|" + base + "R:>" + "<" + first + "x|P" + base + ":>" + "<" + base + "1|" + first + "yz:><" + base + "2|" + first + "yz:>" + fmt.Sprintf("(%d|%s)(%d|%s)(%d|%s)", n, base, n+1, base, n+2, base) + "<" + base + "|" + string(rev) + ":" + base + "S>" + base
					tpl, err := loadTree(c, "c07args", files, ".tw")
					c.Nontrivial(fmt.Sprint(n, fromData))
					if err != nil {
						c.Violation("load-failed", "a valid component tree was rejected: "+err.Error(), map[string]any{"files": describeFiles(files)})
						return
					}
					if tpl == nil {
						return
					}
					got, _ := renderPage(c, tpl, "page", data)
					if !got.Panicked && (got.Err != nil || got.Out != want) {
						c.Violation("arguments-from-one-array", fmt.Sprintf("the page rendered %s, want %q", got.Describe(), want), map[string]any{"files": describeFiles(files), "from_data": fromData})
					}
				}},
				// uses next to postfix operators, loops inside component files and quoted quotes: every use shows its own arguments,
				// the page's variables and loop object are what they were
				{Name: "uses-among-operators-loops-and-quotes", Exhaustive: true, N: 11, Run: func(c *core.Ctx, i int) {
					var files map[string]string
					var data map[string]any
					var want string
					switch i {
					case 0: // postfix -- / ++ on a float of the page inside the component file: every use starts from the page's value
						files = map[string]string{"components/spend.tw": "<{{ budget-- }}|{{ budget }}|{{ budget++ }}>", "page.tw": "@component(\"~spend\")@component(\"~spend\")@each(k in [1, 2])@component(\"~spend\")@end{{ budget }}"}
						data = map[string]any{"budget": 9.5}
						want = "<8.5|9.5|10.5><8.5|9.5|10.5><8.5|9.5|10.5><8.5|9.5|10.5>9.5"
					case 1: // postfix operators in arguments
						files = map[string]string{"components/show.tw": "<{{ p }}/{{ q }}>", "page.tw": "{{ price = 4.5 }}{{ n = 3 }}@component(\"~show\", {p: price--, q: n++})@component(\"~show\", {p: price--, q: n--})@each(k in [1, 2])@component(\"~show\", {p: price++, q: n})@end{{ price }}/{{ n }}"}
						want = "<3.5/4><3.5/2><5.5/3><5.5/3>4.5/3"
					case 2: // a loop inside the component file, used in a loop of the page: the page's loop object is back after the use
						files = map[string]string{"components/list.tw": "(@each(e in es){{ loop.iter }}{{ loop.last ? \".\" : \",\" }}@end@slot)", "page.tw": "@each(row in rows)[{{ loop.index }}@component(\"~list\", {es: row})@slot {{ loop.iter }}/{{ loop.last }}@end@end{{ loop.iter }}{{ loop.first }}]@end"}
						data = map[string]any{"rows": [][]int{{1, 2, 3}, {4}, {}}}
						want = "[0(1,2,3. 1/0)11][1(1. 2/0)20][2( 3/1)30]"
					case 3: // the loop object of the page as arguments of a later use, after a use that loops
						files = map[string]string{"components/list.tw": "(@each(e in es){{ e }}@end)", "components/at.tw": "<{{ i }}:{{ l }}>", "page.tw": "@each(row in rows)@component(\"~list\", {es: row})@component(\"~at\", {i: loop.iter, l: loop.last})@for(k = 0; k < 1; k++)@component(\"~list\", {es: [k]})@end;{{ loop.index }}@end"}
						data = map[string]any{"rows": [][]int{{1, 2}, {3}}}
						want = "(12)<1:0>(0);0(3)<2:1>(0);1"
					case 4: // quoted quotes in arguments and slot bodies, either quote style
						files = map[string]string{"components/say.tw": "<{{ label }}|@if(label == \"Ann's\")A@else B@end|@slot>", "page.tw": "@component(\"~say\", {label: 'Ann\\'s'})@slot{{ 'it\\'s' }} {{ \"say \\\"hi\\\"\" }}@end@end@component(\"~say\", {label: \"Ann's\"})@component(\"~say\", {label: \"a\\\"b\"})"}
						want = "<Ann's|A|it's say \"hi\"><Ann's|A|><a\"b| B|>"
					case 5: // integers under postfix operators, nested uses
						files = map[string]string{"components/in.tw": "<{{ n++ }}{{ n }}@slot>", "page.tw": "{{ n = 1 }}@component(\"~in\")@slot@component(\"~in\", {n: n--})@end@end{{ n }}"}
						want = "<21<10>>1"
					case 6: // numbers written with leading zeros, as arguments and inside the component file
						files = map[string]string{"components/clock.tw": "<{{ h }}:{{ m }}:{{ s }}:{{ f }}:{{ z }}|@if(h == 10)ten@end|{{ h + m + 010 }}>", "page.tw": "@component(\"~clock\", {h: 010, m: 07, s: 09, f: 00.50, z: 000})@component(\"~clock\", {h: 0010, m: 0, s: -08, f: 1.0, z: 1})"}
						want = "<10:7:9:0.5:0|ten|27><10:0:-8:1.0:1|ten|20>"
					case 7: // many arguments, some of them object literals of many pairs themselves (nested to three levels)
						files = map[string]string{"components/wide.tw": "<{{ a }}|{{ b.p }}{{ b.q }}{{ b.r }}{{ b.s }}{{ b.t }}|{{ c }}|{{ d }}|{{ e.m.h }}{{ e.m.i }}{{ e.m.j }}{{ e.m.k }}{{ e.m.l }}{{ e.n }}|{{ f.z }}{{ f.u }}|{{ g }}>",
							"page.tw": "@component(\"~wide\", {a: 1, b: {p: 1, q: 2, r: 3, s: 4, t: 5}, c: 3, d: 4, e: {m: {h: 1, i: 2, j: 3, k: 4, l: 5, zz: 6}, n: 7, o: 8, p: 9, q: 10}, f: {u: 1, v: 2, w: 3, x: 4, y: 5, z: 6}, g: \"last\"})" +
								"@each(k in [1, 2])@component(\"~wide\", {g: k, f: {z: k, y: 0, x: 0, w: 0, v: 0, u: k}, e: {q: 0, p: 0, o: 0, n: k, m: {zz: 0, l: 5, k: 4, j: 3, i: 2, h: k}}, d: 4, c: 3, b: {t: 5, s: 4, r: 3, q: 2, p: k}, a: k})@end"}
						want = "<1|12345|3|4|123457|61|last><1|12345|3|4|123451|11|1><2|22345|3|4|223452|22|2>"
					case 9: // round 17: prefix operators inside the component file on values of the page handed in as arguments: every use starts from the page's value
						files = map[string]string{"components/debit.tw": "<{{ -amount }}|{{ amount }}|{{ !flag }}|{{ flag }}|{{ -count }}>",
							"page.tw": "@component(\"~debit\", {amount: price, flag: on, count: n})|@component(\"~debit\", {amount: price, flag: on, count: n})@each(k in [1, 2])@component(\"~debit\", {amount: price, flag: on, count: n})@end{{ price }}{{ on }}{{ n }}"}
						data = map[string]any{"price": 2.5, "on": true, "n": 4}
						want = "<-2.5|2.5|0|1|-4>|<-2.5|2.5|0|1|-4><-2.5|2.5|0|1|-4><-2.5|2.5|0|1|-4>2.514"
					case 10: // round 17: prefix operators in the arguments, on names assigned by the page
						files = map[string]string{"components/show.tw": "<{{ p }}/{{ q }}>", "page.tw": "{{ price = 4.5 }}{{ n = 3 }}@component(\"~show\", {p: -price, q: -n})@component(\"~show\", {p: -price, q: -n})@each(k in [1, 2])@component(\"~show\", {p: -price, q: -(-n)})@end{{ price }}/{{ n }}"}
						want = "<-4.5/-3><-4.5/-3><-4.5/3><-4.5/3>4.5/3"
					default: // a float decremented in every pass of a loop of the page and handed to the use
						files = map[string]string{"components/show.tw": "<{{ p }}>", "page.tw": "{{ price = 2.5 }}@each(k in [1, 2, 3])@component(\"~show\", {p: price--}){{ price }};@end"}
						want = "<1.5>2.5;<1.5>2.5;<1.5>2.5;"
					}
					tpl, err := loadTree(c, "c07ops", files, ".tw")
					c.Nontrivial(fmt.Sprint("ops", i, files))
					if err != nil {
						c.Violation("load-failed", "a valid component tree was rejected: "+err.Error(), map[string]any{"files": describeFiles(files)})
						return
					}
					if tpl == nil {
						return
					}
					for round := 0; round < 2; round++ {
						got, _ := renderPage(c, tpl, "page", data)
						if !got.Panicked && (got.Err != nil || got.Out != want) {
							c.Violation("uses-among-operators", fmt.Sprintf("render %d of the page gave %s, want %q", round+1, got.Describe(), want), map[string]any{"files": describeFiles(files)})
							return
						}
					}
				}},
				// text between a component's ")" and what follows is text unless it is plain whitespace before a @slot:
				// whatever the rest renders to, these bytes must be in the output
				{Name: "text-after-component", Exhaustive: true, N: 9 * 3, Run: func(c *core.Ctx, i int) {
					t := []string{"\u00a0", "\f", "\v", "\u0085", "\u3000", "x", "-", "\u2003", " \u00a0 "}[i%9]
					shape := i / 9
					page := []string{
						"<a>@component(\"~box\")" + t + "@slot(\"head\")HEAD@end@end</a>",
						"<a>@component(\"~box\")" + t + "</a>",
						"<a>@component(\"~box\")@slot(\"head\")HEAD@end" + t + "</a>",
					}[shape]
					files := map[string]string{"components/box.tw": "[@slot(\"head\")]", "page.tw": page}
					tpl, err := loadTree(c, "c07text", files, ".tw")
					c.Nontrivial(page)
					if err != nil || tpl == nil {
						return // a tree the loader refuses is not judged here
					}
					got, _ := renderPage(c, tpl, "page", nil)
					if got.Failed() {
						return
					}
					want := strings.TrimSpace(t)
					if shape == 2 {
						return // after the last slot the text is between slots and the closing @end: skipped by design
					}
					if !strings.Contains(got.Out, want) {
						c.Violation("text-after-component-lost", fmt.Sprintf("the text %q written after the component is missing from the output %q", t, got.Out), map[string]any{"files": describeFiles(files)})
					}
				}},
				{Name: "fault-trees", N: nf, Run: func(c *core.Ctx, i int) {
					cc := genComponentTree(c, i)
					def := cc.comps[0]
					fault := i % 5
					emptyBody := (i/5)%2 == 1 // the faulty slot is passed with an empty body
					page := cc.pages[0]
					short := def.name[strings.LastIndex(def.name, "/")+1:]
					var bad model.Component
					switch fault {
					case 0: // a slot the component does not declare
						bad = model.Component{Name: def.name, Slots: []model.SlotBody{{Name: "undeclared", Body: []model.Stmt{model.Text{S: "x"}}}}}
					case 1: // a named slot passed twice
						cc.tree.files[def.name] = append(cc.tree.files[def.name], model.Text{S: "["}, model.SlotRef{Name: "dup"}, model.Text{S: "]"})
						bad = model.Component{Name: def.name, Slots: []model.SlotBody{{Name: "dup", Body: []model.Stmt{model.Text{S: "one"}}}, {Name: "dup", Body: []model.Stmt{model.Text{S: "two"}}}}}
					case 2: // the default slot passed twice
						cc.tree.files[def.name] = append(cc.tree.files[def.name], model.Text{S: "["}, model.SlotRef{Name: "extra"}, model.Text{S: "]"})
						if !contains(def.slots, "") {
							cc.tree.files[def.name] = append(cc.tree.files[def.name], model.SlotRef{Name: ""}, model.Text{S: "."})
						}
						bad = model.Component{Name: def.name, Slots: []model.SlotBody{{Name: "", Body: []model.Stmt{model.Text{S: "one"}}}, {Name: "extra", Body: []model.Stmt{model.Text{S: "e"}}}, {Name: "", Body: []model.Stmt{model.Text{S: "two"}}}}}
					case 3: // the component file does not exist: no such name, or the name of an existing one with a slash or a dot too many
						short = "ghost"
						bad = model.Component{Name: "components/ghost"}
						if k := (i / 10) % 4; k > 0 {
							short = def.name[strings.LastIndex(def.name, "/")+1:]
							bad = model.Component{Name: def.name + []string{"", "/", "//", "/."}[k]}
						}
					case 4: // default slot passed to a component that declares none
						if contains(def.slots, "") {
							return
						}
						bad = model.Component{Name: def.name, Slots: []model.SlotBody{{Name: "", Body: []model.Stmt{model.Text{S: "x"}}}}}
					}
					if emptyBody {
						for k := range bad.Slots {
							bad.Slots[k].Body = []model.Stmt{}
						}
					}
					// the faulty use stands at the top level of the page or inside one of its blocks (taken or not), in a slot body
					// of a valid use, or in an insert block
					var placed []model.Stmt
					switch (i / 40) % 6 {
					case 0:
						placed = []model.Stmt{model.Text{S: " then "}, bad, model.Text{S: "."}}
					case 1:
						placed = []model.Stmt{model.If{Conds: []model.Expr{model.Lit{V: model.Bool(false)}}, Bodies: [][]model.Stmt{{model.Text{S: "never "}, bad}}}}
					case 2:
						placed = []model.Stmt{model.Each{Var: "cell", Arr: model.Var{Name: "da"}, Body: []model.Stmt{model.If{Conds: []model.Expr{model.Var{Name: "db"}}, Bodies: [][]model.Stmt{{model.Text{S: "x"}}}, Else: []model.Stmt{bad}}}}}
					case 3:
						cc.tree.files["components/wrap"] = []model.Stmt{model.Text{S: "<wrap>"}, model.SlotRef{Name: ""}, model.Text{S: "|"}, model.SlotRef{Name: "tail"}, model.Text{S: "</wrap>"}}
						placed = []model.Stmt{model.Component{Name: "~wrap", Slots: []model.SlotBody{{Name: "", Body: []model.Stmt{model.Text{S: "fine"}}}, {Name: "tail", Body: []model.Stmt{model.Text{S: "in slot "}, bad}}}}}
					case 4:
						placed = []model.Stmt{model.For{Init: &model.Assign{Name: "fk", E: model.Lit{V: model.Int(0)}}, Cond: model.Binary{Op: "<", L: model.Var{Name: "fk"}, R: model.Lit{V: model.Int(0)}}, Post: model.Print{E: model.Postfix{Op: "++", X: model.Var{Name: "fk"}}},
							Body: []model.Stmt{model.Text{S: "never"}}, Else: []model.Stmt{bad}}}
					default:
						cc.tree.files["layouts/faultshell"] = []model.Stmt{model.Text{S: "<shell>"}, model.Reserve{Name: "body"}, model.Text{S: "</shell>"}}
						cc.tree.files["faultpage"] = []model.Stmt{model.Use{Name: "~faultshell"}, model.Insert{Name: "body", Block: []model.Stmt{model.Text{S: "in insert "}, model.If{Conds: []model.Expr{model.Var{Name: "db"}}, Bodies: [][]model.Stmt{{bad}}}}}}
					}
					cc.tree.files[page] = append(cc.tree.files[page], placed...)
					files := cc.tree.sources(model.Style{Layout: model.SpaceLayout})
					tpl, err := loadTreeAs(c, treeDir(cc.tree), cc.tree.dir, files, cc.tree.ext)
					c.Nontrivial(fmt.Sprint(fault, files))
					if i < 5 {
						c.Sample(map[string]any{"fault": fault, "files": describeFiles(files)})
					}
					names := []string{"an undeclared slot", "a named slot passed twice", "the default slot passed twice", "a missing component file", "an undeclared default slot"}
					if err == nil {
						if tpl != nil {
							c.Violation(fmt.Sprintf("fault-accepted:%d", fault), names[fault]+" was not reported when the templates were loaded", map[string]any{"files": describeFiles(files)})
						}
						return
					}
					c.Count("faults_reported_at_load", 1)
					if m := fmtMarker(err.Error()); m != "" {
						c.Violation("fault-report-garbled", fmt.Sprintf("the load error holds %q (a message was used as a format string): %s", m, err.Error()), map[string]any{"files": describeFiles(files)})
					}
					if !strings.Contains(err.Error(), short) {
						c.Violation(fmt.Sprintf("fault-unnamed:%d", fault), fmt.Sprintf("the load error for %s does not name the component %q: %s", names[fault], short, err.Error()), map[string]any{"files": describeFiles(files)})
					}
				}},
			}
		},
	})
}

func contains(s []string, x string) bool {
	for _, e := range s {
		if e == x {
			return true
		}
	}
	return false
}

func flipData(d map[string]model.Value) map[string]model.Value {
	out := map[string]model.Value{}
	for k, v := range d {
		out[k] = v
	}
	out["db"] = model.Bool(!d["db"].B)
	out["ds"] = model.Str("flipped")
	out["da"] = model.Arr(model.Int(9))
	out["p0"] = model.Str("")
	return out
}

func sortEvents(ev []model.Event) []model.Event {
	out := append([]model.Event(nil), ev...)
	sort.SliceStable(out, func(a, b int) bool {
		if out[a].ID != out[b].ID {
			return out[a].ID < out[b].ID
		}
		return out[a].Val < out[b].Val
	})
	return out
}
