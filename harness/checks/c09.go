package checks

import (
	"fmt"
	textwire "github.com/textwire/textwire/v2"
	"github.com/textwire/textwire/v2/config"
	"math"
	"math/rand"
	"os"
	"reflect"
	"strings"

	"github.com/textwire/textwire/v2/object"

	"verif/core"
	"verif/model"
)

// C09 — evaluation never crashes: every runtime fault becomes a Textwire
// error (with a line).

type c09Inner struct {
	P    *int
	Name string
}

// structs that embed other structs, by value and by (nil) pointer
type c09Audit struct {
	By   string
	Rev  int
	priv int
}

type c09Article struct {
	*c09Audit
	Title string
}

// unexported fields whose names begin outside ASCII (their first byte is not a lower-case ASCII letter)
type c09Odd struct {
	Name  string
	édad  int
	ñame  *c09Inner
	ωidth float64
	я     []int
	_u    map[string]any
	Ünit  string
}

type c09Post struct {
	c09Audit
	*c09Inner
	Title string
}

type c09Row struct {
	ID    int
	Title string
	Ptr   *c09Inner
	Tags  []string
	Meta  map[string]any
	note  string
}

// hostileData holds every value kind, boundary integers, empty/non-ASCII
// strings, nil pointers, nil slices and maps
func hostileData() map[string]any {
	var nilRow *c09Row
	var nilInts []int
	var nilMap map[string]any
	seven := 7
	return map[string]any{
		"i":    3,
		"z":    0,
		"neg":  -4,
		"big":  int64(math.MaxInt64),
		"low":  int64(math.MinInt64),
		"u":    uint8(200),
		"f":    2.5,
		"fz":   0.0,
		"fneg": -0.75,
		"nan":  math.NaN(),
		"inf":  math.Inf(1),
		"ninf": math.Inf(-1),
		"tiny": 5e-324,
		"huge": math.MaxFloat64,
		"s":    "héllo wörld",
		"es":   "",
		"num":  "42",
		"bad1": "\xff",
		"bad2": "\xc3",
		"bad3": "\xe2\x82",
		"bad4": "\x80z",
		"bad5": "a\xffb\xc3",
		"t":    true,
		"no":   false,
		"n":    nil,
		"arr":  []int{3, 1, 2},
		"ea":   []string{},
		"na":   nilInts,
		"mix":  []any{1, "a", 2.5, nil, []any{1}, map[string]any{"k": 1}},
		"aa":   [][]int{{1, 2}, {}, {3}},
		"obj":  map[string]any{"a": 1, "b": "x", "Cap": true, "inner": map[string]any{"deep": []any{1, nil}}, "": "emptykey"},
		"nm":   nilMap,
		"row":  c09Row{ID: 1, Title: "t", Ptr: &c09Inner{P: &seven, Name: "in"}, Tags: []string{"x"}, Meta: map[string]any{"k": nil}},
		"rowp": &c09Row{ID: 2, Ptr: nil},
		"nilp": nilRow,
		"rows": []*c09Row{{ID: 5}, nil, {ID: 6, Ptr: &c09Inner{}}},
		"art":  c09Article{Title: "embedded pointer is nil"},
		"art2": &c09Article{c09Audit: &c09Audit{By: "me", Rev: 2}, Title: "embedded pointer is set"},
		"post": c09Post{Title: "embedded value and nil pointer"},
		"arts": []c09Article{{Title: "a"}, {c09Audit: &c09Audit{}, Title: "b"}},
		"odd":  c09Odd{Name: "visitor", édad: 41, Ünit: "u"},
		"odds": []*c09Odd{{Name: "a", я: []int{1}}, nil},
	}
}

// trees whose files play unusual parts (every render has to end: with output or with an error)
var oddTrees = []map[string]string{
	{"page.tw": `a@component("~x")b`, "components/x.tw": `@use("~l")@insert("r", 1)X`, "layouts/l.tw": `<@reserve("r")>`},
	{"page.tw": `a@component("~x")b`, "components/x.tw": "line1\n@use(\"~l\")X", "layouts/l.tw": `<@reserve("r")>`},
	{"page.tw": `a@component("~x")@slot s@end@end b`, "components/x.tw": `@use("~l")X@slot`, "layouts/l.tw": `<@reserve("r")>`},
	{"page.tw": `@each(k in [1, 2])@component("~x", {a: k})@end`, "components/x.tw": `@if(a == 2)@use("~l")@end X{{ a }}`, "layouts/l.tw": `<@reserve("r")>`},
	{"page.tw": `a@component("~x")b`, "components/x.tw": `X@reserve("r")Y`},
	{"page.tw": `a@component("~x")b`, "components/x.tw": `X@insert("r", 1)@insert("q")block@end Y`},
	{"page.tw": `a@component("layouts/l")b`, "layouts/l.tw": `<@reserve("r")>`},
	{"page.tw": `@use("components/x")@insert("r", 1)`, "components/x.tw": `X@slot Y@slot("n")`},
	{"page.tw": `@use("other")@insert("r", 1)`, "other.tw": `plain page {{ a }}`},
	{"page.tw": `a@component("other", {a: 2})b`, "other.tw": `@use("~l")@insert("r", a)`, "layouts/l.tw": `<@reserve("r")>`},
	{"page.tw": `@insert("r", 1)@insert("q")block {{ a }}@end text`},
	{"page.tw": `@slot top @slot("named") text`},
	{"page.tw": `@reserve("r") is a layout by itself`, "user.tw": `@use("page")@insert("r", "x")`},
	{"page.tw": `@if(false)@use("~l")@end@insert("r", 1)after`, "layouts/l.tw": `<@reserve("r")>`},
	{"page.tw": `@use("~l")@use("~m")@insert("r", 1)`, "layouts/l.tw": `L<@reserve("r")>`, "layouts/m.tw": `M<@reserve("r")>`},
	{"page.tw": `@use("~l")@insert("r")@use("~m")x@end`, "layouts/l.tw": `L<@reserve("r")>`, "layouts/m.tw": `M<@reserve("q")>`},
	{"page.tw": `@use("~l")@insert("r")@reserve("inner")@end`, "layouts/l.tw": `L<@reserve("r")>`},
	{"page.tw": `@use("~l")@insert("r")@component("~x")@slot@insert("r", 2)@end@end@end`, "layouts/l.tw": `L<@reserve("r")>`, "components/x.tw": `X@slot`},
	{"page.tw": `@use("~l")@insert("r", 1)`, "layouts/l.tw": `L<@reserve("r")>@component("~x")@slot@reserve("deep")@end@end`, "components/x.tw": `X@slot`},
	{"page.tw": `@component("~x")@slot@component("~y")@slot@component("~x")@end@end@end@end`, "components/x.tw": `X[@slot]`, "components/y.tw": `Y[@slot]`},
	{"page.tw": `@break@continue@breakIf(a)@continueIf(a)text`, "loop.tw": `@each(v in items)@component("~x")@slot@break@end@end@end`, "components/x.tw": `X@slot@continue`},
	{"page.tw": `@dump(a)@dump()@dump(a, items, nope)`},
	{"page.tw": `@component("~x", {loop: 1})`, "components/x.tw": `{{ loop }}`},
	{"page.tw": `@component("~x", {a: b})`, "components/x.tw": `{{ a }}`},
	// files that are a byte order mark, a part of one, or begin with one
	{"page.tw": "\xef\xbb", "a.tw": "\xef", "b.tw": "\xef\xbb\xbf", "c.tw": "\xef\xbb\xbf{{ a }}", "d.tw": "\xfe\xff", "e.tw": "\xff\xfe{{ a }}", "f.tw": "\xef\xbb{{ a }}", "components/x.tw": "\xef\xbb", "g.tw": "@component(\"~x\")"},
	// the use statement inside the blocks its own layout renders
	{"page.tw": `@insert("r")x@use("~l")y@end`, "layouts/l.tw": `<@reserve("r")>`},
	{"page.tw": `@use("~l")@insert("r")@if(true)@use("~l")@end@end`, "layouts/l.tw": `<@reserve("r")>`},
	{"page.tw": `@use("~l")@insert("r")@each(v in [1, 2])@use("~l")@end@end`, "layouts/l.tw": `<@reserve("r")>`},
	{"page.tw": `@use("~l")@insert("r")@if(a)@use("~l")@end@end`, "layouts/l.tw": `<@reserve("r")>`},
	{"page.tw": `@use("~l")@insert("r")@component("~x")@slot@use("~l")@end@end@end`, "layouts/l.tw": `<@reserve("r")>`, "components/x.tw": `X@slot`},
	{"page.tw": `@insert("a")@use("~l")@end@insert("b", 1)`, "layouts/l.tw": `<@reserve("a")|@reserve("b")>`},
	{"page.tw": `@insert("a", 1)@insert("b")@for(i = 0; i < 2; i++)@use("~l")@end@end`, "layouts/l.tw": `@if(true)<@reserve("a")|@reserve("b")>@end`},
	{"page.tw": `@component("~x")@slot@use("~l")@insert("r")in@end@end@end`, "layouts/l.tw": `<@reserve("r")>`, "components/x.tw": `X@slot`},
	{"page.tw": `@each(v in [1, 2])@use("~l")@insert("r"){{ v }}@end@end`, "layouts/l.tw": `<@reserve("r")>`},
}

func manyInts(n int) []int {
	out := make([]int, n)
	for i := range out {
		out[i] = i
	}
	return out
}

var hostileNames = []string{"i", "z", "neg", "big", "low", "u", "f", "fz", "fneg", "nan", "inf", "ninf", "tiny", "huge", "bad1", "bad2", "bad3", "bad4", "bad5", "s", "es", "num", "t", "no", "n", "arr", "ea", "na", "mix", "aa", "obj", "nm", "row", "rowp", "nilp", "rows", "art", "art2", "post", "arts", "odd", "odds", "nope"}

var allBuiltinNames = func() []string {
	seen := map[string]bool{}
	var out []string
	for _, k := range []model.Kind{model.KStr, model.KArr, model.KInt, model.KFloat, model.KBool} {
		for _, n := range model.BuiltinNames(k) {
			if !seen[n] {
				seen[n] = true
				out = append(out, n)
			}
		}
	}
	return append(out, "tr", "nosuchfunc")
}()

// untyped expression generator: any expression kind in any position
type untypedGen struct {
	r *rand.Rand
}

func (g *untypedGen) smallInt() string {
	vals := []string{"0", "1", "2", "3", "7", "-1", "-9", "100", "2147483648", "9223372036854775807", "(0 - 9223372036854775807 - 1)"}
	return vals[g.r.Intn(len(vals))]
}

func (g *untypedGen) expr(depth int) string {
	r := g.r
	if depth <= 0 || r.Intn(4) == 0 {
		switch r.Intn(9) {
		case 0:
			return g.smallInt()
		case 1:
			return []string{"0.0", "1.5", "0.25", "1000000.5"}[r.Intn(4)]
		case 2:
			return []string{`""`, `"a"`, `'é中'`, `"<b>"`, `"12"`, `" "`}[r.Intn(6)]
		case 3:
			return []string{"true", "false", "nil"}[r.Intn(3)]
		case 4:
			return []string{"[]", "[1, 2, 3]", `["a", 1]`, "[[1], []]", "{}", "{a: 1, b: {c: [1]}}"}[r.Intn(6)]
		default:
			return hostileNames[r.Intn(len(hostileNames))]
		}
	}
	switch r.Intn(13) {
	case 0, 1, 2:
		return g.expr(depth-1) + " " + binOps[r.Intn(len(binOps))] + " " + g.expr(depth-1)
	case 3:
		return []string{"-", "!"}[r.Intn(2)] + g.expr(depth-1)
	case 4:
		return "(" + g.expr(depth-1) + ")" + []string{"++", "--"}[r.Intn(2)]
	case 5:
		return g.expr(depth-1) + " ? " + g.expr(depth-1) + " : " + g.expr(depth-1)
	case 6:
		return "(" + g.expr(depth-1) + ")[" + g.expr(depth-1) + "]"
	case 7:
		return "(" + g.expr(depth-1) + ")." + []string{"a", "id", "ptr", "title", "inner", "p", "name", "deep", "tags", "meta", "k", "note", "x"}[r.Intn(13)]
	case 8, 9, 10:
		n := r.Intn(4)
		args := make([]string, n)
		for i := range args {
			args[i] = g.argExpr(depth - 1)
		}
		return "(" + g.expr(depth-1) + ")." + allBuiltinNames[r.Intn(len(allBuiltinNames))] + "(" + strings.Join(args, ", ") + ")"
	case 11:
		return "[" + g.expr(depth-1) + ", " + g.expr(depth-1) + "]"
	default:
		return "{k: " + g.expr(depth-1) + ", j: " + g.expr(depth-1) + "}"
	}
}

// argExpr keeps counts small, negative or absurdly large: a correct
// implementation never needs more than a megabyte for any of them
func (g *untypedGen) argExpr(depth int) string {
	if g.r.Intn(2) == 0 {
		return []string{"0", "1", "2", "5", "-1", "-7", "9223372036854775807", "4611686018427387904", "(0 - 9223372036854775807 - 1)", `""`, `","`, `"é"`, "nil", "true", "1.5", "[1]", "{a: 1}", "i", "neg", "s", "es", "arr", "obj", "n"}[g.r.Intn(24)]
	}
	e := g.expr(depth)
	// an arbitrary integer expression as a count could ask for gigabytes
	return "(" + e + ") == 1"
}

func (g *untypedGen) block(n, depth int, inLoop bool) string {
	var sb strings.Builder
	sb.WriteString("[")
	for i := 0; i < n; i++ {
		sb.WriteString(g.stmt(depth, inLoop))
	}
	return sb.String()
}

func (g *untypedGen) stmt(depth int, inLoop bool) string {
	r := g.r
	k := r.Intn(14)
	if depth <= 0 && k >= 6 && k <= 10 {
		k = 0
	}
	switch k {
	case 0, 1, 2, 3:
		return "{{ " + g.expr(2) + " }}"
	case 4:
		return "{{ " + []string{"a", "b", "i", "s", "loop", "arr"}[r.Intn(6)] + " = " + g.expr(2) + " }}"
	case 5:
		return " text\n"
	case 6:
		s := "@if(" + g.expr(2) + ")" + g.block(1+r.Intn(2), depth-1, inLoop)
		if r.Intn(2) == 0 {
			s += "@elseif(" + g.expr(2) + ")" + g.block(1, depth-1, inLoop)
		}
		if r.Intn(2) == 0 {
			s += "@else " + g.block(1, depth-1, inLoop)
		}
		return s + "@end"
	case 7, 8:
		s := "@each(" + []string{"v", "w", "i", "loop"}[r.Intn(4)] + " in " + g.expr(2) + ")" + g.block(1+r.Intn(2), depth-1, true)
		if r.Intn(3) == 0 {
			s += "@else " + g.block(1, depth-1, inLoop)
		}
		return s + "@end"
	case 9, 10:
		return g.forLoop(depth)
	case 11:
		if inLoop {
			return []string{"@break", "@continue", "@breakIf(" + g.expr(1) + ")", "@continueIf(" + g.expr(1) + ")"}[r.Intn(4)]
		}
		return "@dump(" + g.expr(1) + ")"
	case 12:
		return "@dump(" + g.expr(2) + ", " + g.expr(1) + ")"
	default:
		return "{{-- c --}}"
	}
}

// forLoop: any subset of clauses may be absent and init may be a bare
// expression; every generated loop ends by construction (a counting
// condition, or an unconditional @break as last statement and no @continue)
func (g *untypedGen) forLoop(depth int) string {
	r := g.r
	v := []string{"k", "m"}[r.Intn(2)]
	switch r.Intn(7) {
	case 0: // complete and counting
		return fmt.Sprintf("@for(%s = 0; %s < %d; %s++)", v, v, r.Intn(4), v) + g.blockNoContinue(depth-1) + "@end"
	case 1: // no init, ends by @break
		return "@for(; " + g.expr(1) + "; )" + g.blockNoContinue(depth-1) + "@break@end"
	case 2: // nothing at all
		return "@for(;;)" + g.blockNoContinue(depth-1) + "@break@end"
	case 3: // init is not an assignment
		return "@for(" + g.expr(1) + "; " + g.expr(1) + "; " + g.expr(1) + ")" + g.blockNoContinue(depth-1) + "@break@end"
	case 4: // no post
		return fmt.Sprintf("@for(%s = 0; %s < 3; )", v, v) + g.blockNoContinue(depth-1) + "@break@end"
	case 5: // init and post are plain expressions and the loop makes several passes (the body advances a data variable)
		return "{{ cnt = 0 }}@for(" + g.expr(1) + "; cnt < 3; " + []string{"cnt++", g.expr(1), "cnt", "cnt--"}[r.Intn(4)] + "){{ cnt = cnt + 1 }}" + g.blockNoContinue(depth-1) + "@end"
	default: // post of any kind, ends by @break
		return fmt.Sprintf("@for(%s = %s; ; %s)", v, g.expr(1), g.expr(1)) + g.blockNoContinue(depth-1) + "@break@end"
	}
}

func (g *untypedGen) blockNoContinue(depth int) string {
	return "[" + "{{ " + g.expr(2) + " }}" + "@if(" + g.expr(1) + ")x@end"
}

// expressions that fail whenever they are evaluated (the fault kinds the property names)
var faultExprs = []string{"1 % 0", "1 / 0", "nope", "n.x", "s.x.y", `"a".repeat(-1)`, `"a".repeat("x")`, `1 + "a"`, `-"a"`, `"a".nosuchfunc()`, "arr.len(1, 2).x", "(nan--).x",
	"{ nope }.nope", "{ a: 1, nope }.a", "[1, nope]", "{k: nope}.k", "(nope ? 1 : 2)", "(true ? nope : 1)", "obj[nope]", "!nope", "arr[nope]", `"a".repeat(nope)`, "-nope", "nope++", "{ s, nope }",
	// literals that occur, fault-free, on earlier lines too
	"nil + 1", "nil.x", "-nil", "true + 1", "false.x", "1.nofn()", "\"\".nofn()", "[].x", "{}.x",
	// faulty arguments on receivers for which the built-in would have nothing to do (round 16)
	`"".repeat(-1)`, `"".repeat(0 - 2)`, `"".repeat("x")`, `[].slice(2, 1).x`, `"".at("x")`}

// places of a template tree an expression F can stand in; evaluated says whether the place is reached
var faultPlaces = []struct {
	name      string
	page      string
	evaluated bool
	either    bool
}{
	{"print", "a{{ F }}b", true, false},
	{"assign", "{{ q = F }}b", true, false},
	{"if-cond", "@if(F)y@end", true, false},
	{"elseif-cond", "@if(false)y@elseif(F)z@end", true, false},
	{"elseif-cond-not-reached", "@if(true)y@elseif(F)z@end", false, false},
	{"if-body-not-taken", "@if(false){{ F }}@end ok", false, false},
	{"else-body-not-taken", "@if(true)y@else{{ F }}@end", false, false},
	{"ternary-taken", "{{ true ? F : 1 }}", true, false},
	{"ternary-not-taken", "{{ true ? 1 : F }}", false, false},
	{"each-array", "@each(v in F)x@end", true, false},
	{"each-body-second-pass", "@each(v in [1, 2])[{{ v }}]@if(v == 2){{ F }}@end@end", true, false},
	{"each-else-not-taken", "@each(v in [1])x@else{{ F }}@end", false, false},
	{"each-else-taken", "@each(v in [])x@else{{ F }}@end", true, false},
	{"for-init", "@for(k = F; k < 1; k++)x@end", true, false},
	{"for-cond", "@for(k = 0; F; k++)x@break@end", true, false},
	{"for-post", "@for(k = 0; k < 2; F)x@end", true, false},
	{"for-post-not-reached", "@for(k = 0; k < 2; F)x@break@end", false, false},
	{"breakif", "@each(v in [1, 2])x@breakIf(F)@end", true, false},
	{"continueif", "@each(v in [1, 2])x@continueIf(F)y@end", true, false},
	{"after-break", "@each(v in [1, 2])x@break{{ F }}@end", false, false},
	{"dump", "@dump(F)", false, true},           // @dump shows what its argument evaluates to, a fault included: either
	{"dump-second", "@dump(1, F)", false, true}, // outcome is a defined result, only the contract is checked
	{"array-element", "{{ [1, F, 3] }}", true, false},
	{"array-only-element", "{{ [F] }}", true, false},
	{"array-only-element-receiver", "{{ [F].len() }}", true, false},
	{"array-only-element-nested", "{{ [[F]] }}", true, false},
	{"array-first-element", "{{ [F, 1] }}", true, false},
	{"array-last-element", "{{ [1, F] }}", true, false},
	{"object-only-value", "{{ q = {a: F} }}ok", true, false},
	{"elseif-cond-second", "@if(false)y@elseif(false)z@elseif(F)w@end", true, false},
	{"call-only-argument-of-array", "{{ [1].contains(F) }}", true, false},
	{"object-value", "{{ q = {a: 1, b: F} }}ok", true, false},
	{"index", "{{ [1, 2][F] }}", true, false},
	{"indexed", "{{ (F)[0] }}", true, false},
	{"call-argument", `{{ "abc".at(F) }}`, true, false},
	{"call-receiver", "{{ (F).len() }}", true, false},
	{"custom-call-argument", "{{ 1.tr(F) }}", true, false},
	{"binary-left", "{{ (F) + 1 }}", true, false},
	{"binary-right", "{{ 1 + (F) }}", true, false},
	{"prefix", "{{ !(F) }}", true, false},
	{"component-argument-used", `@component("~box", {used: F})`, true, false},
	{"component-argument-unused", `@component("~box", {used: 1, unused: F})`, true, false},
	{"component-argument-dormant", `@component("~box", {used: 1, dormant: F})`, true, false},
	{"component-argument-first-of-many", `@component("~box", {a: F, used: 1, z: 2})`, true, false},
	{"component-argument-last-of-many", `@component("~box", {a: 0, used: 1, z: F})`, true, false},
	{"component-argument-in-loop", `@each(v in [1, 2])@component("~box", {used: v, unused: F})@end`, true, false},
	{"component-argument-nested-component", `@component("~wrap")`, true, false},
	{"component-argument-with-slots", `@component("~box", {used: 1, unused: F})@slot one@end@end`, true, false},
	{"component-body", `@component("~bad")`, true, false},
	{"component-body-in-untaken-branch", `@if(false)@component("~bad")@end ok`, false, false},
	{"default-slot-body", `@component("~box", {used: 1})@slot{{ F }}@end@end`, true, false},
	{"named-slot-body", `@component("~box", {used: 1})@slot("foot"){{ F }}@end@end`, true, false},
	{"second-slot-body", `@component("~box", {used: 1})@slot a@end@slot("foot"){{ F }}@end@end`, true, false},
	{"insert-argument", `@use("~main")@insert("title", F)@insert("body", "b")`, true, false},
	{"insert-argument-second", `@use("~main")@insert("title", "t")@insert("body", F)`, true, false},
	{"insert-block", `@use("~main")@insert("title", "t")@insert("body")x{{ F }}@end`, true, false},
	{"insert-block-in-loop", `@use("~main")@insert("body")@each(v in [1, 2]){{ v }}{{ F }}@end@end`, true, false},
	{"layout-body", `@use("~faulty")@insert("body", "b")`, true, false},
}

// checkOutcome asserts the contract of a render: output, or an error that
// is a value and carries a line
func checkOutcome(c *core.Ctx, got Outcome, src string, needLine bool) {
	if got.Panicked {
		return
	}
	if got.Err != nil {
		c.Count("renders_failed_with_error", 1)
		line, _, ok := ErrLinePath(got.Err)
		if !ok {
			c.Violation("error-shape", "the error is not a Textwire error: "+got.Err.Error(), map[string]any{"source": src})
		} else if needLine && line < 1 {
			c.Violation("error-without-line", "an evaluation error carries no line: "+got.Err.Error(), map[string]any{"source": src})
		}
		if got.Out != "" {
			c.Violation("output-with-error", fmt.Sprintf("output %q returned together with an error", got.Out), map[string]any{"source": src})
		}
		return
	}
	c.Count("renders_succeeded", 1)
}

func init() {
	core.Register(&core.Check{
		ID:    "C09",
		Level: "exploration",
		Rule: "cases are programs from an untyped generator (any expression kind in any operand, index, property, call-receiver, call-argument, loop-header and directive-argument position; @for with every subset of clauses absent and non-assignment init; bounded loops only) rendered with a data map holding every value kind, boundary integers, empty/non-ASCII strings, nil pointers/slices/maps and structs; every built-in on every receiver kind with every argument tuple (up to 3) drawn from boundary values; data maps with nil pointers and unsupported kinds planted at depth 0..3. " +
			"Monitors: panic monitor (recover + stack), CPU/heap watchdog, and the contract 'output, or an error value that is a Textwire error with a line'. also special floats under every operator, 12 faults x 50 places of a template tree (reached and unreached), one call site over receivers of changing kinds, nesting depths 15..200, 16 rounds of concurrent evaluation with fresh names and struct types; invalid UTF-8 receivers, odd map key types, fault lines after LF/CRLF/CR; round 8: structs with unexported fields named outside ASCII; round 9: products wrapping around 2^64; concurrent replay; rounds 10-11: files in unusual parts, fault lines after multi-line tokens; rounds 12-13: failing pages through Response under every error-page configuration, 13 more fault expressions, @use inside blocks its layout renders; round 14: faults on literals seen fault-free before; round 15: almost-numeric and 255..257-item receivers, size ladder, byte-order-mark files; round 16: faults as only/first/last element of literals, second @elseif, faulty arguments on empty receivers; distinct_nontrivial = distinct (source, data shape) pairs that parsed and reached evaluation",
		Assumptions: []string{
			"counts are small, negative or absurdly large (a correct implementation never needs more than a few MiB); the gray zone of counts that are merely huge is not generated",
			"errors from building the environment (unsupported data) carry no line by design and are only required to be error values",
		},
		CPUBudget: 10,
		Setup: func(c *core.Ctx) {
			if err := registerTracers(); err != nil {
				panic(err)
			}
		},
		Sections: func(tier core.Tier, seed int64) []core.Section {
			nProg, nData := 60000, 4000
			if tier == core.Thorough {
				nProg, nData = 3000000, 200000
			}
			var secs []core.Section
			data := hostileData()
			secs = append(secs, core.Section{Name: "untyped-programs", N: nProg,
				Run: func(c *core.Ctx, i int) {
					g := &untypedGen{r: c.Rng}
					src := g.block(1+c.Rng.Intn(4), 1+c.Rng.Intn(3), false)
					c.Input(map[string]any{"source": src, "data": "hostileData()"})
					got := evalString(c, src, data)
					if got.Err == nil || !strings.Contains(got.Err.Error(), "parser") {
						c.Nontrivial(src)
					}
					if i < 2 {
						c.Sample(map[string]any{"source": src, "outcome": clipS(got.Describe(), 200)})
					}
					checkOutcome(c, got, src, true)
				}})
			// mostly well-typed programs reach deep into evaluation before (if ever) failing
			secs = append(secs, core.Section{Name: "typed-programs", N: nProg / 3,
				Run: func(c *core.Ctx, i int) {
					g := newStmtGen(c.Rng, stmtGenOpts{MaxDepth: 1 + c.Rng.Intn(4), IfHeavy: i%2 == 0, LoopHeavy: i%3 == 0, ScopeHeavy: i%5 == 0, IllTyped: 6, Tracers: i%2 == 1, Syntax: i%4 == 0})
					prog := g.program(2 + c.Rng.Intn(5))
					src := model.PrintStmts(prog, exprLayouts[i%len(exprLayouts)].st(c.Rng))
					c.Input(map[string]any{"source": src, "data": model.DescribeData(g.data)})
					got := evalString(c, src, model.NativeData(g.data))
					c.Nontrivial(src)
					checkOutcome(c, got, src, true)
				}})
			// every built-in x receiver x argument tuples
			type call struct {
				recv string
				name string
			}
			recvs := []string{
				`""`, `"a"`, `"héllo"`, `"中é"`, `"  pad  "`, `"12"`, `"-5"`, `"a,b"`, "s", "es", "bad1", "bad2", "bad3", "bad4", "bad5", "\"\xff\"", "\"\xe2\x82\"", "\"z\xc3\"",
				"[]", "[1, 2, 3]", `["a", "b"]`, "[[1], [2]]", "[{a: 1}]", "arr", "ea", "na", "mix", "rows",
				// values that only built-ins produce: empty arrays cut out of full ones, strings cut inside a character's escape
				"[1, 2].slice(2)", "[1, 2].slice(1, 1)", "arr.slice(3)", "arr.slice(9).reverse()", `"".split("")`, `"a,b".split(",").slice(2)`, "[1].slice(1).shuffle()", `"<b>".truncate(3, "")`, `"&".at(1)`,
				"0", "7", "neg", "big", "low", "(0 - 1)", "1.5", "fz", "fneg", "(0.0 - 2.5)", "1000000.5", "nan", "inf", "ninf", "tiny", "huge", "(0.0 / 0.0)", "(1.0 / 0.0)", "true", "false", "t",
				"nil", "n", "obj", "{}", "row", "nilp",
				// strings that are almost numbers; receivers of exactly 255, 256 and 257 characters or elements
				`"-"`, `"+"`, `"."`, `"-."`, `"+5"`, `"1e5"`, `" 5"`, `"٣"`, `"x".repeat(255)`, `"x".repeat(256)`, `"é".repeat(257)`, `"x".repeat(255).split("")`, `"x".repeat(256).split("")`,
			}
			var calls []call
			for _, rc := range recvs {
				for _, n := range allBuiltinNames {
					calls = append(calls, call{rc, n})
				}
			}
			argVals := []string{"0", "1", "-1", "2", "5", "-5", "6", "-6", "2147483648", "(0 - 2147483648)", "9223372036854775807", "(0 - 9223372036854775807 - 1)",
				`""`, `"a"`, `"é"`, `", "`, "1.5", "true", "nil", "[1]", "{a: 1}", "arr", "obj", "n", "nan", "inf"}
			secs = append(secs, core.Section{Name: "builtin-matrix", Exhaustive: true, N: len(calls),
				Run: func(c *core.Ctx, i int) {
					cl := calls[i]
					try := func(args ...string) {
						src := "<{{ (" + cl.recv + ")." + cl.name + "(" + strings.Join(args, ", ") + ") }}>"
						if oversized(cl, args) {
							c.Count("calls_skipped_result_would_be_huge", 1)
							return
						}
						c.Input(map[string]any{"source": src, "data": "hostileData()"})
						got := evalString(c, src, data)
						c.Nontrivial(src)
						checkOutcome(c, got, src, true)
					}
					try()
					for _, a := range argVals {
						try(a)
					}
					for _, a := range argVals {
						for _, b := range argVals {
							try(a, b)
						}
					}
					// three arguments: a thinner slice
					for k := 0; k < 60; k++ {
						try(argVals[c.Rng.Intn(len(argVals))], argVals[c.Rng.Intn(len(argVals))], argVals[c.Rng.Intn(len(argVals))])
					}
					if i%97 == 0 {
						c.Sample(fmt.Sprintf("(%s).%s(…) with 0..3 arguments from %d boundary values", cl.recv, cl.name, len(argVals)))
					}
				}})
			// receivers of every size around the powers of two up to 2^13 (2^16 in the thorough tier): every argument-less built-in returns
			sizes := []int{}
			maxP := 13
			if tier == core.Thorough {
				maxP = 16
			}
			for p := 0; p <= maxP; p++ {
				for d := -1; d <= 1; d++ {
					if n := 1<<p + d; n >= 0 {
						sizes = append(sizes, n)
					}
				}
			}
			secs = append(secs, core.Section{Name: "size-ladder", Exhaustive: true, N: len(sizes),
				Run: func(c *core.Ctx, i int) {
					n := sizes[i]
					for _, recv := range []string{fmt.Sprintf(`"x".repeat(%d)`, n), fmt.Sprintf(`"é".repeat(%d)`, n), fmt.Sprintf(`"ab".repeat(%d).split("")`, (n+1)/2), fmt.Sprintf("%d", n), fmt.Sprintf("%d.5", n)} {
						for _, name := range allBuiltinNames {
							if name == "shuffle" && n > 5000 {
								continue
							}
							src := "{{ x = (" + recv + ")." + name + "() }}{{ x == x }}"
							c.Input(map[string]any{"source": src})
							got := evalString(c, src, nil)
							c.Nontrivial(src)
							checkOutcome(c, got, src, true)
						}
					}
				}})
			// not-a-number, infinities, the smallest and the largest float under every operator
			specials := []string{"nan", "inf", "ninf", "tiny", "huge", "fz", "(0.0 - 0.0)", "(0.0 / 0.0)", "(inf - inf)", "(inf * 0.0)", "(1.0 / 0.0)", "(huge * huge)", "(0.0 - huge * 10.0)"}
			others := append(append([]string{}, specials...), "0", "1", "-1", "big", "low", "2.5", `"a"`, "true", "nil", "[1]", "{a: 1}")
			secs = append(secs, core.Section{Name: "special-floats", Exhaustive: true, N: len(specials),
				Run: func(c *core.Ctx, i int) {
					x := specials[i]
					try := func(src string) {
						c.Input(map[string]any{"source": src, "data": "hostileData()"})
						got := evalString(c, src, data)
						c.Nontrivial(src)
						checkOutcome(c, got, src, true)
					}
					for _, f := range []string{"{{ %s }}", "{{ -%s }}", "{{ !%s }}", "{{ (%s)++ }}", "{{ (%s)-- }}", "{{ q = %s }}{{ q++ }}{{ q }}", "{{ q = %s }}{{ q-- }}{{ q }}", "{{ q = %s }}{{ q-- }}{{ q-- }}{{ q++ }}{{ q }}",
						"@if(%s)y@else n@end", "{{ %s ? 1 : 2 }}", "{{ [1, 2][%s] }}", "{{ [%s] }}", "{{ {k: %s} }}", "@dump(%s)", "@each(v in [%s]){{ v-- }}{{ v }}@end", "@for(q = %s; q < 1; q++)x@break@end", "@for(q = %s; q > 1; q--)x@break@end"} {
						try(fmt.Sprintf(f, x))
					}
					for _, y := range others {
						for _, op := range binOps {
							try("{{ " + x + " " + op + " " + y + " }}")
							try("{{ " + y + " " + op + " " + x + " }}")
						}
					}
				}})
			// counts whose product with the byte length of the receiver (or separator) wraps around 2^64 to a small number
			secs = append(secs, core.Section{Name: "wrapping-products", Exhaustive: true, N: len(stringsOfByteLength),
				Run: func(c *core.Ctx, i int) {
					recv := stringsOfByteLength[i]
					for _, n := range wrappingCounts(len(recv)) {
						for _, src := range []string{
							fmt.Sprintf("{{ %q.repeat(%d) }}", recv, n), fmt.Sprintf("{{ r.repeat(n) }}"), fmt.Sprintf("{{ 5.decimal(%q, %d) }}", recv, n), fmt.Sprintf("{{ \"7\".decimal(r, n) }}"),
							fmt.Sprintf("{{ %q.repeat(%d / 1).len() }}", recv, n), fmt.Sprintf("{{ r.truncate(n, r) }}|{{ r.at(n) }}|{{ [r, r].slice(n) }}|{{ [r].slice(0, n) }}"),
						} {
							c.Input(map[string]any{"source": src, "r": recv, "n": n})
							got := evalString(c, src, map[string]any{"r": recv, "n": n})
							c.Nontrivial(fmt.Sprint(src, recv, n))
							checkOutcome(c, got, src, true)
						}
					}
				}})
			// trees whose files play unusual parts (a component that names a layout, a layout used as a component, inserts without
			// a layout, placeholders in pages …): loading returns, and every name renders or fails - through String, Response
			// and the file API - without a panic
			secs = append(secs, core.Section{Name: "files-in-unusual-parts", Exhaustive: true, N: len(oddTrees),
				Run: func(c *core.Ctx, i int) {
					files := oddTrees[i]
					c.Input(map[string]any{"files": describeFiles(files)})
					c.Nontrivial(fmt.Sprint("odd-tree", i, files))
					tpl, err := loadTree(c, "c09odd", files, ".tw")
					defer os.RemoveAll("c09odd")
					if err != nil || tpl == nil {
						if err != nil {
							c.Count("odd_trees_rejected_at_load", 1)
							if !strings.Contains(err.Error(), "Textwire ERROR") {
								c.Violation("load-error-shape", "load error is not a Textwire error: "+err.Error(), map[string]any{"files": describeFiles(files)})
							}
						}
					} else {
						for _, name := range tpl.VerifNames() {
							for _, d := range []map[string]any{nil, {"a": 1, "items": []int{1, 2}}} {
								got, _ := renderPage(c, tpl, name, d)
								if !got.Panicked {
									c.Count("odd_tree_renders", 1)
								}
								rec := newRecorder()
								c.Eval(1)
								c.Guard(func() { tpl.Response(rec, name, d) })
							}
						}
					}
					for f := range files {
						c.Eval(1)
						c.Guard(func() { textwire.EvaluateFile("c09odd/"+f, map[string]any{"a": 1}) })
					}
				}})
			// failing pages written through Response under every configuration of the error page (none, working, failing itself,
			// missing, one that uses a layout and a component) and of the debug flag: an error value comes back, never a crash
			respFaultPages := []string{"a\n{{ 7 % zero }}", "{{ user.name.first }}", "@each(v in 5)x@end", "{{ \"\".nofn() }}", "@for(;;){{ nope }}@end", "{{ [1][zero].x }}", "{{ loop }}", "@component(\"~card\", {t: 1 / zero})", "@use(\"~l\")@insert(\"b\", nope)"}
			errPages := []string{"", "errors/ok", "errors/fails", "errors/missing", "errors/rich", "errors/recursive"}
			secs = append(secs, core.Section{Name: "failing-pages-through-response", Exhaustive: true, N: len(respFaultPages) * len(errPages) * 2,
				Run: func(c *core.Ctx, i int) {
					debug := i%2 == 1
					i /= 2
					ep := errPages[i%len(errPages)]
					src := respFaultPages[i/len(errPages)]
					files := map[string]string{"page.tw": src, "good.tw": "fine {{ zero }}", "components/card.tw": "<{{ t }}>", "layouts/l.tw": "<@reserve(\"b\")>", "errors/ok.tw": "sorry", "errors/fails.tw": "sorry {{ 1 / 0 }}",
						"errors/rich.tw": "@use(\"~l\")@insert(\"b\")@component(\"~card\", {t: \"e\"})@end", "errors/recursive.tw": "@component(\"errors/recursive2\")", "errors/recursive2.tw": "{{ nope }}"}
					os.RemoveAll("c09resp")
					if err := writeFiles("c09resp", files); err != nil {
						c.Inconclusive(err.Error())
						return
					}
					defer os.RemoveAll("c09resp")
					textwire.VerifResetConfig()
					var tpl *textwire.Template
					var err error
					c.Eval(1)
					c.Input(map[string]any{"page": src, "error_page": ep, "debug": debug})
					if c.Guard(func() {
						tpl, err = textwire.NewTemplate(&config.Config{TemplateDir: "c09resp", TemplateExt: ".tw", ErrorPagePath: ep, DebugMode: debug})
					}) {
						return
					}
					c.Nontrivial(fmt.Sprint("resp", src, ep, debug))
					if err != nil || tpl == nil {
						c.Violation("response:load-failed", fmt.Sprintf("%v", err), map[string]any{"files": describeFiles(files)})
						return
					}
					data := map[string]any{"zero": 0, "user": map[string]any{"name": nil}}
					for _, name := range []string{"page", "good", "nope", "page"} {
						rec := newRecorder()
						var rerr error
						c.Eval(1)
						if c.Guard(func() { rerr = tpl.Response(rec, name, data) }) {
							return
						}
						if name == "good" {
							if rerr != nil || rec.body.String() != "fine 0" {
								c.Violation("response:good-page", fmt.Sprintf("the page that renders gave (%q, %v)", rec.body.String(), rerr), map[string]any{"error_page": ep})
							}
							continue
						}
						if rerr == nil {
							c.Violation("response:fault-not-reported", fmt.Sprintf("Response(%s) of a page that fails (%q) returned no error (error page %q, debug %v); it wrote %q", name, src, ep, debug, clipS(rec.body.String(), 120)), map[string]any{"page": src, "error_page": ep, "debug": debug})
							return
						}
					}
				}})
			// several goroutines evaluate at once, with property names, struct types and function names never seen before
			secs = append(secs, core.Section{Name: "concurrent-evaluation", N: 16,
				Run: func(c *core.Ctx, i int) {
					c.Input(map[string]any{"goroutines": 8, "inputs_each": 200, "round": i})
					c.Nontrivial(fmt.Sprint("burst", i, c.Seed))
					concurrentBurst(c, 8, 200, func(g, n int) (string, map[string]any, string) {
						id := fmt.Sprintf("%d_%d_%d_%d", c.Seed, i, g, n)
						st := reflect.StructOf([]reflect.StructField{{Name: "F", Type: reflect.TypeOf(0)}, {Name: "X" + id, Type: reflect.TypeOf("")}})
						sv := reflect.New(st).Elem()
						sv.Field(0).SetInt(int64(n))
						sv.Field(1).SetString("x" + id)
						src := "{{ u.k" + id + " }} {{ s.f }} {{ s.x" + id + " }} {{ {zz" + id + ": 1, aa: 2}.aa }} {{ \"ab\".len() }} {{ [3, 1].len() }}"
						data := map[string]any{"u": map[string]any{"K" + id: n}, "s": sv.Interface()}
						return src, data, fmt.Sprintf("%d %d x%s 2 2 2", n, n, id)
					})
				}})
			// integers around every power of two: as literals, stepped by ++/--, as loop counters, as loop metadata
			// of long arrays; and arrays that a careless append could make part of themselves
			pows := []int64{127, 128, 255, 256, 511, 512, 1023, 1024, 1025, 2047, 2048, 4095, 4096, 32767, 32768, 65535, 65536, 1 << 20, 1<<31 - 1, 1 << 31, 1 << 32}
			secs = append(secs, core.Section{Name: "integer-ladder-and-self-reference", Exhaustive: true, N: len(pows) + 1,
				Run: func(c *core.Ctx, i int) {
					d := data
					try := func(src string) {
						c.Input(map[string]any{"source": clipS(src, 300), "data": "hostileData()"})
						got := evalString(c, src, d)
						c.Nontrivial(clipS(src, 80))
						checkOutcome(c, got, clipS(src, 300), true)
					}
					if i == len(pows) {
						d = map[string]any{"many": manyInts(1100), "arr": []int{3, 1, 2}}
						for _, src := range []string{
							"@each(x in many)@if(loop.index > 1020 && loop.index < 1030){{ loop.index }},{{ loop.iter }};@end@end", "@each(x in many)@if(loop.last){{ x }} {{ loop.iter }}@end@end",
							"{{ many.len() }} {{ many[1024] }} {{ many.slice(1020, 1030) }} {{ many.reverse()[0] }}",
							"{{ x = [1, 2, 3] }}{{ y = x.slice(0, 2).append(x) }}{{ x }}|{{ y }}", "{{ x = [1, 2, 3] }}{{ y = x.slice(0, 2).append(x) }}@dump(x)", "{{ x = [1, 2, 3] }}{{ y = x.slice(0, 2).append(x) }}{{ x.join(\"-\") }}{{ x.len() }}",
							"{{ x = [1, 2, 3] }}{{ y = x.slice(1).prepend(x) }}{{ x }}{{ y }}", "{{ x = [[1], [2], [3]] }}{{ y = x.slice(0, 1).append(x[0]).append(x) }}{{ x }}{{ y.len() }}",
							"{{ o = {a: [1, 2, 3]} }}{{ z = o.a.slice(0, 2).append(o) }}{{ o }}|@dump(o)", "{{ x = arr.slice(0, 2).append(arr) }}{{ arr }}|{{ x }}",
						} {
							try(src)
						}
						return
					}
					v := pows[i]
					for _, d := range []int64{-2, -1, 0, 1, 2} {
						n := v + d
						try(fmt.Sprintf("{{ %d }}|{{ %d + 0 }}|{{ n = %d }}{{ n++ }}|{{ n-- }}|{{ -n }}|{{ n }}", n, n, n))
						try(fmt.Sprintf("{{ [%d, %d][1] }}{{ {k: %d}.k }}{{ %d.str() }}{{ %d.float() }}{{ \"x\".repeat(%d - %d) }}", n, n, n, n, n, n, n))
					}
					try(fmt.Sprintf("@for(k = %d; k < %d; k++){{ k }},@end", v-3, v+3))
					try(fmt.Sprintf("@for(k = %d; k > %d; k--){{ k }},@end", v+3, v-3))
					try(fmt.Sprintf("{{ k = %d }}@each(p in [1, 2, 3, 4, 5, 6]){{ k = k + 1 }}{{ k++ }}{{ k-- }};@end{{ k }}", v-3))
				}})
			// the line of a run-time fault after k lines that end in LF, CRLF, or hold a stray CR
			eols := []string{"\n", "\r\n", "\r \n", " \r x\n"}
			// (lines that hold tokens spanning lines: strings in either quote style, comments, blocks, directive arguments)
			multi := []string{"a line", "{{ q7 = nil }}{{ nil }}{{ true }}{{ false ? 1 : 1 }}{{ \"\" }}{{ [] }}{{ {} }}", "{{ \"two\nlines\" }}", "{{ 'two\nlines' + \"x\" }}{{-- a\ncomment --}}", "@if(\"a\nb\" ==\n\"c\")x@end{{ [1,\n2].len() }}"}
			secs = append(secs, core.Section{Name: "fault-lines", Exhaustive: true, N: len(faultExprs) * len(eols) * 5 * len(multi),
				Run: func(c *core.Ctx, i int) {
					filler := multi[i%len(multi)]
					i /= len(multi)
					k := i % 5
					i /= 5
					eol := eols[i%len(eols)]
					f := faultExprs[i/len(eols)]
					src := strings.Repeat(filler+eol, k) + "{{ " + f + " }}" + eol + "after" + eol
					k += k * strings.Count(filler, "\n")
					c.Input(map[string]any{"source": src, "data": "hostileData()"})
					got := evalString(c, src, data)
					c.Nontrivial(src)
					if got.Panicked {
						return
					}
					line, _, ok := ErrLinePath(got.Err)
					if got.Err == nil || !ok || line != k+1 {
						c.Violation("fault-line", fmt.Sprintf("the fault on line %d gave %s", k+1, got.Describe()), map[string]any{"source": src})
					}
				}})
			// a value that is nil (the literal, a nil pointer, a missing index, rand() of an empty array) in every
			// place of a template tree: the render returns output or an error value
			nilExprs := []string{"nil", "n", "nilp", "rowp.ptr", "[1][5]", "ea.rand()", "na.rand()", "false.then(1)", "nm.x"}
			secs = append(secs, core.Section{Name: "nil-values-in-places", Exhaustive: true, N: len(nilExprs) * len(faultPlaces),
				Run: func(c *core.Ctx, i int) {
					f, pl := nilExprs[i%len(nilExprs)], faultPlaces[i/len(nilExprs)]
					files := map[string]string{
						"layouts/main.tw":    "<html>@reserve(\"title\")|@reserve(\"body\")</html>",
						"layouts/faulty.tw":  "<html>{{ " + f + " }}@reserve(\"body\")</html>",
						"components/box.tw":  "<box>{{ used }}@if(false){{ dormant }}@end|@slot|@slot(\"foot\")</box>",
						"components/bad.tw":  "<bad>{{ " + f + " }}</bad>",
						"components/wrap.tw": "<wrap>@component(\"~box\", {used: 1, dormant: " + f + "})</wrap>",
						"page.tw":            strings.ReplaceAll(pl.page, "F", f),
					}
					tpl, err := loadTree(c, "c09nil", files, ".tw")
					c.Nontrivial("nil|" + pl.name + "|" + f)
					if err != nil || tpl == nil {
						return // (whether nil is accepted in a place is not this section's concern)
					}
					got, _ := renderPage(c, tpl, "page", data)
					checkOutcome(c, got, files["page.tw"], true)
				}})
			// one call site evaluated in several passes with receivers of changing kinds, for every built-in name
			mixedRecvs := []string{`"abc"`, "[1, 2]", "7", "2.5", "true", "nil", "{a: 1}", "nilp", "row"}
			secs = append(secs, core.Section{Name: "loop-call-sites", Exhaustive: true, N: len(allBuiltinNames) * len(mixedRecvs),
				Run: func(c *core.Ctx, i int) {
					name := allBuiltinNames[i%len(allBuiltinNames)]
					first := mixedRecvs[i/len(allBuiltinNames)]
					try := func(src string) {
						c.Input(map[string]any{"source": src, "data": "hostileData()"})
						got := evalString(c, src, data)
						c.Nontrivial(src)
						checkOutcome(c, got, src, true)
					}
					for _, second := range mixedRecvs {
						if second == first {
							continue
						}
						for _, args := range []string{"", "1", `"a"`, "0, 2"} {
							// the elements sit in objects (a loop variable keeps its kind, a property need not)
							try("{{ items = [{v: " + first + "}, {v: " + second + "}, {v: " + first + "}] }}@each(item in items)[{{ item.v." + name + "(" + args + ") }}]@end")
							try("{{ xs = [" + first + ", " + second + "] }}@for(k = 0; k < 2; k++)[{{ xs[k]." + name + "(" + args + ") }}]@end")
							try("@each(k in [0, 1, 0])[{{ (k == 0 ? " + first + " : " + second + ")." + name + "(" + args + ") }}]@end")
						}
					}
				}})
			// values nested far deeper than any page would: printed, dumped, walked, compared
			depths := []int{15, 16, 17, 18, 31, 32, 33, 64, 65, 200}
			secs = append(secs, core.Section{Name: "deep-nesting", Exhaustive: true, N: len(depths) * 2,
				Run: func(c *core.Ctx, i int) {
					d := depths[i/2]
					var v any = 1
					lit := "1"
					path := ""
					for k := 0; k < d; k++ {
						if i%2 == 0 {
							v, lit, path = []any{v}, "["+lit+"]", "[0]"+path
						} else if k%2 == 0 {
							v, lit, path = map[string]any{"k": v}, "{k: "+lit+"}", ".k"+path
						} else {
							v, lit, path = []any{v, "x"}, "["+lit+", \"x\"]", "[0]"+path
						}
					}
					dd := map[string]any{"v": v}
					for _, src := range []string{"{{ v }}", "@dump(v)", "{{ v" + path + " }}", "{{ v.len() }}", "@each(e in v){{ e }}@end", "{{ " + lit + " }}", "@dump(" + lit + ")", "{{ x = " + lit + " }}{{ x" + path + " }}",
						"{{ [v].contains(v) }}", "@dump(v, v)", "@if(v)y@end", "{{ v ? 1 : 2 }}"} {
						c.Input(map[string]any{"source": clipS(src, 300), "nesting_depth": d})
						got := evalString(c, src, dd)
						c.Nontrivial(fmt.Sprint(d, i%2, clipS(src, 40)))
						checkOutcome(c, got, clipS(src, 300), true)
					}
				}})
			// a failing expression in every place of a template tree, also where the value is never used:
			// the render must end in an error value with a line, and must not end in output
			secs = append(secs, core.Section{Name: "fault-places", Exhaustive: true, N: len(faultExprs) * len(faultPlaces),
				Run: func(c *core.Ctx, i int) {
					f, pl := faultExprs[i%len(faultExprs)], faultPlaces[i/len(faultExprs)]
					files := map[string]string{
						"layouts/main.tw":    "<html>@reserve(\"title\")|@reserve(\"body\")</html>",
						"layouts/faulty.tw":  "<html>{{ " + f + " }}@reserve(\"body\")</html>",
						"components/box.tw":  "<box>{{ used }}@if(false){{ dormant }}@end|@slot|@slot(\"foot\")</box>",
						"components/bad.tw":  "<bad>{{ " + f + " }}</bad>",
						"components/wrap.tw": "<wrap>@component(\"~box\", {used: 1, dormant: " + f + "})</wrap>",
						"page.tw":            strings.ReplaceAll(pl.page, "F", f),
					}
					tpl, err := loadTree(c, "c09tree", files, ".tw")
					c.Nontrivial(pl.name + "|" + f)
					if err != nil {
						c.Violation("fault-places:load", "a well-formed tree was rejected: "+err.Error(), map[string]any{"place": pl.name, "fault": f, "files": describeFiles(files)})
						return
					}
					if tpl == nil {
						return
					}
					got, _ := renderPage(c, tpl, "page", data)
					if i%53 == 0 {
						c.Sample(map[string]any{"place": pl.name, "fault": f, "page": files["page.tw"], "outcome": clipS(got.Describe(), 160)})
					}
					checkOutcome(c, got, files["page.tw"], true)
					if got.Panicked {
						return
					}
					if !pl.either && pl.evaluated && got.Err == nil {
						c.Violation("fault-lost:"+pl.name, fmt.Sprintf("the fault %s in place %q was evaluated but the render succeeded with %q", f, pl.name, clipS(got.Out, 200)), map[string]any{"place": pl.name, "fault": f, "files": describeFiles(files)})
					}
					if !pl.either && !pl.evaluated && got.Err != nil {
						c.Violation("fault-raised-unevaluated:"+pl.name, fmt.Sprintf("the fault %s in the unevaluated place %q failed the render: %s", f, pl.name, got.Err.Error()), map[string]any{"place": pl.name, "fault": f, "files": describeFiles(files)})
					}
				}})
			// data maps: nil pointers and unsupported kinds at depth 0..3
			secs = append(secs, core.Section{Name: "hostile-data", N: nData,
				Run: func(c *core.Ctx, i int) {
					// (maps with keys that are not strings print all keys alike: which entry survives is not defined, so these
					// evaluations stay out of the sample that is replayed concurrently)
					defer poolPause(c)()
					d, desc, unsupported := plantedData(c.Rng)
					src := []string{"ok", "{{ v }}", "@each(e in v){{ e }}@end", "{{ v.a }}", "{{ v[0] }}", "{{ v.len() }}", "@dump(v)", "@if(v)y@end"}[c.Rng.Intn(8)]
					c.Input(map[string]any{"source": src, "data": desc})
					// the environment is built directly as well: it must fail or succeed, never crash
					c.Guard(func() {
						env, ferr := object.EnvFromMap(d)
						if (env == nil) == (ferr == nil) {
							c.Violation("envfrommap-contract", fmt.Sprintf("EnvFromMap returned env=%v err=%v", env != nil, ferr), map[string]any{"data": desc})
						}
						if unsupported && ferr == nil {
							c.Violation("unsupported-accepted", "a data map holding an unsupported value was accepted", map[string]any{"data": desc})
						}
					})
					got := evalString(c, src, d)
					c.Nontrivial(src + desc)
					if i < 3 {
						c.Sample(map[string]any{"source": src, "data": desc, "outcome": clipS(got.Describe(), 120)})
					}
					checkOutcome(c, got, src, false)
					if unsupported && !got.Failed() {
						c.Violation("unsupported-accepted", "a render with an unsupported value in the data succeeded", map[string]any{"source": src, "data": desc})
					}
				}})
			return secs
		},
	})
}

func clipS(s string, n int) string {
	if len(s) > n {
		return s[:n] + "…"
	}
	return s
}

// oversized: calls whose correct result would be huge are not made
func oversized(cl struct {
	recv string
	name string
}, args []string) bool {
	isHuge := func(a string) bool { return a == "2147483648" }
	if len(args) == 0 {
		return false
	}
	switch cl.name {
	case "repeat":
		// 2^31 repetitions of a non-empty string lie above the refusal limit
		// only for receivers of two bytes or more; skip the rest
		return isHuge(args[0])
	case "decimal":
		return len(args) > 1 && isHuge(args[1])
	}
	return false
}

type unsupportedStruct struct {
	OK int
	Ch chan int
}

// plantedData builds a data map with a nil pointer or an unsupported kind
// planted at a random depth inside supported containers
func plantedData(r *rand.Rand) (map[string]any, string, bool) {
	var nilPtr *c09Row
	var nilIntPtr *int
	leaves := []struct {
		v           any
		name        string
		unsupported bool
	}{
		{nilPtr, "nil *struct", false}, {nilIntPtr, "nil *int", false}, {nil, "nil", false}, {[]any(nil), "nil []any", false},
		{map[string]any(nil), "nil map", false}, {&c09Row{}, "&struct{nil fields}", false},
		{map[any]any{1: "x"}, "map[any]any{1: x}", false}, {map[any]any{nil: 1}, "map[any]any{nil: 1}", false}, {map[any]any{"a": 1, true: 2}, "map[any]any{a, true}", false},
		{map[int]string{3: "x"}, "map[int]string", false}, {map[bool]int{true: 1}, "map[bool]int", false}, {map[float64]int{1.5: 1}, "map[float64]int", false},
		{map[[2]int]int{{1, 2}: 1}, "map[[2]int]int", false}, {map[*int]int{nil: 1}, "map[*int]int", false}, {map[any]string{"k": "v"}, "map[any]string", false},
		{make(chan int), "chan", true}, {func() {}, "func", true}, {complex(1, 2), "complex", true}, {[2]int{1, 2}, "[2]int", true},
		{unsupportedStruct{}, "struct{chan}", true}, {&unsupportedStruct{}, "&struct{chan}", true},
		{[]chan int{nil}, "[]chan", true}, {map[string]func(){"f": nil}, "map[string]func", true},
		{uintptr(1), "uintptr", true},
	}
	lf := leaves[r.Intn(len(leaves))]
	v := lf.v
	desc := lf.name
	depth := r.Intn(4)
	for d := 0; d < depth; d++ {
		switch r.Intn(5) {
		case 0:
			v, desc = []any{1, v}, "[]any{1, "+desc+"}"
		case 1:
			v, desc = map[string]any{"a": v, "b": "x"}, "map{a: "+desc+"}"
		case 2:
			v, desc = struct {
				A any
				b int
			}{A: v}, "struct{A: "+desc+"}"
		case 3:
			p := v
			v, desc = &p, "&"+desc
		default:
			v, desc = [][]any{{v}}, "[][]any{{"+desc+"}}"
		}
	}
	return map[string]any{"v": v, "w": 1}, desc, lf.unsupported
}
