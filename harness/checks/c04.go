package checks

import (
	"fmt"

	"verif/core"
	"verif/model"
)

// C04 — variables are block scoped, type stable, and 'loop' is reserved.

type scopeSym struct {
	kind int // 0 assign, 1 read, 2 open, 3 close
	name string
	typ  int // assign: index into scopeTypes; open: block kind
}

var scopeTypes = []model.Value{model.Int(7), model.Str("s"), model.Arr(model.Int(1))}

var scopeAlphabet = func() []scopeSym {
	var out []scopeSym
	for _, n := range []string{"a", "b"} {
		for t := range scopeTypes {
			out = append(out, scopeSym{0, n, t})
		}
	}
	for _, n := range []string{"a", "b"} {
		out = append(out, scopeSym{1, n, 0})
	}
	for k := 0; k < 5; k++ {
		out = append(out, scopeSym{2, "", k})
	}
	out = append(out, scopeSym{3, "", 0})
	return out
}()

// valueOfType makes distinguishable values of one type: the n-th assignment
// gets its own content so that a read identifies the assignment it saw
func valueOfType(t int, n int) model.Value {
	switch t {
	case 0:
		return model.Int(int64(100 + n))
	case 1:
		return model.Str(fmt.Sprintf("s%d", n))
	}
	return model.Arr(model.Int(int64(n)), model.Int(int64(n+1)))
}

// buildScopeProgram turns a symbol sequence into statements; ok is false
// when the sequence closes a block that is not open
func buildScopeProgram(seq []scopeSym) (prog []model.Stmt, ok bool) {
	type frame struct {
		kind  int
		stmts []model.Stmt
	}
	stack := []frame{{-1, nil}}
	emit := func(s ...model.Stmt) { stack[len(stack)-1].stmts = append(stack[len(stack)-1].stmts, s...) }
	closeTop := func() {
		f := stack[len(stack)-1]
		stack = stack[:len(stack)-1]
		body := append(f.stmts, model.Text{S: ")\n"})
		switch f.kind {
		case 0:
			emit(model.If{Conds: []model.Expr{model.Lit{V: model.Bool(true)}}, Bodies: [][]model.Stmt{body}})
		case 1:
			emit(model.Each{Var: fmt.Sprintf("e%d", len(stack)), Arr: intArr(1, 2), Body: body})
		case 3: // the @else branch of an @if
			emit(model.If{Conds: []model.Expr{model.Lit{V: model.Bool(false)}}, Bodies: [][]model.Stmt{{model.Text{S: "(no)"}}}, Else: append([]model.Stmt{model.Text{S: " "}}, body...)})
		case 4: // an @elseif branch
			emit(model.If{Conds: []model.Expr{model.Lit{V: model.Int(0)}, model.Lit{V: model.Int(1)}}, Bodies: [][]model.Stmt{{model.Text{S: "(no)"}}, body}, Else: []model.Stmt{model.Text{S: " (no)"}}})
		case 2:
			k := fmt.Sprintf("k%d", len(stack))
			emit(model.For{Init: &model.Assign{Name: k, E: model.Lit{V: model.Int(0)}},
				Cond: model.Binary{Op: "<", L: model.Var{Name: k}, R: model.Lit{V: model.Int(2)}},
				Post: model.Print{E: model.Postfix{Op: "++", X: model.Var{Name: k}}}, Body: body})
		}
	}
	for i, sy := range seq {
		switch sy.kind {
		case 0:
			emit(model.Assign{Name: sy.name, E: literalOf(valueOfType(sy.typ, i))}, model.Text{S: "\n"})
		case 1:
			emit(model.Text{S: fmt.Sprintf("<r%d:", i)}, model.Print{E: model.Var{Name: sy.name}}, model.Text{S: ">\n"})
		case 2:
			stack = append(stack, frame{sy.typ, []model.Stmt{model.Text{S: "(\n"}}})
		case 3:
			if len(stack) == 1 {
				return nil, false
			}
			closeTop()
		}
	}
	for len(stack) > 1 {
		closeTop()
	}
	return stack[0].stmts, true
}

var scopeDataTypes = []model.Value{model.Int(-5), model.Str("data"), model.Arr(model.Int(9))}

// scopeData pre-binds a and b: 0 = unbound, 1.. = a type
// lookAlikes are data names that differ from the names the programs use only in the case of the
// first letter: they are other variables, never a fallback for an unbound name
func lookAlikes(d map[string]model.Value) map[string]model.Value {
	out := map[string]model.Value{"A": model.Int(901), "B": model.Str("cap-b"), "Loop": model.Obj(map[string]model.Value{"index": model.Int(99), "iter": model.Int(98)}),
		"N": model.Int(902), "X": model.Int(903), "F": model.Float(90.5), "G": model.Float(91.5), "E": model.Int(904), "V": model.Int(905), "K": model.Int(906)}
	for k, v := range d {
		out[k] = v
	}
	return out
}

func scopeData(code int) map[string]model.Value {
	d := map[string]model.Value{}
	if k := code % 4; k > 0 {
		d["a"] = scopeDataTypes[k-1]
	}
	if k := (code / 4) % 4; k > 0 {
		d["b"] = scopeDataTypes[k-1]
	}
	return d
}

func init() {
	core.Register(&core.Check{
		ID:    "C04",
		Level: "exploration",
		Rule: "cases are all sequences (up to a length bound) over {assign a|b a value of type int|string|array, read a|b, open @if|@else|@elseif|@each|@for block, close block}, each under every pre-binding of a and b in the data map (unbound or one of three types); every assignment carries a distinct value so a read identifies the assignment it observed; plus all ordered type pairs (7 kinds) for re-assignment in the same block, in a nested block, against data and as loop variable, the reserved name loop in every binding position, and seeded random scope-heavy programs. " +
			"Each program is rendered by the real code and compared with an interpreter that keeps an explicit scope chain. array results across blocks, insert bodies assigning layout variables, capitalised look-alike data names; round 9: built-in results assigned in blocks; scale: blocks 300 deep; concurrent replay; rounds 10-11: data-less render sequences, saved loop objects; rounds 12-13: 182 names over the alphabet, operators leave their operands alone; distinct_nontrivial = distinct sources with at least one assignment or read",
		Assumptions: []string{
			"a loop is one block for all its passes (a name assigned in one pass is visible in the next)",
			"component arguments colliding in type with visible names are exercised by C07's tree workload as well",
		},
		Setup: func(c *core.Ctx) {
			if err := registerTracers(); err != nil {
				panic(err)
			}
		},
		Sections: func(tier core.Tier, seed int64) []core.Section {
			var secs []core.Section
			A := len(scopeAlphabet)
			maxLen := 4
			if tier == core.Thorough {
				maxLen = 5
			}
			for L := 1; L <= maxLen; L++ {
				L := L
				n := 1
				for k := 0; k < L; k++ {
					n *= A
				}
				secs = append(secs, core.Section{Name: fmt.Sprintf("sequences-len%d", L), Exhaustive: true, N: n,
					Run: func(c *core.Ctx, i int) {
						seq := make([]scopeSym, L)
						x := i
						for k := L - 1; k >= 0; k-- {
							seq[k] = scopeAlphabet[x%A]
							x /= A
						}
						prog, ok := buildScopeProgram(seq)
						if !ok || len(prog) == 0 {
							return
						}
						for code := 0; code < 16; code++ {
							judgeScope(c, prog, scopeData(code), "sequence")
						}
					}})
			}
			// all ordered type pairs for re-assignment, in every placement
			nk := len(kindSamples)
			secs = append(secs, core.Section{Name: "retype-pairs", Exhaustive: true, N: nk * nk * 8,
				Run: func(c *core.Ctx, i int) {
					place := i % 8
					i /= 8
					first, second := kindSamples[i/nk], kindSamples[i%nk]
					second = differentContent(second)
					x := model.Var{Name: "x"}
					read := []model.Stmt{model.Text{S: "<"}, model.Print{E: x}, model.Text{S: ">"}}
					asg := func(v model.Value) model.Stmt { return model.Assign{Name: "x", E: literalOf(v)} }
					inIf := func(b ...model.Stmt) model.Stmt {
						return model.If{Conds: []model.Expr{model.Lit{V: model.Int(1)}}, Bodies: [][]model.Stmt{append([]model.Stmt{model.Text{S: "("}}, append(b, model.Text{S: ")"})...)}}
					}
					data := map[string]model.Value{}
					var prog []model.Stmt
					switch place {
					case 0: // same block
						prog = append([]model.Stmt{asg(first), asg(second)}, read...)
					case 1: // nested @if, read inside and after
						prog = append(append([]model.Stmt{asg(first), inIf(append([]model.Stmt{asg(second)}, read...)...)}, model.Text{S: "|"}), read...)
					case 2: // against a data variable
						data["x"] = first
						prog = append([]model.Stmt{asg(second)}, read...)
					case 3: // data variable, assignment in a nested @each
						data["x"] = first
						prog = append([]model.Stmt{model.Each{Var: "e", Arr: intArr(1, 2), Body: append([]model.Stmt{model.Text{S: "("}, asg(second)}, append(read, model.Text{S: ")"})...)}, model.Text{S: "|"}}, read...)
					case 4: // @each variable against a visible name
						prog = append([]model.Stmt{asg(first), model.Each{Var: "x", Arr: model.ArrLit{Elems: []model.Expr{literalOf(second)}}, Body: append([]model.Stmt{model.Text{S: "("}}, append(read, model.Text{S: ")"})...)}, model.Text{S: "|"}}, read...)
					case 5: // elements of two types in one @each
						prog = []model.Stmt{model.Each{Var: "e", Arr: model.ArrLit{Elems: []model.Expr{literalOf(first), literalOf(second)}}, Body: []model.Stmt{model.Text{S: "("}, model.Print{E: model.Var{Name: "e"}}, model.Text{S: ")"}}}}
					case 6: // @for init against a visible name; the loop variable vanishes afterwards
						if second.K != model.KInt {
							prog = append([]model.Stmt{asg(first), model.For{Init: &model.Assign{Name: "x", E: literalOf(second)}, Body: []model.Stmt{model.Text{S: "(once)"}, model.Break{}}}}, read...)
						} else {
							prog = append([]model.Stmt{asg(first), upFor("x", 0, 1, append([]model.Stmt{model.Text{S: "("}}, append(read, model.Text{S: ")"})...), nil), model.Text{S: "|"}}, read...)
						}
					case 7: // two sibling blocks: the second one starts fresh
						prog = append([]model.Stmt{inIf(asg(first)), inIf(append([]model.Stmt{asg(second)}, read...)...)}, model.Text{S: "|"})
					}
					judgeScope(c, prog, data, "retype")
				}})
			// the reserved name
			loopCases := reservedLoopCases()
			secs = append(secs, core.Section{Name: "reserved-loop", Exhaustive: true, N: len(loopCases),
				Run: func(c *core.Ctx, i int) { judgeScope(c, loopCases[i].prog, loopCases[i].data, "reserved-loop") }})
			// a component is a block: its arguments and what its file assigns vanish when it ends
			compCases := componentScopeCases()
			secs = append(secs, core.Section{Name: "component-scope", Exhaustive: true, N: len(compCases),
				Run: func(c *core.Ctx, i int) {
					cs := compCases[i]
					t := newTree("c04tree", ".tw")
					t.files["components/c"] = cs.comp
					t.files["page"] = cs.page
					files := t.sources(model.Style{Layout: model.SpaceLayout})
					tpl, err := loadTree(c, "c04tree", files, ".tw")
					c.Nontrivial(fmt.Sprint(files, cs.data))
					c.Sample(map[string]any{"files": describeFiles(files), "data": model.DescribeData(cs.data)})
					if err != nil {
						c.Violation("component-scope:load-failed", err.Error(), map[string]any{"files": describeFiles(files)})
						return
					}
					if tpl == nil {
						return
					}
					exp := t.expectPage("page", cs.data)
					got, _ := renderPage(c, tpl, "page", model.NativeData(cs.data))
					if why := compare(exp, got, false, nil); why != "" {
						c.Violation("component-scope:"+scopeFailureClass(exp, got), why, map[string]any{"files": describeFiles(files), "data": model.DescribeData(cs.data), "expected": expectText(exp)})
					}
				}})
			// arrays built from one base by append/slice/prepend in nested blocks and loops: every variable
			// keeps showing what was assigned to it
			alias := arrayAliasCases()
			secs = append(secs, core.Section{Name: "array-results-across-blocks", Exhaustive: true, N: len(alias),
				Run: func(c *core.Ctx, i int) { judgeScope(c, alias[i].prog, alias[i].data, "array-alias") }})
			// the result of a built-in on a visible name, assigned to that name (or to another) inside a nested block: after the
			// block the enclosing block sees the value it had, whatever the built-in does with its receiver
			type bcase struct {
				val  model.Expr
				name string
				args []model.Expr
			}
			negZero := model.Binary{Op: "*", L: model.Lit{V: model.Float(0)}, R: model.Unary{Op: "-", X: model.Lit{V: model.Float(1.5)}}}
			arr := literalOf(model.Arr(model.Int(3), model.Int(1), model.Int(2), model.Int(9), model.Int(5)))
			one := model.Lit{V: model.Int(1)}
			var bcases []bcase
			for _, v := range []model.Expr{negZero, model.Unary{Op: "-", X: model.Lit{V: model.Float(0)}}, model.Lit{V: model.Float(0)}, model.Unary{Op: "-", X: model.Lit{V: model.Float(2.5)}}, model.Lit{V: model.Float(2.5)}} {
				for _, n := range []string{"abs", "ceil", "floor", "round"} {
					bcases = append(bcases, bcase{v, n, nil})
				}
			}
			for _, v := range []model.Expr{model.Unary{Op: "-", X: model.Lit{V: model.Int(7)}}, model.Lit{V: model.Int(0)}} {
				bcases = append(bcases, bcase{v, "abs", nil})
			}
			for _, n := range []string{"reverse", "slice", "append", "prepend"} {
				args := []model.Expr{}
				if n != "reverse" {
					args = []model.Expr{one}
				}
				bcases = append(bcases, bcase{arr, n, args})
			}
			for _, n := range []string{"upper", "lower", "trim", "reverse", "capitalize"} {
				bcases = append(bcases, bcase{model.StrLit{S: " aB é "}, n, nil})
			}
			secs = append(secs, core.Section{Name: "built-in-results-assigned-in-blocks", Exhaustive: true, N: len(bcases)*3 + 6,
				Run: func(c *core.Ctx, i int) {
					if i >= len(bcases)*3 {
						// shuffle(): the result varies, what the enclosing block sees afterwards does not
						k := i - len(bcases)*3
						pre := []string{"{{ a = [1, 2, 3, 4, 5, 6, 7, 8, 9, 10, 11, 12, 13, 14, 15, 16, 17, 18, 19, 20] }}", ""}[k%2]
						blockSrc := []string{"@if(true){{ a = a.shuffle() }}{{ a.len() }}@end", "@each(p in [1, 2, 3]){{ b = a.shuffle() }}{{ a = b.shuffle() }}@end", "@if(false)@elseif(true){{ a = a.slice(0).shuffle() }}{{ q = a.shuffle() }}@end"}[k/2]
						src := pre + blockSrc + "|{{ a }}"
						want := []string{"20", "", ""}[k/2] + "|1, 2, 3, 4, 5, 6, 7, 8, 9, 10, 11, 12, 13, 14, 15, 16, 17, 18, 19, 20"
						data := map[string]any{}
						if pre == "" {
							xs := make([]int, 20)
							for n := range xs {
								xs[n] = n + 1
							}
							data["a"] = xs
						}
						c.Input(map[string]any{"source": src})
						got := evalString(c, src, data)
						c.Nontrivial(src)
						if !got.Panicked && (got.Err != nil || got.Out != want) {
							c.Violation("assigned-in-block:shuffle", fmt.Sprintf("%s gave %s, want %q", src, got.Describe(), want), map[string]any{"source": src})
						}
						return
					}
					bc := bcases[i/3]
					call := model.Call{X: model.Var{Name: "z"}, Name: bc.name, Args: bc.args}
					var inner []model.Stmt
					switch i % 3 {
					case 0: // re-assigned to the same name
						inner = []model.Stmt{model.Assign{Name: "z", E: call}, model.Print{E: model.Var{Name: "z"}}}
					case 1: // bound to another name, twice
						inner = []model.Stmt{model.Assign{Name: "r", E: call}, model.Assign{Name: "r2", E: call}, model.Print{E: model.Var{Name: "r"}}}
					default: // called in every pass of a loop
						inner = []model.Stmt{model.Each{Var: "p", Arr: intArr(1, 2), Body: []model.Stmt{model.Assign{Name: "r", E: call}, model.Print{E: model.Var{Name: "r"}}}}}
					}
					prog := []model.Stmt{model.Assign{Name: "z", E: bc.val}, model.If{Conds: []model.Expr{model.Lit{V: model.Bool(true)}}, Bodies: [][]model.Stmt{inner}}, model.Text{S: "|"}, model.Print{E: model.Var{Name: "z"}}}
					judgeScope(c, prog, nil, "assigned-in-block")
				}})
			// operators read their operands: after -z, !z, z + z ... inside a block, a loop or on an element, the variable holds
			// what it was given (only an assignment or ++/-- changes a variable)
			{
				z := model.Var{Name: "z"}
				vals := []model.Value{model.Int(3), model.Float(1.5), model.Float(-0.25), model.Bool(true), model.Str("s"), model.Int(-9223372036854775807)}
				ops := []func(x model.Expr) model.Expr{
					func(x model.Expr) model.Expr { return model.Unary{Op: "-", X: x} },
					func(x model.Expr) model.Expr { return model.Unary{Op: "!", X: x} },
					func(x model.Expr) model.Expr { return model.Binary{Op: "+", L: x, R: x} },
					func(x model.Expr) model.Expr { return model.Binary{Op: "*", L: model.Unary{Op: "-", X: x}, R: x} },
					func(x model.Expr) model.Expr { return model.Binary{Op: "==", L: model.Unary{Op: "-", X: x}, R: x} },
					func(x model.Expr) model.Expr { return model.Ternary{C: x, A: model.Unary{Op: "-", X: x}, B: x} },
					func(x model.Expr) model.Expr {
						return model.Unary{Op: "-", X: model.Paren{X: model.Unary{Op: "-", X: x}}}
					},
				}
				secs = append(secs, core.Section{Name: "operators-leave-operands-alone", Exhaustive: true, N: len(vals) * len(ops) * 4,
					Run: func(c *core.Ctx, i int) {
						place := i % 4
						i /= 4
						op := ops[i%len(ops)]
						v := vals[i/len(ops)]
						var prog []model.Stmt
						data := map[string]model.Value{}
						switch place {
						case 0: // in a block, result bound to another name
							prog = []model.Stmt{model.Assign{Name: "z", E: literalOf(v)}, model.If{Conds: []model.Expr{model.Lit{V: model.Bool(true)}}, Bodies: [][]model.Stmt{{model.Assign{Name: "g", E: op(z)}, model.Print{E: model.Var{Name: "g"}}}}}, model.Text{S: "|"}, model.Print{E: z}}
						case 1: // printed in every pass of a loop
							prog = []model.Stmt{model.Assign{Name: "z", E: literalOf(v)}, model.Each{Var: "p", Arr: intArr(1, 2, 3), Body: []model.Stmt{model.Print{E: op(z)}, model.Text{S: ","}}}, model.Text{S: "|"}, model.Print{E: z}}
						case 2: // on an element of an array and a value of an object
							el := model.Index{X: model.Var{Name: "a"}, I: model.Lit{V: model.Int(0)}}
							prog = []model.Stmt{model.Assign{Name: "a", E: model.ArrLit{Elems: []model.Expr{literalOf(v)}}}, model.Assign{Name: "o", E: model.ObjLit{Keys: []string{"k"}, Vals: []model.Expr{literalOf(v)}}},
								model.Print{E: op(el)}, model.Print{E: op(model.Dot{X: model.Var{Name: "o"}, Name: "k"})}, model.Text{S: "|"}, model.Print{E: el}, model.Text{S: "|"}, model.Print{E: model.Dot{X: model.Var{Name: "o"}, Name: "k"}}}
						default: // on a value of the data, read through a loop variable
							data["z"] = v
							data["zs"] = model.Arr(v, v)
							prog = []model.Stmt{model.Each{Var: "w", Arr: model.Var{Name: "zs"}, Body: []model.Stmt{model.Print{E: op(model.Var{Name: "w"})}, model.Print{E: op(z)}, model.Text{S: ","}}}, model.Text{S: "|"}, model.Print{E: z}, model.Text{S: "|"}, model.Print{E: model.Var{Name: "zs"}}}
						}
						judgeScope(c, prog, data, "operators-leave-operands")
					}})
			}
			// one loaded Template, pages rendered one after the other without data: a name assigned by one render is not
			// visible to (and not typed for) the next
			secs = append(secs, core.Section{Name: "data-less-renders-of-one-template", Exhaustive: true, N: 3,
				Run: func(c *core.Ctx, i int) {
					switch i {
					case 0:
						judgeDataLessSequence(c, "c04nil", map[string]string{"a.tw": "{{ n = 1 }}[{{ n }}]", "b.tw": "{{ n = \"two\" }}[{{ n }}]", "c.tw": "[{{ n }}]", "d.tw": "@if(true){{ n = 2.5 }}@end[{{ n }}]"},
							[]dataLessStep{{"a", "[1]", false}, {"b", "[two]", false}, {"c", "", true}, {"a", "[1]", false}, {"d", "", true}, {"b", "[two]", false}}, "data-less")
					case 1:
						judgeDataLessSequence(c, "c04nil", map[string]string{"a.tw": "@each(v in [1, 2]){{ w = v }}@end{{ total = [1] }}{{ total }}", "b.tw": "{{ total = {k: 1} }}{{ total.k }}{{ v = true }}{{ v }}", "c.tw": "{{ w }}", "e.tw": "{{ v }}"},
							[]dataLessStep{{"a", "1", false}, {"b", "11", false}, {"c", "", true}, {"e", "", true}, {"a", "1", false}}, "data-less")
					default:
						judgeDataLessSequence(c, "c04nil", map[string]string{"components/c.tw": "<{{ title }}>", "a.tw": "{{ title = \"About\" }}@component(\"~c\")", "b.tw": "@component(\"~c\", {title: 3})", "c.tw": "@component(\"~c\")",
							"layouts/l.tw": "{{ seen = 1 }}(@reserve(\"b\")){{ seen }}", "d.tw": "@use(\"~l\")@insert(\"b\"){{ seen = seen + 1 }}{{ inner = \"i\" }}@end", "f.tw": "@use(\"~l\")@insert(\"b\", inner)"},
							[]dataLessStep{{"a", "<About>", false}, {"b", "<3>", false}, {"c", "", true}, {"d", "()2", false}, {"f", "", true}, {"d", "()2", false}}, "data-less")
					}
				}})
			// names over the whole alphabet (every letter in either case, digits and underscores in every position): assigned,
			// shadowed in a nested block, bound by a loop, re-typed
			var alphaNames []string
			for ch := 'A'; ch <= 'Z'; ch++ {
				alphaNames = append(alphaNames, string(ch), string(ch+32), "v"+string(ch)+"x", "size"+string(ch), string(ch)+"ed", "_"+string(ch+32), string(ch+32)+"9_")
			}
			secs = append(secs, core.Section{Name: "names-over-the-alphabet", Exhaustive: true, N: len(alphaNames),
				Run: func(c *core.Ctx, i int) {
					n := alphaNames[i]
					if isKeyword(n) || n == "loop" {
						return
					}
					v := model.Var{Name: n}
					prog := []model.Stmt{model.Assign{Name: n, E: model.Lit{V: model.Int(1)}}, model.If{Conds: []model.Expr{model.Lit{V: model.Bool(true)}}, Bodies: [][]model.Stmt{{model.Assign{Name: n, E: model.Lit{V: model.Int(2)}}, model.Print{E: v}}}},
						model.Print{E: v}, model.Each{Var: n + "2", Arr: intArr(7, 8), Body: []model.Stmt{model.Print{E: model.Binary{Op: "+", L: model.Var{Name: n + "2"}, R: v}}}}, model.Text{S: "|"}, model.Print{E: model.Var{Name: "d" + n}}}
					judgeScope(c, prog, map[string]model.Value{"d" + n: model.Str("data")}, "alphabet-name")
					judgeScope(c, []model.Stmt{model.Assign{Name: n, E: model.Lit{V: model.Int(1)}}, model.If{Conds: []model.Expr{model.Lit{V: model.Bool(true)}}, Bodies: [][]model.Stmt{{model.Assign{Name: n, E: model.StrLit{S: "s"}}}}}, model.Print{E: v}}, nil, "alphabet-name-retyped")
				}})
			// blocks inside one another to depth 15..300: each level assigns a name of its own and shadows nothing; the
			// innermost block sees them all, after each block its name is gone and the outer ones are as they were
			deepSizes := []int{15, 16, 17, 63, 64, 65, 127, 128, 129, 255, 256, 300}
			secs = append(secs, core.Section{Name: "deep-blocks", Exhaustive: true, N: len(deepSizes) * 4,
				Run: func(c *core.Ctx, i int) {
					n := deepSizes[i%len(deepSizes)]
					variant := i / len(deepSizes)
					lit := func(v int64) model.Expr { return model.Lit{V: model.Int(v)} }
					name := func(l int) string { return fmt.Sprintf("v%d", l) }
					// innermost: read three names of enclosing levels, the data name and the name of the template level
					inner := []model.Stmt{model.Text{S: "<"}, model.Print{E: model.Var{Name: name(0)}}, model.Text{S: ","}, model.Print{E: model.Var{Name: name(n / 2)}}, model.Text{S: ","},
						model.Print{E: model.Var{Name: name(n - 1)}}, model.Text{S: ","}, model.Print{E: model.Var{Name: "d"}}, model.Text{S: ","}, model.Print{E: model.Var{Name: "top"}}, model.Text{S: ">"}}
					if variant == 3 {
						// the innermost block re-assigns a name of the outermost level with another type: an error
						inner = append(inner, model.Assign{Name: name(0), E: model.StrLit{S: "text"}})
					}
					body := inner
					for l := n - 1; l >= 0; l-- {
						blk := append([]model.Stmt{model.Assign{Name: name(l), E: lit(int64(l))}, model.Assign{Name: "top", E: lit(int64(100 + l))}}, body...)
						// after the nested block: its name is gone (read at one level only, it is an error), "top" is as this level set it
						after := []model.Stmt{model.Text{S: "|"}, model.Print{E: model.Var{Name: "top"}}}
						if variant == 2 && l == n/2 {
							after = append(after, model.Print{E: model.Var{Name: name(l + 1)}})
						}
						blk = append(blk, after...)
						switch (l + variant) % 3 {
						case 0:
							body = []model.Stmt{model.If{Conds: []model.Expr{model.Lit{V: model.Bool(true)}}, Bodies: [][]model.Stmt{blk}}}
						case 1:
							body = []model.Stmt{model.Each{Var: fmt.Sprintf("e%d", l), Arr: intArr(1), Body: blk}}
						default:
							body = []model.Stmt{model.If{Conds: []model.Expr{model.Lit{V: model.Bool(false)}}, Bodies: [][]model.Stmt{{model.Text{S: "no"}}}, Else: blk}}
						}
					}
					prog := append([]model.Stmt{model.Assign{Name: "top", E: lit(-1)}}, body...)
					prog = append(prog, model.Text{S: "|end:"}, model.Print{E: model.Var{Name: "top"}}, model.Print{E: model.Var{Name: "d"}})
					judgeScope(c, prog, map[string]model.Value{"d": model.Str("data")}, "deep-blocks")
				}})
			// an insert body stands in the place of its reserve: the layout sees what it assigns, per pass of a layout loop
			layoutCases := layoutScopeCases()
			secs = append(secs, core.Section{Name: "insert-scope", Exhaustive: true, N: len(layoutCases),
				Run: func(c *core.Ctx, i int) {
					cs := layoutCases[i]
					t := newTree("c04tree", ".tw")
					t.files["layouts/l"] = cs.comp
					t.files["page"] = cs.page
					files := t.sources(model.Style{Layout: model.SpaceLayout})
					tpl, err := loadTree(c, "c04tree", files, ".tw")
					c.Nontrivial(fmt.Sprint(files, cs.data))
					if err != nil {
						c.Violation("insert-scope:load-failed", err.Error(), map[string]any{"files": describeFiles(files)})
						return
					}
					if tpl == nil {
						return
					}
					data := lookAlikes(cs.data)
					exp := t.expectPage("page", data)
					got, _ := renderPage(c, tpl, "page", model.NativeData(data))
					if why := compare(exp, got, false, nil); why != "" {
						c.Violation("insert-scope:"+scopeFailureClass(exp, got), why, map[string]any{"files": describeFiles(files), "data": model.DescribeData(cs.data), "expected": expectText(exp)})
					}
				}})
			// random scope-heavy programs
			n, depth := 10000, 3
			if tier == core.Thorough {
				n, depth = 1000000, 4
			}
			secs = append(secs, core.Section{Name: "random-scopes", N: n,
				Run: func(c *core.Ctx, i int) {
					g := newStmtGen(c.Rng, stmtGenOpts{MaxDepth: 1 + c.Rng.Intn(depth), ScopeHeavy: true, IllTyped: 8})
					prog := g.program(3 + c.Rng.Intn(4))
					judgeScope(c, prog, g.data, "random-scopes")
				}})
			return secs
		},
	})
}

func differentContent(v model.Value) model.Value {
	switch v.K {
	case model.KInt:
		return model.Int(v.I + 40)
	case model.KFloat:
		return model.Float(v.F + 2)
	case model.KStr:
		return model.Str(v.S + "2")
	case model.KBool:
		return model.Bool(!v.B)
	case model.KArr:
		return model.Arr(model.Int(2), model.Int(3))
	case model.KObj:
		return model.Obj(map[string]model.Value{"k": model.Int(2), "j": model.Int(3)})
	}
	return v
}

type scopeCase struct {
	prog []model.Stmt
	data map[string]model.Value
}

func reservedLoopCases() []scopeCase {
	var out []scopeCase
	lp := model.Var{Name: "loop"}
	for _, v := range kindSamples {
		out = append(out,
			scopeCase{[]model.Stmt{model.Assign{Name: "loop", E: literalOf(v)}, model.Text{S: "x"}}, nil},
			scopeCase{[]model.Stmt{model.Text{S: "x"}}, map[string]model.Value{"loop": v}},
			scopeCase{[]model.Stmt{model.Each{Var: "loop", Arr: model.ArrLit{Elems: []model.Expr{literalOf(v)}}, Body: []model.Stmt{model.Text{S: "[x]"}}}}, nil},
			scopeCase{[]model.Stmt{model.Each{Var: "e", Arr: intArr(1, 2), Body: []model.Stmt{model.Text{S: "["}, model.Assign{Name: "loop", E: literalOf(v)}, model.Text{S: "]"}}}}, nil},
			scopeCase{[]model.Stmt{model.For{Init: &model.Assign{Name: "loop", E: literalOf(v)}, Body: []model.Stmt{model.Text{S: "[x]"}, model.Break{}}}}, nil},
		)
	}
	// loops written without an init clause are blocks too
	n := model.Var{Name: "n"}
	lit := func(i int64) model.Expr { return literalOf(model.Int(i)) }
	readN := []model.Stmt{model.Text{S: "<"}, model.Print{E: n}, model.Text{S: ">"}}
	out = append(out,
		scopeCase{append([]model.Stmt{model.Assign{Name: "n", E: lit(0)}, model.For{Cond: model.Binary{Op: "<", L: n, R: lit(3)}, Post: model.Assign{Name: "n", E: model.Binary{Op: "+", L: n, R: lit(1)}}, Body: []model.Stmt{model.Print{E: n}}}, model.Text{S: "|"}}, readN...), nil},
		scopeCase{append([]model.Stmt{model.For{Body: []model.Stmt{model.Assign{Name: "n", E: lit(1)}, model.Text{S: "x"}, model.Break{}}}, model.Text{S: "|"}}, readN...), nil},
		scopeCase{append([]model.Stmt{model.For{Body: []model.Stmt{model.Assign{Name: "n", E: lit(1)}, model.Text{S: "x"}, model.Break{}}}, model.Text{S: "|"}}, readN...), map[string]model.Value{"n": model.Int(7)}},
		scopeCase{append([]model.Stmt{model.For{Cond: model.Binary{Op: "<", L: n, R: lit(9)}, Body: []model.Stmt{model.Assign{Name: "n", E: model.Binary{Op: "+", L: n, R: lit(1)}}, model.Print{E: n}}}, model.Text{S: "|"}}, readN...), map[string]model.Value{"n": model.Int(7)}},
		scopeCase{append([]model.Stmt{model.For{Cond: model.Binary{Op: "<", L: n, R: lit(8)}, Body: []model.Stmt{model.Assign{Name: "n", E: model.StrLit{S: "s"}}, model.Break{}}}, model.Text{S: "|"}}, readN...), map[string]model.Value{"n": model.Int(7)}},
		scopeCase{append([]model.Stmt{model.Assign{Name: "n", E: lit(0)}, model.For{InitE: n, Cond: model.Binary{Op: "<", L: n, R: lit(2)}, Post: model.Assign{Name: "n", E: model.Binary{Op: "+", L: n, R: lit(1)}}, Body: []model.Stmt{model.Print{E: n}}, Else: []model.Stmt{model.Text{S: " none"}}}, model.Text{S: "|"}}, readN...), nil},
	)
	// a value bound to two names stays two values: operators and built-ins on one never change the other
	f, g := model.Var{Name: "f"}, model.Var{Name: "g"}
	rd := func(names ...string) []model.Stmt {
		var st []model.Stmt
		for _, nm := range names {
			st = append(st, model.Text{S: "<" + nm + ":"}, model.Print{E: model.Var{Name: nm}}, model.Text{S: ">"})
		}
		return st
	}
	dec := func(e model.Expr) model.Expr { return model.Postfix{Op: "--", X: e} }
	inc := func(e model.Expr) model.Expr { return model.Postfix{Op: "++", X: e} }
	for _, start := range []model.Value{model.Float(2.5), model.Float(4.0), model.Float(0.5), model.Int(5)} {
		sv := literalOf(start)
		out = append(out,
			scopeCase{append([]model.Stmt{model.Assign{Name: "f", E: sv}, model.Assign{Name: "g", E: f}, model.Print{E: dec(g)}, model.Print{E: inc(g)}}, rd("f", "g")...), nil},
			scopeCase{append([]model.Stmt{model.Assign{Name: "f", E: sv}, model.If{Conds: []model.Expr{lit(1)}, Bodies: [][]model.Stmt{{model.Assign{Name: "f", E: dec(f)}, model.Print{E: f}}}}}, rd("f")...), nil},
			scopeCase{append([]model.Stmt{model.Print{E: dec(f)}, model.Text{S: "|"}, model.Print{E: dec(dec(f))}}, rd("f")...), map[string]model.Value{"f": start}},
			scopeCase{append([]model.Stmt{model.Assign{Name: "a", E: model.ArrLit{Elems: []model.Expr{sv, sv}}}, model.Each{Var: "v", Arr: model.Var{Name: "a"}, Body: []model.Stmt{model.Assign{Name: "v", E: dec(model.Var{Name: "v"})}, model.Print{E: model.Var{Name: "v"}}, model.Text{S: ","}}}}, rd("a")...), nil},
			scopeCase{append([]model.Stmt{model.Each{Var: "v", Arr: model.Var{Name: "da"}, Body: []model.Stmt{model.Print{E: dec(model.Var{Name: "v"})}, model.Text{S: ","}}}}, rd("da")...), map[string]model.Value{"da": model.Arr(start, start)}},
			scopeCase{append([]model.Stmt{model.Assign{Name: "f", E: sv}, model.For{Init: &model.Assign{Name: "g", E: f}, Cond: model.Binary{Op: ">", L: g, R: literalOf(zeroOf(start))}, Post: model.Print{E: dec(g)}, Body: []model.Stmt{model.Text{S: "."}}}}, rd("f")...), nil},
			scopeCase{append([]model.Stmt{model.Assign{Name: "o", E: model.ObjLit{Keys: []string{"k"}, Vals: []model.Expr{sv}}}, model.Assign{Name: "g", E: model.Dot{X: model.Var{Name: "o"}, Name: "k"}}, model.Print{E: dec(g)}, model.Text{S: "|"}, model.Print{E: model.Dot{X: model.Var{Name: "o"}, Name: "k"}}}, rd("g")...), nil},
		)
	}
	// loop is only visible inside @each; it is restored for the outer loop and gone afterwards
	out = append(out,
		scopeCase{[]model.Stmt{model.Text{S: "<"}, model.Print{E: model.Dot{X: lp, Name: "index"}}, model.Text{S: ">"}}, nil},
		scopeCase{[]model.Stmt{model.Each{Var: "e", Arr: intArr(1), Body: []model.Stmt{model.Text{S: "[x]"}}}, model.Text{S: "<"}, model.Print{E: model.Dot{X: lp, Name: "index"}}, model.Text{S: ">"}}, nil},
		scopeCase{[]model.Stmt{upFor("k", 0, 1, []model.Stmt{model.Text{S: "<"}, model.Print{E: model.Dot{X: lp, Name: "index"}}, model.Text{S: ">"}}, nil)}, nil},
		scopeCase{[]model.Stmt{model.Each{Var: "e", Arr: intArr(5, 6), Body: []model.Stmt{
			model.Text{S: "["}, model.Print{E: model.Dot{X: lp, Name: "index"}},
			upFor("k", 0, 1, []model.Stmt{model.Text{S: "<"}, model.Print{E: model.Dot{X: lp, Name: "iter"}}, model.Text{S: ">"}}, nil),
			model.Text{S: "]"}}}}, nil},
	)
	return out
}

// judgeScope compares one render (two layouts) with the scope-chain model
func judgeScope(c *core.Ctx, prog []model.Stmt, data map[string]model.Value, kind string) {
	data = lookAlikes(data)
	exp := expectRun(prog, data)
	switch {
	case exp.Unspecified:
		c.Count("cases_unspecified_by_the_statement", 1)
	case exp.Fails:
		c.Count("cases_model_expects_error", 1)
	default:
		c.Count("cases_model_expects_output", 1)
	}
	native := model.NativeData(data)
	for _, lay := range exprLayouts[:2] {
		src := model.PrintStmts(prog, lay.st(c.Rng))
		c.Input(map[string]any{"source": src, "data": model.DescribeData(data)})
		got := evalString(c, src, native)
		if why := compare(exp, got, false, nil); why != "" {
			c.Violation(kind+":"+scopeFailureClass(exp, got), why, map[string]any{
				"source": src, "data": model.DescribeData(data), "expected": expectText(exp), "observed": got.Describe()})
		}
		if !exp.Unspecified {
			c.Nontrivial(src + fmt.Sprint(model.DescribeData(data)))
		}
		c.Sample(map[string]any{"source": src, "data": model.DescribeData(data), "expected": expectText(exp)})
	}
}

func scopeFailureClass(exp Expect, got Outcome) string {
	switch {
	case exp.Fails && got.Err == nil:
		return "accepted"
	case !exp.Fails && got.Err != nil:
		return "rejected"
	}
	return "wrong-value"
}

type compScopeCase struct {
	comp, page []model.Stmt
	data       map[string]model.Value
}

// componentScopeCases: a component file that assigns names (new ones, names of the
// caller, names of the data, with the same or another type) used with no arguments,
// with an empty object, with arguments; the caller reads every name afterwards
func componentScopeCases() []compScopeCase {
	var out []compScopeCase
	v := func(n string) model.Expr { return model.Var{Name: n} }
	read := func(n string) []model.Stmt {
		return []model.Stmt{model.Text{S: "<" + n + ":"}, model.Print{E: v(n)}, model.Text{S: ">"}}
	}
	for _, argForm := range []int{0, 1, 2, 3} { // none, {}, {arg: ...}, {arg, x}
		for _, inside := range []int{0, 1, 2, 3, 4} {
			for _, where := range []int{0, 1, 2} { // top level, inside @each, twice in a row
				var comp []model.Stmt
				comp = append(comp, model.Text{S: "[c "})
				switch inside {
				case 0: // a new name
					comp = append(comp, model.Assign{Name: "fresh", E: model.Lit{V: model.Int(1)}}, model.Print{E: v("fresh")})
				case 1: // a name of the caller, same type
					comp = append(comp, model.Assign{Name: "x", E: model.Binary{Op: "+", L: v("x"), R: model.Lit{V: model.Int(1)}}}, model.Print{E: v("x")})
				case 2: // a data name, same type
					comp = append(comp, model.Assign{Name: "d", E: model.StrLit{S: "inner"}}, model.Print{E: v("d")})
				case 3: // a name of the caller, another type: an error
					comp = append(comp, model.Assign{Name: "x", E: model.StrLit{S: "retyped"}}, model.Print{E: v("x")})
				case 4: // reads only
					comp = append(comp, model.Print{E: v("x")}, model.Text{S: "/"}, model.Print{E: v("d")})
				}
				comp = append(comp, model.Text{S: "]"})
				use := model.Component{Name: "~c"}
				switch argForm {
				case 1:
					use.Args = &model.ObjLit{}
				case 2:
					use.Args = &model.ObjLit{Keys: []string{"arg"}, Vals: []model.Expr{model.Lit{V: model.Int(7)}}}
				case 3:
					use.Args = &model.ObjLit{Keys: []string{"arg", "x"}, Vals: []model.Expr{model.Lit{V: model.Int(7)}, model.Lit{V: model.Int(50)}}}
				}
				// the use may pass a slot whose body assigns: a new name, the caller's name (same type), the caller's name retyped
				if (argForm+inside+where)%3 == 0 {
					comp = append(comp, model.Text{S: "{"}, model.SlotRef{Name: ""}, model.Text{S: "}"})
					slotBodies := [][]model.Stmt{
						{model.Assign{Name: "sfresh", E: model.Lit{V: model.Int(2)}}, model.Print{E: v("sfresh")}},
						{model.Assign{Name: "x", E: model.Lit{V: model.Int(77)}}, model.Print{E: v("x")}},
						{model.Assign{Name: "x", E: model.StrLit{S: "retyped-in-slot"}}, model.Text{S: "never"}},
						{model.Assign{Name: "loop", E: model.Lit{V: model.Int(1)}}, model.Text{S: "never"}},
					}
					use.Slots = []model.SlotBody{{Name: "", Body: slotBodies[(argForm+inside*2+where)%len(slotBodies)]}}
				}
				page := []model.Stmt{model.Assign{Name: "x", E: model.Lit{V: model.Int(10)}}}
				switch where {
				case 0:
					page = append(page, use, model.Text{S: "|"})
				case 1:
					page = append(page, model.Each{Var: "e", Arr: intArr(1, 2), Body: []model.Stmt{model.Text{S: "("}, use, model.Text{S: ")"}}}, model.Text{S: "|"})
				case 2:
					page = append(page, use, model.Text{S: "|"}, use, model.Text{S: "|"})
				}
				page = append(page, read("x")...)
				page = append(page, read("d")...)
				out = append(out, compScopeCase{comp, page, map[string]model.Value{"d": model.Str("data")}})
				// and names that must be gone afterwards
				if inside == 0 {
					out = append(out, compScopeCase{comp, append(append([]model.Stmt{}, page...), read("fresh")...), map[string]model.Value{"d": model.Str("data")}})
				}
				if argForm >= 2 {
					out = append(out, compScopeCase{comp, append(append([]model.Stmt{}, page...), read("arg")...), map[string]model.Value{"d": model.Str("data")}})
				}
			}
		}
	}
	return out
}

func zeroOf(v model.Value) model.Value {
	if v.K == model.KFloat {
		return model.Float(0)
	}
	return model.Int(0)
}

// arrayAliasCases: results of append/prepend/slice on one base, assigned in different blocks
func arrayAliasCases() []scopeCase {
	var out []scopeCase
	lit := func(i int64) model.Expr { return model.Lit{V: model.Int(i)} }
	v := func(n string) model.Expr { return model.Var{Name: n} }
	call := func(x model.Expr, name string, args ...model.Expr) model.Expr {
		return model.Call{X: x, Name: name, Args: args}
	}
	show := func(names ...string) []model.Stmt {
		var o []model.Stmt
		for _, n := range names {
			o = append(o, model.Text{S: "<" + n + ":"}, model.Print{E: v(n)}, model.Text{S: ">"})
		}
		return o
	}
	tru := []model.Expr{lit(1)}
	for L := 0; L <= 9; L++ {
		var elems []model.Expr
		var vals []model.Value
		for k := 0; k < L; k++ {
			elems = append(elems, lit(int64(k+1)))
			vals = append(vals, model.Int(int64(k+1)))
		}
		for form := 0; form < 2; form++ {
			var init model.Stmt = model.Assign{Name: "a", E: model.ArrLit{Elems: elems}}
			var data map[string]model.Value
			if form == 1 {
				init = model.Text{S: ""}
				data = map[string]model.Value{"a": model.Arr(vals...)}
			}
			out = append(out, scopeCase{append([]model.Stmt{init, model.Assign{Name: "b", E: call(v("a"), "append", lit(40))},
				model.If{Conds: tru, Bodies: [][]model.Stmt{{model.Assign{Name: "c", E: call(v("a"), "append", lit(50))}, model.Print{E: v("c")}, model.Text{S: "|"}}}}}, show("a", "b")...), data})
			out = append(out, scopeCase{append([]model.Stmt{init, model.Assign{Name: "b", E: call(v("a"), "append", lit(40))},
				model.Each{Var: "k", Arr: intArr(7, 8), Body: []model.Stmt{model.Assign{Name: "c", E: call(v("a"), "append", v("k"))}, model.Assign{Name: "d", E: call(v("b"), "append", v("k"))}, model.Text{S: "."}}}}, show("a", "b")...), data})
			out = append(out, scopeCase{append([]model.Stmt{init, model.Assign{Name: "p", E: call(v("a"), "prepend", lit(40))},
				model.If{Conds: tru, Bodies: [][]model.Stmt{{model.Assign{Name: "q", E: call(v("a"), "prepend", lit(50))}, model.Assign{Name: "r", E: call(v("p"), "reverse")}}}}}, show("a", "p")...), data})
			if L >= 2 {
				out = append(out, scopeCase{append([]model.Stmt{init,
					model.If{Conds: tru, Bodies: [][]model.Stmt{{model.Assign{Name: "b", E: call(call(v("a"), "slice", lit(0), lit(int64(L-1))), "append", lit(9))}, model.Print{E: v("b")}, model.Text{S: "|"}}}}}, show("a")...), data})
				out = append(out, scopeCase{append([]model.Stmt{init, model.Assign{Name: "s", E: call(v("a"), "slice", lit(1))},
					upFor("k", 0, 2, []model.Stmt{model.Assign{Name: "t", E: call(call(v("a"), "slice", lit(0), lit(1)), "append", v("k"))}, model.Assign{Name: "u", E: call(v("s"), "append", v("k"))}}, nil)}, show("a", "s")...), data})
			}
		}
	}
	// a re-assignment with a value that prints like the old one but is another value; reads tell them apart
	alike := [][2]model.Expr{
		{model.ArrLit{Elems: []model.Expr{lit(1), lit(2)}}, model.ArrLit{Elems: []model.Expr{model.ArrLit{Elems: []model.Expr{lit(1), lit(2)}}}}},
		{model.ArrLit{Elems: []model.Expr{lit(1), lit(2)}}, model.ArrLit{Elems: []model.Expr{model.StrLit{S: "1"}, model.StrLit{S: "2"}}}},
		{model.ArrLit{Elems: []model.Expr{model.StrLit{S: "1, 2"}}}, model.ArrLit{Elems: []model.Expr{lit(1), lit(2)}}},
		{model.ArrLit{Elems: []model.Expr{model.ArrLit{}}}, model.ArrLit{Elems: []model.Expr{model.StrLit{S: ""}}}},
		{model.ObjLit{Keys: []string{"n"}, Vals: []model.Expr{lit(1)}}, model.ObjLit{Keys: []string{"n"}, Vals: []model.Expr{model.StrLit{S: "1"}}}},
		{model.ArrLit{Elems: []model.Expr{model.Lit{V: model.Nil}}}, model.ArrLit{Elems: []model.Expr{model.StrLit{S: ""}}}},
	}
	probe := func(n string) []model.Stmt {
		return []model.Stmt{model.Text{S: "<" + n + " len="}, model.Print{E: call(v(n), "len")}, model.Text{S: " first="}, model.Print{E: call(model.ArrLit{Elems: []model.Expr{model.Index{X: v(n), I: lit(0)}}}, "len")},
			model.Text{S: " each="}, model.Each{Var: "e", Arr: v(n), Body: []model.Stmt{model.Text{S: "."}}}, model.Text{S: ">"}}
	}
	for _, pr := range alike {
		isArr := true
		if _, ok := pr[0].(model.ObjLit); ok {
			isArr = false
		}
		read := func(n string) []model.Stmt {
			if isArr {
				return probe(n)
			}
			return []model.Stmt{model.Text{S: "<" + n + "="}, model.Print{E: model.Binary{Op: "==", L: model.Dot{X: v(n), Name: "n"}, R: lit(1)}}, model.Text{S: ">"}}
		}
		for _, order := range [][2]model.Expr{{pr[0], pr[1]}, {pr[1], pr[0]}} {
			out = append(out, scopeCase{append([]model.Stmt{model.Assign{Name: "a", E: order[0]}, model.Assign{Name: "a", E: order[1]}}, read("a")...), nil})
			out = append(out, scopeCase{append(append([]model.Stmt{model.Assign{Name: "a", E: order[0]},
				model.If{Conds: tru, Bodies: [][]model.Stmt{append([]model.Stmt{model.Assign{Name: "a", E: order[1]}}, read("a")...)}}}, model.Text{S: "|"}), read("a")...), nil})
			out = append(out, scopeCase{append([]model.Stmt{model.Each{Var: "k", Arr: intArr(1, 2), Body: append([]model.Stmt{model.Assign{Name: "a", E: order[k2(order)]}}, read("a")...)}}, read("a")...),
				map[string]model.Value{"a": mustValue(order[0])}})
		}
	}
	// names that are keywords in another case are ordinary names: assigned, re-typed, bound by loops
	for _, n := range []string{"True", "Nil", "In", "FALSE", "NIL", "iN"} {
		out = append(out, scopeCase{[]model.Stmt{model.Assign{Name: n, E: lit(1)}, model.Print{E: v(n)}, model.If{Conds: tru, Bodies: [][]model.Stmt{{model.Assign{Name: n, E: lit(2)}, model.Print{E: v(n)}}}}, model.Print{E: v(n)}}, nil})
		out = append(out, scopeCase{[]model.Stmt{model.Assign{Name: n, E: lit(1)}, model.Assign{Name: n, E: model.StrLit{S: "s"}}, model.Print{E: v(n)}}, nil})
		out = append(out, scopeCase{[]model.Stmt{model.Each{Var: n, Arr: intArr(4, 5), Body: []model.Stmt{model.Print{E: v(n)}}}, model.Text{S: "|"}, model.Print{E: v(n)}}, nil})
		out = append(out, scopeCase{[]model.Stmt{upFor(n, 0, 2, []model.Stmt{model.Print{E: v(n)}}, nil), model.Text{S: "|"}, model.Print{E: v(n)}}, map[string]model.Value{n: model.Str("data")}})
		out = append(out, scopeCase{[]model.Stmt{model.Print{E: v(n)}, model.Text{S: "|"}, model.Print{E: model.Ternary{C: v(n), A: model.StrLit{S: "set"}, B: model.StrLit{S: "unset"}}}}, map[string]model.Value{n: model.Int(0)}})
	}
	// the loop object kept in a variable: it is the object of the pass it was taken in, whatever later passes (of this loop
	// or of loops inside and after it) do
	lf := func(f string) model.Expr { return model.Dot{X: v("loop"), Name: f} }
	pdot := func(f string) model.Expr { return model.Dot{X: v("p"), Name: f} }
	arr3 := model.ArrLit{Elems: []model.Expr{lit(7), lit(8), lit(9)}}
	out = append(out,
		scopeCase{[]model.Stmt{model.Each{Var: "x", Arr: arr3, Body: []model.Stmt{model.Assign{Name: "p", E: model.Ternary{C: lf("first"), A: v("loop"), B: v("p")}}, model.Print{E: pdot("iter")}, model.Print{E: pdot("last")}}}}, nil},
		scopeCase{[]model.Stmt{model.Each{Var: "x", Arr: arr3, Body: []model.Stmt{model.If{Conds: []model.Expr{lf("first")}, Bodies: [][]model.Stmt{{model.Text{S: "first"}}}},
			model.Assign{Name: "p", E: model.Ternary{C: model.Binary{Op: "==", L: lf("index"), R: lit(1)}, A: v("loop"), B: model.Ternary{C: lf("first"), A: v("loop"), B: v("p")}}}, model.Text{S: "["}, model.Print{E: pdot("index")}, model.Print{E: pdot("first")}, model.Text{S: "]"}}}}, nil},
		scopeCase{[]model.Stmt{model.Each{Var: "x", Arr: arr3, Body: []model.Stmt{model.Assign{Name: "p", E: model.Ternary{C: lf("first"), A: v("loop"), B: v("p")}},
			model.Each{Var: "y", Arr: model.ArrLit{Elems: []model.Expr{lit(1), lit(2)}}, Body: []model.Stmt{model.Assign{Name: "q", E: v("loop")}, model.Print{E: pdot("iter")}}}, model.Print{E: model.Dot{X: v("loop"), Name: "iter"}}, model.Text{S: ";"}}}}, nil},
		scopeCase{[]model.Stmt{model.Each{Var: "x", Arr: arr3, Body: []model.Stmt{model.Assign{Name: "ps", E: model.Ternary{C: lf("first"), A: model.ArrLit{Elems: []model.Expr{v("loop")}}, B: call(v("ps"), "append", v("loop"))}},
			model.If{Conds: []model.Expr{lf("last")}, Bodies: [][]model.Stmt{{model.Each{Var: "s", Arr: v("ps"), Body: []model.Stmt{model.Print{E: model.Dot{X: v("s"), Name: "iter"}}, model.Print{E: model.Dot{X: v("s"), Name: "last"}}, model.Text{S: ","}}}}}}}}}, nil},
	)
	return out
}

func k2(order [2]model.Expr) int { return 1 }

// mustValue evaluates a literal expression of the model
func mustValue(e model.Expr) model.Value {
	v, err := model.NewInterp().Eval(e, model.NewScope(nil))
	if err != nil {
		panic(err)
	}
	return v
}

// layoutScopeCases: comp is the layout file here
func layoutScopeCases() []compScopeCase {
	var out []compScopeCase
	lit := func(i int64) model.Expr { return model.Lit{V: model.Int(i)} }
	v := func(n string) model.Expr { return model.Var{Name: n} }
	plus := func(a, b model.Expr) model.Expr { return model.Binary{Op: "+", L: a, R: b} }
	use := model.Use{Name: "~l"}
	// the layout reads after the reserve what the insert body assigned
	for _, body := range [][]model.Stmt{
		{model.Assign{Name: "n", E: plus(v("n"), lit(5))}, model.Text{S: "["}, model.Print{E: v("n")}, model.Text{S: "]"}},
		{model.Assign{Name: "fresh", E: lit(3)}, model.Print{E: v("fresh")}},
		{model.Assign{Name: "n", E: model.StrLit{S: "retyped"}}, model.Text{S: "never"}},
		{model.Assign{Name: "loop", E: lit(1)}, model.Text{S: "never"}},
		{model.Text{S: "reads "}, model.Print{E: v("n")}, model.Print{E: v("d")}},
	} {
		for _, after := range [][]model.Stmt{
			{model.Text{S: " after="}, model.Print{E: v("n")}},
			{model.Text{S: " after="}, model.Print{E: v("n")}, model.Text{S: " fresh="}, model.Print{E: v("fresh")}},
			{model.If{Conds: []model.Expr{lit(1)}, Bodies: [][]model.Stmt{{model.Text{S: " in-if="}, model.Print{E: v("n")}}}}},
		} {
			layout := append([]model.Stmt{model.Assign{Name: "n", E: lit(0)}, model.Text{S: "<"}, model.Reserve{Name: "r"}, model.Text{S: ">"}}, after...)
			out = append(out, compScopeCase{layout, []model.Stmt{use, model.Insert{Name: "r", Block: body}}, map[string]model.Value{"d": model.Str("data")}})
		}
		// the reserve sits in a loop of the layout: one scope for all passes, gone after the loop
		loopLayout := []model.Stmt{model.Assign{Name: "n", E: lit(0)}, model.Each{Var: "i", Arr: intArr(1, 2, 3), Body: []model.Stmt{model.Print{E: v("i")}, model.Reserve{Name: "r"}}},
			model.Text{S: "("}, model.Print{E: v("n")}, model.Text{S: ")"}}
		out = append(out, compScopeCase{loopLayout, []model.Stmt{use, model.Insert{Name: "r", Block: body}}, map[string]model.Value{"d": model.Str("data")}})
		ifLayout := []model.Stmt{model.Assign{Name: "n", E: lit(0)}, model.If{Conds: []model.Expr{lit(1)}, Bodies: [][]model.Stmt{{model.Reserve{Name: "r"}, model.Text{S: " in="}, model.Print{E: v("n")}}}},
			model.Text{S: " out="}, model.Print{E: v("n")}}
		out = append(out, compScopeCase{ifLayout, []model.Stmt{use, model.Insert{Name: "r", Block: body}}, map[string]model.Value{"d": model.Str("data")}})
	}
	// an insert body that accumulates over the passes of the layout's loop, and the expression form
	acc := []model.Stmt{model.Assign{Name: "n", E: plus(v("n"), v("i"))}, model.Text{S: "["}, model.Print{E: v("n")}, model.Text{S: "]"}}
	loopLayout := []model.Stmt{model.Assign{Name: "n", E: lit(0)}, model.Each{Var: "i", Arr: intArr(1, 2, 3), Body: []model.Stmt{model.Print{E: v("i")}, model.Reserve{Name: "r"}}},
		model.Text{S: "("}, model.Print{E: v("n")}, model.Text{S: ")"}}
	out = append(out, compScopeCase{loopLayout, []model.Stmt{use, model.Insert{Name: "r", Block: acc}}, nil})
	out = append(out, compScopeCase{loopLayout, []model.Stmt{use, model.Insert{Name: "r", E: plus(v("n"), model.Binary{Op: "*", L: v("i"), R: lit(2)})}}, nil})
	return out
}
