package checks

import (
	"fmt"
	"math"
	"sort"
	"strconv"
	"strings"
	"sync/atomic"
	"unicode/utf8"

	textwire "github.com/textwire/textwire/v2"

	"verif/core"
	"verif/model"
)

// C11 — built-in functions meet their contracts, are pure and keep UTF-8 valid.

var shadowCalls atomic.Int64

// registerShadows registers a custom function under every built-in name for
// its receiver type; a built-in takes precedence, so none may ever run
func registerShadows() {
	textwire.VerifReset()
	for _, n := range model.BuiltinNames(model.KStr) {
		textwire.RegisterStrFunc(n, func(s string, args ...any) string { shadowCalls.Add(1); return "SHADOW" })
	}
	for _, n := range model.BuiltinNames(model.KArr) {
		textwire.RegisterArrFunc(n, func(a []any, args ...any) []any { shadowCalls.Add(1); return []any{"SHADOW"} })
	}
	for _, n := range model.BuiltinNames(model.KInt) {
		textwire.RegisterIntFunc(n, func(i int, args ...any) int { shadowCalls.Add(1); return 424242 })
	}
	for _, n := range model.BuiltinNames(model.KFloat) {
		textwire.RegisterFloatFunc(n, func(f float64, args ...any) float64 { shadowCalls.Add(1); return 4242.4242 })
	}
	for _, n := range model.BuiltinNames(model.KBool) {
		textwire.RegisterBoolFunc(n, func(b bool, args ...any) bool { shadowCalls.Add(1); return !b })
	}
}

var c11Receivers = map[model.Kind][]model.Value{
	model.KStr: {
		model.Str(""), model.Str("a"), model.Str("hello world"), model.Str("héllo"), model.Str("éa"), model.Str("中文字"), model.Str("a😀b"),
		model.Str("éx"), model.Str("ılık"), model.Str("ſo"), model.Str("ɐb"), model.Str("ɐ"), model.Str("ⱥb"), model.Str("ǆx"), model.Str("  pad\t\n"), model.Str("12"), model.Str("-7"), model.Str("a,b,,c"), model.Str("&lt;b&gt; &amp;"), model.Str("ßx"), model.Str("xx--xx"), model.Str("café"), model.Str("Maß"), model.Str("日本語"), model.Str("x😀"), model.Str("añ"), model.Str("©é©"), model.Str("abc\uFFFD"), model.Str("\uFFFD"), model.Str("\uFFFDx\uFFFD"), model.Str("x\U0010FFFF"),
		// character references of every spelling (raw() undoes them all)
		model.Str("&quot;x&apos; &nbsp;&copy; &#60;&#x3e;&#X3C; &amp;amp; &lt"), model.Str("&quot;"), model.Str("&#39;&#34;&#038;"),
		// references written without their semicolon, in strings that hold no semicolon at all
		model.Str("x &lt y"), model.Str("&lt"), model.Str("&amp"), model.Str("&#60"), model.Str("&copy 2024 &reg"), model.Str("a&ampb &gt&lt"), model.Str("Ⅷ ⅷ Ⓐⓐ ǅ"),
		// characters whose upper or lower case form has another encoded width, or none of their own
		model.Str("İstanbul"), model.Str("İZMİR"), model.Str("\u212Aelvin \u212B \u2126"), model.Str("ẞ"), model.Str("xȺ"), model.Str("Ⱦ"), model.Str("ǅ ǈ ǋ ǲ"), model.Str("ǆǉ"), model.Str("ɐɑɒ"), model.Str("ſt"), model.Str("ŉ"), model.Str("ΐ"), model.Str("ß"), model.Str("ﬁ"), model.Str("ქართული"), model.Str("ᲓᲐ"),
	},
	model.KArr: {
		model.Arr(), model.Arr(model.Int(1)), model.Arr(model.Int(1), model.Int(2), model.Int(3)), model.Arr(model.Str("b"), model.Str("a"), model.Str("c"), model.Str("a")),
		model.Arr(model.Int(1), model.Str("1"), model.Float(1), model.Bool(true), model.Nil),
		model.Arr(model.Arr(model.Int(1), model.Int(2)), model.Arr(), model.Arr(model.Int(1), model.Int(2))),
		model.Arr(model.Obj(map[string]model.Value{"a": model.Int(1)}), model.Obj(map[string]model.Value{"a": model.Int(2)})),
		model.Arr(model.Int(5), model.Int(4), model.Int(3), model.Int(2), model.Int(1)),
	},
	model.KInt:   {model.Int(0), model.Int(7), model.Int(-7), model.Int(10), model.Int(-100), model.Int(1234567890123), model.Int(9223372036854775807), model.Int(-9223372036854775807 - 1)},
	model.KFloat: {model.Float(0), model.Float(math.Copysign(0, -1)), model.Float(0.5), model.Float(-0.5), model.Float(1.5), model.Float(2.5), model.Float(-2.5), model.Float(2.4999), model.Float(-7.99), model.Float(1e6 + 0.25), model.Float(0.49999999999999994), model.Float(-1.5), model.Float(3.0)},
	model.KBool:  {model.Bool(true), model.Bool(false)},
}

// argument pool: counts around the receiver sizes, separators, wrong kinds
var c11Args = []model.Value{
	model.Int(0), model.Int(1), model.Int(2), model.Int(3), model.Int(5), model.Int(-1), model.Int(-2), model.Int(-5), model.Int(9), model.Int(-9),
	model.Int(2147483648), model.Int(9223372036854775807), model.Int(-9223372036854775807 - 1),
	model.Str(""), model.Str(" "), model.Str(","), model.Str("a"), model.Str("é"), model.Str("..."), model.Str("x"),
	// multi-byte cut sets and separators that share bytes with other characters
	model.Str("©"), model.Str("🎉"), model.Str("Ğ"), model.Str("±é"), model.Str("語"),
	model.Float(1.5), model.Bool(true), model.Nil, model.Arr(model.Int(1), model.Int(2)), model.Obj(map[string]model.Value{"a": model.Int(1)}), model.Str("1"),
}

const (
	segB = "\x01"
	segC = "\x02"
	segA = "\x03"
	segX = "\x04"
	segE = "\x05"
)

func accepts(ref model.Ref, printed string) bool {
	for _, a := range ref.Accept {
		if a.Print() == printed {
			return true
		}
		// beyond 1e15 the rule "prints as the equal literal" is not pinned down: either form
		if a.K == model.KFloat && (a.F >= 1e15 || a.F <= -1e15) && strconv.FormatFloat(a.F, 'f', 1, 64) == printed {
			return true
		}
	}
	if ref.Member != nil {
		if len(ref.Member.A) == 0 {
			return printed == ""
		}
		for _, e := range ref.Member.A {
			if e.Print() == printed {
				return true
			}
		}
	}
	if ref.Perm != nil {
		want := make([]string, len(ref.Perm.A))
		for i, e := range ref.Perm.A {
			want[i] = e.Print()
		}
		got := strings.Split(printed, ", ")
		if printed == "" && len(want) == 0 {
			return true
		}
		for _, w := range want {
			if w == "" || strings.Contains(w, ", ") {
				// elements whose text is empty or holds the separator cannot be told
				// apart in the printed array: compare the bytes as a multiset
				a, b := []byte(printed), []byte(ref.Perm.Print())
				sort.Slice(a, func(i, j int) bool { return a[i] < a[j] })
				sort.Slice(b, func(i, j int) bool { return b[i] < b[j] })
				return string(a) == string(b)
			}
		}
		sort.Strings(want)
		sort.Strings(got)
		return strings.Join(want, "\x00") == strings.Join(got, "\x00")
	}
	return false
}

func describeRef(ref model.Ref) string {
	var parts []string
	for _, a := range ref.Accept {
		parts = append(parts, fmt.Sprintf("%q", a.Print()))
	}
	if ref.Perm != nil {
		parts = append(parts, "any permutation of "+ref.Perm.Describe())
	}
	if ref.Member != nil {
		parts = append(parts, "an element of "+ref.Member.Describe())
	}
	if ref.ErrOK {
		parts = append(parts, "an error")
	}
	return strings.Join(parts, " or ")
}

// judgeCall renders one call with receiver and arguments supplied as data
func judgeCall(c *core.Ctx, recv model.Value, name string, args []model.Value) {
	ref, ok := model.BuiltinRefs[recv.K.String()+"."+name]
	if !ok {
		return
	}
	want := ref(recv, args)
	data := map[string]model.Value{"r": recv}
	names := make([]string, len(args))
	for i, a := range args {
		names[i] = fmt.Sprintf("a%d", i)
		data[names[i]] = a
	}
	src := segB + "{{ r }}" + segC + "{{ r." + name + "(" + strings.Join(names, ", ") + ") }}" + segA + "{{ r }}"
	for _, n := range names {
		src += segX + "{{ " + n + " }}"
	}
	src += segE
	desc := map[string]any{"call": fmt.Sprintf("(%s).%s(%s)", recv.Describe(), name, describeArgs(args))}
	c.Input(desc)
	got := evalString(c, src, model.NativeData(data))
	c.Nontrivial(desc["call"].(string))
	if got.Panicked {
		return
	}
	sig := "contract:" + recv.K.String() + "." + name
	if got.Err != nil {
		if !want.ErrOK {
			c.Violation(sig+":error", fmt.Sprintf("%s failed (%s), the contract gives %s", desc["call"], ErrMessage(got.Err), describeRef(want)), desc)
		}
		return
	}
	if !utf8.ValidString(got.Out) {
		c.Violation("utf8:"+recv.K.String()+"."+name, fmt.Sprintf("%s produced invalid UTF-8: %q", desc["call"], got.Out), desc)
		return
	}
	b, cc, a, e := strings.Index(got.Out, segB), strings.Index(got.Out, segC), strings.Index(got.Out, segA), strings.LastIndex(got.Out, segE)
	if b != 0 || cc < 0 || a < cc || e < a {
		c.Violation(sig+":shape", fmt.Sprintf("unexpected output shape %q", got.Out), desc)
		return
	}
	before, call := got.Out[1:cc], got.Out[cc+1:a]
	rest := strings.Split(got.Out[a+1:e], segX)
	after := rest[0]
	if len(want.Accept) == 0 && want.Perm == nil && want.Member == nil {
		c.Violation(sig+":accepted", fmt.Sprintf("%s returned %q, the contract requires an error", desc["call"], call), desc)
		return
	}
	if !accepts(want, call) {
		c.Violation(sig+":value", fmt.Sprintf("%s returned %q, the contract gives %s", desc["call"], call, describeRef(want)), desc)
	}
	if after != before || before != recv.Print() {
		c.Violation("purity:"+recv.K.String()+"."+name, fmt.Sprintf("%s changed its receiver: %q before, %q after", desc["call"], before, after), desc)
	}
	for i, av := range args {
		if i+1 < len(rest) && rest[i+1] != av.Print() {
			c.Violation("purity:"+recv.K.String()+"."+name, fmt.Sprintf("%s changed its argument %d: %q, was %q", desc["call"], i, rest[i+1], av.Print()), desc)
		}
	}
}

// judgeLoopCalls evaluates one call expression several times with receivers
// of different kinds (a @for over a mixed array): every pass must behave as
// the same call does alone
func judgeLoopCalls(c *core.Ctx, recvs []model.Value, name string, args []model.Value, each bool) {
	data := map[string]model.Value{"xs": model.Arr(recvs...)}
	names := make([]string, len(args))
	for i, a := range args {
		names[i] = fmt.Sprintf("a%d", i)
		data[names[i]] = a
	}
	head := fmt.Sprintf("@for(i = 0; i < %d; i++)", len(recvs))
	if each {
		idx := make([]string, len(recvs))
		for i := range idx {
			idx[i] = fmt.Sprint(i)
		}
		head = "@each(i in [" + strings.Join(idx, ", ") + "])"
	}
	src := head + segC + "{{ xs[i]." + name + "(" + strings.Join(names, ", ") + ") }}" + segA + "@end"
	parts := make([]string, len(recvs))
	for i, r := range recvs {
		parts[i] = r.Describe()
	}
	desc := map[string]any{"call": fmt.Sprintf("one call site .%s(%s) over the receivers [%s]", name, describeArgs(args), strings.Join(parts, ", ")), "source": src}
	c.Input(desc)
	got := evalString(c, src, model.NativeData(data))
	c.Nontrivial(desc["call"].(string) + head[:4])
	if got.Panicked {
		return
	}
	var pieces []string
	if got.Err == nil {
		pieces = strings.Split(got.Out, segA)
		if len(pieces) != len(recvs)+1 || pieces[len(recvs)] != "" {
			c.Violation("loop-call:shape", fmt.Sprintf("unexpected output shape %q", got.Out), desc)
			return
		}
	}
	for i, r := range recvs {
		ref, ok := model.BuiltinRefs[r.K.String()+"."+name]
		mustFail := !ok
		var want model.Ref
		if ok {
			want = ref(r, args)
			mustFail = len(want.Accept) == 0 && want.Perm == nil && want.Member == nil
		}
		if got.Err != nil {
			if mustFail || want.ErrOK {
				return // the error of this pass ends the render
			}
			continue
		}
		if mustFail {
			c.Violation("loop-call:accepted:"+r.K.String()+"."+name, fmt.Sprintf("pass %d of %s rendered %q, alone the call is an error", i, desc["call"], strings.TrimPrefix(pieces[i], segC)), desc)
			return
		}
		if piece := strings.TrimPrefix(pieces[i], segC); !accepts(want, piece) {
			c.Violation("loop-call:value:"+r.K.String()+"."+name, fmt.Sprintf("pass %d of %s returned %q, alone the call gives %s", i, desc["call"], piece, describeRef(want)), desc)
			return
		}
	}
	if got.Err != nil {
		c.Violation("loop-call:error", fmt.Sprintf("%s failed (%s), alone every pass succeeds", desc["call"], ErrMessage(got.Err)), desc)
	}
}

func describeArgs(args []model.Value) string {
	parts := make([]string, len(args))
	for i, a := range args {
		parts[i] = a.Describe()
	}
	return strings.Join(parts, ", ")
}

func init() {
	type pair struct {
		recv model.Value
		name string
	}
	var pairs []pair
	for _, k := range []model.Kind{model.KStr, model.KArr, model.KInt, model.KFloat, model.KBool} {
		for _, r := range c11Receivers[k] {
			for _, n := range model.BuiltinNames(k) {
				pairs = append(pairs, pair{r, n})
			}
		}
	}
	core.Register(&core.Check{
		ID:    "C11",
		Level: "exploration",
		Rule: "cases are calls of every built-in (39) on every receiver of a table (empty/ASCII/2-3-4-byte/combining strings, arrays incl. nested arrays and objects, boundary integers, floats around .5, booleans) with every argument tuple of length 0..2 (and a sample of length 3) from a pool of counts around the receiver sizes, separators and wrong kinds; the exhaustive (len,start,end) cube for slice and (len,n) squares for truncate/at/repeat; call sequences that would expose shared storage; receiver and arguments come from the data map and every render prints receiver before, result, receiver after and the arguments. " +
			"Oracles: one independent reference function per built-in (error or clamped result where the contract is silent), before==after (purity), utf8.ValidString, and a custom function registered under every built-in name that must never run. also one call site over receivers of changing kinds, an integer ladder around powers of ten and two; round 8: counts to 4 Mi, 8 rounds of concurrent built-in calls; round 9: products wrapping around 2^64; rounds 10-11: nil-valued properties, width-changing case mappings, character references; round 13: concurrent shuffles; round 15: references without semicolons, concurrent character built-ins; distinct_nontrivial = distinct calls (receiver, name, arguments)",
		Assumptions: []string{
			"where the statement names no behaviour (split, raw, trim*, upper, lower, join, repeat, rand) the reference is the obvious reading of the name, consistent with the pinned suite",
			"extra arguments beyond those a function knows may be ignored or rejected; counts whose result would exceed a few MiB are not generated",
		},
		Setup: func(c *core.Ctx) { registerShadows() },
		Finish: func(c *core.Ctx) {
			if n := shadowCalls.Load(); n > 0 {
				c.Violation("shadowed-builtin", fmt.Sprintf("custom functions registered under built-in names ran %d times", n), nil)
			}
		},
		Sections: func(tier core.Tier, seed int64) []core.Section {
			nRandom := 30000
			if tier == core.Thorough {
				nRandom = 12000000
			}
			var secs []core.Section
			secs = append(secs, core.Section{Name: "builtin-x-receiver-x-args", Exhaustive: true, N: len(pairs),
				Run: func(c *core.Ctx, i int) {
					p := pairs[i]
					judgeCall(c, p.recv, p.name, nil)
					for _, a := range c11Args {
						judgeCall(c, p.recv, p.name, []model.Value{a})
					}
					for _, a := range c11Args {
						for _, b := range c11Args {
							judgeCall(c, p.recv, p.name, []model.Value{a, b})
						}
					}
					for k := 0; k < 40; k++ {
						judgeCall(c, p.recv, p.name, []model.Value{c11Args[c.Rng.Intn(len(c11Args))], c11Args[c.Rng.Intn(len(c11Args))], c11Args[c.Rng.Intn(len(c11Args))]})
					}
					if i%40 == 0 {
						c.Sample(fmt.Sprintf("(%s).%s(...) with all 0..2-tuples of %d argument values", p.recv.Describe(), p.name, len(c11Args)))
					}
				}})
			// small numeric domains exhaustively
			// the same call expression evaluated with receivers of changing kinds
			loopNames := append([]string{}, allBuiltinNames...)
			loopKinds := []model.Value{model.Str("héllo"), model.Arr(model.Int(1), model.Int(2), model.Int(3)), model.Int(-7), model.Float(2.5), model.Bool(true), model.Str(""), model.Arr()}
			secs = append(secs, core.Section{Name: "one-call-site-many-receiver-kinds", Exhaustive: true, N: len(loopNames) * len(loopKinds) * len(loopKinds),
				Run: func(c *core.Ctx, i int) {
					name := loopNames[i%len(loopNames)]
					i /= len(loopNames)
					r1, r2 := loopKinds[i%len(loopKinds)], loopKinds[i/len(loopKinds)]
					if r1.K == r2.K {
						return
					}
					for _, args := range [][]model.Value{nil, {model.Int(1)}, {model.Str("l")}, {model.Int(0), model.Int(2)}} {
						judgeLoopCalls(c, []model.Value{r1, r2, r1}, name, args, false)
						judgeLoopCalls(c, []model.Value{r1, r1, r2}, name, args, true)
					}
				}})
			// integers around every power of ten and of two, and strings of nines: digit counts and conversions
			// that go through floating point go wrong here first
			var ladder []model.Value
			p10 := int64(1)
			for k := 1; k <= 18; k++ {
				p10 *= 10
				for _, d := range []int64{-2, -1, 0, 1, 2} {
					ladder = append(ladder, model.Int(p10+d), model.Int(-(p10 + d)))
				}
			}
			for k := uint(8); k <= 62; k += 3 {
				for _, d := range []int64{-1, 0, 1} {
					ladder = append(ladder, model.Int(int64(1)<<k+d), model.Int(-(int64(1)<<k + d)))
				}
			}
			for _, v := range []int64{99999999999999999, 999999999999999999, 99999999999999989, 999999999999999872, 9007199254740993, 4503599627370497, 123456789012345678} {
				ladder = append(ladder, model.Int(v), model.Int(-v))
			}
			intNames := model.BuiltinNames(model.KInt)
			secs = append(secs, core.Section{Name: "integer-ladder", Exhaustive: true, N: len(ladder),
				Run: func(c *core.Ctx, i int) {
					for _, n := range intNames {
						judgeCall(c, ladder[i], n, nil)
						judgeCall(c, ladder[i], n, []model.Value{model.Str(",")})
						judgeCall(c, ladder[i], n, []model.Value{model.Str("."), model.Int(3)})
					}
					// the same magnitudes as floats and as digit strings
					f := model.Float(float64(ladder[i].I))
					for _, n := range model.BuiltinNames(model.KFloat) {
						judgeCall(c, f, n, nil)
					}
					ds := model.Str(fmt.Sprint(ladder[i].I))
					for _, n := range []string{"len", "decimal", "reverse", "at", "first", "last"} {
						judgeCall(c, ds, n, nil)
					}
				}})
			secs = append(secs, core.Section{Name: "slice-cube", Exhaustive: true, N: 6,
				Run: func(c *core.Ctx, n int) {
					var el []model.Value
					for k := 0; k < n; k++ {
						el = append(el, model.Int(int64(k*k+1)))
					}
					arr := model.Arr(el...)
					for s := int64(-7); s <= 7; s++ {
						judgeCall(c, arr, "slice", []model.Value{model.Int(s)})
						for e := int64(-7); e <= 7; e++ {
							judgeCall(c, arr, "slice", []model.Value{model.Int(s), model.Int(e)})
						}
					}
				}})
			strs := []string{"", "a", "ab", "héé", "中文字x", "a😀b😀c", "éé"}
			secs = append(secs, core.Section{Name: "count-squares", Exhaustive: true, N: len(strs),
				Run: func(c *core.Ctx, i int) {
					s := model.Str(strs[i])
					for n := int64(-8); n <= 8; n++ {
						judgeCall(c, s, "at", []model.Value{model.Int(n)})
						judgeCall(c, s, "repeat", []model.Value{model.Int(n)})
						judgeCall(c, s, "truncate", []model.Value{model.Int(n)})
						for _, ell := range []string{"", "…", "--"} {
							judgeCall(c, s, "truncate", []model.Value{model.Int(n), model.Str(ell)})
						}
						judgeCall(c, model.Str("15"), "decimal", []model.Value{model.Str(strs[i]), model.Int(n)})
						judgeCall(c, model.Int(n), "decimal", []model.Value{model.Str(strs[i]), model.Int(n)})
					}
				}})
			// counts beyond what formatting helpers and small buffers take: the zeros, copies and characters are all there
			bigCounts := []int64{255, 256, 1000, 4096, 65535, 65536, 65537, 999999, 1000000, 1000001, 1<<20 - 1, 1 << 20, 1<<20 + 1, 1<<21 + 3, 1 << 22}
			secs = append(secs, core.Section{Name: "large-counts", Exhaustive: true, N: len(bigCounts),
				Run: func(c *core.Ctx, i int) {
					n := bigCounts[i]
					judgeCall(c, model.Int(5), "decimal", []model.Value{model.Str(","), model.Int(n)})
					judgeCall(c, model.Str("15"), "decimal", []model.Value{model.Str("%"), model.Int(n)})
					judgeCall(c, model.Str("é"), "repeat", []model.Value{model.Int(n)})
					long := model.Str(strings.Repeat("aé中", int(n/3)+1))
					judgeCall(c, long, "len", nil)
					judgeCall(c, long, "truncate", []model.Value{model.Int(n - 1)})
					judgeCall(c, long, "at", []model.Value{model.Int(n - 1)})
					judgeCall(c, long, "last", nil)
				}})
			// counts whose product with the byte length of the receiver wraps around 2^64
			secs = append(secs, core.Section{Name: "wrapping-products", Exhaustive: true, N: len(stringsOfByteLength),
				Run: func(c *core.Ctx, i int) {
					recv := model.Str(stringsOfByteLength[i])
					for _, n := range wrappingCounts(len(recv.S)) {
						judgeCall(c, recv, "repeat", []model.Value{model.Int(n)})
						judgeCall(c, model.Int(5), "decimal", []model.Value{recv, model.Int(n)})
						judgeCall(c, recv, "truncate", []model.Value{model.Int(n), recv})
						judgeCall(c, recv, "at", []model.Value{model.Int(n)})
						judgeCall(c, model.Arr(recv, recv), "slice", []model.Value{model.Int(0), model.Int(n)})
					}
				}})
			// contains is structural equality: values that print alike but differ in structure or kind
			type cpair struct{ recv, arg model.Value }
			i1, i2 := model.Int(1), model.Int(2)
			cpairs := []cpair{
				{model.Arr(model.Arr(i1, model.Arr(i2))), model.Arr(model.Arr(i1), i2)},
				{model.Arr(model.Arr(model.Arr(i1, i2))), model.Arr(i1, i2)},
				{model.Arr(model.Arr(model.Str("1, 2"))), model.Arr(i1, i2)},
				{model.Arr(model.Arr(model.Str("1"))), model.Arr(i1)},
				{model.Arr(model.Obj(map[string]model.Value{"a": i1})), model.Obj(map[string]model.Value{"a": model.Str("1")})},
				{model.Arr(model.Obj(map[string]model.Value{"a": i1, "b": i2})), model.Obj(map[string]model.Value{"b": i2, "a": i1})},
				{model.Arr(model.Arr(i1, i2), model.Arr()), model.Arr()},
				{model.Arr(model.Arr(model.Nil)), model.Arr(model.Str(""))},
				{model.Arr(model.Str("1"), model.Float(1), model.Bool(true)), i1},
				{model.Arr(i1, model.Str("true")), model.Bool(true)},
				{model.Arr(model.Str("")), model.Nil},
				{model.Arr(model.Nil), model.Str("")},
				{model.Arr(model.Float(2)), i2},
				{model.Arr(model.Arr(i1, i2)), model.Arr(i2, i1)},
				{model.Arr(model.Obj(map[string]model.Value{"a": model.Arr(i1)})), model.Obj(map[string]model.Value{"a": model.Arr(i1)})},
				// properties that hold nil are properties: they tell an object from one without them
				{model.Arr(model.Obj(map[string]model.Value{"a": model.Nil})), model.Obj(map[string]model.Value{})},
				{model.Arr(model.Obj(map[string]model.Value{})), model.Obj(map[string]model.Value{"a": model.Nil})},
				{model.Arr(model.Obj(map[string]model.Value{"a": model.Nil})), model.Obj(map[string]model.Value{"b": model.Nil})},
				{model.Arr(model.Obj(map[string]model.Value{"id": model.Int(7), "parent": model.Nil})), model.Obj(map[string]model.Value{"id": model.Int(7)})},
				{model.Arr(model.Obj(map[string]model.Value{"id": model.Int(7), "parent": model.Nil})), model.Obj(map[string]model.Value{"parent": model.Nil, "id": model.Int(7)})},
				{model.Arr(model.Arr(model.Obj(map[string]model.Value{"k": model.Obj(map[string]model.Value{"z": model.Nil})}))), model.Arr(model.Obj(map[string]model.Value{"k": model.Obj(map[string]model.Value{})}))},
				{model.Arr(model.Arr(model.Nil)), model.Arr()},
				{model.Arr(model.Arr(model.Nil, model.Nil)), model.Arr(model.Nil)},
				{model.Arr(model.Obj(map[string]model.Value{"a": model.Str("")})), model.Obj(map[string]model.Value{"a": model.Nil})},
				{model.Arr(model.Obj(map[string]model.Value{"a": model.Int(0)})), model.Obj(map[string]model.Value{"a": model.Bool(false)})},
				{model.Arr(model.Obj(map[string]model.Value{"a": model.Float(0)})), model.Obj(map[string]model.Value{"a": model.Int(0)})},
				{model.Arr(model.Arr(model.Arr(i1))), model.Arr(model.Arr(i1))},
				{model.Arr(model.Arr(model.Obj(map[string]model.Value{"a": i1}))), model.Arr(model.Obj(map[string]model.Value{"a": i1}))},
				{model.Arr(model.Arr(model.Arr(model.Arr(i1, i2)))), model.Arr(model.Arr(model.Arr(i1, i2)))},
			}
			secs = append(secs, core.Section{Name: "contains-structural", Exhaustive: true, N: len(cpairs),
				Run: func(c *core.Ctx, i int) {
					judgeCall(c, cpairs[i].recv, "contains", []model.Value{cpairs[i].arg})
					// and the other way round where the argument is an array
					if cpairs[i].arg.K == model.KArr {
						judgeCall(c, model.Arr(cpairs[i].arg), "contains", []model.Value{cpairs[i].recv.A[0]})
					}
				}})
			// empty arrays are structurally equal wherever they come from: a literal, the data (nil or empty
			// slice), slice()/reverse()/split() results, nested in arrays and objects
			empties := []string{"[]", "e", "n", "[1].slice(1)", "[1, 2].slice(1, 1)", "[].reverse()", "e.slice(0)", "n.reverse()", "[1, 2, 3].slice(5)", "\"a\".split(\"b\").slice(1)", "[].shuffle()", "e.shuffle()"}
			secs = append(secs, core.Section{Name: "contains-empty-arrays", Exhaustive: true, N: len(empties) * len(empties),
				Run: func(c *core.Ctx, i int) {
					x, y := empties[i/len(empties)], empties[i%len(empties)]
					// every array built-in gives on an empty array what it gives on the literal []
					if x == y {
						for _, call := range []string{"len()", "join(\"-\")", "rand()", "reverse()", "slice(0)", "slice(1, 2)", "shuffle()", "contains(1)", "append(1)", "prepend(1)", "append(1).len()", "reverse().len()", "rand() ? 1 : 0", "slice(0).rand()"} {
							lit := evalString(c, "<{{ []."+call+" }}>", nil)
							got := evalString(c, "<{{ ("+x+")."+call+" }}>", map[string]any{"e": []int{}, "n": []int(nil)})
							c.Nontrivial(x + "." + call)
							if !got.Panicked && !lit.Panicked && (got.Out != lit.Out || (got.Err == nil) != (lit.Err == nil)) {
								c.Violation("contract:empty-array:"+call, fmt.Sprintf("(%s).%s gave %s, on the literal [] it gives %s", x, call, got.Describe(), lit.Describe()), map[string]any{"source": "{{ (" + x + ")." + call + " }}"})
							}
						}
					}
					for _, tc := range []struct{ src, want string }{
						{"{{ [" + x + "].contains(" + y + ") }}", "1"},
						{"{{ [1, " + x + ", \"s\"].contains(" + y + ") }}", "1"},
						{"{{ [[" + x + "]].contains([" + y + "]) }}", "1"},
						{"{{ [{a: " + x + ", b: 1}].contains({b: 1, a: " + y + "}) }}", "1"},
						{"{{ [[1], [" + x + ", 2]].contains([" + y + ", 2]) }}", "1"},
						{"{{ [" + x + "].contains([" + y + "]) }}", "0"},
						{"{{ [[1]].contains(" + y + ") }}", "0"},
					} {
						c.Input(map[string]any{"source": tc.src})
						got := evalString(c, tc.src, map[string]any{"e": []int{}, "n": []int(nil)})
						c.Nontrivial(tc.src)
						if !got.Panicked && (got.Err != nil || got.Out != tc.want) {
							c.Violation("contract:array.contains:empty-arrays", fmt.Sprintf("%s gave %s, want %q: contains is structural equality", tc.src, got.Describe(), tc.want), map[string]any{"source": tc.src})
						}
					}
				}})
			// call sequences: results must not share storage with the receiver or with each other
			seqs := sharingSequences()
			secs = append(secs, core.Section{Name: "call-sequences", Exhaustive: true, N: len(seqs),
				Run: func(c *core.Ctx, i int) {
					sq := seqs[i]
					exp := expectRun(sq.prog, sq.data)
					src := model.PrintStmts(sq.prog, model.Style{Layout: model.SpaceLayout})
					c.Input(map[string]any{"source": src, "data": model.DescribeData(sq.data)})
					got := evalString(c, src, model.NativeData(sq.data))
					c.Nontrivial(src + fmt.Sprint(model.DescribeData(sq.data)))
					c.Sample(map[string]any{"source": src, "expected": expectText(exp)})
					if why := compare(exp, got, false, nil); why != "" {
						c.Violation("purity:sequence", why, map[string]any{"source": src, "data": model.DescribeData(sq.data)})
					}
				}})
			// several goroutines call built-ins at once, each on its own receivers: every call still returns what it
			// returns alone (the alone value was taken first, one call at a time; the other sections judge it)
			concCalls := []string{"s.reverse()", "s.upper()", "s.lower()", "s.capitalize()", "s.trim()", "s.trim(\"g\")", "s.first()", "s.last()", "s.len()", "s.at(2)", "s.truncate(4)", "s.truncate(4, \"--\")", "s.repeat(2)",
				"s.split(\"-\").join(\"+\")", "s.contains(\"-\")", "s.raw()", "s.trimLeft()", "s.trimRight(\"7\")", "s.split(\"\").reverse().join(\"\")", "s.decimal()",
				"a.reverse().join(\",\")", "a.join(\"/\")", "a.slice(1).join(\",\")", "a.append(n).join(\",\")", "a.prepend(n).join(\",\")", "a.contains(n)", "a.len()",
				"n.str()", "n.decimal(\",\", 3)", "n.abs()", "n.float()", "n.len()", "f.str()", "f.round()", "f.ceil()", "f.floor()", "f.int()", "f.abs()", "(f / 3.0).round(2)", "f--", "f++", "n--", "(n == 3).then(s, f)",
				// what varies from call to call, read through what cannot vary
				"a.shuffle().len()", "a.shuffle().join(\",\").len()", "a.contains(a.rand())", "a.shuffle().contains(n)", "a.shuffle().shuffle().reverse().len()", "[a.rand()].len()", "s.split(\"\").shuffle().len()"}
			secs = append(secs, core.Section{Name: "concurrent-built-ins", N: 8,
				Run: func(c *core.Ctx, i int) {
					const G, N = 8, 160
					c.Input(map[string]any{"goroutines": G, "calls_each": N, "round": i})
					c.Nontrivial(fmt.Sprint("builtin-burst", i, c.Seed))
					type one struct {
						src  string
						data map[string]any
						want string
					}
					plan := make([][]one, G)
					for g := 0; g < G; g++ {
						for n := 0; n < N; n++ {
							call := concCalls[(n+g*5+i)%len(concCalls)]
							str := fmt.Sprintf("g%d-%s-n%d7", g, strings.Repeat([]string{"αβγ", "x", "中文", "Zz ", "😀é"}[(g+n)%5], 1+(n*7+g)%40), n)
							data := map[string]any{"s": str, "a": []int{g, n, g * n, n - g}, "n": g*1000 + n - 500, "f": float64(g*100+n) + 0.625}
							src := "<{{ " + call + " }}|{{ s }}|{{ a }}|{{ n }}|{{ f }}>"
							alone := evalString(c, src, data)
							if alone.Panicked {
								return
							}
							want := alone.Out
							if alone.Err != nil {
								want = "error: " + alone.Err.Error()
							}
							plan[g] = append(plan[g], one{src, data, want})
						}
					}
					concurrentBurst(c, G, N, func(g, n int) (string, map[string]any, string) {
						o := plan[g][n]
						want := o.want
						return o.src, o.data, want
					})
				}})
			// many goroutines shuffle and draw at once: every result is still an arrangement of (an element of) its receiver
			// many goroutines reverse, cut and re-case short strings of their own at once, hundreds of times per evaluation
			secs = append(secs, core.Section{Name: "concurrent-character-built-ins", N: 6,
				Run: func(c *core.Ctx, i int) {
					const G, N = 16, 60
					c.Input(map[string]any{"goroutines": G, "calls_each": N, "round": i})
					c.Nontrivial(fmt.Sprint("character-burst", i, c.Seed))
					src := "@for(k = 0; k < 120; k++){{ s.reverse() == r ? \"\" : \"torn-reverse \" }}{{ s.reverse().reverse() == s ? \"\" : \"torn-twice \" }}{{ s.upper().lower() == l ? \"\" : \"torn-case \" }}" +
						"{{ s.truncate(5, \"\") + s.at(5) == s.truncate(6, \"\") ? \"\" : \"torn-cut \" }}{{ s.split(\"\").reverse().join(\"\") == r ? \"\" : \"torn-split \" }}@end|{{ s.len() }}"
					concurrentBurst(c, G, N, func(g, n int) (string, map[string]any, string) {
						unit := []string{"αβγδ", "xyz", "中文字", "Zz ", "😀é", "ǅž"}[(g+n)%6]
						str := fmt.Sprintf("g%d-%s-n%d", g, strings.Repeat(unit, 2+(n*7+g)%9), n)
						runes := []rune(str)
						rev := make([]rune, len(runes))
						for k, r := range runes {
							rev[len(runes)-1-k] = r
						}
						return src, map[string]any{"s": str, "r": string(rev), "l": strings.ToLower(strings.ToUpper(str))}, fmt.Sprintf("|%d", len(runes))
					})
				}})
			secs = append(secs, core.Section{Name: "concurrent-shuffles", N: 8,
				Run: func(c *core.Ctx, i int) {
					const G, N = 16, 120
					c.Input(map[string]any{"goroutines": G, "calls_each": N, "round": i})
					c.Nontrivial(fmt.Sprint("shuffle-burst", i, c.Seed))
					src := "{{ a.shuffle().len() }}|{{ a.shuffle().join(\",\").len() }}|{{ a.contains(a.rand()) }}|{{ a.shuffle().contains(a.shuffle().rand()) }}|{{ a.shuffle().shuffle().shuffle().len() }}|@each(v in a.shuffle()){{ a.contains(v) ? \"\" : \"lost\" }}@end|@for(k = 0; k < 500; k++){{ a.shuffle().len() == a.len() ? \"\" : \"short\" }}{{ a.contains(a.rand()) ? \"\" : \"stray\" }}@end|{{ a.len() }}"
					concurrentBurst(c, G, N, func(g, n int) (string, map[string]any, string) {
						k := 40 + (g+n)%30
						xs := make([]int, k)
						joined := k - 1
						for j := range xs {
							xs[j] = 100 + g*1000 + j
							joined += len(fmt.Sprint(xs[j]))
						}
						return src, map[string]any{"a": xs}, fmt.Sprintf("%d|%d|1|1|%d|||%d", k, joined, k, k)
					})
				}})
			// random tuples
			secs = append(secs, core.Section{Name: "random-calls", N: nRandom,
				Run: func(c *core.Ctx, i int) {
					p := pairs[c.Rng.Intn(len(pairs))]
					n := c.Rng.Intn(4)
					args := make([]model.Value, n)
					for k := range args {
						if c.Rng.Intn(3) == 0 {
							args[k] = model.Int(int64(c.Rng.Intn(25) - 12))
						} else {
							args[k] = c11Args[c.Rng.Intn(len(c11Args))]
						}
					}
					judgeCall(c, p.recv, p.name, args)
				}})
			return secs
		},
	})
}

type seqCase struct {
	prog []model.Stmt
	data map[string]model.Value
}

// sharingSequences: two calls on one receiver, and calls chained on results
// that may alias the receiver (slice, reverse, append, prepend)
func sharingSequences() []seqCase {
	var out []seqCase
	r := model.Var{Name: "r"}
	call := func(x model.Expr, name string, args ...model.Value) model.Expr {
		var ae []model.Expr
		for _, a := range args {
			ae = append(ae, literalOf(a))
		}
		return model.Call{X: x, Name: name, Args: ae}
	}
	show := func(names ...string) []model.Stmt {
		var s []model.Stmt
		for _, n := range names {
			s = append(s, model.Text{S: "[" + n + ":"}, model.Print{E: model.Call{X: model.Var{Name: n}, Name: "join", Args: []model.Expr{model.Lit{V: model.Str("/")}}}}, model.Text{S: "]"})
		}
		return s
	}
	for n := 0; n <= 9; n++ {
		var el []model.Value
		for k := 0; k < n; k++ {
			el = append(el, model.Int(int64(k+1)))
		}
		arr := model.Arr(el...)
		for _, asData := range []bool{true, false} {
			data := map[string]model.Value{}
			var pre []model.Stmt
			if asData {
				data["r"] = arr
			} else {
				pre = []model.Stmt{model.Assign{Name: "r", E: literalOf(arr)}}
			}
			add := func(stmts ...model.Stmt) {
				out = append(out, seqCase{append(append([]model.Stmt{}, pre...), stmts...), data})
			}
			for _, fn := range []string{"append", "prepend"} {
				add(append([]model.Stmt{
					model.Assign{Name: "u", E: call(r, fn, model.Int(40))},
					model.Assign{Name: "w", E: call(r, fn, model.Int(50), model.Int(60))},
					model.Assign{Name: "x", E: call(model.Var{Name: "u"}, fn, model.Int(70))},
				}, show("u", "w", "x", "r")...)...)
			}
			for _, first := range []model.Expr{call(r, "slice", model.Int(0), model.Int(1)), call(r, "slice", model.Int(1)), call(r, "reverse"), call(r, "slice", model.Int(0))} {
				for _, fn := range []string{"append", "prepend"} {
					add(append([]model.Stmt{
						model.Assign{Name: "u", E: first},
						model.Assign{Name: "w", E: call(model.Var{Name: "u"}, fn, model.Int(90))},
						model.Assign{Name: "x", E: call(model.Var{Name: "u"}, fn, model.Int(91))},
					}, show("u", "w", "x", "r")...)...)
				}
			}
		}
	}
	return out
}
