package checks

import (
	"fmt"
	"strings"
	"unicode/utf8"

	"verif/core"
	"verif/model"
)

// C19 — token positions are exact, ordered and tile the source.
func init() {
	run := func(c *core.Ctx, src string) {
		c.Input(src)
		res := checkTiling(src, true)
		c.Eval(1)
		c.Count("tokens_checked", len(res.Tokens))
		c.Count("cursor_positions_checked", res.Cursors)
		c.Count("lexer_counter_disagreements_with_table", res.CounterDisagreements)
		if res.Illegal {
			c.Count("inputs_ending_in_illegal_token", 1)
		}
		if len(res.Tokens) >= 3 {
			c.Nontrivial(src)
		}
		c.Sample(src)
		for _, p := range res.Problems {
			kind := p
			if i := strings.Index(p, ":"); i > 0 {
				kind = p[:i]
			}
			c.Violation("tiling:"+kind, p, map[string]any{"input": src})
		}
	}
	core.Register(&core.Check{
		ID:    "C19",
		Level: "exploration",
		Rule: "inputs are all sequences of up to k atoms from the text alphabet (mode switches, directive names and prefixes, CRLF, UTF-8, quotes) and from the lexeme alphabet, the lexeme sequences again behind 11 leading byte sequences (byte order marks, NUL and control bytes, zero-width and non-breaking spaces, line separators), plus seeded random atom strings up to 400 bytes; " +
			"every input is lexed by the real lexer and each token is compared with an independent (line, column) <-> offset table: order, no overlap, start/end = first/last byte, covered bytes = token text, gaps = whitespace in code or comments, " +
			"EOF just past the last byte, lexer counters (verif hook) = table, and Position.Contains for every cursor of the input. round 8: comment alphabet to six atoms; scale: tokens to 1 MiB; round 10: lone CR in comments; distinct_nontrivial = distinct inputs (by hash) with at least 2 tokens before EOF",
		Assumptions: []string{
			"the token stream is considered to end at the first ILLEGAL token (the parser stops there; the lexer does not advance past it)",
			"exhaustive only up to the stated number of atoms over the stated alphabets; random beyond",
		},
		Sections: func(tier core.Tier, seed int64) []core.Section {
			tk, lk, nrand, maxb := 4, 3, 100000, 300
			if tier == core.Thorough {
				tk, lk, nrand, maxb = 5, 4, 2000000, 400
			}
			var secs []core.Section
			secs = append(secs, seqSections("text-", TextAtoms, tk, run)...)
			secs = append(secs, seqSections("lexeme-", LexemeAtoms, lk, run)...)
			// bytes a lexer might mistake for whitespace, inside code and inside text
			odd := []string{"{{", "}}", "@if(", ")", "x", "1", " ", "\n", "\xa0", "\x85", "\v", "\f", "\xc2\xa0", "\t", "\r", "\"", "+"}
			secs = append(secs, seqSections("odd-bytes-", odd, lk+1, run)...)
			secs = append(secs, seqSections("moredir-", append(append([]string{}, MoreDirectiveAtoms...), "\\", "(", " ", "x"), 2, run)...)
			// comments: everything short of the terminator is inside, whatever near-misses of the terminator it holds
			cmt := []string{"{{--", "--}}", "-", "}", "--", "{", "x", " ", "é", "\n", "\r"}
			secs = append(secs, seqSections("comment-", cmt, lk+3, run)...)
			// long tokens: names, numbers, strings, comments, white space inside code, directive arguments of 255 .. 1 Mi bytes
			tokLens := []int{255, 256, 257, 4095, 4096, 4097, 65535, 65536, 65537, 1 << 20}
			secs = append(secs, core.Section{Name: "long-tokens", Exhaustive: true, N: len(tokLens),
				Run: func(c *core.Ctx, i int) {
					n := tokLens[i]
					for _, s := range longTokenInputs(n) {
						run(c, s)
					}
				}})
			// inputs that start with bytes an editor or a tool may put in front: a byte order mark, NUL and
			// control bytes, zero-width and other non-ASCII characters
			heads := []string{"\xef\xbb\xbf", "\xff\xfe", "\x00", "\x01", "\xe2\x80\x8b", "\xc2\xa0", "\u2028", "\x1b[0m", "\r", "\n", "\t"}
			for _, h := range heads {
				h := h
				secs = append(secs, seqSections(fmt.Sprintf("head-%x-", h), LexemeAtoms, 2, func(c *core.Ctx, s string) { run(c, h+s) })...)
			}
			// long runs of plain text (a lexer may copy them in one go): every run length around powers of two,
			// on the first and on later lines, starting at column 0 or behind something, followed by every kind of token
			runLens := []int{1, 15, 16, 17, 31, 32, 33, 63, 64, 65, 127, 128, 129, 255, 256, 257, 1000}
			before := []string{"", "<div>\n", "a\nb\n", "{{ 1 }}\n", "{{ 1 }}", "<p>", "\r\n", "@if(x)\n", "{{-- c --}}\n"}
			after := []string{"", "{{ name }}", "@if(x)y@end", "{{-- c --}}", "\n", "\\{{ x }}", "\r\n{{ y }}", "@", "{", "}} {{ z }}", "é{{ w }}"}
			secs = append(secs, core.Section{Name: "long-text-runs", Exhaustive: true, N: len(runLens) * len(before),
				Run: func(c *core.Ctx, i int) {
					n, pre := runLens[i%len(runLens)], before[i/len(runLens)]
					for _, fill := range []string{"x", "ab cd ", "é", "<td class=\"c\">"} {
						body := strings.Repeat(fill, n/len(fill)+1)[:n]
						for !utf8.ValidString(body) {
							body = body[:len(body)-1]
						}
						for _, post := range after {
							run(c, pre+body+post)
						}
					}
				}})
			all := allAtoms()
			secs = append(secs, core.Section{Name: "random", N: nrand, Run: func(c *core.Ctx, i int) {
				run(c, randomAtomString(c.Rng, all, maxb))
			}})
			// long multi-line inputs: generated valid templates glued together with noise in between
			nLong := 300
			if tier == core.Thorough {
				nLong = 20000
			}
			secs = append(secs, core.Section{Name: "long-multiline", N: nLong, Run: func(c *core.Ctx, i int) {
				var sb strings.Builder
				for k := 0; k < 3+c.Rng.Intn(6); k++ {
					g := newStmtGen(c.Rng, stmtGenOpts{MaxDepth: 1 + c.Rng.Intn(3), Syntax: true, IfHeavy: k%2 == 0, LoopHeavy: k%3 == 0})
					st := exprLayouts[c.Rng.Intn(len(exprLayouts))].st(c.Rng)
					sb.WriteString(model.PrintStmts(g.program(2+c.Rng.Intn(4)), st))
					sb.WriteString([]string{"\n", "\r\n", "\n\n  ", " é中 \n", "\\{{ x }}\n", "{{-- multi\nline --}}\n"}[c.Rng.Intn(6)])
				}
				src := sb.String()
				if c.Rng.Intn(4) == 0 {
					src = src[:c.Rng.Intn(len(src)+1)]
				}
				c.Max("input_bytes", len(src))
				c.Max("input_lines", strings.Count(src, "\n")+1)
				run(c, src)
			}})
			return secs
		},
	})
}
