package checks

import (
	"fmt"
	"github.com/textwire/textwire/v2/config"
	"math"
	"math/rand"
	"os"
	"os/exec"
	"path/filepath"
	"sort"
	"strings"

	textwire "github.com/textwire/textwire/v2"

	"verif/core"
	"verif/model"
)

// C14 — rendering is deterministic.

// detCase produces one observation (output or full error text) each time it runs
type detCase struct {
	desc any
	run  func(c *core.Ctx) string
}

var detDisturbers = []string{
	"<header>menu</header>{{ missing.prop }}",
	"@each(i in items)row {{ i }} {{ 10 / (2 - i) }};@end",
	"@for(k = 0; k < 3; k++)pass {{ k }} {{ 1 / (1 - k) }}@end",
	"fine {{ items }} @each(i in items){{ i }}@end",
	"@if(true)in if @each(i in items)x{{ i.nofn() }}@end@end",
	"{{ {b: 1, a: 2, c: nope} }}",
}

var detKeys = []string{"id", "ID", "title", "Title", "a", "b", "c", "zeta", "alpha", "Beta", "k1", "k2", "k10", "é", "_x", "name", "Name", "x"}

// key sets for entries that fail together: plain, differing only in case, sharing prefixes, digits
var detKeyFamilies = [][]string{
	{"zz", "aa", "Mm", "bb", "yy"}, {"id", "ID", "Id", "iD", "aa"}, {"name", "Name", "NAME", "nAme", "naMe"}, {"k10", "k9", "k1", "K1", "k"}, {"aa", "aA", "Aa", "AA", "a"}, {"_x", "x", "X", "_X", "x_"},
}

func manyKeyObject(r *rand.Rand, n int, depth int) map[string]any {
	out := map[string]any{}
	perm := r.Perm(len(detKeys))
	for i := 0; i < n && i < len(perm); i++ {
		k := detKeys[perm[i]]
		switch {
		case depth > 0 && r.Intn(4) == 0:
			out[k] = manyKeyObject(r, 2+r.Intn(4), depth-1)
		case r.Intn(5) == 0:
			out[k] = []any{1, map[string]any{"q": 1, "Q": 2, "p": 3}}
		default:
			out[k] = []any{i, fmt.Sprintf("v%d", i), float64(i) + 0.5, true, nil}[r.Intn(5)]
		}
	}
	return out
}

func observe(out string, err error) string {
	if err != nil {
		return "ERR:" + err.Error()
	}
	return "OUT:" + out
}

func genDetCase(c *core.Ctx, i int) detCase {
	r := c.Rng
	switch i % 12 {
	case 11: // a data map with two to five entries that cannot be bound (unsupported kinds, nested ones, the reserved name)
		bad := map[string]func() any{"ch": func() any { return make(chan int) }, "fn": func() any { return func() {} }, "cx": func() any { return complex(1, 2) },
			"nested": func() any { return map[string]any{"ok": 1, "deep": []any{make(chan string)}} }, "loop": func() any { return 1 }, "Ch": func() any { return make(chan bool) },
			"up": func() any { return uintptr(7) }, "st": func() any { return struct{ F func() }{} },
			"": func() any { return make(chan int) }, " ": func() any { return func() {} }, "0": func() any { return complex(0, 1) }, "~": func() any { return make(chan struct{}) }}
		names := []string{"ch", "fn", "cx", "nested", "loop", "Ch", "up", "st", "", " ", "0", "~"}
		r.Shuffle(len(names), func(a, b int) { names[a], names[b] = names[b], names[a] })
		names = names[:2+r.Intn(4)]
		sort.Strings(names)
		src := []string{"plain text", "{{ a }}{{ z }}", "@each(v in [1]){{ loop.index }}@end"}[r.Intn(3)]
		return detCase{map[string]any{"source": src, "unbindable_data_entries": names}, func(c *core.Ctx) string {
			data := map[string]any{"a": 1, "z": "last", "m": map[string]any{"k": 1}}
			for _, n := range names {
				data[n] = bad[n]()
			}
			return observe(textwire.EvaluateString(src, data))
		}}
	case 10: // template names that differ only in case, looked up under each spelling and under spellings no file has
		names := []string{"Home", "HOME", "home", "hOmE", "sub/Page", "sub/PAGE", "Sub/page"}
		r.Shuffle(len(names), func(a, b int) { names[a], names[b] = names[b], names[a] })
		files := map[string]string{"other.tw": "other"}
		for _, n := range names[:2+r.Intn(3)] {
			files[n+".tw"] = "this is " + n
		}
		want := []string{"home", "Home", "HOME", "hoME", "sub/page", "SUB/PAGE", "Sub/Page", "OTHER", "Other"}[r.Intn(9)]
		return treeDetCase(files, want)
	case 8: // shuffle() and rand() may vary, nothing else: programs that use their results only in ways that do not depend on the order
		n := 2 + r.Intn(14)
		items := make([]int, n)
		lits := make([]string, n)
		for k := range items {
			items[k] = k + 1
			lits[k] = fmt.Sprint(k + 1)
		}
		src := []string{
			"{{ a = [" + strings.Join(lits, ", ") + "] }}{{ a.shuffle().len() }}|{{ a }}|{{ a.slice(0, 1).shuffle().contains(1) }}|{{ a.join(\"-\") }}|{{ a.shuffle().contains(2) }}|{{ a }}",
			"{{ d.shuffle().len() }}|{{ d }}|{{ d.reverse().shuffle().len() }}|{{ d.join(\"-\") }}|@each(x in d){{ x }},@end|{{ d.rand() > 0 }}|{{ d }}",
			"@each(k in [1, 2, 3]){{ d.shuffle().len() }}{{ d.slice(1).shuffle().len() }}@end|{{ d }}|{{ d.slice(1) }}|{{ d.shuffle().contains(1) }}",
			"{{ o = {list: d, n: 1} }}{{ o.list.shuffle().len() }}|{{ o }}|{{ [d, d][0].shuffle().len() }}|{{ d }}",
		}[r.Intn(4)]
		return detCase{map[string]any{"source": src, "items": n}, func(c *core.Ctx) string {
			return observe(textwire.EvaluateString(src, map[string]any{"d": items}))
		}}
	case 9: // one loaded Template, the configuration changed afterwards: what it writes depends on the configuration of the moment,
		// exactly like a Template loaded later from the same files
		files := map[string]string{"page.tw": "p {{ 1 / zero }}", "errors/a.tw": "<error page A>", "errors/b.tw": "<error page B>{{ 1 + 1 }}", "ok.tw": "fine",
			// several pages a carelessly written error page path could be taken to mean
			"500.tw": "<500 at the top>", "errors/500.tw": "<500 in errors>", "admin/errors/500.tw": "<500 of the admin pages>", "errors/500/index.tw": "<500 index>"}
		order := [][]string{{"errors/a", "errors/b"}, {"errors/b", "errors/a"}, {"errors/a", "errors/missing"}, {"errors/a", ""},
			{"errors/a", "/errors/500.tw"}, {"/errors/500.tw", "errors/500.tw"}, {"500.tw", "/500"}, {"errors/500", "Errors/500"}, {"./errors/500", "errors/500/"}, {"errors//500", "views/errors/500"}}[r.Intn(10)]
		debugSecond := r.Intn(3) == 0
		debugFirst := r.Intn(2) == 0
		if order[1] == "" {
			order[1] = order[0] // an empty path does not unset a configured one
		}
		return detCase{map[string]any{"files": describeFiles(files), "error_pages_in_order": order, "debug_in_first_configuration": debugFirst, "debug_in_second_configuration": debugSecond}, func(c *core.Ctx) string {
			if err := writeFilesFresh("c14cfg", files); err != nil {
				return "WRITE:" + err.Error()
			}
			respond := func(t *textwire.Template) string {
				rec := newRecorder()
				err := t.Response(rec, "page", map[string]any{"zero": 0})
				return fmt.Sprintf("body=%q err=%v", rec.body.String(), err)
			}
			textwire.VerifResetConfig()
			first, err := textwire.NewTemplate(&config.Config{TemplateDir: "c14cfg", TemplateExt: ".tw", ErrorPagePath: order[0], DebugMode: debugFirst})
			if err != nil {
				return "LOADERR:" + err.Error()
			}
			obs := "first:" + respond(first) + "|again:" + respond(first)
			// (no reset here: the second configuration is applied on top of the first, as in a running process)
			second, err := textwire.NewTemplate(&config.Config{TemplateDir: "c14cfg", TemplateExt: ".tw", ErrorPagePath: order[1], DebugMode: debugSecond})
			if err != nil {
				return obs + "|LOADERR2:" + err.Error()
			}
			older, newer := respond(first), respond(second)
			// the same configuration applied to a clean state gives the same again
			textwire.VerifResetConfig()
			if clean, cerr := textwire.NewTemplate(&config.Config{TemplateDir: "c14cfg", TemplateExt: ".tw", ErrorPagePath: order[1], DebugMode: debugSecond}); cerr == nil {
				if fresh := respond(clean); fresh != newer {
					c.Violation("determinism:same-files-same-configuration", fmt.Sprintf("the configuration (error page %q, debug %v) applied after another one writes %s, applied to a clean state %s", order[1], debugSecond, clipS(newer, 300), clipS(fresh, 300)), map[string]any{"error_pages_in_order": order})
				}
			}
			if older != newer {
				c.Violation("determinism:same-files-same-configuration", fmt.Sprintf("two Templates loaded from the same files write different things under the same configuration: the one loaded earlier %s, the one loaded now %s", clipS(older, 300), clipS(newer, 300)), map[string]any{"error_pages_in_order": order})
			}
			return obs + "|older:" + older + "|newer:" + newer
		}}
	case 0: // objects from the data map printed, dumped, nested, iterated
		obj := manyKeyObject(r, 2+r.Intn(11), 2)
		src := []string{"{{ o }}", "@dump(o)", "{{ [o, o] }}", "@dump(o, [o])", "{{ {w: o, v: 1} }}", "{{ x = o }}{{ x }}|@dump(x)", "@each(e in [o, o]){{ e }};@end", "{{ o.toString }}",
			"{{ o.userid }}", "@dump(o.apikey)", "{{ o[\"userid\"] }}|{{ o.userId }}", "{{ o.Userid }}{{ o.apikey }}", "{{ u = {UserID: 1, UserId: 2, USERID: 3, apiKey: 4, APIKEY: 5} }}{{ u.userid }}{{ u.apikey }}"}[r.Intn(13)]
		for _, k := range []string{"UserID", "UserId", "USERID", "apiKey", "APIKEY", "ApiKey"} {
			obj[k] = k
		}
		return detCase{map[string]any{"source": src, "object_keys": len(obj)}, func(c *core.Ctx) string {
			return observe(textwire.EvaluateString(src, map[string]any{"o": obj}))
		}}
	case 1: // object literals with several keys, printed and dumped
		n := 2 + r.Intn(7)
		perm := r.Perm(len(detKeys))
		var pairs []string
		for k := 0; k < n; k++ {
			key := detKeys[perm[k]]
			if !identRe.MatchString(key) {
				continue
			}
			pairs = append(pairs, key+": "+[]string{"1", "\"s\"", "[1, 2]", "{in1: 1, In1: 2, in2: 3}", "2.5", "nil"}[r.Intn(6)])
		}
		src := "{{ {" + strings.Join(pairs, ", ") + "} }}|@dump({" + strings.Join(pairs, ", ") + "})"
		if r.Intn(3) == 0 && len(pairs) >= 2 {
			// a dumped object literal one of whose values fails (what @dump writes is up to it - but the same every time)
			src = "@dump({" + strings.Join(pairs, ", ") + ", zlast: missing9})|@dump([{" + strings.Join(pairs, ", ") + "}, 1 / 0], {" + strings.Join(pairs, ", ") + "}.nofn())"
		}
		return detCase{map[string]any{"source": src}, func(c *core.Ctx) string { return observe(textwire.EvaluateString(src, nil)) }}
	case 2: // object literals / array literals with 2..4 failing entries
		fails := []string{"nope1", "1 / 0", "\"x\" + 1", "nope2.y", "5.nofn()", "7 % 0", "[1][0].k"}
		if r.Intn(3) == 0 {
			// entries that are literals under a prefix operator of the wrong type (nothing in them is computed)
			fails = []string{"-\"x\"", "!5", "-true", "-nil", "![1]", "-\"y\"", "!\"s\""}
		}
		r.Shuffle(len(fails), func(a, b int) { fails[a], fails[b] = fails[b], fails[a] })
		n := 2 + r.Intn(3)
		failKeys := detKeyFamilies[r.Intn(len(detKeyFamilies))]
		var pairs []string
		for k := 0; k < n; k++ {
			// the failing expression is the value itself or sits inside a literal that is the value
			wrap := []string{"%s", "%s", "[\"a\", %s]", "[%s, \"b\"]", "{z: %s}", "[[%s]]", "[1, {q: %s}]"}[r.Intn(7)]
			pairs = append(pairs, fmt.Sprintf("%s: "+wrap, failKeys[k], fails[k]))
		}
		if r.Intn(2) == 0 {
			pairs = append(pairs, "ok: 1")
		}
		if r.Intn(2) == 0 {
			pairs = append(pairs, "name: \"Ann\"", "list: [1, 2]")
			r.Shuffle(len(pairs), func(a, b int) { pairs[a], pairs[b] = pairs[b], pairs[a] })
		}
		src := "line1\n{{ {" + strings.Join(pairs, ",\n ") + "} }}"
		return detCase{map[string]any{"source": src}, func(c *core.Ctx) string { return observe(textwire.EvaluateString(src, nil)) }}
	case 3: // component arguments with several failing entries; many-key arguments
		if r.Intn(3) == 0 {
			// every value evaluates, but several arguments cannot be bound (type of a visible name, reserved name)
			cand := []string{"title: 404", "count: \"many\"", "width: 2.5", "loop: 1", "flag: \"yes\"", "zz: [1]"}
			r.Shuffle(len(cand), func(a, b int) { cand[a], cand[b] = cand[b], cand[a] })
			n := 2 + r.Intn(4)
			files := map[string]string{
				"components/c.tw": "<{{ title }}>",
				"page.tw":         "p\n@component(\"~c\", {" + strings.Join(cand[:n], ", ") + "})\n",
			}
			dc := treeDetCase(files, "page")
			inner := dc.run
			dc.run = func(c *core.Ctx) string {
				tpl, err := loadTree(c, "c14tree", files, ".tw")
				if err != nil || tpl == nil {
					return inner(c)
				}
				out, fe := tpl.String("page", map[string]any{"title": "t", "count": 3, "width": "w", "flag": true, "zz": "s"})
				if fe != nil {
					return fmt.Sprintf("ERR:%s|line=%d|path=%s", fe.Message(), fe.Line(), fe.Filepath())
				}
				return "OUT:" + out
			}
			return dc
		}
		fails := []string{"nope1", "1 / 0", "\"x\" + 1", "nope2.y"}
		r.Shuffle(len(fails), func(a, b int) { fails[a], fails[b] = fails[b], fails[a] })
		n := 2 + r.Intn(3)
		argKeys := detKeyFamilies[r.Intn(len(detKeyFamilies))]
		var args []string
		for k := 0; k < n; k++ {
			v := fails[k]
			if r.Intn(3) == 0 {
				v = fmt.Sprintf("%d", k)
			}
			args = append(args, fmt.Sprintf("%s: %s", argKeys[k], v))
		}
		files := map[string]string{
			"components/c.tw": "<{{ aa }}>",
			"page.tw":         "p\n@component(\"~c\", {" + strings.Join(args, ", ") + "})\n",
		}
		return treeDetCase(files, "page")
	case 4: // 2..4 undefined inserts, duplicate inserts
		var inserts []string
		names := []string{"zeta", "alpha", "Mid", "beta", "", " ", "0", "Zeta"}
		r.Shuffle(len(names), func(a, b int) { names[a], names[b] = names[b], names[a] })
		if r.Intn(2) == 0 {
			// the empty name is among the first two
			for k, n := range names {
				if n == "" {
					names[k], names[r.Intn(2)] = names[r.Intn(2)], names[k]
					break
				}
			}
		}
		for k := 0; k < 2+r.Intn(3); k++ {
			if r.Intn(2) == 0 {
				inserts = append(inserts, fmt.Sprintf("@insert(\"%s\", %d)\n", names[k], k))
			} else {
				inserts = append(inserts, fmt.Sprintf("@insert(\"%s\")b%d@end\n", names[k], k))
			}
		}
		if r.Intn(3) == 0 {
			// several names, each passed twice (the names the layout reserves among them)
			inserts = inserts[:0]
			rep := []string{names[0], names[1], "ok", names[0], "ok", names[1], names[2], names[2]}[:4+2*r.Intn(3)]
			r.Shuffle(len(rep), func(a, b int) { rep[a], rep[b] = rep[b], rep[a] })
			for k, n := range rep {
				if r.Intn(2) == 0 {
					inserts = append(inserts, fmt.Sprintf("@insert(\"%s\", %d)\n", n, k))
				} else {
					inserts = append(inserts, fmt.Sprintf("@insert(\"%s\")b%d@end\n", n, k))
				}
			}
		}
		files := map[string]string{
			"layouts/l.tw": "<@reserve(\"ok\")>",
			"page.tw":      "@use(\"~l\")\n@insert(\"ok\", 1)\n" + strings.Join(inserts, ""),
		}
		if r.Intn(3) == 0 {
			// a layout without any reserve: every insert of the page is undefined
			files["layouts/l.tw"] = "<bare layout>"
		}
		return treeDetCase(files, "page")
	case 5: // 2..3 slots passed twice, several undeclared slots
		names := []string{"zeta", "alpha", "Mid", "beta", "Alpha"}
		r.Shuffle(len(names), func(a, b int) { names[a], names[b] = names[b], names[a] })
		var slots []string
		comp := "<"
		once := r.Intn(2) == 0 // every slot passed once: the undeclared ones are the only faults
		for k := 0; k < 2+r.Intn(3); k++ {
			if r.Intn(4) != 0 && !(once && k < 2) {
				comp += "@slot(\"" + names[k] + "\")|"
			}
			slots = append(slots, "@slot(\""+names[k]+"\")one@end\n")
			if !once {
				slots = append(slots, "@slot(\""+names[k]+"\")two@end\n")
			}
		}
		r.Shuffle(len(slots), func(a, b int) { slots[a], slots[b] = slots[b], slots[a] })
		files := map[string]string{
			"components/c.tw": comp + ">",
			"page.tw":         "p\n@component(\"~c\")\n" + strings.Join(slots, "") + "@end\n",
		}
		if r.Intn(3) == 0 {
			// two to five different components (all files present), every use with a slot fault of its own
			comps := []string{"zeta", "alpha", "Mid", "beta", "Alpha", "card", "z"}
			r.Shuffle(len(comps), func(a, b int) { comps[a], comps[b] = comps[b], comps[a] })
			page := "p\n"
			for k, cn := range comps[:2+r.Intn(4)] {
				files["components/"+cn+".tw"] = "<" + cn + ":@slot(\"declared\")@slot>"
				switch (k + r.Intn(3)) % 3 {
				case 0:
					page += "@component(\"~" + cn + "\")@slot(\"undeclared" + fmt.Sprint(k) + "\")x@end@end\n"
				case 1:
					page += "@component(\"components/" + cn + "\")@slot(\"declared\")x@end@slot(\"declared\")y@end@end\n"
				default:
					page += "@component(\"~" + cn + "\")\n@slot a@end\n@slot b@end@end\n"
				}
			}
			files["page.tw"] = page
		}
		return treeDetCase(files, "page")
	case 6: // 2..4 faulty files at once (syntax errors and link errors)
		files := map[string]string{"layouts/l.tw": "<@reserve(\"ok\")>", "components/c.tw": "<c>", "good.tw": "fine"}
		if r.Intn(4) == 0 {
			// one page that uses several components none of which can be applied (missing files, undeclared slots)
			uses := []string{"@component(\"~ghost\")", "@component(\"~phantom\", {a: 1})", "@component(\"shared/absent\")", "@component(\"~c\")@slot(\"nowhere\")x@end@end", "@component(\"widgets/none\")", "@component(\"~c\")@slot y@end@end"}
			r.Shuffle(len(uses), func(a, b int) { uses[a], uses[b] = uses[b], uses[a] })
			files["page.tw"] = "l1\n" + strings.Join(uses[:2+r.Intn(4)], "\nline\n") + "\n"
			return treeDetCase(files, "good")
		}
		kinds := []string{"{{ # }}", "@if(true)x", "@use(\"~ghost\")x", "@component(\"~ghost\")", "@use(\"~l\")@insert(\"nowhere\", 1)", "@component(\"~c\")@slot(\"u\")x@end@end", "{{ 1 + }}",
			"@component(\"~c\", [{title: \"A\", count: 1, zeta: 2, Alpha: 3}])", "@component(\"~c\", dark ? theme : {bg: \"#fff\", fg: \"#000\", b: 1, a: 2})", "@component(\"~c\", {a: 1, b: 2, c: 3}.a)"}
		if r.Intn(3) == 0 {
			// a single faulty file whose message could embed map-ordered text
			src := kinds[7+r.Intn(3)]
			return detCase{map[string]any{"source": src}, func(c *core.Ctx) string { return observe(textwire.EvaluateString(src, nil)) }}
		}
		pages := []string{"zz.tw", "aa.tw", "Mm.tw", "sub/bb.tw", "sub/aa.tw"}
		r.Shuffle(len(pages), func(a, b int) { pages[a], pages[b] = pages[b], pages[a] })
		linkOnly := r.Intn(2) == 0
		for k := 0; k < 2+r.Intn(3); k++ {
			kind := kinds[r.Intn(len(kinds))]
			if linkOnly {
				kind = kinds[2+r.Intn(4)]
			}
			files[pages[k]] = "l1\n" + kind + "\n"
		}
		return treeDetCase(files, "good")
	default: // generated programs and trees from the other checks' generators
		g := newStmtGen(r, stmtGenOpts{MaxDepth: 1 + r.Intn(3), IfHeavy: r.Intn(2) == 0, LoopHeavy: r.Intn(2) == 0, IllTyped: 7, Syntax: r.Intn(3) == 0})
		prog := g.program(2 + r.Intn(5))
		src := model.PrintStmts(prog, model.Style{Layout: model.SpaceLayout})
		data := model.NativeData(g.data)
		return detCase{map[string]any{"source": src}, func(c *core.Ctx) string { return observe(textwire.EvaluateString(src, data)) }}
	}
}

// treeDetCase loads the tree from scratch (state reset) and renders a page
func treeDetCase(files map[string]string, page string) detCase {
	return detCase{map[string]any{"files": describeFiles(files), "page": page}, func(c *core.Ctx) string {
		tpl, err := loadTree(c, "c14tree", files, ".tw")
		if err != nil {
			return "LOADERR:" + err.Error()
		}
		if tpl == nil {
			return "PANIC"
		}
		out, fe := tpl.String(page, nil)
		if fe != nil {
			return fmt.Sprintf("ERR:%s|line=%d|path=%s", fe.Message(), fe.Line(), fe.Filepath())
		}
		return "OUT:" + out
	}}
}

// two struct types that print one name (each declared inside its own function), as two handlers of one program have them
func c14CardA() any {
	type card struct{ Price int }
	return []card{{7}, {8}}
}

func c14CardB() any {
	type card struct {
		Price, Stock int
		Tags         []string
	}
	return []card{{7, 12, []string{"a", "b"}}}
}

// operations a fresh process performs in a given order; each returns its observation
var c14ProcOps = []struct {
	name string
	run  func() string
}{
	{"print a struct of the first type named card", func() string {
		return observe(textwire.EvaluateString("{{ v }}|{{ v[0].price }}", map[string]any{"v": c14CardA()}))
	}},
	{"print a struct of the second type named card", func() string {
		return observe(textwire.EvaluateString("{{ v }}|{{ v[0].stock }}|{{ v[0].tags }}", map[string]any{"v": c14CardB()}))
	}},
	{"load and render the tree under site-a (as working directory)", func() string { return c14TreeAt("site-a") }},
	{"load and render the tree under site-b (as working directory)", func() string { return c14TreeAt("site-b") }},
	{"the string form of +0.0", func() string {
		return observe(textwire.EvaluateString("{{ x.str() }}|{{ x }}|{{ (x * 1.0).str() }}", map[string]any{"x": 0.0}))
	}},
	{"the string form of -0.0", func() string {
		return observe(textwire.EvaluateString("{{ x.str() }}|{{ x }}|{{ (x * 1.0).str() }}", map[string]any{"x": math.Copysign(0, -1)}))
	}},
	{"a failing render without data", func() string {
		return observe(textwire.EvaluateString("{{ title = 'Home' }}{{ title }}{{ 1 / 0 }}", nil))
	}},
	{"a render without data that reads a name", func() string {
		return observe(textwire.EvaluateString("{{ title }}", nil))
	}},
	// one loaded Template (kept for the life of the process) rendered with different data
	{"debug page of the kept template: integer + string on line 1", func() string {
		return c14Respond(c14KeptTemplate(), "sum", map[string]any{"a": 1, "b": "x"})
	}},
	{"debug page of the kept template: string + integer on line 1", func() string {
		return c14Respond(c14KeptTemplate(), "sum", map[string]any{"a": "x", "b": 1})
	}},
	{"debug page of the kept template: an undefined name on line 1", func() string {
		return c14Respond(c14KeptTemplate(), "sum", map[string]any{"a": 1})
	}},
	{"list page of the kept template for Ann", func() string {
		out, fe := c14KeptTemplate().String("list", map[string]any{"user": "Ann", "role": "admin"})
		return fmt.Sprint("OUT:", out, "|", fe)
	}},
	{"list page of the kept template for Bob", func() string {
		out, fe := c14KeptTemplate().String("list", map[string]any{"user": "Bob", "role": "visitor"})
		return fmt.Sprint("OUT:", out, "|", fe)
	}},
	// an alias spelled in a component name of the kept template, and the same characters as a plain string
	{"card page of the kept template (it names its component ~card)", func() string {
		out, fe := c14KeptTemplate().String("cards", map[string]any{"user": "Ann"})
		return fmt.Sprint("OUT:", out, "|", fe)
	}},
	{"the strings ~card, ~main and components/card printed", func() string {
		return observe(textwire.EvaluateString("{{ \"~card\" }}|{{ '~card' }}|{{ \"~main\" }}|{{ \"components/card\" }}|{{ \"~card\".len() }}", nil))
	}},
	// one template directory whose two files trade contents between loads (same count, same total size, same times)
	{"load the swap tree, page = alpha", func() string { return c14SwapTree(1) }},
	{"load the swap tree, page = bravo", func() string { return c14SwapTree(2) }},
	{"print the slice []any{1, 2}", func() string {
		return observe(textwire.EvaluateString("{{ v }}|{{ v[0] + 1 }}|{{ v.len() }}", map[string]any{"v": []any{1, 2}}))
	}},
	{"print the slice []any{1.0, 2.0}", func() string {
		return observe(textwire.EvaluateString("{{ v }}|{{ v[0] + 1.0 }}|{{ v.len() }}", map[string]any{"v": []any{1.0, 2.0}}))
	}},
	{"print the slice []any{\"1\", \"2\"}", func() string {
		return observe(textwire.EvaluateString("{{ v }}|{{ v[0] + \"!\" }}|{{ v.len() }}", map[string]any{"v": []any{"1", "2"}}))
	}},
	{"print the slice []string{\"1 2\"} and []int{1, 2}", func() string {
		return observe(textwire.EvaluateString("{{ v.len() }}|{{ w.len() }}|{{ v }}|{{ w }}", map[string]any{"v": []string{"1 2"}, "w": []int{1, 2}}))
	}},
	{"repeat 7 twelve times, decimal of 5 with ten places", func() string {
		return observe(textwire.EvaluateString("{{ \"7\".repeat(12) }}|{{ 5.decimal(\".\", 10) }}|{{ \"ab1\".repeat(1) }}", nil))
	}},
	{"repeat 71 twice, 01 zero times, ab eleven times", func() string {
		return observe(textwire.EvaluateString("{{ \"71\".repeat(2) }}|{{ \"01\".repeat(0) }}|{{ \"ab\".repeat(11) }}", nil))
	}},
	// one path, two contents of the same length written with the same modification time
	{"evaluate note.tw holding its first content", func() string { return c14Rewritten("<b>{{ 2 * 3 }}</b> first") }},
	{"evaluate note.tw holding its second content", func() string { return c14Rewritten("<i>{{ 2 * 5 }}</i> other") }},
	{"page on a layout without reserves, kept template, for Ann", func() string {
		out, fe := c14KeptTemplate().String("usesbare", map[string]any{"user": "Ann"})
		return fmt.Sprint("OUT:", out, "|", fe)
	}},
	{"page on a layout without reserves, kept template, for Bob", func() string {
		out, fe := c14KeptTemplate().String("usesbare", map[string]any{"user": "Bob"})
		return fmt.Sprint("OUT:", out, "|", fe)
	}},
	{"evaluate a file by relative path under site-b", func() string {
		os.Chdir(c14ProcRoot)
		os.Chdir("site-b")
		return observe(textwire.EvaluateFile("views/index.tw", map[string]any{"who": "file"}))
	}},
}

var c14ProcRoot string

var c14Kept *textwire.Template

// c14KeptTemplate enters site-a, applies its configuration (debug on) and returns the Template of the first such call
func c14KeptTemplate() *textwire.Template {
	os.Chdir(c14ProcRoot)
	os.Chdir("site-a")
	textwire.VerifResetConfig()
	t, err := textwire.NewTemplate(&config.Config{TemplateDir: "views", TemplateExt: ".tw", DebugMode: true})
	if err != nil {
		panic(err)
	}
	if c14Kept == nil {
		c14Kept = t
	}
	return c14Kept
}

// c14Rewritten writes the content to one fixed path with one fixed modification time and evaluates the file
func c14Rewritten(content string) string {
	os.Chdir(c14ProcRoot)
	p := filepath.Join(c14ProcRoot, "note.tw")
	if err := os.WriteFile(p, []byte(content), 0o644); err != nil {
		return "WRITE:" + err.Error()
	}
	os.Chtimes(p, fixedMtime, fixedMtime)
	return observe(textwire.EvaluateFile(p, nil)) + "|" + observe(textwire.EvaluateFile("note.tw", nil))
}

func c14Respond(t *textwire.Template, page string, data map[string]any) string {
	rec := newRecorder()
	err := t.Response(rec, page, data)
	return fmt.Sprintf("body=%q err=%v", rec.body.String(), err)
}

// c14TreeAt makes dir the working directory and loads the tree found under its relative directory "views"
// c14SwapTree writes the two files of swap/views in one of two arrangements, with fixed times, loads and renders them
func c14SwapTree(v int) string {
	os.Chdir(c14ProcRoot)
	contents := []string{"alpha page {{ 1 }}", "bravo page {{ 2 }}"}
	if v == 2 {
		contents[0], contents[1] = contents[1], contents[0]
	}
	os.MkdirAll("swap/views", 0o755)
	for k, name := range []string{"swap/views/page.tw", "swap/views/other.tw"} {
		if err := os.WriteFile(name, []byte(contents[k]), 0o644); err != nil {
			return "WRITE:" + err.Error()
		}
		os.Chtimes(name, fixedMtime, fixedMtime)
	}
	os.Chtimes("swap/views", fixedMtime, fixedMtime)
	if err := os.Chdir("swap"); err != nil {
		return "CHDIR:" + err.Error()
	}
	textwire.VerifResetConfig()
	tpl, err := textwire.NewTemplate(&config.Config{TemplateDir: "views", TemplateExt: ".tw"})
	if err != nil {
		return "LOADERR:" + err.Error()
	}
	a, fa := tpl.String("page", nil)
	b, fb := tpl.String("other", nil)
	return fmt.Sprint("page=", a, "|", fa, "|other=", b, "|", fb)
}

func c14TreeAt(dir string) string {
	os.Chdir(c14ProcRoot)
	if err := os.Chdir(dir); err != nil {
		return "CHDIR:" + err.Error()
	}
	textwire.VerifResetConfig()
	tpl, err := textwire.NewTemplate(&config.Config{TemplateDir: "views", TemplateExt: ".tw"})
	if err != nil {
		return "LOADERR:" + err.Error()
	}
	out, fe := tpl.String("index", map[string]any{"who": "w"})
	obs := "OUT:" + out
	if fe != nil {
		obs = fmt.Sprintf("ERR:%s|line=%d|path=%s", fe.Message(), fe.Line(), fe.Filepath())
	}
	_, fe = tpl.String("bad", nil)
	if fe != nil {
		obs += fmt.Sprintf("|bad: ERR:%s|line=%d|path=%s", fe.Message(), fe.Line(), fe.Filepath())
	}
	return obs
}

func init() {
	// aux c14-fresh <op> <op> ...: the operations in this order in a fresh process, observations one per record
	core.RegisterAux("c14-fresh", func(args []string) int {
		c14ProcRoot, _ = os.Getwd()
		for _, site := range []string{"site-a", "site-b"} {
			files := map[string]string{"views/index.tw": "@use(\"~main\")@insert(\"body\")index of " + site + " for {{ who }}@end", "views/layouts/main.tw": "<" + site + ">@reserve(\"body\")</" + site + ">",
				"views/bad.tw": "line one of " + site + "\n{{ nothing.here }}", "views/sum.tw": "{{ a + b }}", "views/layouts/bare.tw": "bare layout for {{ user }}@if(user == \"Ann\") (hello Ann)@end", "views/components/card.tw": "<card {{ t }}>@slot</card>", "views/cards.tw": "@component(\"~card\", {t: user})@slot{{ \"~card\" }}@end@end@component(\"components/card\", {t: \"~card\"})", "views/usesbare.tw": "@use(\"~bare\")ignored page text",
				"views/list.tw": "{{ [{name: user, id: 7}].join(\"; \") }}|{{ \"admin,editor\".contains(role) ? \"staff\" : \"guest\" }}|{{ [[user], [0]] }}|@each(n in [1, 2, 3]){{ true.then({pass: n, who: user}) }} @end"}
			if site == "site-b" {
				files["views/bad.tw"] = "\n\n" + files["views/bad.tw"]
			}
			if err := writeFiles(site, files); err != nil {
				fmt.Fprintln(os.Stderr, err)
				return 3
			}
		}
		for _, a := range args {
			var o int
			fmt.Sscan(a, &o)
			fmt.Print(strings.ReplaceAll(c14ProcOps[o].run(), c14ProcRoot, "<root>"), "\x1e")
		}
		return 0
	})
}

func init() {
	core.Register(&core.Check{
		ID:    "C14",
		Level: "exploration",
		Rule: "cases are biased to everything that iterates a map: data objects with 2..12 keys (incl. keys that differ only in case, nested objects) printed, dumped, nested, iterated; object literals with many keys; object literals, array literals and component argument lists with 2..4 failing entries; pages with 2..4 undefined/duplicate inserts; components with 2..3 slots passed twice or undeclared; trees with 2..4 faulty files at once (syntax and link faults); plus the generic program generator (shuffle()/rand() excluded). " +
			"Every case is executed R1 times in one process (trees are reloaded from disk after a state reset each time) and as R2 copies that the supervisor's striding places in different worker processes; all observations (output, or error message+line+path) of a case must be byte-identical, within a process and across processes (copies exchange digests through a shared scratch directory). also case-family key sets, empty insert names, failing entries wrapped in literals; order-independent shuffle programs, reconfigured templates; round 8: template names differing in case; nine operations in fresh child processes alone and after each other one; round 9: operations on a kept Template in fresh processes; rounds 10-11: rewritten files, look-alike values and requests in fresh processes; rounds 12-13: dumps of failing literals, several unusable components, several insert names passed twice, careless error page paths; round 14: several components with a slot fault each, alias and plain string in one process, several unbindable data entries; round 15: unbindable entries under the empty key; round 18: repeated renders of one kept Template; distinct_nontrivial = distinct cases whose observation involved an object with >= 2 keys or >= 2 simultaneous faults",
		Assumptions: []string{
			"quick: R1=12 in-process repetitions x 3 copies; thorough: R1=40 x 8 copies; with k >= 2 candidates for 'first' a map-ordered choice survives all repetitions with probability <= 2^-35",
			"cross-process comparisons only count when the copies ran in different processes (reported as cross_process_comparisons)",
		},
		Setup: func(c *core.Ctx) {
			if err := registerTracers(); err != nil {
				panic(err)
			}
		},
		Sections: func(tier core.Tier, seed int64) []core.Section {
			n, r1, r2 := 6000, 12, 3
			if tier == core.Thorough {
				n, r1, r2 = 40000, 40, 8
			}
			// an operation gives in a process that did something else before what it gives as the first thing a fresh process does
			np := len(c14ProcOps)
			fresh := core.Section{Name: "across-fresh-processes", Exhaustive: true, N: np * np, Run: func(c *core.Ctx, i int) {
				p, o := i/np, i%np
				if p == o {
					return
				}
				child := func(ops ...int) ([]string, bool) {
					dir := filepath.Join(c.WorkDir, "c14proc")
					os.RemoveAll(dir)
					os.MkdirAll(dir, 0o755)
					defer os.RemoveAll(dir)
					exe, _ := os.Executable()
					args := []string{"aux", "c14-fresh"}
					for _, k := range ops {
						args = append(args, fmt.Sprint(k))
					}
					cmd := exec.Command(exe, args...)
					cmd.Dir = dir
					var stderr strings.Builder
					cmd.Stderr = &stderr
					out, err := cmd.Output()
					c.Eval(len(ops))
					if err != nil {
						if se := stderr.String(); strings.Contains(se, "panic:") || strings.Contains(se, "fatal error:") {
							c.Violation("panic:in-fresh-process", fmt.Sprintf("a fresh process that performs the operations %v crashed: %s", ops, clipS(se, 400)), map[string]any{"operations": ops})
							return nil, false
						}
						c.Inconclusive(fmt.Sprintf("child process %v failed: %v", args, err))
						return nil, false
					}
					recs := strings.Split(strings.TrimSuffix(string(out), "\x1e"), "\x1e")
					return recs, len(recs) == len(ops)
				}
				desc := map[string]any{"first": c14ProcOps[p].name, "then": c14ProcOps[o].name}
				c.Input(desc)
				alone, ok1 := child(o)
				after, ok2 := child(p, o)
				again, ok3 := child(p, o, p, o)
				if !ok1 || !ok2 || !ok3 {
					return
				}
				c.Nontrivial(fmt.Sprint("fresh", p, o))
				c.Count("fresh_processes_started", 3)
				if i%7 == 0 {
					c.Sample(map[string]any{"operation": c14ProcOps[o].name, "alone_in_a_fresh_process": alone[0]})
				}
				if after[1] != alone[0] || again[3] != alone[0] || again[1] != alone[0] {
					c.Violation("nondeterministic:across-processes:history", fmt.Sprintf("%q gives in a fresh process\n%s\nbut in a process that did %q first\n%s", c14ProcOps[o].name, clipS(alone[0], 400), c14ProcOps[p].name, clipS(after[1], 400)), desc)
				}
			}}
			// round 18: one loaded Template rendered again and again, other renders in between: every render of a page gives what
			// the first gave and what a Template loaded afresh at the end gives (state kept in the loaded trees shows here)
			keptFiles := map[string]string{
				"layouts/l.tw":    "<html>@reserve(\"t\")|@reserve(\"b\")</html>",
				"components/c.tw": "<c {{ a }}>@slot</c>",
				"lit.tw":          "<p>{{ \"Tom & Jerry <3\" }}</p>|{{ 'a > b' + \"&amp;\" }}|@each(k in [1, 2]){{ \"<\" + \"i>\" }}@end|{{ \"x & y\".raw() }}|{{ \"\\\"q\\\" & 'r'\" }}",
				"page.tw":         "@use(\"~l\")@insert(\"t\", \"A & B\")@insert(\"b\")@component(\"~c\", {a: \"<&>\"})@slot{{ \"&\" }}{{ n }}@end@end@end",
				"nums.tw":         "{{ x = [3, 1, 2] }}{{ x.reverse() }}{{ x }}|{{ f = 2.5 }}{{ -f }}{{ f-- }}{{ f }}|{{ {b: 1, a: \"<\"} }}|{{ n }}",
				"fails.tw":        "before {{ \"<&>\" }}\n@each(v in [1, 0]){{ \"&\" }}{{ 6 / v }}@end",
			}
			kept := core.Section{Name: "renders-of-one-template-repeated", Exhaustive: true, N: len(keptFiles) - 2, Run: func(c *core.Ctx, i int) {
				page := []string{"lit", "page", "nums", "fails"}[i]
				tpl, err := loadTree(c, "c14kept", keptFiles, ".tw")
				c.Nontrivial("kept:" + page)
				if err != nil || tpl == nil {
					if err != nil {
						c.Violation("kept-template:load-failed", err.Error(), nil)
					}
					return
				}
				render := func(t *textwire.Template, k int) string {
					var obs string
					c.Eval(1)
					c.Guard(func() {
						if k%2 == 1 {
							rec := newRecorder()
							e := t.Response(rec, page, map[string]any{"n": 7})
							obs = fmt.Sprintf("%s|%v", rec.body.String(), e != nil)
							if e == nil {
								obs = "OUT:" + rec.body.String()
							}
							return
						}
						out, fe := t.String(page, map[string]any{"n": 7})
						if fe != nil {
							obs = fmt.Sprintf("ERR:%s|line=%d", fe.Message(), fe.Line())
							return
						}
						obs = "OUT:" + out
					})
					return obs
				}
				first := render(tpl, 0)
				for k := 2; k <= 8; k += 2 {
					d := detDisturbers[(i+k)%len(detDisturbers)]
					c.Guard(func() { textwire.EvaluateString(d, map[string]any{"items": []int{1, 2, 3}, "zero": 0}) })
					render(tpl, k+1) // through Response in between
					if obs := render(tpl, k); obs != first {
						c.Violation("nondeterministic:kept-template", fmt.Sprintf("render %d of page %q on one loaded Template gave\n%s\nthe first gave\n%s", k/2+1, page, clipS(obs, 400), clipS(first, 400)), map[string]any{"page": page})
						return
					}
					c.Count("repeated_renders_of_a_kept_template", 1)
				}
				tpl2, err2 := loadTree(c, "c14kept", keptFiles, ".tw")
				if err2 == nil && tpl2 != nil {
					if obs := render(tpl2, 0); obs != first {
						c.Violation("nondeterministic:kept-template:fresh", fmt.Sprintf("page %q on a Template loaded afresh gave\n%s\nthe first render of the earlier one gave\n%s", page, clipS(obs, 400), clipS(first, 400)), map[string]any{"page": page})
					}
				}
			}}
			return []core.Section{fresh, kept, {Name: "repetitions", N: n * r2, Run: func(c *core.Ctx, i int) {
				caseNo, copyNo := i/r2, i%r2
				// all copies of a case must build the very same case: seed from the case number only
				rng := core.NewRng("C14", string(c.Tier), c.Seed, caseNo)
				saved := c.Rng
				c.Rng = rng
				dc := genDetCase(c, caseNo)
				c.Rng = saved
				c.Input(dc.desc)
				if caseNo < 8 && copyNo == 0 {
					c.Sample(dc.desc)
				}
				var first string
				for rep := 0; rep < r1; rep++ {
					// between repetitions other renders happen in the process: some fail after having produced
					// output, some succeed; they must leave no trace in the observation of this case
					if rep > 0 {
						d := detDisturbers[(caseNo+rep)%len(detDisturbers)]
						c.Guard(func() { textwire.EvaluateString(d, map[string]any{"items": []int{1, 2, 3}, "zero": 0}) })
					}
					var obs string
					c.Eval(1)
					if c.Guard(func() { obs = dc.run(c) }) {
						return
					}
					// the scratch directory differs from worker to worker: not part of the result
					obs = strings.ReplaceAll(obs, c.WorkDir, "<workdir>")
					if rep == 0 {
						first = obs
						continue
					}
					if obs != first {
						c.Violation("nondeterministic:in-process:"+obsClass(first), fmt.Sprintf("repetition %d gave a different result:\n%s\nvs\n%s", rep, clipS(first, 500), clipS(obs, 500)), map[string]any{"case": dc.desc})
						return
					}
				}
				c.Nontrivial(fmt.Sprint(dc.desc))
				c.Count("in_process_repetitions", r1)
				// exchange with the other copies of this case
				shared := filepath.Join(filepath.Dir(c.WorkDir), "c14shared")
				os.MkdirAll(shared, 0o755)
				mine := filepath.Join(shared, fmt.Sprintf("%d.%d", caseNo, copyNo))
				tmp := mine + ".tmp"
				os.WriteFile(tmp, []byte(fmt.Sprintf("%d\n%s", os.Getpid(), first)), 0o644)
				os.Rename(tmp, mine)
				for k := 0; k < r2; k++ {
					o := filepath.Join(shared, fmt.Sprintf("%d.%d", caseNo, k))
					if k == copyNo {
						continue
					}
					b, err := os.ReadFile(o)
					if err != nil {
						continue
					}
					parts := strings.SplitN(string(b), "\n", 2)
					if len(parts) != 2 {
						continue
					}
					if parts[0] != fmt.Sprint(os.Getpid()) {
						c.Count("cross_process_comparisons", 1)
					} else {
						c.Count("same_process_copy_comparisons", 1)
					}
					if parts[1] != first {
						c.Violation("nondeterministic:across-processes:"+obsClass(first), fmt.Sprintf("another process observed a different result:\n%s\nvs\n%s", clipS(first, 500), clipS(parts[1], 500)), map[string]any{"case": dc.desc})
					}
				}
			}}}
		},
	})
}

func obsClass(o string) string {
	if i := strings.IndexByte(o, ':'); i > 0 {
		return o[:i]
	}
	return "?"
}
