package checks

import (
	"fmt"
	"html"
	"os"
	"strings"
	"time"
	"unicode/utf8"

	textwire "github.com/textwire/textwire/v2"
	"github.com/textwire/textwire/v2/config"

	"verif/core"
	"verif/model"
)

// C10 — string literals are HTML-escaped on output; raw() is the exact opt-out.

var escapeAtoms = []string{"<", ">", "&", ";", "#", "\"", "'", "\\", "a", "3", "4", "9", "l", "t", "g", "m", "p", "é", "中", " "}

var allowedEntities = []string{"&lt;", "&gt;", "&amp;", "&#34;", "&#39;"}

// escapedSegmentProblem checks one rendered segment against the literal(s) it came from
func escapedSegmentProblem(seg, lit string) string {
	if strings.ContainsAny(seg, "<>") {
		return "raw '<' or '>' from the literal in the output"
	}
	for i := 0; i < len(seg); i++ {
		if seg[i] != '&' {
			continue
		}
		ok := false
		for _, e := range allowedEntities {
			if strings.HasPrefix(seg[i:], e) {
				ok = true
				break
			}
		}
		if !ok {
			return "an '&' of the literal does not appear as an entity"
		}
	}
	if strings.Count(seg, `"`) != strings.Count(lit, `"`) || strings.Count(seg, "'") != strings.Count(lit, "'") {
		return "quotes did not stay as written"
	}
	if html.UnescapeString(seg) != lit {
		return "unescaping the output does not give back the literal"
	}
	return ""
}

type litContext struct {
	name string
	// src builds the template from the quoted literal; want is the text the
	// bracketed segment corresponds to; raw: the segment must equal want
	src  func(q string) string
	want func(l string) string
	raw  bool
}

var stringContexts = []litContext{
	{"printed", func(q string) string { return "[[{{ " + q + " }}]]" }, func(l string) string { return l }, false},
	{"printed-tight", func(q string) string { return "[[{{" + q + "}}]]" }, func(l string) string { return l }, false},
	{"concat-empty", func(q string) string { return `[[{{ "" + ` + q + ` + '' }}]]` }, func(l string) string { return l }, false},
	{"concat-literal", func(q string) string { return "[[{{ " + q + " + " + q + " }}]]" }, func(l string) string { return l + l }, false},
	{"concat-mixed", func(q string) string { return `[[{{ "<a&" + ` + q + ` }}]]` }, func(l string) string { return "<a&" + l }, false},
	{"assigned", func(q string) string { return "{{ v = " + q + " }}[[{{ v }}]]" }, func(l string) string { return l }, false},
	{"assigned-in-block", func(q string) string { return "@if(true){{ v = " + q + " }}[[{{ v }}]]@end" }, func(l string) string { return l }, false},
	{"array-indexed", func(q string) string { return "[[{{ [" + q + ", \"x\"][0] }}]]" }, func(l string) string { return l }, false},
	{"array-printed", func(q string) string { return "[[{{ [" + q + "] }}]]" }, func(l string) string { return l }, false},
	{"array-each", func(q string) string { return "@each(e in [" + q + "])[[{{ e }}]]@end" }, func(l string) string { return l }, false},
	{"object-field", func(q string) string { return "[[{{ {k: " + q + "}.k }}]]" }, func(l string) string { return l }, false},
	{"ternary-arm", func(q string) string { return "[[{{ 1 ? " + q + " : \"no\" }}]]" }, func(l string) string { return l }, false},
	{"ternary-else", func(q string) string { return "[[{{ 0 ? \"no\" : " + q + " }}]]" }, func(l string) string { return l }, false},
	{"then-argument", func(q string) string { return "[[{{ true.then(" + q + ") }}]]" }, func(l string) string { return l }, false},
	{"then-else-argument", func(q string) string { return "[[{{ false.then(\"no\", " + q + ") }}]]" }, func(l string) string { return l }, false},
	// the same literal node is evaluated more than once; only the last evaluation is printed
	{"second-pass-of-each", func(q string) string {
		return "@each(k in [1, 2, 3]){{ v = " + q + " }}@if(k == 3)[[{{ v }}]]@end@end"
	}, func(l string) string { return l }, false},
	{"third-pass-of-for-raw", func(q string) string {
		return "@for(k = 0; k < 3; k++){{ v = " + q + ".raw() }}@if(k == 2)[[{{ v }}]]@end@end"
	}, func(l string) string { return l }, true},
	{"variable-after-raw", func(q string) string { return "{{ v = " + q + " }}{{ v.raw().len() }}[[{{ v }}]]" }, func(l string) string { return l }, false},
	{"raw-twice", func(q string) string { return "{{ v = " + q + " }}{{ v.raw().len() }}[[{{ v.raw() }}]]" }, func(l string) string { return l }, true},
	{"array-after-raw", func(q string) string { return "{{ a = [" + q + "] }}{{ a[0].raw().len() }}[[{{ a }}]]" }, func(l string) string { return l }, false},
	{"loop-variable-after-raw", func(q string) string {
		return "@each(e in [" + q + "]){{ e.raw().len() }}[[{{ e }}]]@end"
	}, func(l string) string { return l }, false},
	// the literal inside every kind of branch, next to empty sibling bodies; a stored literal outlives a nested block
	// that assigns another one to the name
	{"in-elseif-after-empty-if", func(q string) string { return "@if(false)@elseif(true)[[{{ " + q + " }}]]@end" }, func(l string) string { return l }, false},
	{"in-second-elseif-after-empty-bodies", func(q string) string { return "@if(false)@elseif(0)@elseif(1)[[{{ " + q + " }}]]@else@end" }, func(l string) string { return l }, false},
	{"in-else-after-empty-bodies", func(q string) string { return "@if(false)@elseif(false)@else[[{{ " + q + ".raw() }}]]@end" }, func(l string) string { return l }, true},
	{"in-each-else-after-empty-body", func(q string) string { return "@each(e in [])@else[[{{ " + q + " }}]]@end" }, func(l string) string { return l }, false},
	{"in-for-else-after-empty-body", func(q string) string { return "@for(k = 0; k < 0; k++)@else[[{{ " + q + " }}]]@end" }, func(l string) string { return l }, false},
	{"stored-then-elseif-assigns-another", func(q string) string {
		return "{{ v = " + q + " }}@if(false)@elseif(true){{ v = \"<other>&\" }}@end[[{{ v }}]]"
	}, func(l string) string { return l }, false},
	{"stored-then-else-assigns-another", func(q string) string {
		return "{{ v = " + q + " }}@if(false)x@else{{ v = '<other>' }}{{ w = v.raw() }}@end[[{{ v.raw() }}]]"
	}, func(l string) string { return l }, true},
	{"stored-then-loops-assign-another", func(q string) string {
		return "{{ v = " + q + " }}@each(e in [1, 2]){{ v = \"<e>\" }}@end@for(k = 0; k < 2; k++){{ v = \"<k>\" }}@end@each(e in [])@else{{ v = \"<n>\" }}@end[[{{ v }}]]"
	}, func(l string) string { return l }, false},
	{"raw", func(q string) string { return "[[{{ " + q + ".raw() }}]]" }, func(l string) string { return l }, true},
	{"raw-concat", func(q string) string { return "[[{{ (" + q + " + " + q + ").raw() }}]]" }, func(l string) string { return l + l }, true},
	{"raw-assigned", func(q string) string { return "{{ v = " + q + " }}[[{{ v.raw() }}]]" }, func(l string) string { return l }, true},
	{"raw-array", func(q string) string { return "[[{{ [" + q + "][0].raw() }}]]" }, func(l string) string { return l }, true},
}

var builtinContexts []litContext

// every string built-in called on the variable (an element, a loop variable) that holds the literal, before the value is
// printed: the stored literal is what it was
func init() {
	for _, fn := range []string{"trim()", "trimLeft()", "trimRight()", "trim(\" <&\")", "upper()", "lower()", "capitalize()", "reverse()", "repeat(2)", "truncate(1)", "truncate(1, \"<\")", "first()", "last()", "at(0)", "len()", "split(\"&\")", "contains(\"<\")", "raw().trim()", "trim().raw()", "str()", "decimal()"} {
		fn := fn
		if fn == "str()" || fn == "decimal()" {
			continue // not string built-ins on every receiver
		}
		builtinContexts = append(builtinContexts,
			litContext{"variable-after-" + fn, func(q string) string {
				return "{{ v = " + q + " }}{{ w = v." + fn + " }}{{ u = v." + fn + " }}[[{{ v }}]]"
			}, func(l string) string { return l }, false},
			litContext{"raw-of-variable-after-" + fn, func(q string) string {
				return "{{ v = " + q + " }}@each(k in [1, 2]){{ w = v." + fn + " }}@end[[{{ v.raw() }}]]"
			}, func(l string) string { return l }, true},
			litContext{"element-after-" + fn, func(q string) string {
				return "{{ a = [" + q + "] }}{{ w = a[0]." + fn + " }}@each(e in a){{ x = e." + fn + " }}@end[[{{ a[0] }}]]"
			}, func(l string) string { return l }, false},
		)
	}
}

// contexts in which the value holding the literal is used by something else first - a concatenation
// through then()/rand()/an element access, an append on the same array - and only then printed
var reuseContexts = []litContext{
	{"then-concat-then-variable", func(q string) string { return "{{ x = " + q + " }}{{ true.then(x, \"\") + \"<i>\" }}[[{{ x }}]]" }, func(l string) string { return l }, false},
	{"then-concat-then-raw", func(q string) string {
		return "{{ x = " + q + " }}{{ false.then(\"\", x) + \"<i>\" }}[[{{ x.raw() }}]]"
	}, func(l string) string { return l }, true},
	{"rand-concat-then-element", func(q string) string { return "{{ a = [" + q + "] }}{{ a.rand() + \"<i>\" }}[[{{ a[0] }}]]" }, func(l string) string { return l }, false},
	{"element-concat-then-array", func(q string) string {
		return "{{ a = [" + q + "] }}{{ a[0] + \"t\" }}{{ a.rand() + \"t\" }}{{ a.slice(0)[0] + \"t\" }}{{ a.reverse()[0] + \"t\" }}[[{{ a }}]]"
	}, func(l string) string { return l }, false},
	{"variable-concat-then-variable", func(q string) string { return "{{ x = " + q + " }}{{ x + \"<i>\" }}{{ (x + x).len() }}[[{{ x }}]]" }, func(l string) string { return l }, false},
	{"ternary-concat-then-variable", func(q string) string { return "{{ x = " + q + " }}{{ (1 ? x : \"\") + \"<i>\" }}[[{{ x }}]]" }, func(l string) string { return l }, false},
	{"loop-concat-then-variable", func(q string) string {
		return "{{ x = " + q + " }}@each(k in [1, 2]){{ y = x }}{{ y + \"<i>\" }}@end[[{{ x }}]]"
	}, func(l string) string { return l }, false},
	{"append-twice-first-result", func(q string) string {
		return "{{ a = [\"1\", \"2\", \"3\"] }}{{ b = a.append(" + q + ") }}{{ c = a.append(\"<y>\") }}[[{{ b[3] }}]]"
	}, func(l string) string { return l }, false},
	{"append-twice-second-result", func(q string) string {
		return "{{ a = [\"1\", \"2\", \"3\", \"4\", \"5\"] }}{{ b = a.append(\"<x>\") }}{{ c = a.append(" + q + ") }}[[{{ c[5] }}]]{{ b[5] }}"
	}, func(l string) string { return l }, false},
	{"slice-append-then-original", func(q string) string {
		return "{{ a = [\"p\", " + q + "] }}{{ a.slice(0, 1).append(\"<z>\").len() }}[[{{ a[1] }}]]"
	}, func(l string) string { return l }, false},
	{"prepend-twice-first-result", func(q string) string {
		return "{{ a = [\"1\", \"2\", \"3\"] }}{{ b = a.prepend(" + q + ") }}{{ c = a.prepend(\"<y>\") }}[[{{ b[0] }}]]"
	}, func(l string) string { return l }, false},
	// a loop variable named like the variable that holds the literal vanishes with its loop
	{"loop-variable-of-the-same-name", func(q string) string { return "{{ x = " + q + " }}@each(x in [\"z\", \"<y>\"]){{ x }}@end[[{{ x }}]]" }, func(l string) string { return l }, false},
	{"nested-loops-of-the-same-name", func(q string) string {
		return "@each(x in [" + q + "])@each(x in [\"<i>\", \"z\"]){{ x }}@end[[{{ x }}]]@end"
	}, func(l string) string { return l }, false},
	{"for-variable-of-the-same-name", func(q string) string {
		return "{{ x = " + q + " }}@for(x = \"<f>\"; x; x = \"\")f@end[[{{ x.raw() }}]]"
	}, func(l string) string { return l }, true},
	// the literal is the taken arm of a ternary whose other arm is a ternary written without parentheses
	{"ternary-arm-before-chain", func(q string) string { return "[[{{ 1 ? " + q + " : 0 ? \"x\" : \"y\" }}]]" }, func(l string) string { return l }, false},
	{"ternary-arm-before-chain-raw", func(q string) string { return "[[{{ (true ? " + q + " : false ? \"x\" : \"y\").raw() }}]]" }, func(l string) string { return l }, true},
	{"ternary-arm-inside-chain", func(q string) string { return "{{ v = 0 ? \"no\" : 1 ? " + q + " : \"y\" }}[[{{ v }}]]" }, func(l string) string { return l }, false},
	{"reverse-then-original", func(q string) string {
		return "{{ a = [" + q + ", \"<z>\", \"3\"] }}{{ a.reverse().len() }}[[{{ a[0] }}]]"
	}, func(l string) string { return l }, false},
}

func segmentOf(out string) (string, bool) {
	a := strings.Index(out, "[[")
	b := strings.LastIndex(out, "]]")
	if a < 0 || b < a+2 {
		return "", false
	}
	return out[a+2 : b], true
}

func judgeSegment(c *core.Ctx, ctxName, src, out, want string, raw bool) {
	seg, ok := segmentOf(out)
	if !ok {
		c.Violation("escape:"+ctxName+":lost", fmt.Sprintf("the delimiters around the literal are gone: %q", out), map[string]any{"source": src})
		return
	}
	if raw {
		if seg != want {
			c.Violation("raw:"+ctxName, fmt.Sprintf("raw() gave %q, the literal is %q", seg, want), map[string]any{"source": src, "literal": want, "observed": seg})
		}
		return
	}
	if why := escapedSegmentProblem(seg, want); why != "" {
		c.Violation("escape:"+ctxName, fmt.Sprintf("%s: output %q for literal %q", why, seg, want), map[string]any{"source": src, "literal": want, "observed": seg})
	}
}

func init() {
	var runIn func(c *core.Ctx, l string, ctxs []litContext)
	runLit := func(c *core.Ctx, l string) {
		if c.Section == "literal-len5" {
			// five-atom literals (thorough tier): a window of eight contexts that moves with the literal, so that the
			// millions of literals stay within what the run can keep track of
			h := 0
			for _, b := range []byte(l) {
				h = h*31 + int(b)
			}
			if h < 0 {
				h = -h
			}
			var window []litContext
			for k := 0; k < 8; k++ {
				window = append(window, stringContexts[(h+k*5)%len(stringContexts)])
			}
			runIn(c, l, window)
			return
		}
		runIn(c, l, stringContexts)
	}
	runIn = func(c *core.Ctx, l string, ctxs []litContext) {
		for qi, q := range []byte{'"', '\''} {
			if !model.CanQuote(l, q) {
				c.Count("literals_not_expressible_skipped", 1)
				continue
			}
			quoted := model.QuoteString(l, q)
			for _, lc := range ctxs {
				src := lc.src(quoted)
				c.Input(src)
				got := evalString(c, src, nil)
				c.Nontrivial(src)
				if got.Panicked {
					continue
				}
				if got.Err != nil {
					c.Violation("escape:"+lc.name+":error", "rendering a literal failed: "+got.Err.Error(), map[string]any{"source": src})
					continue
				}
				judgeSegment(c, lc.name, src, got.Out, lc.want(l), lc.raw)
			}
			if qi == 0 {
				c.Sample(map[string]any{"literal": l, "example_source": ctxs[0].src(quoted)})
			}
		}
	}
	core.Register(&core.Check{
		ID:    "C10",
		Level: "exploration",
		Rule: "literal contents are all strings of up to k atoms over an alphabet rich in < > & ; # quotes, letters/digits that spell existing entities (&lt; &amp;lt; &#39; &#34 …) and UTF-8, in both quote styles, placed in every usage context of the statement (printed, concatenated, assigned, array element printed/indexed/iterated, object field, ternary arm, then() argument, insert argument, insert block, component argument, slot body, layout text) and under raw(); 12 contexts in which the value is first used by a concatenation through then()/rand()/an element access or by append/prepend/slice/reverse on the same array and only then printed; component arguments that read page variables named like other keys of the call; literals spanning lines (LF, CRLF, CR) or holding '%' through strings, files and Response (page and custom error page); " +
			"the rendered segment is isolated by delimiters and must contain no raw < or >, only entity '&'s, the same quotes, unescape to the literal byte for byte; raw() must give the literal exactly. round 9: branches next to empty bodies, stored literals across blocks; scale: literals to 4 MiB, 1000 literals; concurrent replay; round 11: string built-ins on the stored literal; round 13: variables across insert blocks, second use of a slotted component; distinct_nontrivial = distinct (context, literal, quote) sources",
		Assumptions: []string{
			"a literal is written with a backslash before its delimiter quote; contents ending in a backslash or containing backslash-quote cannot be written and are skipped",
		},
		Sections: func(tier core.Tier, seed int64) []core.Section {
			k, kt := 4, 3
			if tier == core.Thorough {
				k, kt = 5, 4
			}
			var secs []core.Section
			secs = append(secs, seqSections("literal-", escapeAtoms, k, runLit)...)
			// entity-shaped seeds around which one more atom is placed
			seeds := []string{"&lt;", "&gt;", "&amp;", "&#34;", "&#39;", "&amp;lt;", "&#60;", "&#x3c;", "&quot;", "&apos;", "&copy;", "&nbsp", "&amp", "&lt", "&#39", "<script>", "</a>", "a<b>c&d;e", "\\", "a\\b", "&&", "&;", "&#;"}
			secs = append(secs, core.Section{Name: "entity-seeds", Exhaustive: true, N: len(seeds) * (len(escapeAtoms) + 1) * 2,
				Run: func(c *core.Ctx, i int) {
					before := i%2 == 0
					i /= 2
					s := seeds[i/(len(escapeAtoms)+1)]
					a := ""
					if j := i % (len(escapeAtoms) + 1); j > 0 {
						a = escapeAtoms[j-1]
					}
					if before {
						runLit(c, a+s)
					} else {
						runLit(c, s+a)
					}
				}})
			// every string built-in runs on the stored literal before it is printed
			secs = append(secs, seqSections("builtin-literal-", escapeAtoms, kt, func(c *core.Ctx, l string) { runIn(c, l, builtinContexts) })...)
			// the value is used by something else before it is printed
			secs = append(secs, seqSections("reuse-literal-", escapeAtoms, kt, func(c *core.Ctx, l string) { runIn(c, l, reuseContexts) })...)
			// literals that span lines (LF, CRLF, CR) or hold a percent sign: through strings, through template
			// files, and written by Response (the page itself and the custom error page of a failing page)
			special := []string{"a\nb", "a\r\nb", "a\rb", "<\r\n>", "\r\n", "\n", "line1\r\nline2\r\n<b>&", "tab\tbed", "100%", "%d", "%s <b> %v", "50% & <more>", "%", "%%", "%!", "a%20b", "%[1]d&", "\r\n%\r\n",
				// bytes that are not valid UTF-8: a lone lead byte, a lone continuation byte, a cut sequence, Latin-1 text
				"\xff", "a\x80b", "\xe2\x82", "\xc3<", "caf\xe9 & <b>", "\xf0\x9f\x98", "\xc0\xaf"}
			secs = append(secs, core.Section{Name: "multi-line-and-percent-literals", Exhaustive: true, N: len(special),
				Run: func(c *core.Ctx, i int) {
					runLit(c, special[i])
					runIn(c, special[i], reuseContexts)
					runTreeLiteral(c, special[i])
					runResponseLiteral(c, special[i])
				}})
			secs = append(secs, seqSections("response-literal-", escapeAtoms, 2, func(c *core.Ctx, l string) { runResponseLiteral(c, l) })...)
			// template-tree contexts: insert argument, insert block, component argument, slot body
			secs = append(secs, seqSections("tree-literal-", escapeAtoms, kt, func(c *core.Ctx, l string) { runTreeLiteral(c, l) })...)
			// long literals (1 KiB .. 4 MiB) and many literals in one template
			litSizes := []int{1 << 10, 4095, 4096, 4097, 65535, 65536, 65537, 1 << 20, 4 << 20}
			secs = append(secs, core.Section{Name: "long-and-many-literals", Exhaustive: true, N: len(litSizes) + 4,
				Run: func(c *core.Ctx, i int) {
					esc := strings.NewReplacer("&", "&amp;", "<", "&lt;", ">", "&gt;")
					if i >= len(litSizes) {
						// 16 / 64 / 257 / 1000 different literals, printed, stored and raw
						n := []int{16, 64, 257, 1000}[i-len(litSizes)]
						var src, want strings.Builder
						for k := 0; k < n; k++ {
							lit := fmt.Sprintf("<i%d>&'%d';&lt;", k, k)
							fmt.Fprintf(&src, "{{ \"%s\" }}|{{ v%d = \"%s\" }}{{ v%d.raw() }}{{ v%d }}\n", lit, k, lit, k, k)
							fmt.Fprintf(&want, "%s|%s%s\n", esc.Replace(lit), lit, esc.Replace(lit))
						}
						c.Input(map[string]any{"literals": n})
						got := evalString(c, src.String(), nil)
						c.Nontrivial(fmt.Sprint("many-literals", n))
						if !got.Panicked && (got.Err != nil || got.Out != want.String()) {
							c.Violation("literal:many", fmt.Sprintf("a template with %d literals rendered %s, want %q", n, clipS(got.Describe(), 300), clipS(want.String(), 300)), map[string]any{"literals": n})
						}
						return
					}
					size := litSizes[i]
					unit := "a<b>&c;' é中 &amp; "
					lit := strings.Repeat(unit, size/len(unit)+1)[:size]
					for !utf8.ValidString(lit) {
						lit = lit[:len(lit)-1]
					}
					c.Input(map[string]any{"literal_bytes": len(lit)})
					c.Nontrivial(fmt.Sprint("long-literal", size))
					for _, tc := range [][2]string{
						{"<{{ \"" + lit + "\" }}>", "<" + esc.Replace(lit) + ">"},
						{"{{ s = \"" + lit + "\" }}<{{ s.raw() }}>", "<" + lit + ">"},
						{"<{{ \"x\" + \"" + lit + "\" + \"<\" }}>", "<x" + esc.Replace(lit) + "&lt;>"},
						{"<{{ [\"" + lit + "\"][0].len() }}>", "<" + fmt.Sprint(utf8.RuneCountInString(esc.Replace(lit))) + ">"},
					} {
						got := evalString(c, tc[0], nil)
						if !got.Panicked && (got.Err != nil || got.Out != tc[1]) {
							c.Violation("literal:long", fmt.Sprintf("a literal of %d bytes in %q rendered %s (%d bytes), want %d bytes", len(lit), clipS(tc[0], 40), clipS(got.Describe(), 200), len(got.Out), len(tc[1])), map[string]any{"literal_bytes": len(lit)})
						}
					}
				}})
			return secs
		},
	})
}

// runTreeLiteral renders one literal in the contexts that need a template tree
func runTreeLiteral(c *core.Ctx, l string) {
	for _, q := range []byte{'"', '\''} {
		if !model.CanQuote(l, q) {
			continue
		}
		quoted := model.QuoteString(l, q)
		files := map[string]string{
			"layouts/main.tw":    "L<@reserve(\"arg\")|@reserve(\"block\")|@reserve(\"argraw\")>",
			"components/card.tw": "C<{{ title }}|@slot|@slot(\"raw\")|{{ title.raw() }}>",
			"page.tw":            "@use(\"~main\")@insert(\"arg\", " + quoted + ")@insert(\"block\"){{ " + quoted + " }}@end@insert(\"argraw\", " + quoted + ".raw())",
			"comp.tw":            "@component(\"~card\", {title: " + quoted + "})@slot{{ " + quoted + " }}@end@slot(\"raw\"){{ " + quoted + ".raw() }}@end@end",
			// arguments that read page variables named like other keys of the same call
			"components/pair.tw": "P<{{ a }}|{{ b }}|{{ c }}>",
			"pair.tw":            "{{ a = " + quoted + " }}{{ c = \"<c>\" }}@component(\"~pair\", {a: \"first\", b: a, c: a})",
			// the inserts stand above the @use, and between two of them
			"before.tw": "@insert(\"arg\", " + quoted + ")@insert(\"block\"){{ " + quoted + " }}@end@use(\"~main\")@insert(\"argraw\", " + quoted + ".raw())",
			// stored in a variable inside one insert block, printed by the blocks of the reserves that follow it in the layout
			"across.tw": "@use(\"~main\")@insert(\"argraw\"){{ w.raw() }}@end@insert(\"arg\"){{ w = " + quoted + " }}{{ w }}@end@insert(\"block\"){{ w }}@end",
			// a second use of a slotted component, after a use with other slot bodies and under the other spelling of its name
			"twice.tw": "@component(\"~card\", {title: \"first\"})@slot{{ \"<first>\" }}@end@slot(\"raw\")x@end@end@component(\"components/card\", {title: " + quoted + "})@slot{{ " + quoted + " }}@end@slot(\"raw\"){{ " + quoted + ".raw() }}@end@end",
		}
		tpl, err := loadTree(c, "c10tree", files, ".tw")
		if err != nil {
			c.Violation("escape:tree:load", "loading the tree failed: "+err.Error(), map[string]any{"literal": l, "files": files})
			continue
		}
		if tpl == nil {
			continue
		}
		render := func(name string) (string, bool) {
			var out string
			var ferr error
			c.Eval(1)
			if c.Guard(func() {
				o, e := tpl.String(name, nil)
				out = o
				if e != nil {
					ferr = e.Error()
				}
			}) {
				return "", false
			}
			if ferr != nil {
				c.Violation("escape:tree:error", "rendering failed: "+ferr.Error(), map[string]any{"literal": l, "files": files})
				return "", false
			}
			return out, true
		}
		c.Nontrivial("tree:" + quoted)
		// a loaded template is rendered more than once: the second render is the one that is judged
		render("page")
		render("comp")
		if out, ok := render("page"); ok {
			parts := strings.Split(strings.TrimSuffix(strings.TrimPrefix(out, "L<"), ">"), "|")
			if len(parts) != 3 || !strings.HasPrefix(out, "L<") {
				// '|' is not in the alphabet, so three parts are expected
				c.Violation("escape:tree:shape", fmt.Sprintf("unexpected page output %q", out), map[string]any{"literal": l, "files": files})
			} else {
				judgeSegment(c, "insert-argument", files["page.tw"], "[["+parts[0]+"]]", l, false)
				judgeSegment(c, "insert-block", files["page.tw"], "[["+parts[1]+"]]", l, false)
				judgeSegment(c, "insert-argument-raw", files["page.tw"], "[["+parts[2]+"]]", l, true)
			}
		}
		if out, ok := render("before"); ok {
			parts := strings.Split(strings.TrimSuffix(strings.TrimPrefix(out, "L<"), ">"), "|")
			if len(parts) != 3 || !strings.HasPrefix(out, "L<") {
				c.Violation("escape:tree:shape", fmt.Sprintf("unexpected page output %q", out), map[string]any{"literal": l, "files": files})
			} else {
				judgeSegment(c, "insert-argument-above-use", files["before.tw"], "[["+parts[0]+"]]", l, false)
				judgeSegment(c, "insert-block-above-use", files["before.tw"], "[["+parts[1]+"]]", l, false)
				judgeSegment(c, "insert-argument-raw-below-use", files["before.tw"], "[["+parts[2]+"]]", l, true)
			}
		}
		if out, ok := render("across"); ok {
			parts := strings.Split(strings.TrimSuffix(strings.TrimPrefix(out, "L<"), ">"), "|")
			if len(parts) != 3 || !strings.HasPrefix(out, "L<") {
				c.Violation("escape:tree:shape", fmt.Sprintf("unexpected page output %q", out), map[string]any{"literal": l, "files": files})
			} else {
				judgeSegment(c, "variable-of-an-insert-block", files["across.tw"], "[["+parts[0]+"]]", l, false)
				judgeSegment(c, "variable-of-an-earlier-insert-block", files["across.tw"], "[["+parts[1]+"]]", l, false)
				judgeSegment(c, "variable-of-an-earlier-insert-block-raw", files["across.tw"], "[["+parts[2]+"]]", l, true)
			}
		}
		if out, ok := render("twice"); ok {
			const firstUse = "C<first|&lt;first&gt;|x|first>"
			parts := strings.Split(strings.TrimSuffix(strings.TrimPrefix(strings.TrimPrefix(out, firstUse), "C<"), ">"), "|")
			if len(parts) != 4 || !strings.HasPrefix(out, firstUse+"C<") {
				c.Violation("escape:tree:shape", fmt.Sprintf("unexpected output of two uses %q", out), map[string]any{"literal": l, "files": files})
			} else {
				judgeSegment(c, "second-use:component-argument", files["twice.tw"], "[["+parts[0]+"]]", l, false)
				judgeSegment(c, "second-use:slot-body", files["twice.tw"], "[["+parts[1]+"]]", l, false)
				judgeSegment(c, "second-use:slot-body-raw", files["twice.tw"], "[["+parts[2]+"]]", l, true)
				judgeSegment(c, "second-use:component-argument-raw", files["twice.tw"], "[["+parts[3]+"]]", l, true)
			}
		}
		if out, ok := render("pair"); ok {
			parts := strings.Split(strings.TrimSuffix(strings.TrimPrefix(out, "P<"), ">"), "|")
			if len(parts) != 3 || !strings.HasPrefix(out, "P<") {
				c.Violation("escape:tree:shape", fmt.Sprintf("unexpected component output %q", out), map[string]any{"literal": l, "files": files})
			} else {
				judgeSegment(c, "component-argument-from-page-variable", files["pair.tw"], "[["+parts[1]+"]]", l, false)
				judgeSegment(c, "component-argument-from-page-variable", files["pair.tw"], "[["+parts[2]+"]]", l, false)
			}
		}
		if out, ok := render("comp"); ok {
			parts := strings.Split(strings.TrimSuffix(strings.TrimPrefix(out, "C<"), ">"), "|")
			if len(parts) != 4 || !strings.HasPrefix(out, "C<") {
				c.Violation("escape:tree:shape", fmt.Sprintf("unexpected component output %q", out), map[string]any{"literal": l, "files": files})
			} else {
				judgeSegment(c, "component-argument", files["comp.tw"], "[["+parts[0]+"]]", l, false)
				judgeSegment(c, "slot-body", files["comp.tw"], "[["+parts[1]+"]]", l, false)
				judgeSegment(c, "slot-body-raw", files["comp.tw"], "[["+parts[2]+"]]", l, true)
				judgeSegment(c, "component-argument-raw", files["comp.tw"], "[["+parts[3]+"]]", l, true)
			}
		}
	}
}

// runResponseLiteral writes the literal through Response: as part of a page that renders, and as part of
// the custom error page of a page that fails
func runResponseLiteral(c *core.Ctx, l string) {
	for _, q := range []byte{'"', '\''} {
		if !model.CanQuote(l, q) {
			continue
		}
		quoted := model.QuoteString(l, q)
		files := map[string]string{
			"errors/oops.tw": "E[[{{ " + quoted + " }}]]",
			"errors/raw.tw":  "R[[{{ " + quoted + ".raw() }}]]",
			"fine.tw":        "F[[{{ " + quoted + " }}]]",
			"fails.tw":       "before {{ 1 / zero }} after",
		}
		if err := writeFilesFresh("c10resp", files); err != nil {
			c.Inconclusive(err.Error())
			return
		}
		for _, errPage := range []string{"errors/oops", "errors/raw"} {
			textwire.VerifResetConfig()
			var tpl *textwire.Template
			var err error
			c.Eval(1)
			if c.Guard(func() {
				tpl, err = textwire.NewTemplate(&config.Config{TemplateDir: "c10resp", TemplateExt: ".tw", ErrorPagePath: errPage})
			}) {
				return
			}
			if err != nil || tpl == nil {
				c.Violation("escape:response:load", fmt.Sprintf("loading failed: %v", err), map[string]any{"literal": l, "files": files})
				return
			}
			c.Nontrivial("response:" + errPage + quoted)
			for _, page := range []string{"fine", "fails"} {
				rec := newRecorder()
				var rerr error
				c.Eval(1)
				if c.Guard(func() { rerr = tpl.Response(rec, page, map[string]any{"zero": 0}) }) {
					continue
				}
				body := rec.body.String()
				if hp := rec.headerProblem(); hp != "" {
					c.Violation("escape:response:content-length", hp, map[string]any{"literal": l, "page": page})
				}
				src := files[page+".tw"]
				switch {
				case page == "fine":
					if rerr != nil {
						c.Violation("escape:response:error", "Response failed: "+rerr.Error(), map[string]any{"literal": l})
						continue
					}
					judgeSegment(c, "response-page", src, body, l, false)
				case rerr == nil:
					c.Violation("escape:response:no-error", "a failing page gave no error", map[string]any{"literal": l})
				default:
					judgeSegment(c, "response-custom-error-page", files[errPage+".tw"], body, l, errPage == "errors/raw")
				}
			}
		}
	}
}

// loadTree writes files under dir (relative to the worker's scratch cwd),
// resets the package configuration and loads the tree. The same directory
// name is reused from case to case on purpose: anything cached per path
// inside the library would show up as a stale result.
func loadTree(c *core.Ctx, dir string, files map[string]string, ext string) (*textwire.Template, error) {
	return loadTreeAs(c, dir, dir, files, ext)
}

var fixedMtime = time.Unix(1700000000, 0)

// loadTreeAs writes the files under dir and configures the template directory as spelled
func loadTreeAs(c *core.Ctx, dir, spelled string, files map[string]string, ext string) (*textwire.Template, error) {
	os.RemoveAll(dir)
	for name, content := range files {
		p := dir + "/" + name
		if i := strings.LastIndex(p, "/"); i >= 0 {
			os.MkdirAll(p[:i], 0o755)
		}
		if err := os.WriteFile(p, []byte(content), 0o644); err != nil {
			c.Inconclusive("cannot write scratch file: " + err.Error())
			return nil, nil
		}
		// every rewrite of a path carries the same modification time (as after rsync -t or an archive
		// extraction): anything cached per path, size and time shows up as stale content
		os.Chtimes(p, fixedMtime, fixedMtime)
	}
	c.Input(map[string]any{"files": files, "dir": spelled, "ext": ext})
	textwire.VerifResetConfig()
	var tpl *textwire.Template
	var err error
	c.Eval(1)
	if c.Guard(func() { tpl, err = textwire.NewTemplate(&config.Config{TemplateDir: spelled, TemplateExt: ext}) }) {
		return nil, nil
	}
	return tpl, err
}
