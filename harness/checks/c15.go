package checks

import (
	"fmt"
	"os"
	"path/filepath"
	"reflect"
	"runtime"
	"sort"
	"strings"
	"sync"
	"sync/atomic"
	"time"

	textwire "github.com/textwire/textwire/v2"
	"github.com/textwire/textwire/v2/config"

	"verif/core"
)

// C15 — one loaded Template and the string API are safe for concurrent use.

func concFiles() map[string]string {
	return map[string]string{
		"layouts/main.tw":    "<html>@reserve(\"title\")|@reserve(\"body\")</html>",
		"components/card.tw": "<card {{ t }} {{ g }}>@slot</card>",
		"home.tw":            "@use(\"~main\")@insert(\"title\", \"Home \" + who)@insert(\"body\")@each(i in items)@component(\"~card\", {t: i, g: gid})@slot[{{ loop.iter.pause() }}]@end@end@end@end",
		"loop.tw":            "@for(k = 0; k < 6; k++){{ k.pause() }}:{{ who }};@end @each(x in items){{ x }}{{ loop.last ? \".\" : \",\" }}@end",
		"obj.tw":             "{{ {b: gid, a: who, c: [1, {z: 1, y: 2}]} }} @dump(items)",
		"bad.tw":             "before\n@each(v in items)row {{ v.pause() }}\n@end{{ gid / zero }} after",
		"bad2.tw":            "l1\nl2 {{ who.nofn() }}\n",
		"shuffle.tw":         "@each(n in items.shuffle()){{ n }},@end",
		"plain.tw":           "plain {{ gid + 1 }} {{ who }}",
		"chain.tw":           "@if(zero)a@elseif(zero)b@elseif(zero == 1)c@elseif(zero)d@else e{{ who }}@end|@if(zero)x@elseif(gid > 1000)y@elseif(zero)z@else w@end",
		"errors/500.tw":      "{{ ep = 1 }}{{ ept = \"s\" }}<custom error page>@if(true){{ ep = 2 }}@end",
		"errors/broken.tw":   "broken error page {{ reason }}",
		"ptr.tw":             "{{ acct.owner }} {{ acct.plan.name }} {{ acct.plan.seats }} {{ acct.next.owner }}",
		"joinok.tw":          "{{ items.join(\"-\") }}|{{ items.join(who) }}|{{ [who, who, who].join(\", \") }}|{{ gid.decimal(\".\", 3) }}",
		"joinbad.tw":         "{{ items.join(\"+\") }} then {{ items.join(gid) }}",
		"badpass.tw":         "<ul>@each(v in items)<li>{{ v.pause() }} {{ who }}</li>{{ 6 / (v % 10 - 1) }}@end</ul>",
		"badfor.tw":          "@for(k = 0; k < 4; k++)[{{ who }} {{ 6 / (2 - k) }}]@end",
		"assignint.tw":       "{{ v = 1 }}{{ w = [1, 2] }}int {{ v.pause() }}",
		"assignstr.tw":       "{{ v = \"s\" }}{{ w = 2.5 }}str {{ v }}",
		"readv.tw":           "read {{ v }}",
		"badarg.tw":          "@use(\"~main\")@insert(\"title\", \"T\")@insert(\"body\")@each(i in items)@component(\"~card\", {t: [i, who], g: [gid, who.nofn()]})@end@end",
		"shapes.tw":          "{{ [1, [2, [n]]] }}|{{ {a: {b: {c: n}}}.a.b.c }}|{{ \"abcdef\".at(n) }}|{{ \"x\".repeat(n) }}|{{ [1, 2, 3, 4].slice(n).len() }}|{{ 5.decimal(\".\", n) }}|{{ true.then(n, 0) }}|{{ false.then(0, s) }}|{{ \"a,b\".split(\",\").join(s) }}|{{ [s].contains(\"k\") ? 1 : 2 }}|{{ \"kz\".contains(s) }}|{{ (1 > 0) ? n : 0 }}|{{ -n }}|{{ !b }}|{{ [n, 0][0] }}|{{ {k: n, j: s}.k }}|{{ \"s\" + s }}|{{ 1 + n * 2 }}|{{ 1.5 * n.float() }}|{{ [[s, \"x\"], [n]][0][0] }}|{{ {list: [n, {deep: s}]}.list[1].deep }}|{{ \"%d\".len() + n }}|{{ [\"p\", \"q\", \"r\", \"s\"][n] }}|{{ \"abc\".truncate(n, s) }}|{{ [3, 1, 2].contains(n) }}|{{ n.str() + \"!\" }}|{{ b ? \"yes\" : \"no\" }}|{{ (b ? [1] : [1, 2]).len() }}|{{ [1, 2].append(n).len() }}|{{ [0].prepend(s)[0] }}|{{ n == 1 ? \"one\" : n == 3 ? \"three\" : \"many\" }}|@if(\"k\" == s)Y@elseif([3].contains(n))E@else N@end|@each(x in [1, n])<{{ x }}>@end|@for(i = 0; i < n; i++)({{ i }})@end|@each(x in [])@else{{ s }}@end|{{ v = [n, s] }}{{ v }}|{{ w = {k: n} }}{{ w.k }}",
		"floatdec.tw":        "@for(f = price; f > 1.0; f--)[{{ f }}]@end {{ price-- }} {{ price++ }} {{ price }} @each(p in [price, price - 1.0]){{ p-- }}{{ p.pause2() }},@end",
		"assignlayout.tw":    "@use(\"~main\")@insert(\"title\", \"T\")@insert(\"body\"){{ v = true }}{{ v }}@end",
	}
}

type concOp struct {
	name string
	perm bool // the result is a permutation (shuffle), compared as a multiset
	run  func(tpl *textwire.Template, data map[string]any, abs string) string
}

func concOps() []concOp {
	str := func(page string) func(*textwire.Template, map[string]any, string) string {
		return func(tpl *textwire.Template, data map[string]any, abs string) string {
			out, fe := tpl.String(page, data)
			if fe != nil {
				return fmtFail(out, fe.Message(), fe.Line(), fe.Filepath())
			}
			return "out=" + out
		}
	}
	resp := func(page string) func(*textwire.Template, map[string]any, string) string {
		return func(tpl *textwire.Template, data map[string]any, abs string) string {
			rec := newRecorder()
			err := tpl.Response(rec, page, data)
			return fmt.Sprintf("body=%s err=%v", rec.body.String(), err)
		}
	}
	return []concOp{
		{"String(home)", false, str("home")},
		{"String(loop)", false, str("loop")},
		{"String(obj)", false, str("obj")},
		{"String(bad)", false, str("bad")},
		{"String(bad2)", false, str("bad2")},
		{"String(missing)", false, str("nope")},
		{"String(shuffle)", true, str("shuffle")},
		{"String(chain)", false, str("chain")},
		{"Response(home)", false, resp("home")},
		{"Response(bad)", false, resp("bad")},
		{"Response(missing)", false, resp("ghost")},
		{"EvaluateString(ok)", false, func(tpl *textwire.Template, data map[string]any, abs string) string {
			out, err := textwire.EvaluateString("@each(i in items){{ i.pause() }}{{ who }}@end {{ gid * 2 }}", data)
			return fmt.Sprintf("out=%s err=%v", out, err)
		}},
		{"EvaluateString(fail)", false, func(tpl *textwire.Template, data map[string]any, abs string) string {
			out, err := textwire.EvaluateString("x {{ who }}\n{{ gid / zero }}", data)
			return fmt.Sprintf("out=%s err=%v", out, err)
		}},
		// a built-in that fails after a sibling call succeeded, next to the same built-in succeeding elsewhere
		{"String(ptr)", false, str("ptr")},
		{"String(joinok)", false, str("joinok")},
		{"String(joinbad)", false, str("joinbad")},
		{"Response(joinbad)", false, resp("joinbad")},
		// loops that fail in a later pass, after earlier passes produced output
		{"String(badpass)", false, str("badpass")},
		{"Response(badfor)", false, resp("badfor")},
		// renders without data that assign at top level, and one that reads the name (it must fail)
		{"String(assignint, nil)", false, func(tpl *textwire.Template, _ map[string]any, abs string) string {
			return str("assignint")(tpl, nil, abs)
		}},
		{"String(assignstr, nil)", false, func(tpl *textwire.Template, _ map[string]any, abs string) string {
			return str("assignstr")(tpl, nil, abs)
		}},
		{"String(readv, nil)", false, func(tpl *textwire.Template, _ map[string]any, abs string) string { return str("readv")(tpl, nil, abs) }},
		{"Response(assignlayout, nil)", false, func(tpl *textwire.Template, _ map[string]any, abs string) string {
			return resp("assignlayout")(tpl, nil, abs)
		}},
		{"EvaluateString(assign, nil)", false, func(tpl *textwire.Template, data map[string]any, abs string) string {
			out, err := textwire.EvaluateString("{{ v = {a: 1} }}{{ w = \"x\" }}{{ v.a }}{{ w }}", nil)
			return fmt.Sprintf("out=%s err=%v", out, err)
		}},
		// names never seen before in this process: a mail address after '@', a property reached through its
		// capitalised spelling, a struct type built for this call - whatever is memoised per name is filled
		// in under contention
		{"EvaluateString(fresh names)", false, func(tpl *textwire.Template, data map[string]any, abs string) string {
			n := freshCounter.Add(1)
			st := reflect.StructOf([]reflect.StructField{{Name: "F", Type: reflect.TypeOf(0)}, {Name: fmt.Sprintf("X%d", n), Type: reflect.TypeOf("")}})
			sv := reflect.New(st).Elem()
			sv.Field(0).SetInt(n)
			// (also a count of decimals larger than any asked for before)
			src := fmt.Sprintf("mail%d@host%d.example @w%d {{ u.k%d }} {{ s.f }} {{ {zz%d: 1, aa: 2}.aa }} {{ 7.decimal(\",\", %d) }}", n, n, n, n, n, 3000+n%3000)
			want := fmt.Sprintf("mail%d@host%d.example @w%d %d %d 2 7,%s", n, n, n, n, n, strings.Repeat("0", int(3000+n%3000)))
			// a dump nested deeper than any before it (its text is not compared: no statement fixes it)
			var deep any = n
			for k := int64(0); k < 3+n/6 && k < 48; k++ {
				if k%2 == 0 {
					deep = []any{deep}
				} else {
					deep = map[string]any{"k": deep}
				}
			}
			if dout, derr := textwire.EvaluateString("@dump(deep)", map[string]any{"deep": deep}); derr != nil || dout == "" {
				return fmt.Sprintf("fresh names: @dump of a value nested %d deep gave (%d bytes, %v)", min(3+n/6, 48), len(dout), derr)
			}
			out, err := textwire.EvaluateString(src, map[string]any{"u": map[string]any{fmt.Sprintf("K%d", n): n}, "s": sv.Interface()})
			if err != nil || out != want {
				return fmt.Sprintf("fresh names: got (%q, %v), want %q", out, err, want)
			}
			return "fresh names rendered as expected"
		}},
		// a file of the goroutine's own, rewritten in place before the call (same length, same modification time)
		{"EvaluateFile(own file rewritten in place)", false, func(tpl *textwire.Template, data map[string]any, abs string) string {
			n := freshCounter.Add(1)
			own := filepath.Join(filepath.Dir(abs), fmt.Sprintf("own-%v.tw", data["gid"]))
			tag, d := "bi"[n%2], n%10
			if err := os.WriteFile(own, []byte(fmt.Sprintf("<%c>{{ %d * 3 }}</%c> own {{ gid }}", tag, d, tag)), 0o644); err != nil {
				return "own file: " + err.Error()
			}
			os.Chtimes(own, fixedMtime, fixedMtime)
			out, err := textwire.EvaluateFile(own, data)
			if want := fmt.Sprintf("<%c>%d</%c> own %v", tag, d*3, tag, data["gid"]); err != nil || out != want {
				return fmt.Sprintf("own file: got (%q, %v), want %q", out, err, want)
			}
			return "own file rendered as expected"
		}},
		// two struct types that are both called row where they are declared
		{"EvaluateString(two types named row)", false, func(tpl *textwire.Template, data map[string]any, abs string) string {
			n := freshCounter.Add(1)
			var out, want string
			var err error
			if n%2 == 0 {
				out, err = textwire.EvaluateString("{{ r.num }} {{ r.name }} {{ rs[0].name }}", map[string]any{"r": c15RowA(n), "rs": []any{c15RowA(n)}})
				want = fmt.Sprintf("%d name%d name%d", n, n, n)
			} else {
				out, err = textwire.EvaluateString("{{ r.num }} {{ r.note }} {{ r.qty }} {{ rs[0].note }}", map[string]any{"r": c15RowB(n), "rs": []any{c15RowB(n)}})
				want = fmt.Sprintf("%d note%d %d note%d", n, n, n+1, n)
			}
			if err != nil || out != want {
				return fmt.Sprintf("two types named row: got (%q, %v), want %q", out, err, want)
			}
			return "two types named row rendered as expected"
		}},
		// postfix operators on floats
		{"String(floatdec)", false, str("floatdec")},
		// literals holding markup that no call of this process has evaluated before
		{"EvaluateString(fresh literals)", false, func(tpl *textwire.Template, data map[string]any, abs string) string {
			n := freshCounter.Add(1)
			src := fmt.Sprintf("{{ \"<b>lit %d</b> & more\" }}|{{ '<i>%d</i>'.len() }}|{{ [\"a<%d\"][0] }}", n, n, n)
			want := fmt.Sprintf("&lt;b&gt;lit %d&lt;/b&gt; &amp; more|%d|a&lt;%d", n, len(fmt.Sprintf("&lt;i&gt;%d&lt;/i&gt;", n)), n)
			out, err := textwire.EvaluateString(src, nil)
			if err != nil || out != want {
				return fmt.Sprintf("fresh literals: got (%q, %v), want %q", out, err, want)
			}
			return "fresh literals rendered as expected"
		}},
		// the data buried in literals, calls on literal receivers, conditions and loop headers of every shape
		{"String(shapes)", false, func(tpl *textwire.Template, data map[string]any, abs string) string {
			g, _ := data["gid"].(int)
			return str("shapes")(tpl, map[string]any{"n": g % 4, "s": []string{"k", "z", "kz", ""}[g%4], "b": g%2 == 0}, abs)
		}},
		// inline pages of several KiB, different for every goroutine, one of them failing at its end
		{"EvaluateString(big page)", false, func(tpl *textwire.Template, data map[string]any, abs string) string {
			who := fmt.Sprint(data["who"])
			src := "<ul>\n" + strings.Repeat("<li>row of "+who+" {{ gid }}</li>\n", 90) + "</ul>{{ who }}@each(i in items){{ i }},@end"
			out, err := textwire.EvaluateString(src, data)
			return fmt.Sprintf("out=%s err=%v", out, err)
		}},
		{"EvaluateString(big failing page)", false, func(tpl *textwire.Template, data map[string]any, abs string) string {
			who := fmt.Sprint(data["who"])
			src := strings.Repeat("<p>"+who+"</p>\n", 400) + "{{ who.nofn" + who + "() }}"
			out, err := textwire.EvaluateString(src, data)
			return fmt.Sprintf("out=%s err=%v", out, err)
		}},
		// the source of a component (slot placeholders, named and default) given to the string API and to the file API
		{"EvaluateString(component source)", false, func(tpl *textwire.Template, data map[string]any, abs string) string {
			out, err := textwire.EvaluateString("<card {{ who }}>@slot(\"head\")|@slot|@if(gid)@slot(\"foot\")@end</card>", data)
			return fmt.Sprintf("out=%s err=%v", out, err)
		}},
		{"EvaluateFile(component file)", false, func(tpl *textwire.Template, data map[string]any, abs string) string {
			d := map[string]any{"t": data["who"], "g": data["gid"]}
			out, err := textwire.EvaluateFile(filepath.Join(filepath.Dir(abs), "components", "card.tw"), d)
			return fmt.Sprintf("out=%s err=%v", out, err)
		}},
		// long results of built-ins that differ from goroutine to goroutine through their data
		{"EvaluateString(long built-in results)", false, func(tpl *textwire.Template, data map[string]any, abs string) string {
			out, err := textwire.EvaluateString("{{ gid.len() }}{{ (gid * 100003).len() }}{{ gid.str() }}{{ gid.float() }}{{ gid.abs() }}{{ gid.decimal() }}|{{ who.repeat(700 + gid) }}|{{ gid.decimal(\"-\", 1500 + gid) }}|{{ (who + \" \").repeat(300).trim().upper().len() }}|{{ who.repeat(600).reverse().len() }}", data)
			return fmt.Sprintf("out=%s err=%v", out, err)
		}},
		// a failing element of an array literal, a failing argument of a call: the message names this goroutine's own fault
		{"EvaluateString(failing element)", false, func(tpl *textwire.Template, data map[string]any, abs string) string {
			who := fmt.Sprint(data["who"])
			g, _ := data["gid"].(int)
			src := []string{"{{ [1, missing_" + who + ", 3] }}", "{{ [gid, who.nofn_" + who + "()] }}", "{{ \"abc\".contains(1 / zero, missing_" + who + ") }}", "{{ [who, [1, gid + who]] }}", "{{ true.then(1, [2, 3 - who]) }}"}[g%5]
			out, err := textwire.EvaluateString(src, data)
			return fmt.Sprintf("out=%s err=%v", out, err)
		}},
		{"Response(failing element in a component argument)", false, resp("badarg")},
		// built-ins on short strings outside ASCII, different for every goroutine
		{"EvaluateString(string built-ins)", false, func(tpl *textwire.Template, data map[string]any, abs string) string {
			out, err := textwire.EvaluateString("{{ label.reverse() }}|{{ label.upper() }}|{{ label.capitalize() }}|{{ label.at(1) }}|{{ label.truncate(3) }}|{{ (label + who).reverse() }}|{{ label.split(\"\").join(\"-\") }}|{{ label.len() }}", data)
			return fmt.Sprintf("out=%s err=%v", out, err)
		}},
		// calls that fail because of their data (the entry that cannot be bound comes last in key order, after entries that
		// can), next to a call that reads a name its own data lacks (it must fail)
		{"EvaluateString(unsupported data)", false, func(tpl *textwire.Template, data map[string]any, abs string) string {
			out, err := textwire.EvaluateString("{{ a_secret }} {{ who }}", map[string]any{"a_secret": "secret of " + fmt.Sprint(data["who"]), "who": data["who"], "zz_ch": make(chan int)})
			return fmt.Sprintf("out=%s err=%v", out, err)
		}},
		{"EvaluateString(loop as data)", false, func(tpl *textwire.Template, data map[string]any, abs string) string {
			out, err := textwire.EvaluateString("{{ a_secret }} {{ who }}", map[string]any{"a_secret": "secret of " + fmt.Sprint(data["who"]), "who": data["who"], "loop": 1})
			return fmt.Sprintf("out=%s err=%v", out, err)
		}},
		{"EvaluateString(reads a name its data lacks)", false, func(tpl *textwire.Template, data map[string]any, abs string) string {
			out, err := textwire.EvaluateString("{{ gid }} {{ a_secret }}", map[string]any{"gid": data["gid"]})
			return fmt.Sprintf("out=%s err=%v", out, err)
		}},
		{"String(plain, unsupported data)", false, func(tpl *textwire.Template, data map[string]any, abs string) string {
			return str("plain")(tpl, map[string]any{"gid": data["gid"], "who": data["who"], "a_secret": "s", "zz_f": func() {}}, abs)
		}},
		{"EvaluateFile(plain)", false, func(tpl *textwire.Template, data map[string]any, abs string) string {
			out, err := textwire.EvaluateFile(abs, data)
			return fmt.Sprintf("out=%s err=%v", out, err)
		}},
	}
}

func sortedChars(s string) string {
	parts := strings.Split(strings.TrimPrefix(s, "out="), ",")
	sort.Strings(parts)
	return strings.Join(parts, ",")
}

var freshCounter atomic.Int64

type concPlan struct {
	Name  string
	Seats int
}

type concAccount struct {
	Owner string
	Plan  *concPlan
	Next  *concAccount
}

type opRecord struct {
	g, op     int
	call, ret int64
	result    string
}

func init() {
	ops := concOps()
	configs := []struct{ g, procs int }{{2, 1}, {2, 2}, {2, 16}, {8, 1}, {8, 2}, {8, 16}, {32, 1}, {32, 2}, {32, 16}}
	core.Register(&core.Check{
		ID:         "C15",
		Level:      "exploration",
		Race:       true,
		MaxWorkers: 6,
		CPUBudget:  600,
		Rule: "rounds of G in {2, 8, 32(,128)} goroutines x GOMAXPROCS in {1, 2, 16}, every goroutine issuing 200 (80 when G = 128) operations drawn (seeded) from 26 concrete calls on one loaded tree - String of a layout+component-in-loop page, a loop page, an object/dump page, two pages failing at run time, a missing name, a shuffle() page; Response ok/failing/missing (error page through the string API); EvaluateString ok/failing; EvaluateFile; loops that fail in a later pass after producing output; renders without any data that assign names at top level (as integer, string, boolean, object) next to one that reads the name and must fail - with goroutine-specific data otherwise; a registered custom function called from inside the templates yields or sleeps 50us on a seeded schedule; every round also loads a tree without layouts and components right after a tree in another directory was used and makes its very first renders (failing ones included) concurrent. " +
			"Oracles: the harness is built with the Go race detector (halt_on_error=0, log per process); after the rounds the log is parsed and every report with a frame inside the repository is a violation (de-duplicated by the pair of innermost repository frames); the recorded history (goroutine, operation, logical call/return stamps from one atomic counter, result) is checked offline against the stateless model: every result must equal what the same operation returned alone before the round (shuffle as a multiset). Evidence counts operations that overlapped an operation of a different kind. round 8: float postfix page, inline pages of several KiB, component sources through the string and file API; round 9: non-ASCII string built-ins, data-caused failures, big-input bursts; rounds 10-11: long results, failing elements, cold-start parses, assigning error page; rounds 12-13: fresh literals with markup (also at cold start), integer built-ins on goroutine data, fresh decimals longer than any other; round 14: own files rewritten in place, two types named row, self-checking operations judged alone; round 15: deep evaluations held in flight together; round 16: first renders of the process on a tree of plain pages under a relative directory are concurrent; distinct_nontrivial = distinct (round, goroutine, operation) triples that overlapped another kind",
		Assumptions: []string{
			"only interleavings the scheduler produced; the race detector sees races between accesses that actually executed",
			"custom functions are registered before the goroutines start, as the statement requires",
		},
		Setup: func(c *core.Ctx) {
			textwire.VerifReset()
			// hold15 keeps a render where it is until every goroutine of a held burst has arrived (or two seconds passed)
			textwire.RegisterStrFunc("hold15", func(s string, args ...any) string {
				if b := heldBarrier.Load(); b != nil {
					b.arrive()
				}
				return s
			})
			textwire.RegisterIntFunc("pause", func(i int, args ...any) int {
				switch {
				case i%3 == 0:
					runtime.Gosched()
				case i%5 == 0:
					time.Sleep(50 * time.Microsecond)
				}
				return i
			})
			textwire.RegisterFloatFunc("pause2", func(f float64, args ...any) float64 {
				if int(f)%2 == 0 {
					runtime.Gosched()
				}
				return f
			})
			if err := writeFiles("conc", concFiles()); err != nil {
				panic(err)
			}
		},
		Finish: func(c *core.Ctx) {
			runtime.GOMAXPROCS(runtime.NumCPU())
			scanRaceLog(c)
		},
		Sections: func(tier core.Tier, seed int64) []core.Section {
			rounds := 2
			cfgs := configs
			if tier == core.Thorough {
				rounds = 16
				cfgs = append(append([]struct{ g, procs int }{}, configs...), struct{ g, procs int }{128, 16}, struct{ g, procs int }{128, 4})
			}
			return []core.Section{{Name: "rounds", N: len(cfgs) * rounds, Run: func(c *core.Ctx, i int) {
				cfg := cfgs[i%len(cfgs)]
				custom := i%2 == 1
				debug := (i/2)%2 == 1
				// every third round with a custom page uses one that fails itself
				brokenPage := custom && i%3 == 0
				runtime.GOMAXPROCS(cfg.procs)
				defer runtime.GOMAXPROCS(runtime.NumCPU())
				// the very first use of the string API in this process is concurrent (nothing was lexed,
				// parsed or loaded before): what is initialised lazily is initialised under contention
				if c.State["cold-burst-done"] == nil {
					c.State["cold-burst-done"] = true
					coldBurst(c)
				}
				textwire.VerifResetConfig()
				conf := &config.Config{TemplateDir: "conc", TemplateExt: ".tw", DebugMode: debug}
				if custom {
					conf.ErrorPagePath = "errors/500"
				}
				if brokenPage {
					conf.ErrorPagePath = "errors/broken"
				}
				// baselines come from a template value of their own, so that the one used
				// concurrently was never used alone before
				baseTpl, err := textwire.NewTemplate(conf)
				if err != nil {
					c.Violation("concurrent:load-failed", err.Error(), nil)
					return
				}
				tpl, err := textwire.NewTemplate(conf)
				if err != nil {
					c.Violation("concurrent:load-failed", err.Error(), nil)
					return
				}
				abs, _ := filepath.Abs("conc/plain.tw")
				desc := map[string]any{"goroutines": cfg.g, "gomaxprocs": cfg.procs, "custom_error_page": custom, "custom_error_page_fails": brokenPage, "debug": debug, "round": i}
				c.Input(desc)
				// goroutine-specific data and the stand-alone baseline of every operation
				dataOf := func(g int) map[string]any {
					items := make([]int, 3+g%4)
					for k := range items {
						items[k] = g*10 + k
					}
					// every goroutine brings pointers of its own (to structs, chained)
					plan := &concPlan{Name: fmt.Sprintf("plan%d", g), Seats: g}
					acct := &concAccount{Owner: fmt.Sprintf("owner%d", g), Plan: plan, Next: &concAccount{Owner: "next", Plan: plan}}
					return map[string]any{"gid": g, "who": fmt.Sprintf("g%d", g), "items": items, "zero": 0, "acct": acct, "price": float64(g%9) + 3.125, "label": fmt.Sprintf("é%d中ß😀", g)}
				}
				base := make([][]string, cfg.g)
				for g := 0; g < cfg.g; g++ {
					base[g] = make([]string, len(ops))
					for k, op := range ops {
						base[g][k] = op.run(baseTpl, dataOf(g), abs)
						c.Eval(1)
					}
				}
				// operations that check themselves say so: alone they must be as expected already
				for g := 0; g < cfg.g && g < 2; g++ {
					for k, op := range ops {
						if strings.Contains(base[g][k], ": got (") {
							c.Violation("alone:"+op.name, fmt.Sprintf("run alone, %s reports: %s", op.name, clipS(base[g][k], 500)), desc)
						}
					}
				}
				var firstFailing []int
				for k, op := range ops {
					if strings.HasPrefix(op.name, "Response(bad") || op.name == "Response(missing)" {
						firstFailing = append(firstFailing, k)
					}
				}
				var clock atomic.Int64
				records := make([][]opRecord, cfg.g)
				var wg sync.WaitGroup
				start := make(chan struct{})
				for g := 0; g < cfg.g; g++ {
					wg.Add(1)
					go func(g int) {
						defer wg.Done()
						rng := core.NewRng("C15", c.Seed, i, g)
						data := dataOf(g)
						<-start
						perGoroutine := 200
						if cfg.g > 32 {
							perGoroutine = 80
						}
						for n := 0; n < perGoroutine; n++ {
							k := rng.Intn(len(ops))
							// the first two operations of every goroutine are failing Responses: whatever
							// the template sets up lazily for its error page is set up by all of them at once
							if n < 2 {
								k = firstFailing[(g+n)%len(firstFailing)]
							}
							t0 := clock.Add(1)
							res := ops[k].run(tpl, data, abs)
							t1 := clock.Add(1)
							records[g] = append(records[g], opRecord{g, k, t0, t1, res})
						}
					}(g)
				}
				close(start)
				wg.Wait()
				// offline check of the history against the stateless model
				var all []opRecord
				for g := range records {
					for _, r := range records[g] {
						want := base[r.g][r.op]
						got := r.result
						if ops[r.op].perm {
							want, got = sortedChars(want), sortedChars(got)
						}
						if got != want {
							c.Violation("concurrent:"+ops[r.op].name, fmt.Sprintf("goroutine %d: %s returned\n%s\nalone it returns\n%s", r.g, ops[r.op].name, clipS(r.result, 500), clipS(base[r.g][r.op], 500)), desc)
						}
						all = append(all, r)
					}
				}
				c.Eval(len(all))
				// how many operations overlapped an operation of another kind
				sort.Slice(all, func(a, b int) bool { return all[a].call < all[b].call })
				overlapped := 0
				for a := range all {
					for b := a + 1; b < len(all) && all[b].call < all[a].ret; b++ {
						if all[b].op != all[a].op && all[b].g != all[a].g {
							overlapped++
							c.Nontrivial(fmt.Sprint(i, all[a].g, all[a].op, all[a].call))
							break
						}
					}
				}
				freshLoadBurst(c, i)
				bigInputBurst(c, tpl, i)
				if i%4 == 0 {
					heldBurst(c, i)
				}
				c.Count("operations_in_histories", len(all))
				c.Count("operations_overlapping_another_kind", overlapped)
				if i < 4 {
					c.Sample(map[string]any{"goroutines": cfg.g, "gomaxprocs": cfg.procs, "operations": len(all), "overlapping_another_kind": overlapped})
				}
				if cfg.procs > 1 && cfg.g >= 8 && overlapped == 0 {
					c.Inconclusive("no two operations of different kinds overlapped in this round")
				}
			}}}
		},
	})
}

// scanRaceLog parses the race detector's log of this process
func scanRaceLog(c *core.Ctx) {
	base := os.Getenv("VERIF_RACE_LOG")
	if base == "" {
		c.Inconclusive("the race detector log path is not set (binary not started by the supervisor?)")
		return
	}
	path := fmt.Sprintf("%s.%d", base, os.Getpid())
	b, err := os.ReadFile(path)
	c.Count("race_logs_scanned", 1)
	if err != nil {
		return // no report was written
	}
	blocks := strings.Split(string(b), "WARNING: DATA RACE")
	seen := map[string]bool{}
	for _, blk := range blocks[1:] {
		c.Count("race_reports", 1)
		// split the block into its stacks; the first repository frame of each of the two access stacks
		var frames []string
		for _, part := range strings.Split(blk, "\n\n") {
			head := strings.TrimSpace(part)
			if !(strings.HasPrefix(head, "Write at") || strings.HasPrefix(head, "Read at") || strings.HasPrefix(head, "Previous write at") || strings.HasPrefix(head, "Previous read at")) {
				continue
			}
			site := "outside-repository"
			for _, ln := range strings.Split(part, "\n") {
				t := strings.TrimSpace(ln)
				if strings.HasPrefix(t, "github.com/textwire/textwire/v2") {
					site = strings.TrimPrefix(t, "github.com/textwire/textwire/v2")
					if k := strings.LastIndex(site, "("); k > 0 {
						site = site[:k]
					}
					break
				}
			}
			frames = append(frames, site)
		}
		sort.Strings(frames)
		key := strings.Join(frames, " <-> ")
		if seen[key] {
			continue
		}
		seen[key] = true
		if !strings.Contains(key, "/") && !strings.Contains(key, ".") {
			c.Inconclusive("race report without a repository frame: " + clipS(blk, 300))
			continue
		}
		c.Violation("race:"+key, "the race detector reported a data race: "+key, map[string]any{"report": clipS("WARNING: DATA RACE"+blk, 5000)})
	}
}

// freshLoadBurst: a tree without layouts and components (loading it renders nothing and resolves no
// other file) is loaded right after a tree in another directory was loaded and used, and its very
// first renders - failing ones included - are concurrent. Baselines come from an earlier load of the
// same directory.
func freshLoadBurst(c *core.Ctx, round int) {
	flat := map[string]string{
		"ok.tw":      "flat {{ who }} @each(i in items){{ i }},@end",
		"bad.tw":     "l1\nl2 {{ who }}\n{{ gid / zero }} never",
		"sub/bad.tw": "s1\n{{ who.nofn() }}",
	}
	for _, d := range []string{"flat1", "flat2/views"} {
		if err := writeFiles(d, flat); err != nil {
			c.Inconclusive(err.Error())
			return
		}
	}
	type op struct {
		name string
		run  func(t *textwire.Template, d map[string]any) string
	}
	str := func(page string) func(t *textwire.Template, d map[string]any) string {
		return func(t *textwire.Template, d map[string]any) string {
			out, fe := t.String(page, d)
			if fe != nil {
				return fmtFail(out, fe.Message(), fe.Line(), fe.Filepath())
			}
			return "out=" + out
		}
	}
	ops := []op{{"String(ok)", str("ok")}, {"String(bad)", str("bad")}, {"String(sub/bad)", str("sub/bad")}, {"String(missing)", str("nope")},
		{"Response(bad)", func(t *textwire.Template, d map[string]any) string {
			rec := newRecorder()
			err := t.Response(rec, "bad", d)
			return fmt.Sprintf("body=%s err=%v", rec.body.String(), err)
		}}}
	dataOf := func(g int) map[string]any {
		return map[string]any{"gid": g, "who": fmt.Sprintf("f%d", g), "items": []int{g, g + 1}, "zero": 0}
	}
	load := func(dir string) *textwire.Template {
		textwire.VerifResetConfig()
		t, err := textwire.NewTemplate(&config.Config{TemplateDir: dir, TemplateExt: ".tw", DebugMode: round%2 == 0})
		if err != nil {
			c.Violation("concurrent:load-failed", err.Error(), nil)
			return nil
		}
		return t
	}
	const G = 16
	dirs := []string{"flat1", "flat2/views"}
	mine, other := dirs[round%2], dirs[(round+1)%2]
	base := load(mine)
	if base == nil {
		return
	}
	want := make([][]string, G)
	for g := 0; g < G; g++ {
		for _, o := range ops {
			want[g] = append(want[g], o.run(base, dataOf(g)))
		}
	}
	if ot := load(other); ot != nil {
		ot.String("bad", dataOf(0))
		ot.String("ok", dataOf(0))
	}
	tpl := load(mine)
	if tpl == nil {
		return
	}
	got := make([][]string, G)
	var wg sync.WaitGroup
	start := make(chan struct{})
	for g := 0; g < G; g++ {
		wg.Add(1)
		go func(g int) {
			defer wg.Done()
			d := dataOf(g)
			<-start
			for n := 0; n < 6; n++ {
				for _, o := range ops {
					got[g] = append(got[g], o.run(tpl, d))
				}
			}
		}(g)
	}
	close(start)
	wg.Wait()
	for g := 0; g < G; g++ {
		for k, res := range got[g] {
			if w := want[g][k%len(ops)]; res != w {
				c.Violation("concurrent:fresh-load:"+ops[k%len(ops)].name, fmt.Sprintf("one of the first renders after loading %q (the tree in %q was loaded and used just before) returned\n%s\nalone it returns\n%s", mine, other, clipS(res, 400), clipS(w, 400)), map[string]any{"round": round})
				return
			}
		}
	}
	c.Eval(G * 6 * len(ops))
	c.Count("fresh_load_concurrent_calls", G*6*len(ops))
}

// bigInputBurst: every goroutine alternates between a failing Response (all of them render the same built-in
// error page, some 2 KiB of template) and an inline page of its own of 1..3 KiB
func bigInputBurst(c *core.Ctx, tpl *textwire.Template, round int) {
	const G, N = 16, 300
	srcOf := func(g int) string {
		return strings.Repeat(fmt.Sprintf("<li>item of g%d {{ gid }}</li>\n", g), 40+g*4) + "{{ who }}"
	}
	dataOf := func(g int) map[string]any {
		return map[string]any{"gid": g, "who": fmt.Sprintf("b%d", g), "zero": 0, "items": []int{g}}
	}
	respond := func(g int) string {
		rec := newRecorder()
		err := tpl.Response(rec, "bad2", dataOf(g))
		return fmt.Sprintf("body=%s err=%v", rec.body.String(), err)
	}
	inline := func(g int) string {
		out, err := textwire.EvaluateString(srcOf(g), dataOf(g))
		return fmt.Sprintf("out=%s err=%v", out, err)
	}
	want := make([][2]string, G)
	for g := 0; g < G; g++ {
		want[g] = [2]string{respond(g), inline(g)}
	}
	bad := make([]string, G)
	var wg sync.WaitGroup
	start := make(chan struct{})
	for g := 0; g < G; g++ {
		wg.Add(1)
		go func(g int) {
			defer wg.Done()
			<-start
			for n := 0; n < N; n++ {
				var got string
				if (n+g)%2 == 0 {
					got = respond(g)
				} else {
					got = inline(g)
				}
				if got != want[g][(n+g)%2] && bad[g] == "" {
					bad[g] = fmt.Sprintf("call %d of goroutine %d (%s) returned\n%s\nalone it returns\n%s", n, g, []string{"failing Response", "inline page"}[(n+g)%2], clipS(got, 300), clipS(want[g][(n+g)%2], 300))
				}
			}
		}(g)
	}
	close(start)
	wg.Wait()
	c.Eval(G * N)
	c.Count("big_input_concurrent_calls", G*N)
	for _, b := range bad {
		if b != "" {
			c.Violation("concurrent:big-inputs", b, map[string]any{"round": round})
			return
		}
	}
}

// coldBurst issues the first string-API calls of the process from many goroutines at once and
// compares what they returned with the same calls made sequentially afterwards
func coldBurst(c *core.Ctx) {
	srcs := []string{
		// literals with characters that are escaped, with entities, with bytes outside ASCII
		"{{ \"<b>&amp; \" + who }}{{ 'a & b' }}{{ \"x > y\".raw() }}{{ \"é中😀\" }}{{ \"\" }}",
		"@each(i in items){{ i }}@end @if(gid)y@elseif(zero)n@else e@end {{-- c --}}@for(k = 0; k < 2; k++){{ k }}@end",
		"@insert(\"a\", 1)@reserve(\"b\")@component(\"c\")@dump(gid) {{ who.upper() }}",
		"x {{ who }}\n{{ gid / zero }}",
		"@each(i in items)@continueIf(i == 1)@breakIf(i == 2){{ i }}@end",
		// string literals with escaped quotes of either kind; inputs that fail to parse, the message naming directives and keywords
		"{{ \"say \\\"hi\\\" \" + who }} {{ 'it\\'s ' + who }}",
		"{{ 'a\\'b' }}{{ \"c\\\"d\" }}@if(true){{ \"e\\\"\" }}@end",
		"@if(true)never closed {{ who }}",
		"@each(x items)y@end",
		"@for(k = 0; k < 2)y@end {{ gid }}",
		"@if(true)a@else b@elseif(true)c@end",
		"{{ gid in }}",
		"@component(\"x\", 5) {{ nil true false }}",
	}
	abs, _ := filepath.Abs("conc/plain.tw")
	const G = 16
	results := make([][]string, G)
	var wg sync.WaitGroup
	start := make(chan struct{})
	data := func(g int) map[string]any {
		return map[string]any{"gid": g, "who": "cold", "items": []int{0, 1, 2, 3}, "zero": 0}
	}
	for g := 0; g < G; g++ {
		wg.Add(1)
		go func(g int) {
			defer wg.Done()
			<-start
			for n := 0; n < 10; n++ {
				for _, src := range srcs {
					out, err := textwire.EvaluateString(src, data(g))
					results[g] = append(results[g], fmt.Sprintf("%s|%v", out, err))
				}
				out, err := textwire.EvaluateFile(abs, data(g))
				results[g] = append(results[g], fmt.Sprintf("%s|%v", out, err))
			}
		}(g)
	}
	close(start)
	wg.Wait()
	for g := 0; g < G; g++ {
		k := 0
		for n := 0; n < 10; n++ {
			for _, src := range srcs {
				out, err := textwire.EvaluateString(src, data(g))
				if want := fmt.Sprintf("%s|%v", out, err); results[g][k] != want {
					c.Violation("concurrent:cold-start", fmt.Sprintf("one of the first concurrent EvaluateString calls of the process returned\n%s\nalone it returns\n%s", clipS(results[g][k], 400), clipS(want, 400)), map[string]any{"source": src})
				}
				k++
			}
			out, err := textwire.EvaluateFile(abs, data(g))
			if want := fmt.Sprintf("%s|%v", out, err); results[g][k] != want {
				c.Violation("concurrent:cold-start", fmt.Sprintf("one of the first concurrent EvaluateFile calls returned %s, alone %s", clipS(results[g][k], 300), clipS(want, 300)), nil)
			}
			k++
		}
	}
	c.Eval(G * 10 * (len(srcs) + 1))
	c.Count("cold_start_concurrent_calls", G*10*(len(srcs)+1))
	// round 16: the first renders of the process through a loaded Template are concurrent as well, on a tree that has no
	// layout and no component (loading it resolves no path of a used file) under a relative directory: whatever the first
	// String or Response of a process sets up - about paths, the working directory, the error page - is set up under contention
	plainFiles := map[string]string{"one.tw": "one {{ gid }} {{ who }}\n", "two.tw": "@each(i in items)[{{ i }}]@end {{ gid * 2 }}\n", "sub/deep.tw": "deep {{ who.upper() }}\n",
		"bad.tw": "x {{ gid }}\n{{ missing }}\n", "bad2.tw": "\n\n{{ gid / zero }}\n"}
	if err := writeFiles("concplain", plainFiles); err == nil {
		textwire.VerifResetConfig()
		ptpl, perr := textwire.NewTemplate(&config.Config{TemplateDir: "concplain", TemplateExt: ".tw"})
		if perr != nil || ptpl == nil {
			c.Violation("concurrent:cold-start-plain-tree:load", fmt.Sprintf("a tree of plain pages under a relative directory did not load: %v", perr), nil)
		} else {
			pages := []string{"one", "bad", "two", "bad2", "sub/deep", "nope"}
			first := make([][]string, G)
			var pwg sync.WaitGroup
			pstart := make(chan struct{})
			for g := 0; g < G; g++ {
				pwg.Add(1)
				go func(g int) {
					defer pwg.Done()
					<-pstart
					for n := 0; n < 12; n++ {
						page := pages[(g+n)%len(pages)]
						if n%3 == 2 {
							rec := newRecorder()
							e := ptpl.Response(rec, page, data(g))
							first[g] = append(first[g], fmt.Sprintf("%s|%v", rec.body.String(), e))
						} else {
							out, e := ptpl.String(page, data(g))
							first[g] = append(first[g], fmt.Sprintf("%s|%v", out, e))
						}
					}
				}(g)
			}
			close(pstart)
			pwg.Wait()
			for g := 0; g < G; g++ {
				for n := 0; n < 12; n++ {
					page := pages[(g+n)%len(pages)]
					var want string
					if n%3 == 2 {
						rec := newRecorder()
						e := ptpl.Response(rec, page, data(g))
						want = fmt.Sprintf("%s|%v", rec.body.String(), e)
					} else {
						out, e := ptpl.String(page, data(g))
						want = fmt.Sprintf("%s|%v", out, e)
					}
					if first[g][n] != want {
						c.Violation("concurrent:cold-start-plain-tree", fmt.Sprintf("one of the first concurrent renders of page %q of the process returned\n%s\nalone it returns\n%s", page, clipS(first[g][n], 300), clipS(want, 300)), nil)
					}
				}
			}
			c.Eval(G * 12)
			c.Count("cold_start_concurrent_renders_of_a_plain_tree", G*12)
		}
	}
	// the first error pages of the process - built-in, debug off, no custom page - are written concurrently too
	textwire.VerifResetConfig()
	tpl, err := textwire.NewTemplate(&config.Config{TemplateDir: "conc", TemplateExt: ".tw"})
	if err != nil || tpl == nil {
		return
	}
	bodies := make([]string, G)
	var wg2 sync.WaitGroup
	start2 := make(chan struct{})
	for g := 0; g < G; g++ {
		wg2.Add(1)
		go func(g int) {
			defer wg2.Done()
			<-start2
			for n := 0; n < 5; n++ {
				rec := newRecorder()
				e := tpl.Response(rec, []string{"bad", "bad2", "nope"}[(g+n)%3], data(g))
				bodies[g] = fmt.Sprintf("%s|%v", rec.body.String(), e != nil)
			}
		}(g)
	}
	close(start2)
	wg2.Wait()
	for g := 0; g < G; g++ {
		rec := newRecorder()
		e := tpl.Response(rec, []string{"bad", "bad2", "nope"}[(g+4)%3], data(g))
		if want := fmt.Sprintf("%s|%v", rec.body.String(), e != nil); bodies[g] != want {
			c.Violation("concurrent:cold-start", fmt.Sprintf("one of the first concurrent failing Responses of the process wrote %s, alone %s", clipS(bodies[g], 300), clipS(want, 300)), nil)
		}
	}
	c.Eval(G * 5)
}

func c15RowA(n int64) any {
	type row struct {
		Num  int64
		Name string
	}
	return row{Num: n, Name: fmt.Sprintf("name%d", n)}
}

func c15RowB(n int64) any {
	type row struct {
		Num  int64
		Note string
		Qty  int64
	}
	return &row{Num: n, Note: fmt.Sprintf("note%d", n), Qty: n + 1}
}

// a barrier that renders reach from inside a registered function
type holdBarrier struct {
	mu      sync.Mutex
	waiting int
	want    int
	release chan struct{}
}

func (b *holdBarrier) arrive() {
	b.mu.Lock()
	b.waiting++
	if b.waiting == b.want {
		close(b.release)
	}
	b.mu.Unlock()
	select {
	case <-b.release:
	case <-time.After(2 * time.Second): // (a watchdog against a stuck run, not an oracle)
	}
}

var heldBarrier atomic.Pointer[holdBarrier]

// heldBurst: 48 goroutines each evaluate an expression nested about 1500 deep whose innermost operand calls a
// registered function that waits for all of them, so that all the deep evaluations are in flight at the same
// moment; each must return what the same evaluation returns alone
func heldBurst(c *core.Ctx, round int) {
	const G, depth = 48, 1500
	src := "{{ \"v\".hold15().len()" + strings.Repeat(" + 1", depth) + " }}|@if(true)@if(true)@if(true)@each(k in [1])@if(k){{ who.hold15() }}@end@end@end@end@end"
	want := make([]string, G)
	for g := 0; g < G; g++ {
		out, err := textwire.EvaluateString(src, map[string]any{"who": fmt.Sprintf("h%d", g)})
		want[g] = fmt.Sprintf("%s|%v", out, err)
	}
	b := &holdBarrier{want: G, release: make(chan struct{})}
	heldBarrier.Store(b)
	defer heldBarrier.Store(nil)
	got := make([]string, G)
	var wg sync.WaitGroup
	for g := 0; g < G; g++ {
		wg.Add(1)
		go func(g int) {
			defer wg.Done()
			out, err := textwire.EvaluateString(src, map[string]any{"who": fmt.Sprintf("h%d", g)})
			got[g] = fmt.Sprintf("%s|%v", out, err)
		}(g)
	}
	wg.Wait()
	c.Eval(2 * G)
	c.Count("deep_evaluations_held_in_flight_together", G)
	for g := 0; g < G; g++ {
		if got[g] != want[g] {
			c.Violation("concurrent:held-in-flight", fmt.Sprintf("one of %d evaluations nested %d deep that were in flight together returned\n%s\nalone it returns\n%s", G, depth, clipS(got[g], 300), clipS(want[g], 300)), map[string]any{"round": round})
			return
		}
	}
}
