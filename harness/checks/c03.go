package checks

import (
	"fmt"
	"strings"

	"verif/core"
	"verif/model"
)

// C03 — @each/@for iterate in order with correct loop metadata,
// break/continue and @else.

func trID(e model.Expr, id int) model.Expr {
	return model.Call{X: e, Name: "tr", Args: []model.Expr{model.Lit{V: model.Int(int64(id))}}}
}

func loopField(f string) model.Expr { return model.Dot{X: model.Var{Name: "loop"}, Name: f} }

// metaBody prints and traces the tuple the property speaks about
func metaBody(v string, tag int, traceVar bool) []model.Stmt {
	b := []model.Stmt{
		model.Text{S: "["}, model.Print{E: trID(loopField("index"), tag+1)}, model.Text{S: ","},
		model.Print{E: trID(loopField("iter"), tag+2)}, model.Text{S: ","},
		model.Print{E: trID(loopField("first"), tag+3)}, model.Text{S: ","},
		model.Print{E: trID(loopField("last"), tag+4)}, model.Text{S: ":"},
	}
	if traceVar {
		b = append(b, model.Print{E: trID(model.Var{Name: v}, tag+5)})
	} else {
		b = append(b, model.Print{E: model.Var{Name: v}})
	}
	return append(b, model.Text{S: "]"})
}

func elemsOf(kind int, n int) []model.Value {
	var out []model.Value
	for i := 0; i < n; i++ {
		switch kind {
		case 0:
			out = append(out, model.Int(int64(10+i*i-3)))
		case 1:
			out = append(out, model.Str(fmt.Sprintf("s%d", i)))
		case 2:
			out = append(out, model.Float(float64(i)+0.5))
		case 3:
			out = append(out, model.Bool(i%2 == 0))
		case 4:
			out = append(out, model.Arr(model.Int(int64(i)), model.Int(int64(i+1))))
		case 5:
			out = append(out, model.Obj(map[string]model.Value{"id": model.Int(int64(i)), "Name": model.Str(fmt.Sprintf("n%d", i))}))
		}
	}
	return out
}

func ctlStmt(kind int, v string, k int64) model.Stmt {
	cond := model.Binary{Op: "==", L: model.Var{Name: v}, R: literalOf(model.Int(k))}
	switch kind {
	case 0:
		return model.Break{}
	case 1:
		return model.Continue{}
	case 2:
		return model.BreakIf{E: cond}
	}
	return model.ContinueIf{E: cond}
}

// wrapCtl puts a control directive under nested @if blocks
func wrapCtl(ctl model.Stmt, how int, v string, k int64) []model.Stmt {
	is := model.Binary{Op: "==", L: model.Var{Name: v}, R: literalOf(model.Int(k))}
	not := model.Binary{Op: "!=", L: model.Var{Name: v}, R: literalOf(model.Int(k))}
	t := func(s string) model.Stmt { return model.Text{S: s} }
	switch how {
	case 0: // bare
		return []model.Stmt{ctl}
	case 1: // @if(v == k) … @end
		return []model.Stmt{model.If{Conds: []model.Expr{is}, Bodies: [][]model.Stmt{{t("<i>"), ctl, t("</i>")}}}}
	case 2: // in the @else of an @if
		return []model.Stmt{model.If{Conds: []model.Expr{not}, Bodies: [][]model.Stmt{{t("<n>")}}, Else: []model.Stmt{t(" <e>"), ctl, t("</e>")}}}
	case 3: // in an @elseif
		return []model.Stmt{model.If{Conds: []model.Expr{model.Lit{V: model.Bool(false)}, is}, Bodies: [][]model.Stmt{{t("<f>")}, {t("<ei>"), ctl, t("</ei>")}}, Else: []model.Stmt{t(" <el>")}}}
	case 4: // two levels deep
		inner := model.If{Conds: []model.Expr{is}, Bodies: [][]model.Stmt{{t("<d2>"), ctl, t("</d2>")}}}
		return []model.Stmt{model.If{Conds: []model.Expr{model.Lit{V: model.Int(1)}}, Bodies: [][]model.Stmt{{t("<d1>"), inner, t("</d1>")}}}}
	}
	return []model.Stmt{ctl}
}

func upFor(v string, from, to int64, body []model.Stmt, els []model.Stmt) model.For {
	return model.For{Init: &model.Assign{Name: v, E: literalOf(model.Int(from))},
		Cond: model.Binary{Op: "<=", L: model.Var{Name: v}, R: literalOf(model.Int(to))},
		Post: model.Print{E: model.Postfix{Op: "++", X: model.Var{Name: v}}}, Body: body, Else: els}
}

func intArr(vals ...int64) model.Expr {
	var el []model.Value
	for _, v := range vals {
		el = append(el, model.Int(v))
	}
	return literalOf(model.Arr(el...))
}

// forTerminates simulates an integer for-loop and reports its passes
func forTerminates(start, bound int64, cmp string, step int64) (int, bool) {
	i := start
	for pass := 0; pass <= 14; pass++ {
		v, _ := model.EvalBinary(cmp, model.Int(i), model.Int(bound))
		if !v.B {
			return pass, true
		}
		i += step
	}
	return 0, false
}

type rowStruct struct {
	ID   int
	Name string
	note string
}

func init() {
	core.Register(&core.Check{
		ID:    "C03",
		Level: "exploration",
		Rule: "cases are loops: @each over arrays of length 0..6 of every element kind (literal, data, Go slices of structs) with traced loop.index/iter/first/last and loop variable per pass; every position of @break/@continue/@breakIf/@continueIf in a body of up to 4 items, bare and under @if/@elseif/@else to depth 2, in @each and @for; 2- and 3-level nests of @each/@for with a control directive at each level; @else bodies incl. control directives acting on the outer loop; @for with start/bound in -3..6, every comparison, both step directions, absent clauses and assignment posts; every non-array @each header; seeded random loop programs. " +
			"Output and the tracer event log of each render are compared with an independent interpreter. also text glued to @break/@continue, loop objects saved and read in later passes and inner loops, float counters run twice, nil Go slices as empty arrays, arrays produced by built-ins; NaN/Inf loop conditions; round 8: sources handed to built-ins before and inside the loop; scale: loops to 5000 passes; concurrent replay; round 10: loops in template trees; rounds 12-13: float counters to 1e15, ternaries as @for clauses, bounds further apart than 2^63; round 14: inner loops over literals built from the outer variable; round 15: percent signs in loop bodies, nested literals in headers; distinct_nontrivial = distinct sources containing at least one loop",
		Assumptions: []string{
			"one scope per loop (all passes share it), as the statement's 'block' for a loop",
			"@for loops whose model run needs more than 14 passes are not generated",
		},
		Setup: func(c *core.Ctx) {
			if err := registerTracers(); err != nil {
				panic(err)
			}
		},
		Sections: func(tier core.Tier, seed int64) []core.Section {
			var secs []core.Section
			// (1) @each metadata: length x element kind x literal/data x @else
			secs = append(secs, core.Section{Name: "each-metadata", Exhaustive: true, N: 7 * 6 * 2 * 2,
				Run: func(c *core.Ctx, i int) {
					hasElse := i%2 == 1
					i /= 2
					asData := i%2 == 1
					i /= 2
					kind := i % 6
					n := i / 6
					arr := model.Arr(elemsOf(kind, n)...)
					data := map[string]model.Value{}
					var ae model.Expr = literalOf(arr)
					if asData {
						data["items"] = arr
						ae = model.Var{Name: "items"}
					}
					each := model.Each{Var: "v", Arr: ae, Body: metaBody("v", 0, kind <= 4)}
					if kind == 5 {
						each.Body = append(metaBody("v", 0, false)[:8], model.Print{E: model.Dot{X: model.Var{Name: "v"}, Name: "name"}}, model.Text{S: "]"})
					}
					if hasElse {
						each.Else = []model.Stmt{model.Text{S: " (empty)"}}
					}
					judgeProgram(c, []model.Stmt{model.Text{S: "s|"}, each, model.Text{S: "|e"}}, data, "each-meta", true)
				}})
			// Go slices of structs and typed slices as data
			secs = append(secs, core.Section{Name: "each-go-slices", Exhaustive: true, N: 7,
				Run: func(c *core.Ctx, n int) {
					rows := make([]rowStruct, n)
					ptrs := make([]*rowStruct, n)
					var want string
					for k := range rows {
						rows[k] = rowStruct{ID: k * 3, Name: fmt.Sprintf("r%d", k), note: "hidden"}
						ptrs[k] = &rows[k]
						want += fmt.Sprintf("[%d,%d,%s,%s:%d/%s]", k, k+1, model.Bool(k == 0).Print(), model.Bool(k == n-1).Print(), k*3, rows[k].Name)
					}
					if n == 0 {
						want = " none"
					}
					src := "@each(r in rows)[{{ loop.index }},{{ loop.iter }},{{ loop.first }},{{ loop.last }}:{{ r.ID }}/{{ r.name }}]@else none@end"
					for _, data := range []map[string]any{{"rows": rows}, {"rows": ptrs}} {
						c.Input(map[string]any{"source": src, "rows": n})
						got := evalString(c, src, data)
						c.Nontrivial(fmt.Sprint(src, n, len(data)))
						if !got.Panicked && (got.Err != nil || got.Out != want) {
							c.Violation("each-go-slice", fmt.Sprintf("rendered %s, want %q", got.Describe(), want), map[string]any{"source": src, "rows": n})
						}
					}
				}})
			// nil Go slices are arrays of length 0: @else renders, and a @break in it reaches the outer loop
			type holder struct {
				Tags []string
				Rows []*rowStruct
			}
			var nilStrs []string
			var nilAny []any
			var nilNested [][]int
			var nilRows []rowStruct
			nilSlices := []struct {
				name string
				data map[string]any
				arr  string
			}{
				{"nil []string", map[string]any{"xs": nilStrs}, "xs"}, {"nil []any", map[string]any{"xs": nilAny}, "xs"}, {"nil [][]int", map[string]any{"xs": nilNested}, "xs"},
				{"nil []struct", map[string]any{"xs": nilRows}, "xs"}, {"never-set slice field", map[string]any{"h": holder{}}, "h.tags"}, {"never-set field behind a pointer", map[string]any{"h": &holder{}}, "h.rows"},
				{"nil slice inside a slice", map[string]any{"xs": [][]int{nil, {1}}}, "xs[0]"}, {"empty non-nil", map[string]any{"xs": []int{}}, "xs"},
			}
			secs = append(secs, core.Section{Name: "each-nil-go-slices", Exhaustive: true, N: len(nilSlices) * 3,
				Run: func(c *core.Ctx, i int) {
					ns := nilSlices[i/3]
					src, want := "<@each(t in "+ns.arr+")[{{ t }}]@else none@end>", "< none>"
					switch i % 3 {
					case 1:
						src, want = "<@each(o in [1, 2]){{ o }}@each(t in "+ns.arr+")[{{ t }}]@else none@break@end;@end>", "<1 none>"
					case 2:
						src, want = "<{{ "+ns.arr+".len() }}@each(t in "+ns.arr+")x@end@for(k = 0; k < "+ns.arr+".len(); k++)y@else z@end>", "<0 z>"
					}
					c.Input(map[string]any{"source": src, "data": ns.name})
					got := evalString(c, src, ns.data)
					c.Nontrivial(src + ns.name)
					if !got.Panicked && (got.Err != nil || got.Out != want) {
						c.Violation("each-nil-go-slice", fmt.Sprintf("with %s the render gave %s, want %q", ns.name, got.Describe(), want), map[string]any{"source": src, "data": ns.name})
					}
				}})
			// (1d) the source array was handed to built-ins first (or is handed to them in the body): the loop still walks its elements in order
			usedBy := []string{"shuffle()", "reverse()", "append(9)", "prepend(0)", "slice(1)", "slice(0, 2)", "contains(3)", "join(\"-\")", "len()", "rand()"}
			secs = append(secs, core.Section{Name: "source-used-by-built-ins", Exhaustive: true, N: len(usedBy) * 4 * 3,
				Run: func(c *core.Ctx, i int) {
					n := []int{2, 5, 9}[i%3]
					i /= 3
					fn := usedBy[i/4]
					var lit, walk []string
					for k := 1; k <= n; k++ {
						lit = append(lit, fmt.Sprint(k))
						walk = append(walk, fmt.Sprintf("[%d:%d]", k-1, k))
					}
					inOrder := strings.Join(walk, "")
					var src, want string
					data := map[string]any{}
					switch i % 4 {
					case 0: // a template variable, used before the loop
						src, want = "{{ xs = ["+strings.Join(lit, ", ")+"] }}{{ p = xs."+fn+" }}<@each(v in xs)[{{ loop.index }}:{{ v }}]@end>", "<"+inOrder+">"
					case 1: // a data slice, used before the loop (several times)
						ints := make([]int, n)
						for k := range ints {
							ints[k] = k + 1
						}
						data["xs"] = ints
						src, want = "{{ p = xs."+fn+" }}{{ q = xs."+fn+" }}{{ r = xs."+fn+" }}<@each(v in xs)[{{ loop.index }}:{{ v }}]@end>", "<"+inOrder+">"
					case 2: // used inside the body, in every pass
						src, want = "{{ xs = ["+strings.Join(lit, ", ")+"] }}<@each(v in xs){{ p = xs."+fn+" }}[{{ loop.index }}:{{ v }}]@end>", "<"+inOrder+">"
					default: // used in every pass of an outer loop around the loop
						src, want = "{{ xs = ["+strings.Join(lit, ", ")+"] }}<@each(o in [1, 2, 3]){{ p = xs."+fn+" }}@each(v in xs)[{{ loop.index }}:{{ v }}]@end;@end>", "<"+inOrder+";"+inOrder+";"+inOrder+";>"
					}
					c.Input(map[string]any{"source": src})
					got := evalString(c, src, data)
					c.Nontrivial(src)
					if !got.Panicked && (got.Err != nil || got.Out != want) {
						c.Violation("source-used-by-built-in:"+fn, fmt.Sprintf("the render gave %s, want %q", got.Describe(), want), map[string]any{"source": src})
					}
				}})
			// (1e) long loops: 15..5000 elements or passes, a break or a skip at a late pass, an inner loop per pass
			longLens := []int{15, 16, 17, 63, 64, 65, 255, 256, 257, 1000, 1023, 1024, 1025, 5000}
			secs = append(secs, core.Section{Name: "long-loops", Exhaustive: true, N: len(longLens) * 5,
				Run: func(c *core.Ctx, i int) {
					n := longLens[i%len(longLens)]
					variant := i / len(longLens)
					el := make([]model.Value, n)
					for k := range el {
						el[k] = model.Int(int64(k * 3))
					}
					data := map[string]model.Value{"xs": model.Arr(el...), "n": model.Int(int64(n))}
					meta := []model.Stmt{model.Text{S: "["}, model.Print{E: loopField("index")}, model.Text{S: ","}, model.Print{E: loopField("iter")}, model.Text{S: ","},
						model.Print{E: loopField("first")}, model.Text{S: ","}, model.Print{E: loopField("last")}, model.Text{S: ":"}, model.Print{E: model.Var{Name: "v"}}, model.Text{S: "]"}}
					var prog []model.Stmt
					switch variant {
					case 0: // @each over the data array, the whole tuple per pass
						prog = []model.Stmt{model.Each{Var: "v", Arr: model.Var{Name: "xs"}, Body: meta, Else: []model.Stmt{model.Text{S: "none"}}}}
					case 1: // a break at the last but one pass and a skip of the pass before it
						body := append([]model.Stmt{
							model.ContinueIf{E: model.Binary{Op: "==", L: loopField("iter"), R: model.Binary{Op: "-", L: model.Var{Name: "n"}, R: model.Lit{V: model.Int(2)}}}},
							model.BreakIf{E: model.Binary{Op: "==", L: loopField("index"), R: model.Binary{Op: "-", L: model.Var{Name: "n"}, R: model.Lit{V: model.Int(2)}}}}}, meta...)
						prog = []model.Stmt{model.Each{Var: "v", Arr: model.Var{Name: "xs"}, Body: body}}
					case 2: // @for with n passes
						prog = []model.Stmt{model.For{Init: &model.Assign{Name: "v", E: model.Lit{V: model.Int(0)}}, Cond: model.Binary{Op: "<", L: model.Var{Name: "v"}, R: model.Var{Name: "n"}},
							Post: model.Print{E: model.Postfix{Op: "++", X: model.Var{Name: "v"}}}, Body: []model.Stmt{model.Text{S: "("}, model.Print{E: model.Var{Name: "v"}}, model.Text{S: ")"}}}}
					case 3: // an inner loop in every pass: the outer loop object is back after each
						if n > 300 {
							n = 300
							data["xs"] = model.Arr(el[:n]...)
						}
						inner := model.Each{Var: "w", Arr: intArr(1, 2), Body: []model.Stmt{model.Print{E: loopField("index")}}}
						prog = []model.Stmt{model.Each{Var: "v", Arr: model.Var{Name: "xs"}, Body: []model.Stmt{model.Text{S: "<"}, model.Print{E: loopField("iter")}, inner, model.Print{E: loopField("iter")}, model.Print{E: loopField("last")}, model.Text{S: ">"}}}}
					default: // the array written as a literal
						if n > 1025 {
							n = 1025
						}
						prog = []model.Stmt{model.Each{Var: "v", Arr: literalOf(model.Arr(el[:n]...)), Body: []model.Stmt{model.Print{E: loopField("index")}, model.Text{S: ":"}, model.Print{E: model.Var{Name: "v"}}, model.If{Conds: []model.Expr{loopField("last")}, Bodies: [][]model.Stmt{{model.Text{S: "."}}}, Else: []model.Stmt{model.Text{S: ","}}}}}}
					}
					judgeProgram(c, prog, data, "long-loop", false)
				}})
			// (2) every position of every control directive in a body of up to 4 items
			secs = append(secs, core.Section{Name: "control-positions", Exhaustive: true, N: 2 * 4 * 5 * 5 * 3 * 2,
				Run: func(c *core.Ctx, i int) {
					hasElse := i%2 == 1
					i /= 2
					k := int64(i%3 + 1) // the pass whose value triggers conditional directives
					i /= 3
					pos := i % 5
					i /= 5
					how := i % 5
					i /= 5
					kind := i % 4
					isFor := i/4 == 1
					items := []model.Stmt{model.Text{S: "[0]"}, model.Print{E: trID(model.Var{Name: "v"}, 1)}, model.Text{S: "[2]"}, model.Text{S: "[3]"}}
					ctl := wrapCtl(ctlStmt(kind, "v", k), how, "v", k)
					body := append(append(append([]model.Stmt{}, items[:min(pos, 4)]...), ctl...), items[min(pos, 4):]...)
					var els []model.Stmt
					if hasElse {
						els = []model.Stmt{model.Text{S: " else"}}
					}
					var loop model.Stmt = model.Each{Var: "v", Arr: intArr(1, 2, 3), Body: body, Else: els}
					if isFor {
						loop = upFor("v", 1, 3, body, els)
					}
					judgeProgram(c, []model.Stmt{model.Text{S: "s|"}, loop, model.Text{S: "|e"}}, nil, "ctl-pos", true)
				}})
			// (3) nests of 2 and 3 loops, a control directive at one level
			secs = append(secs, core.Section{Name: "nests", Exhaustive: true, N: 8 * 4 * 4 * 3 * 2,
				Run: func(c *core.Ctx, i int) {
					depth := 2 + i%2
					i /= 2
					k := int64(i%3 + 1)
					i /= 3
					level := i % 4 // level that holds the directive (3 = none)
					i /= 4
					kind := i % 4
					combo := i / 4 // bit l: level l is a @for
					vars := []string{"x", "y", "z"}
					var build func(l int) []model.Stmt
					build = func(l int) []model.Stmt {
						v := vars[l]
						isFor := combo&(1<<l) != 0
						var body []model.Stmt
						body = append(body, model.Text{S: fmt.Sprintf("<%s", v)}, model.Print{E: trID(model.Var{Name: v}, 10*l+1)})
						if !isFor {
							body = append(body, model.Text{S: "@"}, model.Print{E: trID(loopField("index"), 10*l+2)})
						}
						body = append(body, model.Text{S: ">"})
						if level == l {
							body = append(body, wrapCtl(ctlStmt(kind, v, k), int(k)%2, v, k)...)
						}
						if l+1 < depth {
							body = append(body, build(l+1)...)
							// the outer loop object must be restored after the inner loop
							if !isFor {
								body = append(body, model.Text{S: "~"}, model.Print{E: trID(loopField("iter"), 10*l+3)}, model.Print{E: loopField("last")})
							}
						}
						body = append(body, model.Text{S: fmt.Sprintf("</%s>", v)})
						if isFor {
							return []model.Stmt{upFor(v, 1, 3, body, nil)}
						}
						return []model.Stmt{model.Each{Var: v, Arr: intArr(1, 2, 3), Body: body}}
					}
					judgeProgram(c, append(append([]model.Stmt{model.Text{S: "s|"}}, build(0)...), model.Text{S: "|e"}), nil, "nest", true)
				}})
			// (4) @else bodies: a control directive inside an inner loop's @else acts on the outer loop
			secs = append(secs, core.Section{Name: "else-bodies", Exhaustive: true, N: 4 * 2 * 2 * 2 * 3,
				Run: func(c *core.Ctx, i int) {
					k := int64(i%3 + 1)
					i /= 3
					innerFor := i%2 == 1
					i /= 2
					outerFor := i%2 == 1
					i /= 2
					innerEmpty := i%2 == 1
					kind := i / 2
					els := append([]model.Stmt{model.Text{S: " (else"}}, wrapCtl(ctlStmt(kind, "x", k), int(k)%2, "x", k)...)
					els = append(els, model.Text{S: ")"})
					var inner model.Stmt
					innerBody := []model.Stmt{model.Text{S: "."}, model.Print{E: model.Var{Name: "y"}}}
					if innerFor {
						to := int64(2)
						if innerEmpty {
							to = 0
						}
						inner = upFor("y", 1, to, innerBody, els)
					} else {
						arr := intArr(7, 8)
						if innerEmpty {
							arr = model.ArrLit{}
						}
						inner = model.Each{Var: "y", Arr: arr, Body: innerBody, Else: els}
					}
					body := []model.Stmt{model.Text{S: "<"}, model.Print{E: trID(model.Var{Name: "x"}, 1)}, inner, model.Text{S: ">"}}
					var outer model.Stmt = model.Each{Var: "x", Arr: intArr(1, 2, 3), Body: body}
					if outerFor {
						outer = upFor("x", 1, 3, body, nil)
					}
					judgeProgram(c, []model.Stmt{model.Text{S: "s|"}, outer, model.Text{S: "|e"}}, nil, "else-body", true)
				}})
			// (5) @for bounds: start x bound x comparison x step direction (terminating ones)
			type forCase struct {
				start, bound int64
				cmp          string
				step         int64
			}
			var fcs []forCase
			for s := int64(-3); s <= 6; s++ {
				for b := int64(-3); b <= 6; b++ {
					for _, cmp := range []string{"<", "<=", ">", ">=", "!="} {
						for _, st := range []int64{1, -1} {
							if _, ok := forTerminates(s, b, cmp, st); ok {
								fcs = append(fcs, forCase{s, b, cmp, st})
							}
						}
					}
				}
			}
			secs = append(secs, core.Section{Name: "for-bounds", Exhaustive: true, N: len(fcs) * 2,
				Run: func(c *core.Ctx, i int) {
					hasElse := i%2 == 1
					fc := fcs[i/2]
					op := "++"
					if fc.step < 0 {
						op = "--"
					}
					f := model.For{Init: &model.Assign{Name: "i", E: literalOf(model.Int(fc.start))},
						Cond: trID(model.Binary{Op: fc.cmp, L: model.Var{Name: "i"}, R: literalOf(model.Int(fc.bound))}, 1),
						Post: model.Print{E: model.Postfix{Op: op, X: model.Var{Name: "i"}}},
						Body: []model.Stmt{model.Text{S: "["}, model.Print{E: model.Var{Name: "i"}}, model.Text{S: "]"}}}
					if hasElse {
						f.Else = []model.Stmt{model.Text{S: " never"}}
					}
					judgeProgram(c, []model.Stmt{model.Text{S: "s|"}, f, model.Text{S: "|e"}}, nil, "for-bounds", true)
				}})
			// (6) absent clauses and assignment posts
			special := forSpecials()
			secs = append(secs, core.Section{Name: "for-clauses", Exhaustive: true, N: len(special),
				Run: func(c *core.Ctx, i int) {
					judgeProgram(c, []model.Stmt{model.Text{S: "s|"}, special[i], model.Text{S: "|e"}}, map[string]model.Value{"n": model.Int(3)}, "for-clauses", true)
				}})
			// (7) iterating a non-array is an error
			secs = append(secs, core.Section{Name: "non-array-headers", Exhaustive: true, N: len(kindSamples) * 2 * 2,
				Run: func(c *core.Ctx, i int) {
					hasElse := i%2 == 1
					i /= 2
					asData := i%2 == 1
					v := kindSamples[i/2]
					data := map[string]model.Value{}
					var e model.Expr = literalOf(v)
					if asData {
						data["h"] = v
						e = model.Var{Name: "h"}
					}
					each := model.Each{Var: "v", Arr: e, Body: []model.Stmt{model.Text{S: "[x]"}}}
					if hasElse {
						each.Else = []model.Stmt{model.Text{S: " else"}}
					}
					judgeProgram(c, []model.Stmt{model.Text{S: "s|"}, each, model.Text{S: "|e"}}, data, "non-array", false)
				}})
			// (7b) loops inside the files of a template tree (slot body, insert block, component file, layout, component in a loop):
			// they render their passes there as anywhere else, and a loop over a non-array fails the render from there too
			treePlaces := 6
			secs = append(secs, core.Section{Name: "loops-in-template-trees", Exhaustive: true, N: len(kindSamples) * treePlaces,
				Run: func(c *core.Ctx, i int) {
					place := i % treePlaces
					v := kindSamples[i/treePlaces]
					data := map[string]model.Value{"h": v, "ok": model.Arr(model.Int(1), model.Int(2))}
					loops := []model.Stmt{model.Text{S: "a|"},
						model.Each{Var: "w", Arr: model.Var{Name: "ok"}, Body: []model.Stmt{model.Print{E: loopField("iter")}, model.ContinueIf{E: loopField("first")}, model.Text{S: "."}}},
						model.Each{Var: "v", Arr: model.Var{Name: "h"}, Body: []model.Stmt{model.Text{S: "[x]"}}, Else: []model.Stmt{model.Text{S: "none"}}}, model.Text{S: "|b"}}
					t := newTree("c03tree", ".tw")
					switch place {
					case 0: // slot body
						t.files["components/box"] = []model.Stmt{model.Text{S: "<box>"}, model.SlotRef{Name: ""}, model.Text{S: "</box>"}}
						t.files["page"] = []model.Stmt{model.Text{S: "p:"}, model.Component{Name: "~box", Slots: []model.SlotBody{{Name: "", Body: loops}}}, model.Text{S: ":q"}}
					case 1: // named slot body next to a default one
						t.files["components/box"] = []model.Stmt{model.Text{S: "<box>"}, model.SlotRef{Name: ""}, model.Text{S: "|"}, model.SlotRef{Name: "foot"}, model.Text{S: "</box>"}}
						t.files["page"] = []model.Stmt{model.Text{S: "p:"}, model.Component{Name: "~box", Slots: []model.SlotBody{{Name: "", Body: []model.Stmt{model.Text{S: "fine"}}}, {Name: "foot", Body: loops}}}, model.Text{S: ":q"}}
					case 2: // insert block
						t.files["layouts/main"] = []model.Stmt{model.Text{S: "<html>"}, model.Reserve{Name: "body"}, model.Text{S: "</html>"}}
						t.files["page"] = []model.Stmt{model.Use{Name: "~main"}, model.Insert{Name: "body", Block: loops}}
					case 3: // component file
						t.files["components/box"] = append(append([]model.Stmt{model.Text{S: "<box>"}}, loops...), model.Text{S: "</box>"})
						t.files["page"] = []model.Stmt{model.Text{S: "p:"}, model.Component{Name: "~box"}, model.Text{S: ":q"}}
					case 4: // layout
						t.files["layouts/main"] = append(append([]model.Stmt{model.Text{S: "<html>"}}, loops...), model.Reserve{Name: "body"}, model.Text{S: "</html>"})
						t.files["page"] = []model.Stmt{model.Use{Name: "~main"}, model.Insert{Name: "body", E: model.Lit{V: model.Str("B")}}}
					default: // a component used in every pass of a loop of the page, its slot body holding the loops
						t.files["components/box"] = []model.Stmt{model.Text{S: "<box>"}, model.SlotRef{Name: ""}, model.Text{S: "</box>"}}
						t.files["page"] = []model.Stmt{model.Each{Var: "o", Arr: model.Var{Name: "ok"}, Body: []model.Stmt{model.Component{Name: "~box", Slots: []model.SlotBody{{Name: "", Body: loops}}}}}}
					}
					files := t.sources(model.Style{Layout: model.SpaceLayout})
					tpl, err := loadTree(c, "c03tree", files, ".tw")
					c.Nontrivial(fmt.Sprint(files, model.DescribeData(data)))
					if err != nil {
						c.Violation("in-tree:load-failed", err.Error(), map[string]any{"files": describeFiles(files)})
						return
					}
					if tpl == nil {
						return
					}
					exp := t.expectPage("page", data)
					got, _ := renderPage(c, tpl, "page", model.NativeData(data))
					if why := compare(exp, got, false, nil); why != "" {
						c.Violation(fmt.Sprintf("in-tree:%d", place), why, map[string]any{"files": describeFiles(files), "data": model.DescribeData(data), "expected": expectText(exp)})
					}
				}})
			// (8) seeded random loop programs
			n, depth := 8000, 3
			if tier == core.Thorough {
				n, depth = 400000, 4
			}
			secs = append(secs, core.Section{Name: "random-loops", N: n,
				Run: func(c *core.Ctx, i int) {
					g := newStmtGen(c.Rng, stmtGenOpts{MaxDepth: 1 + c.Rng.Intn(depth), LoopHeavy: true, Tracers: true})
					prog := g.program(2 + c.Rng.Intn(3))
					judgeProgram(c, prog, g.data, "random-loops", true)
				}})
			return secs
		},
	})
}

func forSpecials() []model.Stmt {
	i := model.Var{Name: "i"}
	lit := func(n int64) model.Expr { return literalOf(model.Int(n)) }
	body := []model.Stmt{model.Text{S: "["}, model.Print{E: i}, model.Text{S: "]"}}
	inc := model.Assign{Name: "i", E: model.Binary{Op: "+", L: i, R: lit(1)}}
	var out []model.Stmt
	// post is an assignment, several steps
	for _, step := range []int64{1, 2, 3} {
		out = append(out, model.For{Init: &model.Assign{Name: "i", E: lit(0)}, Cond: model.Binary{Op: "<", L: i, R: lit(6)},
			Post: model.Assign{Name: "i", E: model.Binary{Op: "+", L: i, R: lit(step)}}, Body: body})
		out = append(out, model.For{Init: &model.Assign{Name: "i", E: lit(6)}, Cond: model.Binary{Op: ">", L: i, R: lit(0)},
			Post: model.Assign{Name: "i", E: model.Binary{Op: "-", L: i, R: lit(step)}}, Body: body, Else: []model.Stmt{model.Text{S: " never"}}})
	}
	// post is an arbitrary expression whose value becomes the loop variable
	out = append(out, model.For{Init: &model.Assign{Name: "i", E: lit(1)}, Cond: model.Binary{Op: "<", L: i, R: lit(20)},
		Post: model.Print{E: model.Binary{Op: "*", L: i, R: lit(2)}}, Body: body})
	// no post: the body advances the variable
	out = append(out, model.For{Init: &model.Assign{Name: "i", E: lit(0)}, Cond: model.Binary{Op: "<", L: i, R: lit(3)},
		Body: append([]model.Stmt{inc}, body...)})
	// no init: a data variable bounds the loop, ended by @breakIf
	out = append(out, model.For{Cond: model.Binary{Op: ">", L: model.Var{Name: "n"}, R: lit(0)},
		Body: []model.Stmt{model.Text{S: "[n]"}, model.Break{}}})
	// no condition: ended by @break / @breakIf
	out = append(out, model.For{Init: &model.Assign{Name: "i", E: lit(0)}, Post: model.Print{E: model.Postfix{Op: "++", X: i}},
		Body: append(append([]model.Stmt{}, body...), model.BreakIf{E: model.Binary{Op: ">=", L: i, R: lit(2)}})})
	out = append(out, model.For{Body: []model.Stmt{model.Text{S: "[once]"}, model.Break{}}})
	out = append(out, model.For{Body: []model.Stmt{model.Text{S: "[once]"}, model.If{Conds: []model.Expr{lit(1)}, Bodies: [][]model.Stmt{{model.Text{S: "<"}, model.Break{}}}}}})
	out = append(out, model.For{Init: &model.Assign{Name: "i", E: lit(0)}, Cond: model.Binary{Op: "<", L: i, R: lit(4)},
		Body: append([]model.Stmt{inc, model.ContinueIf{E: model.Binary{Op: "==", L: i, R: lit(2)}}}, body...)})
	// condition false at entry, with and without @else
	out = append(out, model.For{Init: &model.Assign{Name: "i", E: lit(5)}, Cond: model.Binary{Op: "<", L: i, R: lit(3)},
		Post: model.Print{E: model.Postfix{Op: "++", X: i}}, Body: body, Else: []model.Stmt{model.Text{S: " never"}}})
	out = append(out, model.For{Init: &model.Assign{Name: "i", E: lit(5)}, Cond: model.Binary{Op: "<", L: i, R: lit(3)},
		Post: model.Print{E: model.Postfix{Op: "++", X: i}}, Body: body})
	// the init clause is a plain expression: the post value is dropped, the body advances the variable (n comes from the data)
	nv := model.Var{Name: "n"}
	advance := model.Assign{Name: "n", E: model.Binary{Op: "-", L: nv, R: lit(1)}}
	nbody := []model.Stmt{model.Text{S: "["}, model.Print{E: nv}, model.Text{S: "]"}, advance}
	out = append(out, model.For{InitE: nv, Cond: model.Binary{Op: ">", L: nv, R: lit(0)}, Post: model.Print{E: model.Postfix{Op: "++", X: nv}}, Body: nbody})
	out = append(out, model.For{InitE: model.Binary{Op: "+", L: nv, R: lit(1)}, Cond: model.Binary{Op: ">", L: nv, R: lit(0)}, Post: model.Print{E: model.Postfix{Op: "--", X: nv}}, Body: nbody, Else: []model.Stmt{model.Text{S: " never"}}})
	out = append(out, model.For{InitE: lit(7), Cond: model.Binary{Op: ">", L: nv, R: lit(1)}, Body: nbody})
	out = append(out, model.For{InitE: nv, Cond: model.Binary{Op: ">", L: nv, R: lit(0)}, Post: model.Assign{Name: "n", E: model.Binary{Op: "-", L: nv, R: lit(2)}}, Body: []model.Stmt{model.Text{S: "["}, model.Print{E: nv}, model.Text{S: "]"}}})
	// nested loops that use the same variable name: each loop has its own
	inner := model.For{Init: &model.Assign{Name: "i", E: lit(5)}, Cond: model.Binary{Op: "<", L: i, R: lit(7)}, Post: model.Print{E: model.Postfix{Op: "++", X: i}}, Body: []model.Stmt{model.Print{E: i}, model.Text{S: ","}}}
	out = append(out, model.For{Init: &model.Assign{Name: "i", E: lit(0)}, Cond: model.Binary{Op: "<", L: i, R: lit(3)}, Post: model.Print{E: model.Postfix{Op: "++", X: i}},
		Body: []model.Stmt{model.Text{S: "<"}, model.Print{E: i}, model.Text{S: ":"}, inner, model.Text{S: ":"}, model.Print{E: i}, model.Text{S: ">"}}})
	innerDown := model.For{Init: &model.Assign{Name: "i", E: lit(9)}, Cond: model.Binary{Op: ">", L: i, R: lit(7)}, Post: model.Print{E: model.Postfix{Op: "--", X: i}}, Body: []model.Stmt{model.Print{E: i}, model.Text{S: ","}}}
	out = append(out, model.For{Init: &model.Assign{Name: "i", E: lit(0)}, Cond: model.Binary{Op: "<", L: i, R: lit(2)}, Post: model.Print{E: model.Postfix{Op: "++", X: i}},
		Body: []model.Stmt{model.Text{S: "<"}, innerDown, model.Print{E: i}, model.Text{S: ">"}}})
	innerEach := model.Each{Var: "v", Arr: intArr(7, 8), Body: []model.Stmt{model.Print{E: model.Var{Name: "v"}}, model.Print{E: loopField("index")}, model.Text{S: ","}}}
	out = append(out, model.Each{Var: "v", Arr: intArr(1, 2, 3), Body: []model.Stmt{model.Text{S: "<"}, model.Print{E: model.Var{Name: "v"}}, model.Text{S: ":"}, innerEach, model.Text{S: ":"}, model.Print{E: model.Var{Name: "v"}}, model.Print{E: loopField("index")}, model.Text{S: ">"}}})
	out = append(out, model.Each{Var: "i", Arr: intArr(1, 2), Body: []model.Stmt{model.Text{S: "<"}, inner, model.Print{E: i}, model.Text{S: ">"}}})
	out = append(out, model.For{Init: &model.Assign{Name: "v", E: lit(0)}, Cond: model.Binary{Op: "<", L: model.Var{Name: "v"}, R: lit(2)}, Post: model.Print{E: model.Postfix{Op: "++", X: model.Var{Name: "v"}}},
		Body: []model.Stmt{model.Text{S: "<"}, innerEach, model.Print{E: model.Var{Name: "v"}}, model.Text{S: ">"}}})
	// arrays that come out of built-ins: empty ones must take the @else branch, the iterated
	// array must not change while the body builds other arrays from the same base
	base3 := intArr(1, 2, 3)
	callE := func(x model.Expr, name string, args ...model.Expr) model.Expr {
		return model.Call{X: x, Name: name, Args: args}
	}
	vv := model.Var{Name: "v"}
	elseNone := []model.Stmt{model.Text{S: " none"}}
	show := []model.Stmt{model.Text{S: "["}, model.Print{E: vv}, model.Text{S: "]"}}
	for _, arr := range []model.Expr{
		callE(base3, "slice", lit(3)), callE(base3, "slice", lit(1), lit(1)), callE(base3, "slice", lit(7)), callE(callE(base3, "slice", lit(3)), "reverse"),
		callE(model.ArrLit{}, "reverse"), callE(model.ArrLit{}, "shuffle"), callE(model.StrLit{S: ""}, "split", model.StrLit{S: "x"}),
		callE(base3, "slice", lit(2)), callE(base3, "reverse"), callE(base3, "append", lit(4)), callE(base3, "prepend", lit(0)), callE(callE(base3, "slice", lit(0), lit(2)), "append", lit(9)),
	} {
		out = append(out, model.Each{Var: "v", Arr: arr, Body: show, Else: elseNone})
		// as inner loop whose @else holds a @break for the outer loop
		out = append(out, model.Each{Var: "o", Arr: intArr(1, 2), Body: []model.Stmt{model.Text{S: "<"}, model.Each{Var: "v", Arr: arr, Body: show, Else: []model.Stmt{model.Text{S: " none"}, model.Break{}}}, model.Text{S: ">"}}})
	}
	bvar := model.Var{Name: "base"}
	out = append(out, model.If{Conds: []model.Expr{lit(1)}, Bodies: [][]model.Stmt{{model.Assign{Name: "base", E: base3},
		model.Each{Var: "v", Arr: callE(bvar, "append", lit(4)), Body: []model.Stmt{model.Print{E: vv}, model.Text{S: ":"}, model.Print{E: callE(callE(bvar, "append", model.Binary{Op: "*", L: vv, R: lit(10)}), "len")}, model.Text{S: " "}}}}}})
	out = append(out, model.If{Conds: []model.Expr{lit(1)}, Bodies: [][]model.Stmt{{model.Assign{Name: "base", E: model.ArrLit{Elems: []model.Expr{model.StrLit{S: "a"}, model.StrLit{S: "b"}, model.StrLit{S: "c"}}}},
		model.Each{Var: "v", Arr: bvar, Body: []model.Stmt{model.Print{E: vv}, model.Text{S: "="}, model.Print{E: callE(callE(callE(bvar, "slice", lit(0), loopField("iter")), "append", model.StrLit{S: "-"}), "join", model.StrLit{S: ""})}, model.Text{S: " "}}}}}})
	// text glued to @break / @continue (never rendered, but it is text: anything that does not spell "If")
	for _, t := range []string{"Ignored text", "I", "Is skipped", "if", "f", "IF", "(x)", "x"} {
		out = append(out, model.Each{Var: "v", Arr: intArr(1, 2, 3), Body: []model.Stmt{model.Print{E: model.Var{Name: "v"}}, model.Break{}, model.Text{S: t}}})
		out = append(out, model.Each{Var: "v", Arr: intArr(1, 2, 3), Body: []model.Stmt{model.Print{E: model.Var{Name: "v"}}, model.Continue{}, model.Text{S: t}}})
		out = append(out, model.Each{Var: "v", Arr: intArr(1, 2, 3), Body: []model.Stmt{model.Print{E: model.Var{Name: "v"}},
			model.If{Conds: []model.Expr{model.Binary{Op: "==", L: model.Var{Name: "v"}, R: lit(2)}}, Bodies: [][]model.Stmt{{model.Continue{}, model.Text{S: t}}}}, model.Text{S: "."}}})
	}
	// the loop object saved in a variable describes the pass it was saved in, also when read in a later pass
	// or from an inner loop (where the name loop means the inner one)
	prev := model.Var{Name: "prev"}
	prevInit := model.Assign{Name: "prev", E: model.ObjLit{Keys: []string{"index", "iter", "first", "last"}, Vals: []model.Expr{lit(9), lit(9), model.Lit{V: model.Bool(false)}, model.Lit{V: model.Bool(false)}}}}
	showPrev := []model.Stmt{model.Text{S: "("}, model.Print{E: model.Dot{X: prev, Name: "index"}}, model.Print{E: model.Dot{X: prev, Name: "iter"}}, model.Print{E: model.Dot{X: prev, Name: "first"}}, model.Print{E: model.Dot{X: prev, Name: "last"}}, model.Text{S: ")"}}
	out = append(out, model.If{Conds: []model.Expr{lit(1)}, Bodies: [][]model.Stmt{{prevInit,
		model.Each{Var: "v", Arr: intArr(10, 20, 30), Body: append(append([]model.Stmt{}, showPrev...), model.Assign{Name: "prev", E: model.Var{Name: "loop"}}, model.Print{E: loopField("index")})},
		model.Text{S: "|after"}, showPrev[1], showPrev[4]}}})
	out = append(out, model.If{Conds: []model.Expr{lit(1)}, Bodies: [][]model.Stmt{{prevInit,
		model.Each{Var: "v", Arr: intArr(10, 20), Body: []model.Stmt{model.Assign{Name: "prev", E: model.Var{Name: "loop"}},
			model.Each{Var: "w", Arr: intArr(1, 2, 3), Body: append(append([]model.Stmt{model.Text{S: "<"}}, showPrev...), model.Print{E: loopField("index")}, model.Text{S: ">"})}}}}}})
	out = append(out, model.If{Conds: []model.Expr{lit(1)}, Bodies: [][]model.Stmt{{model.Assign{Name: "saved", E: model.ArrLit{}},
		model.Each{Var: "v", Arr: intArr(5, 6, 7), Body: []model.Stmt{model.Assign{Name: "saved", E: callE(model.Var{Name: "saved"}, "append", model.Var{Name: "loop"})}}},
		model.Each{Var: "s", Arr: model.Var{Name: "saved"}, Body: []model.Stmt{model.Print{E: model.Dot{X: model.Var{Name: "s"}, Name: "index"}}, model.Print{E: model.Dot{X: model.Var{Name: "s"}, Name: "last"}}, model.Text{S: ","}}}}}})
	// float counters stepped with the postfix operators: a second run of the same loop starts from the same value
	fv := model.Var{Name: "f"}
	type fcount struct {
		op, cmp      string
		start, bound float64
	}
	for _, fc := range []fcount{{"--", ">", 2.5, 0.0}, {"++", "<", 0.5, 3.0}, {"--", ">", 1000002.0, 999999.0}, {"--", ">", 1000000.5, 999998.0}, {"++", "<", 999998.5, 1000001.0},
		{"--", ">", 1e15 + 2, 1e15 - 1}, {"--", ">", 123456789.25, 123456786.0}, {"++", "<", -2.5, 1.0}, {"--", ">", 1.5, -2.0}, {"--", ">", 10000000.0, 9999997.0}, {"++", "<", 99999.5, 100002.0}} {
		op, cmp, start, bound := fc.op, fc.cmp, fc.start, fc.bound
		count := model.For{Init: &model.Assign{Name: "f", E: model.Var{Name: "start"}}, Cond: model.Binary{Op: cmp, L: fv, R: model.Lit{V: model.Float(bound)}},
			Post: model.Print{E: model.Postfix{Op: op, X: fv}}, Body: []model.Stmt{model.Print{E: fv}, model.Text{S: " "}}, Else: []model.Stmt{model.Text{S: "never"}}}
		out = append(out, model.If{Conds: []model.Expr{lit(1)}, Bodies: [][]model.Stmt{{model.Assign{Name: "start", E: model.Lit{V: model.Float(start)}},
			model.Each{Var: "r", Arr: intArr(1, 2), Body: []model.Stmt{count, model.Text{S: "|"}}}, model.Print{E: model.Var{Name: "start"}}}}})
		step := model.Each{Var: "g", Arr: model.Var{Name: "fs"}, Body: []model.Stmt{model.Print{E: model.Postfix{Op: op, X: model.Var{Name: "g"}}}, model.Text{S: ","}}}
		out = append(out, model.If{Conds: []model.Expr{lit(1)}, Bodies: [][]model.Stmt{{model.Assign{Name: "fs", E: model.ArrLit{Elems: []model.Expr{model.Lit{V: model.Float(1.5)}, model.Lit{V: model.Float(2.5)}}}},
			step, model.Text{S: "|"}, step, model.Text{S: "|"}, model.Print{E: model.Var{Name: "fs"}}}}})
	}
	// the loop object is mentioned in one place only: the taken or untaken arm of a ternary, a condition,
	// a call argument, an index, the header of an inner loop
	lf := loopField
	vv2 := model.Var{Name: "v"}
	two := lit(2)
	eq2 := model.Binary{Op: "==", L: vv2, R: two}
	for _, only := range []model.Stmt{
		model.Print{E: model.Ternary{C: eq2, A: lf("index"), B: lit(9)}},
		model.Print{E: model.Ternary{C: eq2, A: lit(9), B: lf("iter")}},
		model.Print{E: model.Ternary{C: lf("first"), A: lit(1), B: lit(0)}},
		model.If{Conds: []model.Expr{lf("last")}, Bodies: [][]model.Stmt{{model.Text{S: "L"}}}, Else: []model.Stmt{model.Text{S: "-"}}},
		model.If{Conds: []model.Expr{eq2}, Bodies: [][]model.Stmt{{model.Print{E: lf("index")}}}},
		model.Print{E: model.Index{X: model.ArrLit{Elems: []model.Expr{lit(7), lit(8), lit(9)}}, I: lf("index")}},
		model.Print{E: model.Call{X: model.StrLit{S: "ab"}, Name: "repeat", Args: []model.Expr{lf("iter")}}},
		model.Print{E: model.Dot{X: model.ObjLit{Keys: []string{"k"}, Vals: []model.Expr{lf("index")}}, Name: "k"}},
		model.Each{Var: "w", Arr: model.ArrLit{Elems: []model.Expr{lf("index"), lf("iter")}}, Body: []model.Stmt{model.Print{E: model.Var{Name: "w"}}}},
		model.For{Init: &model.Assign{Name: "k", E: lf("index")}, Cond: model.Binary{Op: "<", L: model.Var{Name: "k"}, R: lit(3)}, Post: model.Print{E: model.Postfix{Op: "++", X: model.Var{Name: "k"}}}, Body: []model.Stmt{model.Print{E: model.Var{Name: "k"}}}},
		model.Assign{Name: "saved", E: model.Ternary{C: eq2, A: lf("index"), B: lit(0)}},
		model.BreakIf{E: model.Ternary{C: eq2, A: lf("last"), B: lf("last")}},
	} {
		out = append(out, model.Each{Var: "v", Arr: intArr(1, 2, 3), Body: []model.Stmt{model.Print{E: vv2}, model.Text{S: ":"}, only, model.Text{S: ","}}})
		// as the inner loop of a nest: the inner loop object, never the outer one
		out = append(out, model.Each{Var: "o", Arr: intArr(5, 6, 7), Body: []model.Stmt{model.Text{S: "<"}, model.Each{Var: "v", Arr: intArr(1, 2), Body: []model.Stmt{only, model.Text{S: ","}}}, model.Text{S: ">"}}})
	}
	// the array of an @each is a complete expression: a ternary, a call chain, an index, a sum of calls
	t3, f3 := intArr(1, 2, 3), intArr(7, 8)
	for _, src := range []model.Expr{
		model.Ternary{C: model.Var{Name: "n"}, A: t3, B: f3}, model.Ternary{C: model.Binary{Op: "<", L: model.Var{Name: "n"}, R: lit(0)}, A: t3, B: f3},
		model.Ternary{C: lit(0), A: t3, B: model.Ternary{C: lit(1), A: f3, B: t3}},
		model.Index{X: model.ArrLit{Elems: []model.Expr{t3, f3}}, I: model.Binary{Op: "-", L: model.Var{Name: "n"}, R: lit(2)}},
		model.Call{X: model.Call{X: t3, Name: "reverse"}, Name: "slice", Args: []model.Expr{lit(1)}},
		model.Dot{X: model.ObjLit{Keys: []string{"k"}, Vals: []model.Expr{f3}}, Name: "k"},
	} {
		out = append(out, model.Each{Var: "v", Arr: src, Body: []model.Stmt{model.Print{E: model.Var{Name: "v"}}, model.Text{S: ","}}, Else: []model.Stmt{model.Text{S: " none"}}})
	}
	// a float that is not a number is not 0.0: it is truthy in every loop condition
	nan := model.Binary{Op: "/", L: model.Lit{V: model.Float(0)}, R: model.Lit{V: model.Float(0)}}
	inf := model.Binary{Op: "/", L: model.Lit{V: model.Float(1)}, R: model.Lit{V: model.Float(0)}}
	for _, cnd := range []model.Expr{nan, inf, model.Binary{Op: "-", L: inf, R: inf}, model.Binary{Op: "*", L: inf, R: model.Lit{V: model.Float(0)}}, model.Unary{Op: "-", X: nan}} {
		out = append(out, model.Each{Var: "v", Arr: intArr(1, 2, 3), Body: []model.Stmt{model.Print{E: model.Var{Name: "v"}}, model.BreakIf{E: cnd}, model.Text{S: ","}}})
		out = append(out, model.Each{Var: "v", Arr: intArr(1, 2, 3), Body: []model.Stmt{model.Print{E: model.Var{Name: "v"}}, model.ContinueIf{E: cnd}, model.Text{S: ","}}})
		out = append(out, model.For{Init: &model.Assign{Name: "x", E: cnd}, Cond: model.Var{Name: "x"}, Body: []model.Stmt{model.Text{S: "in"}, model.Break{}}, Else: []model.Stmt{model.Text{S: " never"}}})
		out = append(out, model.For{Cond: cnd, Body: []model.Stmt{model.Text{S: "in"}, model.Break{}}, Else: []model.Stmt{model.Text{S: " never"}}})
		out = append(out, model.Each{Var: "f", Arr: model.ArrLit{Elems: []model.Expr{cnd, model.Lit{V: model.Float(0)}}}, Body: []model.Stmt{model.If{Conds: []model.Expr{model.Var{Name: "f"}}, Bodies: [][]model.Stmt{{model.Text{S: "t"}}}, Else: []model.Stmt{model.Text{S: "f"}}}}})
	}
	// empty bodies, with and without @else
	out = append(out, model.Each{Var: "v", Arr: intArr(1, 2), Body: []model.Stmt{}, Else: []model.Stmt{model.Text{S: " never"}}})
	out = append(out, model.Each{Var: "v", Arr: model.ArrLit{}, Body: []model.Stmt{}, Else: []model.Stmt{model.Text{S: " empty"}}})
	out = append(out, model.Each{Var: "v", Arr: intArr(1, 2), Body: []model.Stmt{}})
	out = append(out, model.Each{Var: "v", Arr: model.ArrLit{}, Body: []model.Stmt{model.Text{S: "[x]"}}, Else: []model.Stmt{}})
	out = append(out, model.For{Init: &model.Assign{Name: "i", E: lit(0)}, Cond: model.Binary{Op: "<", L: i, R: lit(2)},
		Post: model.Print{E: model.Postfix{Op: "++", X: i}}, Body: []model.Stmt{}, Else: []model.Stmt{model.Text{S: " never"}}})
	out = append(out, model.For{Init: &model.Assign{Name: "i", E: lit(3)}, Cond: model.Binary{Op: "<", L: i, R: lit(2)},
		Post: model.Print{E: model.Postfix{Op: "++", X: i}}, Body: []model.Stmt{}, Else: []model.Stmt{model.Text{S: " never-ran"}}})
	out = append(out, model.For{Init: &model.Assign{Name: "i", E: lit(0)}, Cond: model.Binary{Op: "<", L: i, R: lit(2)},
		Post: model.Print{E: model.Postfix{Op: "++", X: i}}, Body: []model.Stmt{}})
	// every pass is skipped by @continue: @else must still not render
	out = append(out, model.For{Init: &model.Assign{Name: "i", E: lit(0)}, Cond: model.Binary{Op: "<", L: i, R: lit(3)},
		Post: model.Print{E: model.Postfix{Op: "++", X: i}}, Body: []model.Stmt{model.Continue{}, model.Text{S: "[x]"}}, Else: []model.Stmt{model.Text{S: " never"}}})
	out = append(out, model.Each{Var: "v", Arr: intArr(1, 2), Body: []model.Stmt{model.Continue{}, model.Text{S: "[x]"}}, Else: []model.Stmt{model.Text{S: " never"}}})
	// a bare ternary as condition, as start value and as step
	nv3 := model.Var{Name: "n"}
	for _, c := range []model.Expr{nv3, model.Binary{Op: "<", L: nv3, R: lit(0)}} {
		out = append(out, model.For{Init: &model.Assign{Name: "i", E: lit(0)}, Cond: model.Ternary{C: c, A: model.Binary{Op: "<", L: i, R: lit(3)}, B: model.Binary{Op: "<", L: i, R: lit(1)}},
			Post: model.Print{E: model.Postfix{Op: "++", X: i}}, Body: body, Else: []model.Stmt{model.Text{S: " never"}}})
		out = append(out, model.For{Init: &model.Assign{Name: "i", E: model.Ternary{C: c, A: lit(1), B: lit(4)}}, Cond: model.Ternary{C: model.Binary{Op: "<", L: i, R: lit(6)}, A: model.Lit{V: model.Bool(true)}, B: model.Lit{V: model.Bool(false)}},
			Post: model.Assign{Name: "i", E: model.Ternary{C: c, A: model.Binary{Op: "+", L: i, R: lit(2)}, B: model.Binary{Op: "+", L: i, R: lit(1)}}}, Body: body})
	}
	// headers holding literals whose braces and brackets close next to each other
	nestObj := func(k int64) model.Expr {
		return model.ObjLit{Keys: []string{"n"}, Vals: []model.Expr{model.ObjLit{Keys: []string{"k"}, Vals: []model.Expr{lit(k)}}}}
	}
	ov := model.Var{Name: "o"}
	onk := model.Dot{X: model.Dot{X: ov, Name: "n"}, Name: "k"}
	out = append(out, model.Each{Var: "o", Arr: model.ArrLit{Elems: []model.Expr{nestObj(1), nestObj(2)}}, Body: []model.Stmt{model.Print{E: onk}, model.Text{S: ","}}})
	out = append(out, model.Each{Var: "o", Arr: model.ArrLit{Elems: []model.Expr{model.ArrLit{Elems: []model.Expr{model.ArrLit{Elems: []model.Expr{lit(5)}}}}}}, Body: []model.Stmt{model.Print{E: model.Index{X: model.Index{X: ov, I: lit(0)}, I: lit(0)}}}})
	out = append(out, model.For{Init: &model.Assign{Name: "o", E: nestObj(0)}, Cond: model.Binary{Op: "<", L: onk, R: lit(2)}, Post: model.Assign{Name: "o", E: model.ObjLit{Keys: []string{"n"}, Vals: []model.Expr{model.ObjLit{Keys: []string{"k"}, Vals: []model.Expr{model.Binary{Op: "+", L: onk, R: lit(1)}}}}}},
		Body: []model.Stmt{model.Print{E: onk}, model.BreakIf{E: model.Binary{Op: "==", L: model.Dot{X: model.Dot{X: nestObj(1), Name: "n"}, Name: "k"}, R: lit(7)}}, model.Text{S: ";"}}})
	// percent signs in the text and in the values of loop bodies and @else bodies
	pct := model.ArrLit{Elems: []model.Expr{model.StrLit{S: "7%d"}, model.StrLit{S: "100%"}, model.StrLit{S: "%s%v%%"}}}
	out = append(out, model.Each{Var: "v", Arr: pct, Body: []model.Stmt{model.Print{E: model.Var{Name: "v"}}, model.Text{S: "% of %s|"}}, Else: []model.Stmt{model.Text{S: "0%"}}})
	out = append(out, model.Each{Var: "v", Arr: model.ArrLit{}, Body: []model.Stmt{model.Text{S: "x"}}, Else: []model.Stmt{model.Text{S: "none (0%) %d"}}})
	out = append(out, model.For{Init: &model.Assign{Name: "i", E: lit(0)}, Cond: model.Binary{Op: "<", L: i, R: lit(2)}, Post: model.Print{E: model.Postfix{Op: "++", X: i}},
		Body: []model.Stmt{model.Print{E: i}, model.Text{S: "0% %!v(MISSING) "}, model.If{Conds: []model.Expr{lit(1)}, Bodies: [][]model.Stmt{{model.Text{S: "%x"}}}}}, Else: []model.Stmt{model.Text{S: "%"}}})
	// the source of an inner loop is a literal built, at some depth, from the variable of the outer loop
	xv := model.Var{Name: "x"}
	pv := model.Var{Name: "p"}
	idx0 := model.Index{X: pv, I: lit(0)}
	for _, inner := range []model.Expr{
		model.ArrLit{Elems: []model.Expr{model.ArrLit{Elems: []model.Expr{xv, lit(0)}}}},
		model.ArrLit{Elems: []model.Expr{model.ArrLit{Elems: []model.Expr{lit(7)}}, model.ArrLit{Elems: []model.Expr{model.Binary{Op: "*", L: xv, R: lit(2)}, xv}}}},
		model.ArrLit{Elems: []model.Expr{model.ArrLit{Elems: []model.Expr{model.ArrLit{Elems: []model.Expr{xv}}}}}},
		model.Dot{X: model.ObjLit{Keys: []string{"k"}, Vals: []model.Expr{model.ArrLit{Elems: []model.Expr{model.ArrLit{Elems: []model.Expr{xv}}}}}}, Name: "k"},
	} {
		show := []model.Stmt{model.Text{S: "("}, model.Print{E: idx0}, model.Text{S: ")"}}
		out = append(out, model.Each{Var: "x", Arr: intArr(1, 2, 3), Body: []model.Stmt{model.Each{Var: "p", Arr: inner, Body: show}, model.Text{S: ";"}}})
		out = append(out, model.For{Init: &model.Assign{Name: "x", E: lit(4)}, Cond: model.Binary{Op: "<", L: xv, R: lit(7)}, Post: model.Print{E: model.Postfix{Op: "++", X: xv}},
			Body: []model.Stmt{model.Each{Var: "p", Arr: inner, Body: show}, model.Print{E: model.Index{X: model.Index{X: inner, I: lit(0)}, I: lit(0)}}, model.Text{S: ";"}}})
	}
	// bounds and counters further apart than 2^63
	const maxI, half = int64(9223372036854775807), int64(4611686018427387904)
	for _, cmp := range []string{">", ">="} {
		out = append(out, model.For{Init: &model.Assign{Name: "i", E: lit(maxI)}, Cond: model.Binary{Op: cmp, L: i, R: lit(-2)},
			Post: model.Assign{Name: "i", E: model.Binary{Op: "-", L: i, R: lit(half)}}, Body: body, Else: []model.Stmt{model.Text{S: " never"}}})
		out = append(out, model.For{Init: &model.Assign{Name: "i", E: lit(-2)}, Cond: model.Binary{Op: cmp, L: i, R: lit(maxI)},
			Post: model.Print{E: model.Postfix{Op: "++", X: i}}, Body: body, Else: []model.Stmt{model.Text{S: " never"}}})
	}
	for _, cmp := range []string{"<", "<="} {
		out = append(out, model.For{Init: &model.Assign{Name: "i", E: lit(-maxI)}, Cond: model.Binary{Op: cmp, L: i, R: lit(2)},
			Post: model.Assign{Name: "i", E: model.Binary{Op: "+", L: i, R: lit(half)}}, Body: body, Else: []model.Stmt{model.Text{S: " never"}}})
		out = append(out, model.For{Init: &model.Assign{Name: "i", E: lit(2)}, Cond: model.Binary{Op: cmp, L: i, R: lit(-maxI)},
			Post: model.Print{E: model.Postfix{Op: "++", X: i}}, Body: body, Else: []model.Stmt{model.Text{S: " never"}}})
		far := model.ArrLit{Elems: []model.Expr{lit(maxI), lit(1), lit(-maxI), lit(-6)}}
		out = append(out, model.Each{Var: "v", Arr: far, Body: []model.Stmt{model.ContinueIf{E: model.Binary{Op: cmp, L: model.Var{Name: "v"}, R: lit(-5)}}, model.Text{S: "["}, model.Print{E: model.Var{Name: "v"}}, model.Text{S: "]"}}})
		out = append(out, model.Each{Var: "v", Arr: far, Body: []model.Stmt{model.Text{S: "["}, model.Print{E: model.Var{Name: "v"}}, model.Text{S: "]"}, model.BreakIf{E: model.Binary{Op: cmp, L: lit(-5), R: model.Var{Name: "v"}}}}})
	}
	return out
}
