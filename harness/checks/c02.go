package checks

import (
	"fmt"
	"math"

	"verif/core"
	"verif/model"
)

// C02 — @if/@elseif/@else renders exactly the first truthy branch; later
// conditions are not evaluated; one truthiness table for @if, the ternary,
// @breakIf and @continueIf.

type condValue struct {
	v      model.Value
	truthy bool
}

// the truthiness table of the statement
var condTable = []condValue{
	{model.Bool(false), false}, {model.Nil, false}, {model.Int(0), false}, {model.Float(0), false}, {model.Str(""), false},
	{model.Bool(true), true}, {model.Int(1), true}, {model.Int(-1), true}, {model.Float(0.5), true}, {model.Str(" "), true},
	{model.Float(1e-10), true}, {model.Float(-1e-300), true}, {model.Float(5e-324), true}, {model.Int(-9223372036854775807 - 1), true},
	{model.Str("0"), true}, {model.Arr(), true}, {model.Obj(nil), true}, {model.Arr(model.Int(0)), true}, {model.Float(-0.25), true},
	// literals whose braces and brackets close next to each other
	{model.Obj(map[string]model.Value{"a": model.Obj(nil)}), true}, {model.Obj(map[string]model.Value{"a": model.Obj(map[string]model.Value{"b": model.Obj(map[string]model.Value{"c": model.Int(0)})})}), true},
	{model.Arr(model.Obj(nil), model.Arr(model.Arr())), true},
}

func poolOf(truthy bool) []model.Value {
	var out []model.Value
	for _, cv := range condTable {
		if cv.truthy == truthy {
			out = append(out, cv.v)
		}
	}
	return out
}

func traceable(k model.Kind) bool {
	return k == model.KStr || k == model.KArr || k == model.KInt || k == model.KFloat || k == model.KBool
}

// condExpr writes value v as condition number id: literal or data
// variable, wrapped in the tracer when its kind can carry one
func condExpr(v model.Value, id int, asData bool, data map[string]model.Value) model.Expr {
	var e model.Expr
	if asData {
		name := fmt.Sprintf("c%d", id)
		data[name] = v
		e = model.Var{Name: name}
	} else {
		e = literalOf(v)
	}
	if traceable(v.K) {
		return model.Call{X: e, Name: "tr", Args: []model.Expr{model.Lit{V: model.Int(int64(id))}}}
	}
	return e
}

func defaultCond(truthy bool) model.Value {
	if truthy {
		return model.Int(1)
	}
	return model.Int(0)
}

type ifShape struct {
	conds   int
	hasElse bool
}

var ifShapes = func() []ifShape {
	var out []ifShape
	for k := 1; k <= 4; k++ {
		out = append(out, ifShape{k, false}, ifShape{k, true})
	}
	return out
}()

// buildIf makes the construct with sentinel bodies
func buildIf(conds []model.Expr, hasElse bool, tag string) model.If {
	n := model.If{Conds: conds}
	for i := range conds {
		n.Bodies = append(n.Bodies, []model.Stmt{model.Text{S: fmt.Sprintf("[%sB%d]", tag, i)}})
	}
	if hasElse {
		n.Else = []model.Stmt{model.Text{S: " [" + tag + "E]"}}
	}
	return n
}

// wrap nests a statement list inside blocks; every wrapper adds sentinel text
func wrapStmts(inner []model.Stmt, how int, level int) []model.Stmt {
	pre := model.Text{S: fmt.Sprintf("<w%d>", level)}
	post := model.Text{S: fmt.Sprintf("</w%d>", level)}
	body := append(append([]model.Stmt{pre}, inner...), post)
	switch how {
	case 1:
		return []model.Stmt{model.If{Conds: []model.Expr{model.Lit{V: model.Bool(true)}}, Bodies: [][]model.Stmt{body}}}
	case 2:
		return []model.Stmt{model.Each{Var: fmt.Sprintf("w%d", level), Arr: model.ArrLit{Elems: []model.Expr{model.Lit{V: model.Int(1)}, model.Lit{V: model.Int(2)}}}, Body: body}}
	case 3:
		iv := fmt.Sprintf("k%d", level)
		return []model.Stmt{model.For{Init: &model.Assign{Name: iv, E: model.Lit{V: model.Int(0)}},
			Cond: model.Binary{Op: "<", L: model.Var{Name: iv}, R: model.Lit{V: model.Int(2)}},
			Post: model.Print{E: model.Postfix{Op: "++", X: model.Var{Name: iv}}}, Body: body}}
	case 4:
		return []model.Stmt{model.If{Conds: []model.Expr{model.Lit{V: model.Int(0)}, model.Lit{V: model.Str("y")}},
			Bodies: [][]model.Stmt{{model.Text{S: "no"}}, body}, Else: []model.Stmt{model.Text{S: " no"}}}}
	}
	return inner
}

func init() {
	core.Register(&core.Check{
		ID:    "C02",
		Level: "exploration",
		Rule: "cases are @if constructs with 0..3 @elseif and with/without @else over every truthiness vector, with every value of the truthiness table (literal and data) at one position at a time, an erroring expression at every position, the same constructs nested in @if/@each/@for to depth 3, ternaries, @breakIf and @continueIf over the whole table, plus seeded random nestings; " +
			"every condition carries a tracer probe (custom function tr) so the render yields an evaluation log; output and log are compared with an independent interpreter. also @else bodies glued to the keyword, the construct inside slot bodies/insert blocks/component files/layouts, faults deep inside a condition (later element, later argument, object value, taken arm), string comparisons with quote characters in both literal styles, Go-native values as conditions; conditions on shared array cells, on variables stepped by postfix operators, on keys differing only in case, NaN conditions; round 8: source-visible faults after the chosen branch and in unchosen ternary arms; round 9: conditions on component arguments; scale: chains and nests to 300; concurrent replay; rounds 10-11: reserves in layout loops, ternary in every position; round 13: 49 conditions computed by built-ins; round 14: literals closing braces next to each other as conditions; round 15: prefix operators on chains as conditions; round 17: conditions computed by arithmetic over every pair of arithmetic operators; distinct_nontrivial = distinct sources whose construct has at least one condition",
		Assumptions: []string{
			"nil- and object-valued conditions cannot carry a tracer and are judged by output only",
			"text right after @else never starts with 'if' (that spells @elseif)",
		},
		Setup: func(c *core.Ctx) {
			if err := registerTracers(); err != nil {
				panic(err)
			}
		},
		Sections: func(tier core.Tier, seed int64) []core.Section {
			var secs []core.Section
			// (1) shapes x truth vectors x one position sweeping the table x literal/data
			type cell struct {
				shape  ifShape
				vector int
				pos    int
				val    model.Value
				asData bool
			}
			var cells []cell
			for _, sh := range ifShapes {
				for vec := 0; vec < 1<<sh.conds; vec++ {
					for pos := 0; pos < sh.conds; pos++ {
						for _, v := range poolOf(vec&(1<<pos) != 0) {
							cells = append(cells, cell{sh, vec, pos, v, false}, cell{sh, vec, pos, v, true})
						}
					}
				}
			}
			build := func(cl cell, data map[string]model.Value) []model.Stmt {
				var conds []model.Expr
				for p := 0; p < cl.shape.conds; p++ {
					v := defaultCond(cl.vector&(1<<p) != 0)
					if p == cl.pos {
						v = cl.val
					}
					conds = append(conds, condExpr(v, p, cl.asData, data))
				}
				return []model.Stmt{model.Text{S: "pre|"}, buildIf(conds, cl.shape.hasElse, ""), model.Text{S: "|post"}}
			}
			secs = append(secs, core.Section{Name: "shapes-x-truth-table", Exhaustive: true, N: len(cells),
				Run: func(c *core.Ctx, i int) {
					data := map[string]model.Value{}
					judgeProgram(c, build(cells[i], data), data, "if", true)
				}})
			// (2) the same constructs nested to depth 3 (wrappers: @if, @each, @for, @elseif branch)
			secs = append(secs, core.Section{Name: "nested", Exhaustive: true, N: len(ifShapes) * 16 * 4 * 4 * 4,
				Run: func(c *core.Ctx, i int) {
					w3, w2, w1 := i%4+1, (i/4)%4+1, (i/16)%4+1
					i /= 64
					vec := i % 16
					sh := ifShapes[i/16]
					vec &= 1<<sh.conds - 1
					data := map[string]model.Value{}
					var conds []model.Expr
					for p := 0; p < sh.conds; p++ {
						conds = append(conds, condExpr(defaultCond(vec&(1<<p) != 0), p, p%2 == 0, data))
					}
					prog := []model.Stmt{model.Text{S: "a|"}, buildIf(conds, sh.hasElse, ""), model.Text{S: "|b"}}
					prog = wrapStmts(prog, w1, 1)
					prog = wrapStmts(prog, w2, 2)
					prog = wrapStmts(prog, w3, 3)
					judgeProgram(c, append(append([]model.Stmt{model.Text{S: "top "}}, prog...), model.Text{S: " end"}), data, "nested-if", true)
				}})
			// (2b) every subset of the bodies empty
			type mcell struct {
				shape  ifShape
				vector int
				mask   int
			}
			var mcells []mcell
			for _, sh := range ifShapes {
				nb := sh.conds
				if sh.hasElse {
					nb++
				}
				for vec := 0; vec < 1<<sh.conds; vec++ {
					for mask := 1; mask < 1<<nb; mask++ {
						mcells = append(mcells, mcell{sh, vec, mask})
					}
				}
			}
			secs = append(secs, core.Section{Name: "empty-bodies", Exhaustive: true, N: len(mcells),
				Run: func(c *core.Ctx, i int) {
					cl := mcells[i]
					data := map[string]model.Value{}
					var conds []model.Expr
					for p := 0; p < cl.shape.conds; p++ {
						conds = append(conds, condExpr(defaultCond(cl.vector&(1<<p) != 0), p, p%2 == 1, data))
					}
					n := buildIf(conds, cl.shape.hasElse, "")
					for b := range n.Bodies {
						if cl.mask&(1<<b) != 0 {
							n.Bodies[b] = []model.Stmt{}
						}
					}
					if cl.shape.hasElse && cl.mask&(1<<cl.shape.conds) != 0 {
						n.Else = []model.Stmt{}
					}
					prog := []model.Stmt{model.Text{S: "pre|"}, n, model.Text{S: "|post"}}
					if i%3 == 1 {
						prog = wrapStmts(prog, 2, 1)
					}
					judgeProgram(c, prog, data, "empty-body", true)
				}})
			// (2c) an @else body glued to the keyword: any text that does not spell "if"
			elseTexts := []string{"it works", "info", "i", "x", "(see)", "If", "end", "I", "eif", "ifx"[1:], "\n", "é"}
			secs = append(secs, core.Section{Name: "else-body-text", Exhaustive: true, N: len(elseTexts) * 4,
				Run: func(c *core.Ctx, i int) {
					t := elseTexts[i/4]
					data := map[string]model.Value{}
					first, second := i%2 == 1, (i/2)%2 == 1
					n := model.If{Conds: []model.Expr{condExpr(defaultCond(first), 0, false, data), condExpr(defaultCond(second), 1, true, data)},
						Bodies: [][]model.Stmt{{model.Text{S: "[B0]"}}, {model.Text{S: "[B1]"}}}, Else: []model.Stmt{model.Text{S: t}, model.Text{S: "[E]"}}}
					judgeProgram(c, []model.Stmt{model.Text{S: "pre|"}, n, model.Text{S: "|post"}}, data, "else-text", true)
				}})
			// (2d) the construct inside a slot body, an insert block, a component file and a layout
			secs = append(secs, core.Section{Name: "in-template-trees", Exhaustive: true, N: len(ifShapes) * 16 * 5 * 2,
				Run: func(c *core.Ctx, i int) {
					failAt := -1
					if i%2 == 1 {
						failAt = (i / 2) % 4
					}
					i /= 2
					place := i % 5
					i /= 5
					vec := i % 16
					sh := ifShapes[i/16]
					vec &= 1<<sh.conds - 1
					data := map[string]model.Value{}
					var conds []model.Expr
					for p := 0; p < sh.conds; p++ {
						if p == failAt {
							conds = append(conds, model.Binary{Op: "/", L: model.Lit{V: model.Int(1)}, R: model.Var{Name: "zero"}})
						} else {
							conds = append(conds, condExpr(defaultCond(vec&(1<<p) != 0), p, p%2 == 0, data))
						}
					}
					data["zero"] = model.Int(0)
					construct := []model.Stmt{model.Text{S: "a|"}, buildIf(conds, sh.hasElse, ""), model.Text{S: "|b"}}
					t := newTree("c02tree", ".tw")
					switch place {
					case 0: // slot body
						t.files["components/box"] = []model.Stmt{model.Text{S: "<box>"}, model.SlotRef{Name: ""}, model.Text{S: "</box>"}}
						t.files["page"] = []model.Stmt{model.Text{S: "p:"}, model.Component{Name: "~box", Slots: []model.SlotBody{{Name: "", Body: construct}}}, model.Text{S: ":q"}}
					case 1: // insert block
						t.files["layouts/main"] = []model.Stmt{model.Text{S: "<html>"}, model.Reserve{Name: "body"}, model.Text{S: "</html>"}}
						t.files["page"] = []model.Stmt{model.Use{Name: "~main"}, model.Insert{Name: "body", Block: construct}}
					case 2: // component file
						t.files["components/box"] = append(append([]model.Stmt{model.Text{S: "<box>"}}, construct...), model.Text{S: "</box>"})
						t.files["page"] = []model.Stmt{model.Text{S: "p:"}, model.Component{Name: "~box"}, model.Text{S: ":q"}}
					case 3: // layout
						t.files["layouts/main"] = append(append([]model.Stmt{model.Text{S: "<html>"}}, construct...), model.Reserve{Name: "body"}, model.Text{S: "</html>"})
						t.files["page"] = []model.Stmt{model.Use{Name: "~main"}, model.Insert{Name: "body", E: model.Lit{V: model.Str("B")}}}
					case 4: // insert block whose reserve stands in a loop of the layout: the construct is decided anew in every pass
						perPass := append([]model.Stmt{model.If{Conds: []model.Expr{model.Dot{X: model.Var{Name: "loop"}, Name: "first"}, model.Dot{X: model.Var{Name: "loop"}, Name: "last"}},
							Bodies: [][]model.Stmt{{model.Text{S: "F"}}, {model.Text{S: "L"}}}, Else: []model.Stmt{model.Print{E: model.Var{Name: "n"}}}}}, construct...)
						t.files["layouts/main"] = []model.Stmt{model.Text{S: "<html>"}, model.Each{Var: "n", Arr: intArr(1, 2, 3), Body: []model.Stmt{model.Text{S: "("}, model.Reserve{Name: "body"}, model.Text{S: ")"}}}, model.Text{S: "</html>"}}
						t.files["page"] = []model.Stmt{model.Use{Name: "~main"}, model.Insert{Name: "body", Block: perPass}}
					}
					files := t.sources(model.Style{Layout: model.SpaceLayout})
					tpl, err := loadTree(c, "c02tree", files, ".tw")
					c.Nontrivial(fmt.Sprint(files, data))
					if err != nil {
						c.Violation("in-tree:load-failed", err.Error(), map[string]any{"files": describeFiles(files)})
						return
					}
					if tpl == nil {
						return
					}
					exp := t.expectPage("page", data)
					traceReset()
					got, _ := renderPage(c, tpl, "page", model.NativeData(data))
					ev := traceTake()
					if why := compare(exp, got, true, ev); why != "" {
						c.Violation(fmt.Sprintf("in-tree:%d", place), why, map[string]any{"files": describeFiles(files), "data": model.DescribeData(data), "expected": expectText(exp)})
					}
				}})
			// (2e) conditions on component arguments: the value an argument has is the one its expression has at the place of use
			// (an argument may be named like a variable of the page that another argument reads)
			secs = append(secs, core.Section{Name: "conditions-on-component-arguments", Exhaustive: true, N: len(condTable) * len(condTable),
				Run: func(c *core.Ctx, i int) {
					outer, arg := condTable[i/len(condTable)], condTable[i%len(condTable)]
					if outer.v.K == model.KNil || arg.v.K == model.KNil || outer.v.K != arg.v.K {
						return // an argument named like a visible variable must have its type (C04); nil cannot be written in every place
					}
					data := map[string]model.Value{"count": outer.v}
					t := newTree("c02args", ".tw")
					show := model.Var{Name: "show"}
					t.files["components/badge"] = []model.Stmt{model.Text{S: "<"}, model.If{Conds: []model.Expr{show}, Bodies: [][]model.Stmt{{model.Text{S: "T"}}}, Else: []model.Stmt{model.Text{S: "F"}}},
						model.Print{E: model.Ternary{C: show, A: model.Lit{V: model.Int(1)}, B: model.Lit{V: model.Int(2)}}},
						model.Each{Var: "k", Arr: intArr(1, 2), Body: []model.Stmt{model.Print{E: model.Var{Name: "k"}}, model.BreakIf{E: show}}}, model.Text{S: ">"}}
					// "count" sorts before "show": show reads the page's count, not the argument of the same call
					t.files["page"] = []model.Stmt{model.Text{S: "p:"}, model.Component{Name: "~badge", Args: &model.ObjLit{Keys: []string{"count", "show"}, Vals: []model.Expr{literalOf(arg.v), model.Var{Name: "count"}}}},
						model.Component{Name: "~badge", Args: &model.ObjLit{Keys: []string{"show", "count"}, Vals: []model.Expr{model.Var{Name: "count"}, literalOf(arg.v)}}}, model.Text{S: ":q"}}
					files := t.sources(model.Style{Layout: model.SpaceLayout})
					tpl, err := loadTree(c, "c02args", files, ".tw")
					c.Nontrivial(fmt.Sprint(files, data))
					if err != nil {
						c.Violation("component-arguments:load-failed", err.Error(), map[string]any{"files": describeFiles(files)})
						return
					}
					if tpl == nil {
						return
					}
					exp := t.expectPage("page", data)
					got, _ := renderPage(c, tpl, "page", model.NativeData(data))
					if why := compare(exp, got, false, nil); why != "" {
						c.Violation("component-arguments", why, map[string]any{"files": describeFiles(files), "data": model.DescribeData(data), "expected": expectText(exp)})
					}
				}})
			// (3) an erroring expression at every position: it must surface up to the chosen branch and never after it
			errExprs := []model.Expr{
				model.Var{Name: "undefinedName"},
				model.Binary{Op: "/", L: model.Lit{V: model.Int(1)}, R: model.Lit{V: model.Int(0)}},
				model.Binary{Op: "+", L: model.Lit{V: model.Int(1)}, R: model.Lit{V: model.Str("s")}},
				model.Dot{X: model.Lit{V: model.Int(3)}, Name: "k"},
				// the fault sits deeper: a later element, a later argument, a later object value, the taken arm
				model.ArrLit{Elems: []model.Expr{model.Lit{V: model.Int(0)}, model.Binary{Op: "/", L: model.Lit{V: model.Int(1)}, R: model.Lit{V: model.Int(0)}}}},
				model.Call{X: model.Lit{V: model.Bool(true)}, Name: "then", Args: []model.Expr{model.Lit{V: model.Int(1)}, model.Var{Name: "undefinedName"}}},
				model.Call{X: model.Lit{V: model.Str("abc")}, Name: "truncate", Args: []model.Expr{model.Lit{V: model.Int(50)}, model.Binary{Op: "%", L: model.Lit{V: model.Int(1)}, R: model.Lit{V: model.Int(0)}}}},
				model.Dot{X: model.ObjLit{Keys: []string{"a", "b"}, Vals: []model.Expr{model.Lit{V: model.Int(1)}, model.Var{Name: "undefinedName"}}}, Name: "a"},
				model.Ternary{C: model.Lit{V: model.Int(1)}, A: model.Var{Name: "undefinedName"}, B: model.Lit{V: model.Int(1)}},
				model.Call{X: model.Call{X: model.ArrLit{}, Name: "append", Args: []model.Expr{model.Lit{V: model.Int(1)}, model.Var{Name: "undefinedName"}}}, Name: "len"},
				// a chain of ternaries whose second or third condition fails
				model.Ternary{C: model.Lit{V: model.Int(0)}, A: model.Lit{V: model.Int(1)}, B: model.Ternary{C: model.Var{Name: "undefinedName"}, A: model.Lit{V: model.Int(1)}, B: model.Lit{V: model.Int(0)}}},
				model.Ternary{C: model.Lit{V: model.Int(0)}, A: model.Lit{V: model.Int(1)}, B: model.Ternary{C: model.Lit{V: model.Str("")}, A: model.Lit{V: model.Int(1)},
					B: model.Ternary{C: model.Binary{Op: "/", L: model.Lit{V: model.Int(1)}, R: model.Lit{V: model.Int(0)}}, A: model.Lit{V: model.Int(1)}, B: model.Lit{V: model.Int(0)}}}},
				model.Ternary{C: model.Lit{V: model.Int(0)}, A: model.Lit{V: model.Int(1)}, B: model.Paren{X: model.Ternary{C: model.Dot{X: model.Lit{V: model.Int(3)}, Name: "k"}, A: model.Lit{V: model.Int(1)}, B: model.Lit{V: model.Int(0)}}}},
				// faults that are visible in the source alone (they still belong to evaluation, not to parsing)
				model.Unary{Op: "-", X: model.Lit{V: model.Str("x")}},
				model.Unary{Op: "-", X: model.Lit{V: model.Bool(true)}},
				model.Unary{Op: "-", X: model.Lit{V: model.Nil}},
				model.Call{X: model.Lit{V: model.Str("s")}, Name: "noSuchFunction"},
				model.Index{X: model.Lit{V: model.Int(5)}, I: model.Lit{V: model.Int(0)}},
				model.Binary{Op: "<", L: model.Lit{V: model.Str("a")}, R: model.Lit{V: model.Int(1)}},
				model.Binary{Op: "*", L: model.Lit{V: model.Bool(true)}, R: model.Lit{V: model.Bool(true)}},
				model.Postfix{Op: "++", X: model.Lit{V: model.Str("s")}},
				model.Call{X: model.Lit{V: model.Int(1)}, Name: "decimal", Args: []model.Expr{model.Lit{V: model.Int(1)}}},
			}
			type ecell struct {
				shape  ifShape
				vector int
				pos    int
				e      int
			}
			var ecells []ecell
			for _, sh := range ifShapes {
				for vec := 0; vec < 1<<sh.conds; vec++ {
					for pos := 0; pos < sh.conds; pos++ {
						for e := range errExprs {
							ecells = append(ecells, ecell{sh, vec, pos, e})
						}
					}
				}
			}
			secs = append(secs, core.Section{Name: "failing-conditions", Exhaustive: true, N: len(ecells) * 2,
				Run: func(c *core.Ctx, i int) {
					inLoop := i%2 == 1
					cl := ecells[i/2]
					data := map[string]model.Value{}
					var conds []model.Expr
					for p := 0; p < cl.shape.conds; p++ {
						if p == cl.pos {
							conds = append(conds, errExprs[cl.e])
						} else {
							conds = append(conds, condExpr(defaultCond(cl.vector&(1<<p) != 0), p, false, data))
						}
					}
					prog := []model.Stmt{model.Text{S: "pre|"}, buildIf(conds, cl.shape.hasElse, ""), model.Text{S: "|post"}}
					if inLoop {
						prog = wrapStmts(prog, 2, 1)
					}
					judgeProgram(c, prog, data, "failing-cond", true)
				}})
			// (3b) long chains of @elseif and deep nests: the k-th of n branches is the first truthy one; conditions behind it are
			// not evaluated (the tracer log says which were)
			chainSizes := []int{15, 16, 17, 63, 64, 65, 127, 128, 129, 255, 256, 300}
			secs = append(secs, core.Section{Name: "long-chains-and-deep-nests", Exhaustive: true, N: len(chainSizes) * 4,
				Run: func(c *core.Ctx, i int) {
					n := chainSizes[i%len(chainSizes)]
					variant := i / len(chainSizes)
					data := map[string]model.Value{"k": model.Int(int64(n - 1))}
					tr := func(e model.Expr, id int) model.Expr {
						return model.Call{X: e, Name: "tr", Args: []model.Expr{model.Lit{V: model.Int(int64(id))}}}
					}
					var prog []model.Stmt
					switch variant {
					case 0, 1: // one chain; the chosen branch is the last but one (0) or none, so the @else (1)
						if variant == 1 {
							data["k"] = model.Int(int64(n + 5))
						}
						st := model.If{Else: []model.Stmt{model.Text{S: "[else]"}}}
						for b := 0; b < n; b++ {
							st.Conds = append(st.Conds, tr(model.Binary{Op: "==", L: model.Var{Name: "k"}, R: model.Lit{V: model.Int(int64(b))}}, b))
							st.Bodies = append(st.Bodies, []model.Stmt{model.Text{S: fmt.Sprintf("[branch %d]", b)}})
						}
						// a failing condition right behind the chosen branch
						if variant == 0 {
							st.Conds = append(st.Conds, model.Var{Name: "undefinedName"})
							st.Bodies = append(st.Bodies, []model.Stmt{model.Text{S: "never"}})
						}
						prog = []model.Stmt{model.Text{S: "pre|"}, st, model.Text{S: "|post"}}
					default: // n @if blocks inside one another, in the body (2) or in the @else (3) of the outer one
						var inner []model.Stmt = []model.Stmt{model.Text{S: "innermost"}}
						for d := n - 1; d >= 0; d-- {
							cond := tr(model.Binary{Op: ">", L: model.Var{Name: "k"}, R: model.Lit{V: model.Int(int64(d - 1))}}, d)
							if variant == 2 {
								inner = []model.Stmt{model.Text{S: fmt.Sprintf("<%d>", d)}, model.If{Conds: []model.Expr{cond}, Bodies: [][]model.Stmt{inner}, Else: []model.Stmt{model.Text{S: "no"}}}, model.Text{S: fmt.Sprintf("</%d>", d)}}
							} else {
								inner = []model.Stmt{model.Text{S: fmt.Sprintf("<%d>", d)}, model.If{Conds: []model.Expr{model.Unary{Op: "!", X: model.Paren{X: cond}}}, Bodies: [][]model.Stmt{{model.Text{S: "no"}}}, Else: inner}, model.Text{S: fmt.Sprintf("</%d>", d)}}
							}
						}
						prog = inner
					}
					judgeProgram(c, prog, data, "long-chain", true)
				}})
			// (3c) conditions computed by built-in functions: what a function returns is judged by the one truthiness table, whatever
			// the function wrapped it in (an empty string out of raw(), trim(), then(); 0 out of len(), binary(), floor() ...)
			{
				lit := func(v model.Value) model.Expr { return literalOf(v) }
				call := func(x model.Expr, name string, args ...model.Expr) model.Expr {
					return model.Call{X: x, Name: name, Args: args}
				}
				type recvCall struct {
					recv model.Value
					name string
					args []model.Value
				}
				calls := []recvCall{
					{model.Str(""), "raw", nil}, {model.Str(" "), "raw", nil}, {model.Str("&lt;"), "raw", nil}, {model.Str("  "), "trim", nil}, {model.Str(" a "), "trim", nil},
					{model.Str(""), "upper", nil}, {model.Str(""), "lower", nil}, {model.Str(""), "reverse", nil}, {model.Str(""), "capitalize", nil}, {model.Str("a"), "upper", nil},
					{model.Str(""), "len", nil}, {model.Str("ab"), "len", nil}, {model.Arr(), "len", nil}, {model.Arr(model.Int(0)), "len", nil}, {model.Arr(), "join", []model.Value{model.Str(",")}},
					{model.Arr(model.Str("")), "join", []model.Value{model.Str(",")}}, {model.Str("a"), "contains", []model.Value{model.Str("b")}}, {model.Str("a"), "contains", []model.Value{model.Str("a")}},
					{model.Arr(model.Int(1)), "contains", []model.Value{model.Int(2)}}, {model.Arr(model.Int(1)), "contains", []model.Value{model.Int(1)}}, {model.Int(0), "abs", nil}, {model.Int(-3), "abs", nil},
					{model.Int(0), "float", nil}, {model.Int(2), "float", nil}, {model.Int(0), "str", nil}, {model.Float(0.4), "int", nil}, {model.Float(0.4), "floor", nil}, {model.Float(0.4), "ceil", nil}, {model.Float(-0.4), "round", nil},
					{model.Float(0), "abs", nil}, {model.Float(0), "str", nil}, {model.Bool(false), "binary", nil}, {model.Bool(true), "binary", nil}, {model.Bool(false), "then", []model.Value{model.Str("x")}},
					{model.Bool(true), "then", []model.Value{model.Str("")}}, {model.Bool(true), "then", []model.Value{model.Int(0)}}, {model.Bool(false), "then", []model.Value{model.Str("x"), model.Str("")}},
					{model.Bool(false), "then", []model.Value{model.Str("x"), model.Str("y")}}, {model.Str("ab"), "repeat", []model.Value{model.Int(0)}}, {model.Str(""), "repeat", []model.Value{model.Int(3)}},
					{model.Arr(model.Int(1)), "slice", []model.Value{model.Int(1)}}, {model.Str(""), "split", []model.Value{model.Str(",")}}, {model.Str("abc"), "truncate", []model.Value{model.Int(0), model.Str("")}},
					{model.Str(""), "first", nil}, {model.Str(""), "last", nil}, {model.Str("a"), "first", nil}, {model.Arr(), "reverse", nil}, {model.Arr(), "append", nil}, {model.Str("0"), "decimal", nil},
				}
				secs = append(secs, core.Section{Name: "conditions-computed-by-built-ins", Exhaustive: true, N: len(calls) * 2,
					Run: func(c *core.Ctx, i int) {
						rc := calls[i/2]
						asData := i%2 == 1
						data := map[string]model.Value{}
						var recv model.Expr = lit(rc.recv)
						if asData {
							data["recv"] = rc.recv
							recv = model.Var{Name: "recv"}
						}
						var args []model.Expr
						for _, a := range rc.args {
							args = append(args, lit(a))
						}
						cond := call(recv, rc.name, args...)
						v := model.Var{Name: "v"}
						prog := []model.Stmt{
							model.If{Conds: []model.Expr{cond}, Bodies: [][]model.Stmt{{model.Text{S: "T"}}}, Else: []model.Stmt{model.Text{S: "F"}}}, model.Text{S: "|"},
							model.If{Conds: []model.Expr{model.Lit{V: model.Bool(false)}, cond}, Bodies: [][]model.Stmt{{model.Text{S: "no"}}, {model.Text{S: "T"}}}, Else: []model.Stmt{model.Text{S: "F"}}}, model.Text{S: "|"},
							model.Print{E: model.Ternary{C: cond, A: model.StrLit{S: "A"}, B: model.StrLit{S: "B"}}}, model.Text{S: "|"},
							model.Each{Var: "v", Arr: intArr(1, 2, 3), Body: []model.Stmt{model.Print{E: v}, model.BreakIf{E: cond}, model.Text{S: ","}}}, model.Text{S: "|"},
							model.Each{Var: "v", Arr: intArr(1, 2, 3), Body: []model.Stmt{model.Print{E: v}, model.ContinueIf{E: cond}, model.Text{S: ","}}},
						}
						judgeProgram(c, prog, data, "built-in-condition", false)
					}})
			}
			// (3c') round 17: conditions computed by arithmetic - every ordered pair of + - * / % over operand triples for which the
			// two groupings differ in being zero, written without parentheses, as literals and from the data
			{
				arith := []string{"+", "-", "*", "/", "%"}
				triples := [][3]int64{{1, 3, 2}, {2, 4, 2}, {7, 4, 2}, {6, 3, 3}, {4, 2, 2}, {9, 3, 3}, {3, 3, 1}, {5, 5, 5}}
				bin := func(op string, x, y model.Expr) model.Expr { return model.Binary{Op: op, L: x, R: y} }
				secs = append(secs, core.Section{Name: "conditions-computed-by-arithmetic", Exhaustive: true, N: len(arith) * len(arith) * len(triples) * 2,
					Run: func(c *core.Ctx, i int) {
						asData := i%2 == 1
						i /= 2
						tr := triples[i%len(triples)]
						i /= len(triples)
						op1, op2 := arith[i/len(arith)], arith[i%len(arith)]
						data := map[string]model.Value{}
						operands := [3]model.Expr{}
						for k := 0; k < 3; k++ {
							operands[k] = model.Lit{V: model.Int(tr[k])}
							if asData {
								name := []string{"a", "b", "n"}[k]
								data[name] = model.Int(tr[k])
								operands[k] = model.Var{Name: name}
							}
						}
						// the tree the precedences of the statement give to "x op1 y op2 z"
						var cond model.Expr
						product := func(op string) bool { return op == "*" || op == "/" || op == "%" } // these bind tighter than + and -; all associate to the left
						if product(op2) && !product(op1) {
							cond = bin(op1, operands[0], bin(op2, operands[1], operands[2]))
						} else {
							cond = bin(op2, bin(op1, operands[0], operands[1]), operands[2])
						}
						v := model.Var{Name: "v"}
						prog := []model.Stmt{
							model.If{Conds: []model.Expr{cond}, Bodies: [][]model.Stmt{{model.Text{S: "T"}}}, Else: []model.Stmt{model.Text{S: "F"}}}, model.Text{S: "|"},
							model.If{Conds: []model.Expr{model.Lit{V: model.Bool(false)}, cond}, Bodies: [][]model.Stmt{{model.Text{S: "no"}}, {model.Text{S: "T"}}}, Else: []model.Stmt{model.Text{S: "F"}}}, model.Text{S: "|"},
							model.Print{E: model.Ternary{C: cond, A: model.StrLit{S: "A"}, B: model.StrLit{S: "B"}}}, model.Text{S: "|"},
							model.Each{Var: "v", Arr: intArr(1, 2, 3), Body: []model.Stmt{model.Print{E: v}, model.BreakIf{E: cond}, model.Text{S: ","}}}, model.Text{S: "|"},
							model.Each{Var: "v", Arr: intArr(1, 2, 3), Body: []model.Stmt{model.Print{E: v}, model.ContinueIf{E: cond}, model.Text{S: ","}}},
						}
						judgeProgram(c, prog, data, "arithmetic-condition", false)
					}})
			}
			// (3d) prefix operators in front of indexes, properties and calls: the operator applies to what the chain yields
			{
				flags, nums, obj := model.Var{Name: "flags"}, model.Var{Name: "nums"}, model.Var{Name: "obj"}
				idx := func(x model.Expr, i int64) model.Expr { return model.Index{X: x, I: model.Lit{V: model.Int(i)}} }
				not := func(x model.Expr) model.Expr { return model.Unary{Op: "!", X: x} }
				neg := func(x model.Expr) model.Expr { return model.Unary{Op: "-", X: x} }
				chainConds := []model.Expr{not(idx(flags, 0)), not(idx(flags, 1)), neg(idx(nums, 0)), neg(idx(nums, 1)), not(model.Dot{X: obj, Name: "on"}), not(model.Dot{X: obj, Name: "off"}),
					not(model.Call{X: nums, Name: "contains", Args: []model.Expr{model.Lit{V: model.Int(5)}}}), not(not(idx(flags, 1))), neg(model.Call{X: idx(nums, 1), Name: "abs"}), not(idx(model.Dot{X: obj, Name: "list"}, 0)),
					neg(model.Index{X: nums, I: idx(nums, 0)}), not(model.Index{X: flags, I: model.Dot{X: model.Var{Name: "loop9"}, Name: "index"}})}
				secs = append(secs, core.Section{Name: "conditions-with-prefix-operators-on-chains", Exhaustive: true, N: len(chainConds),
					Run: func(c *core.Ctx, i int) {
						cond := chainConds[i]
						data := map[string]model.Value{"flags": model.Arr(model.Bool(true), model.Bool(false)), "nums": model.Arr(model.Int(0), model.Int(5)),
							"obj":   model.Obj(map[string]model.Value{"on": model.Bool(true), "off": model.Bool(false), "list": model.Arr(model.Int(0))}),
							"loop9": model.Obj(map[string]model.Value{"index": model.Int(1)})}
						v := model.Var{Name: "v"}
						prog := []model.Stmt{
							model.If{Conds: []model.Expr{cond}, Bodies: [][]model.Stmt{{model.Text{S: "T"}}}, Else: []model.Stmt{model.Text{S: "F"}}}, model.Text{S: "|"},
							model.If{Conds: []model.Expr{model.Lit{V: model.Bool(false)}, cond}, Bodies: [][]model.Stmt{{model.Text{S: "no"}}, {model.Text{S: "T"}}}, Else: []model.Stmt{model.Text{S: "F"}}}, model.Text{S: "|"},
							model.Print{E: model.Ternary{C: cond, A: model.StrLit{S: "A"}, B: model.StrLit{S: "B"}}}, model.Text{S: "|"},
							model.Each{Var: "v", Arr: intArr(1, 2, 3), Body: []model.Stmt{model.Print{E: v}, model.BreakIf{E: cond}, model.Text{S: ","}}}, model.Text{S: "|"},
							model.Each{Var: "v", Arr: intArr(1, 2, 3), Body: []model.Stmt{model.Print{E: v}, model.ContinueIf{E: cond}, model.Text{S: ","}}},
						}
						judgeProgram(c, prog, data, "prefix-on-chain-condition", false)
					}})
			}
			// (4) ternary over the whole table, arms traced, and failing arms
			secs = append(secs, core.Section{Name: "ternary", Exhaustive: true, N: len(condTable) * 2 * 13,
				Run: func(c *core.Ctx, i int) {
					variant := i % 13
					i /= 13
					asData := i%2 == 1
					cv := condTable[i/2]
					data := map[string]model.Value{}
					tr := func(e model.Expr, id int) model.Expr {
						return model.Call{X: e, Name: "tr", Args: []model.Expr{model.Lit{V: model.Int(int64(id))}}}
					}
					var a, b model.Expr = tr(model.Lit{V: model.Str("A")}, 1), tr(model.Lit{V: model.Str("B")}, 2)
					switch variant {
					case 1:
						a = model.Var{Name: "undefinedName"}
					case 2:
						b = model.Binary{Op: "%", L: model.Lit{V: model.Int(1)}, R: model.Lit{V: model.Int(0)}}
					case 3:
						a = model.Unary{Op: "-", X: model.Lit{V: model.Str("yes")}}
					case 4:
						b = model.Unary{Op: "-", X: model.Lit{V: model.Str("no")}}
					case 5:
						a = model.Call{X: model.Lit{V: model.Str("s")}, Name: "noSuchFunction"}
					case 6:
						b = model.Binary{Op: "+", L: model.Lit{V: model.Int(1)}, R: model.Lit{V: model.Str("s")}}
					}
					var e model.Expr = model.Ternary{C: condExpr(cv.v, 0, asData, data), A: a, B: b}
					zero := model.Lit{V: model.Int(0)}
					switch variant {
					case 7: // the ternary as a later element of an array literal
						e = model.Index{X: model.ArrLit{Elems: []model.Expr{model.StrLit{S: "z"}, e}}, I: model.Lit{V: model.Int(1)}}
					case 8: // as the third element, after another ternary
						e = model.Call{X: model.ArrLit{Elems: []model.Expr{model.StrLit{S: "z"}, model.Ternary{C: zero, A: model.StrLit{S: "p"}, B: model.StrLit{S: "q"}}, e}}, Name: "join", Args: []model.Expr{model.StrLit{S: "-"}}}
					case 9: // as a later argument of a call
						e = model.Call{X: model.Lit{V: model.Bool(false)}, Name: "then", Args: []model.Expr{model.StrLit{S: "no"}, e}}
					case 10: // as a later value of an object literal
						e = model.Dot{X: model.ObjLit{Keys: []string{"a", "b"}, Vals: []model.Expr{zero, e}}, Name: "b"}
					case 11: // as the second argument of truncate (the ellipsis)
						e = model.Call{X: model.StrLit{S: "abcdef"}, Name: "truncate", Args: []model.Expr{model.Lit{V: model.Int(3)}, e}}
					case 12: // as a later element of the source of a loop
						judgeProgram(c, []model.Stmt{model.Text{S: "<"}, model.Each{Var: "el", Arr: model.ArrLit{Elems: []model.Expr{model.StrLit{S: "z"}, e}}, Body: []model.Stmt{model.Print{E: model.Var{Name: "el"}}, model.Text{S: ","}}}, model.Text{S: ">"}}, data, "ternary", true)
						return
					}
					judgeProgram(c, []model.Stmt{model.Text{S: "<"}, model.Print{E: e}, model.Text{S: ">"}}, data, "ternary", true)
				}})
			// (4b) an unparenthesised ternary in every place that takes an expression: conditions of @if/@elseif/@breakIf/@continueIf,
			// the three clauses of @for, the source of @each, index, first element/argument/value, receiver in parentheses
			nPos := 12
			secs = append(secs, core.Section{Name: "ternary-in-every-position", Exhaustive: true, N: len(condTable) * nPos,
				Run: func(c *core.Ctx, i int) {
					pos := i % nPos
					cv := condTable[i/nPos]
					data := map[string]model.Value{}
					cond := condExpr(cv.v, 0, pos%2 == 1, data)
					lit := func(v int64) model.Expr { return model.Lit{V: model.Int(v)} }
					tb := model.Ternary{C: cond, A: model.Lit{V: model.Bool(true)}, B: model.Lit{V: model.Bool(false)}}
					ti := func(a, b int64) model.Expr { return model.Ternary{C: cond, A: lit(a), B: lit(b)} }
					ts := model.Ternary{C: cond, A: model.StrLit{S: "A"}, B: model.StrLit{S: "B"}}
					v := model.Var{Name: "v"}
					var prog []model.Stmt
					switch pos {
					case 0:
						prog = []model.Stmt{model.If{Conds: []model.Expr{tb}, Bodies: [][]model.Stmt{{model.Text{S: "T"}}}, Else: []model.Stmt{model.Text{S: "F"}}}}
					case 1:
						prog = []model.Stmt{model.If{Conds: []model.Expr{model.Lit{V: model.Bool(false)}, tb}, Bodies: [][]model.Stmt{{model.Text{S: "no"}}, {model.Text{S: "T"}}}, Else: []model.Stmt{model.Text{S: "F"}}}}
					case 2:
						prog = []model.Stmt{model.Each{Var: "v", Arr: intArr(1, 2, 3), Body: []model.Stmt{model.Print{E: v}, model.BreakIf{E: tb}, model.Text{S: ","}}}}
					case 3:
						prog = []model.Stmt{model.Each{Var: "v", Arr: intArr(1, 2, 3), Body: []model.Stmt{model.Print{E: v}, model.ContinueIf{E: tb}, model.Text{S: ","}}}}
					case 4:
						prog = []model.Stmt{model.For{Init: &model.Assign{Name: "v", E: ti(1, 2)}, Cond: model.Binary{Op: "<", L: v, R: lit(5)}, Post: model.Assign{Name: "v", E: model.Binary{Op: "+", L: v, R: lit(1)}}, Body: []model.Stmt{model.Print{E: v}}}}
					case 5:
						prog = []model.Stmt{model.For{Init: &model.Assign{Name: "v", E: lit(0)}, Cond: model.Ternary{C: cond, A: model.Binary{Op: "<", L: v, R: lit(2)}, B: model.Binary{Op: "<", L: v, R: lit(4)}}, Post: model.Print{E: model.Postfix{Op: "++", X: v}}, Body: []model.Stmt{model.Print{E: v}}}}
					case 6:
						prog = []model.Stmt{model.For{Init: &model.Assign{Name: "v", E: lit(0)}, Cond: model.Binary{Op: "<", L: v, R: lit(6)}, Post: model.Assign{Name: "v", E: model.Ternary{C: cond, A: model.Binary{Op: "+", L: v, R: lit(2)}, B: model.Binary{Op: "+", L: v, R: lit(3)}}}, Body: []model.Stmt{model.Print{E: v}}}}
					case 7:
						prog = []model.Stmt{model.Each{Var: "v", Arr: model.Ternary{C: cond, A: intArr(1, 2), B: intArr(7)}, Body: []model.Stmt{model.Print{E: v}}}}
					case 8:
						prog = []model.Stmt{model.Print{E: model.Index{X: model.ArrLit{Elems: []model.Expr{model.StrLit{S: "first"}, model.StrLit{S: "second"}}}, I: ti(0, 1)}}}
					case 9:
						prog = []model.Stmt{model.Print{E: model.Call{X: model.ArrLit{Elems: []model.Expr{ts, model.StrLit{S: "z"}}}, Name: "join", Args: []model.Expr{ts}}},
							model.Print{E: model.Dot{X: model.ObjLit{Keys: []string{"a", "b"}, Vals: []model.Expr{ts, lit(0)}}, Name: "a"}}}
					case 10:
						prog = []model.Stmt{model.Print{E: model.Call{X: model.Paren{X: ts}, Name: "lower"}}, model.Print{E: model.Binary{Op: "+", L: model.StrLit{S: "x"}, R: model.Paren{X: ts}}}}
					default:
						prog = []model.Stmt{model.Assign{Name: "r", E: ts}, model.Print{E: model.Var{Name: "r"}}, model.Assign{Name: "q", E: model.Ternary{C: cond, A: ti(1, 2), B: ti(3, 4)}}, model.Print{E: model.Var{Name: "q"}}}
					}
					judgeProgram(c, append(append([]model.Stmt{model.Text{S: "<"}}, prog...), model.Text{S: ">"}), data, "ternary-position", false)
				}})
			// (5) @breakIf / @continueIf over the whole table
			secs = append(secs, core.Section{Name: "breakIf-continueIf", Exhaustive: true, N: len(condTable) * 2 * 2 * 2,
				Run: func(c *core.Ctx, i int) {
					isFor := i%2 == 1
					i /= 2
					isBreak := i%2 == 1
					i /= 2
					asData := i%2 == 1
					cv := condTable[i/2]
					data := map[string]model.Value{}
					cond := condExpr(cv.v, 0, asData, data)
					var ctl model.Stmt = model.ContinueIf{E: cond}
					if isBreak {
						ctl = model.BreakIf{E: cond}
					}
					body := []model.Stmt{model.Text{S: "["}, model.Print{E: model.Var{Name: "v"}}, ctl, model.Text{S: "]"}}
					var loop model.Stmt = model.Each{Var: "v", Arr: literalOf(model.Arr(model.Int(1), model.Int(2), model.Int(3))), Body: body}
					if isFor {
						loop = model.For{Init: &model.Assign{Name: "v", E: model.Lit{V: model.Int(1)}},
							Cond: model.Binary{Op: "<=", L: model.Var{Name: "v"}, R: model.Lit{V: model.Int(3)}},
							Post: model.Print{E: model.Postfix{Op: "++", X: model.Var{Name: "v"}}}, Body: body}
					}
					judgeProgram(c, []model.Stmt{model.Text{S: "s|"}, loop, model.Text{S: "|e"}}, data, "ctl-if", true)
				}})
			// (5b) Go-native data as conditions: nil slices and maps are empty arrays and objects (truthy), nil pointers are nil (falsy)
			type natCond struct {
				name   string
				v      any
				truthy bool
			}
			var nilInts []int
			var nilAny []any
			var nilMap map[string]any
			var nilPtr *rowStruct
			zero, one := 0, 1
			empty, space := "", " "
			f := false
			natives := []natCond{
				{"nil []int", nilInts, true}, {"nil []any", nilAny, true}, {"empty []string", []string{}, true}, {"[]int{0}", []int{0}, true},
				{"nil map", nilMap, true}, {"empty map", map[string]any{}, true}, {"nil *struct", nilPtr, false}, {"&struct{}", &rowStruct{}, true}, {"struct{}", rowStruct{}, true},
				{"uint8(0)", uint8(0), false}, {"int64(0)", int64(0), false}, {"float32(0)", float32(0), false}, {"uint(3)", uint(3), true}, {"float32(0.5)", float32(0.5), true},
				{"*int -> 0", &zero, false}, {"*int -> 1", &one, true}, {"*string -> \"\"", &empty, false}, {"*string -> \" \"", &space, true}, {"*bool -> false", &f, false},
				{"NaN", math.NaN(), true}, {"+Inf", math.Inf(1), true}, {"-Inf", math.Inf(-1), true}, {"-0.0", math.Copysign(0, -1), false}, {"5e-324", 5e-324, true}, {"float32 NaN", float32(math.NaN()), true},
				{"[]*int{nil}", []*int{nil}, true}, {"[][]int{}", [][]int{}, true}, {"untyped nil", nil, false},
			}
			secs = append(secs, core.Section{Name: "native-conditions", Exhaustive: true, N: len(natives) * 4,
				Run: func(c *core.Ctx, i int) {
					nc := natives[i/4]
					var src, want string
					t := nc.truthy
					switch i % 4 {
					case 0:
						src, want = "<@if(cnd)yes@else no@end>", map[bool]string{true: "<yes>", false: "< no>"}[t]
					case 1:
						src, want = "<{{ cnd ? \"yes\" : \"no\" }}>", map[bool]string{true: "<yes>", false: "<no>"}[t]
					case 2:
						src, want = "<@each(v in [1, 2, 3])[{{ v }}@breakIf(cnd)]@end>", map[bool]string{true: "<[1>", false: "<[1][2][3]>"}[t]
					default:
						src, want = "<@each(v in [1, 2])[{{ v }}@continueIf(cnd)]@end>", map[bool]string{true: "<[1[2>", false: "<[1][2]>"}[t]
					}
					c.Input(map[string]any{"source": src, "cnd": nc.name})
					got := evalString(c, src, map[string]any{"cnd": nc.v})
					c.Nontrivial(src + nc.name)
					if !got.Panicked && (got.Err != nil || got.Out != want) {
						c.Violation("native-condition:"+nc.name, fmt.Sprintf("with cnd = %s the render gave %s, want %q", nc.name, got.Describe(), want), map[string]any{"source": src, "cnd": nc.name})
					}
				}})
			// (5c) conditions that compare strings holding quote characters with literals in either quote style
			quoted := []string{"it's", "O'Brien", "say \"hi\"", "'", "\"", "a'b\"c", "plain"}
			secs = append(secs, core.Section{Name: "quoted-string-conditions", Exhaustive: true, N: len(quoted) * len(quoted) * 2 * 2,
				Run: func(c *core.Ctx, i int) {
					q := "\"'"[i%2]
					i /= 2
					op := []string{"==", "!="}[i%2]
					i /= 2
					held, written := quoted[i%len(quoted)], quoted[i/len(quoted)]
					data := map[string]model.Value{"name": model.Str(held)}
					cond := model.Binary{Op: op, L: model.Var{Name: "name"}, R: model.StrLit{S: written, Quote: q}}
					lenCond := model.Binary{Op: "==", L: model.Call{X: model.StrLit{S: written, Quote: q}, Name: "len"}, R: model.Lit{V: model.Int(int64(len([]rune(written))))}}
					body := []model.Stmt{model.Text{S: "["}, model.Print{E: model.Var{Name: "v"}}, model.BreakIf{E: cond}, model.Text{S: "]"}}
					prog := []model.Stmt{model.Text{S: "<"},
						model.If{Conds: []model.Expr{cond}, Bodies: [][]model.Stmt{{model.Text{S: "same"}}}, Else: []model.Stmt{model.Text{S: "other"}}}, model.Text{S: "|"},
						model.If{Conds: []model.Expr{model.Lit{V: model.Int(0)}, cond}, Bodies: [][]model.Stmt{{model.Text{S: "never"}}, {model.Text{S: "second"}}}}, model.Text{S: "|"},
						model.Print{E: model.Ternary{C: cond, A: model.Lit{V: model.Str("T")}, B: model.Lit{V: model.Str("F")}}}, model.Text{S: "|"},
						model.Each{Var: "v", Arr: literalOf(model.Arr(model.Int(1), model.Int(2))), Body: body}, model.Text{S: "|"},
						model.If{Conds: []model.Expr{lenCond}, Bodies: [][]model.Stmt{{model.Text{S: "len ok"}}}, Else: []model.Stmt{model.Text{S: "len wrong"}}},
						model.Text{S: ">"}}
					judgeProgram(c, prog, data, "quoted-cond", false)
				}})
			// (5d) conditions that read values other parts of the program also hold or produce: cells of arrays
			// built by append/slice from one base, variables stepped by postfix operators inside a
			// condition, objects whose keys differ only in the case of the first letter
			shared := sharedValuePrograms()
			secs = append(secs, core.Section{Name: "conditions-on-shared-values", Exhaustive: true, N: len(shared),
				Run: func(c *core.Ctx, i int) {
					judgeProgram(c, shared[i].prog, shared[i].data, "shared-value-cond", false)
				}})
			// (5e) integer literals written with leading zeros are decimal numbers in every condition
			zeroConds := []struct{ src, want string }{
				{"@if(08)y@else n@end", "y"}, {"@if(00)y@else n@end", " n"}, {"{{ 09 ? \"t\" : \"f\" }}", "t"}, {"@if(true)first@elseif(m == 08)second@end", "first"},
				{"@if(m == 010)Oct@elseif(m == 8)Aug@else ?@end", "Oct"}, {"@if(m == 8)Aug@elseif(m == 010)Oct@end", "Oct"}, {"@each(v in [9, 10, 11]){{ v }}@breakIf(v == 010)@end", "910"},
				{"@each(v in [8, 9, 10])@continueIf(v == 09){{ v }}@end", "810"}, {"@if(0100 == 100)y@end", "y"}, {"@if(010 - 10)y@else n@end", " n"}, {"{{ 007 == 7 ? 1 : 0 }}", "1"},
			}
			secs = append(secs, core.Section{Name: "leading-zero-conditions", Exhaustive: true, N: len(zeroConds),
				Run: func(c *core.Ctx, i int) {
					tc := zeroConds[i]
					c.Input(tc.src)
					got := evalString(c, tc.src, map[string]any{"m": 10})
					c.Nontrivial(tc.src)
					if !got.Panicked && (got.Err != nil || got.Out != tc.want) {
						c.Violation("leading-zero-condition", fmt.Sprintf("%s gave %s, want %q", tc.src, got.Describe(), tc.want), map[string]any{"source": tc.src})
					}
				}})
			// (6) seeded random nestings
			n, depth := 6000, 4
			if tier == core.Thorough {
				n, depth = 300000, 5
			}
			secs = append(secs, core.Section{Name: "random-nestings", N: n,
				Run: func(c *core.Ctx, i int) {
					g := newStmtGen(c.Rng, stmtGenOpts{MaxDepth: 1 + c.Rng.Intn(depth), IfHeavy: true, Tracers: true})
					prog := g.program(2 + c.Rng.Intn(4))
					judgeProgram(c, prog, g.data, "random-if", true)
				}})
			return secs
		},
	})
}

type sharedCase struct {
	prog []model.Stmt
	data map[string]model.Value
}

func sharedValuePrograms() []sharedCase {
	var out []sharedCase
	lit := func(i int64) model.Expr { return model.Lit{V: model.Int(i)} }
	v := func(n string) model.Expr { return model.Var{Name: n} }
	call := func(x model.Expr, name string, args ...model.Expr) model.Expr {
		return model.Call{X: x, Name: name, Args: args}
	}
	branch := func(cond model.Expr, tag string) model.Stmt {
		return model.If{Conds: []model.Expr{cond}, Bodies: [][]model.Stmt{{model.Text{S: "[" + tag + ":T]"}}}, Else: []model.Stmt{model.Text{S: "[" + tag + ":F]"}}}
	}
	tern := func(cond model.Expr) model.Stmt {
		return model.Print{E: model.Ternary{C: cond, A: model.Lit{V: model.Str("t")}, B: model.Lit{V: model.Str("f")}}}
	}
	// two appends on one base: each result keeps its own last cell
	for L := 0; L <= 9; L++ {
		var elems []model.Expr
		var vals []model.Value
		for k := 0; k < L; k++ {
			elems = append(elems, lit(int64(k+1)))
			vals = append(vals, model.Int(int64(k+1)))
		}
		at := lit(int64(L))
		for form := 0; form < 2; form++ {
			var baseInit model.Stmt = model.Assign{Name: "base", E: model.ArrLit{Elems: elems}}
			data := map[string]model.Value{}
			if form == 1 {
				baseInit = model.Text{S: ""}
				data["base"] = model.Arr(vals...)
			}
			out = append(out, sharedCase{[]model.Stmt{baseInit,
				model.Assign{Name: "off", E: call(v("base"), "append", lit(0))}, model.Assign{Name: "on", E: call(v("base"), "append", lit(7))},
				branch(model.Index{X: v("off"), I: at}, "off"), branch(model.Index{X: v("on"), I: at}, "on"), tern(model.Index{X: v("off"), I: at}),
				model.Assign{Name: "p0", E: call(v("base"), "prepend", lit(0))}, model.Assign{Name: "p7", E: call(v("base"), "prepend", lit(7))},
				branch(model.Index{X: v("p0"), I: lit(0)}, "p0"), branch(model.Index{X: v("p7"), I: lit(0)}, "p7"),
				branch(model.Binary{Op: "==", L: call(v("base"), "len"), R: at}, "len")}, data})
			if L >= 2 {
				// an append on a slice view must not reach the cell behind the view
				out = append(out, sharedCase{[]model.Stmt{baseInit,
					model.Assign{Name: "head", E: call(call(v("base"), "slice", lit(0), lit(int64(L-1))), "append", lit(0))},
					branch(model.Index{X: v("base"), I: lit(int64(L - 1))}, "behind"), branch(model.Index{X: v("head"), I: lit(int64(L - 1))}, "head"),
					model.Each{Var: "k", Arr: intArr(1, 2), Body: []model.Stmt{model.Assign{Name: "tmp", E: call(call(v("base"), "slice", lit(1)), "append", lit(0))}, model.BreakIf{E: model.Unary{Op: "!", X: model.Index{X: v("base"), I: lit(int64(L - 1))}}}, model.Text{S: "."}}}}, data})
			}
		}
	}
	// a postfix operator inside a condition yields the stepped value and leaves the variable alone
	for _, start := range []model.Value{model.Float(1.0), model.Float(2.5), model.Float(0.0), model.Int(1), model.Int(0), model.Int(2)} {
		for _, op := range []string{"--", "++"} {
			for form := 0; form < 2; form++ {
				data := map[string]model.Value{}
				var init model.Stmt = model.Assign{Name: "x", E: literalOf(start)}
				if form == 1 {
					init = model.Text{S: ""}
					data["x"] = start
				}
				step := model.Postfix{Op: op, X: v("x")}
				out = append(out, sharedCase{[]model.Stmt{init,
					model.If{Conds: []model.Expr{step, v("x")}, Bodies: [][]model.Stmt{{model.Text{S: "A"}}, {model.Text{S: "B"}}}, Else: []model.Stmt{model.Text{S: ".C"}}},
					model.Print{E: model.Ternary{C: step, A: model.Lit{V: model.Str("a")}, B: model.Ternary{C: v("x"), A: model.Lit{V: model.Str("b")}, B: model.Lit{V: model.Str("c")}}}},
					model.Each{Var: "k", Arr: intArr(1, 2, 3), Body: []model.Stmt{model.Print{E: v("k")}, model.BreakIf{E: step}, model.Text{S: ","}}},
					model.Each{Var: "k", Arr: intArr(1, 2, 3), Body: []model.Stmt{model.Print{E: v("k")}, model.ContinueIf{E: step}, model.Text{S: ";"}}},
					model.Text{S: "|"}, model.Print{E: v("x")}}, data})
			}
		}
	}
	// keys that differ only in the case of the first letter: the condition reads the key it names
	pairs := []struct {
		lo, up model.Value
	}{{model.Bool(false), model.Bool(true)}, {model.Bool(true), model.Bool(false)}, {model.Str(""), model.Str("x")}, {model.Int(5), model.Int(0)}, {model.Nil, model.Arr()}}
	for _, pr := range pairs {
		obj := model.Obj(map[string]model.Value{"active": pr.lo, "Active": pr.up, "count": pr.up, "Count": pr.lo})
		for form := 0; form < 2; form++ {
			data := map[string]model.Value{"flags": obj}
			var init model.Stmt = model.Text{S: ""}
			if form == 1 && pr.lo.K != model.KNil {
				data = map[string]model.Value{}
				init = model.Assign{Name: "flags", E: model.ObjLit{Keys: []string{"Active", "active", "count", "Count"}, Vals: []model.Expr{literalOf(pr.up), literalOf(pr.lo), literalOf(pr.up), literalOf(pr.lo)}}}
			}
			f := v("flags")
			out = append(out, sharedCase{[]model.Stmt{init,
				branch(model.Dot{X: f, Name: "active"}, "active"), branch(model.Dot{X: f, Name: "Active"}, "Active"),
				branch(model.Index{X: f, I: model.Lit{V: model.Str("count")}}, "count"), branch(model.Index{X: f, I: model.Lit{V: model.Str("Count")}}, "Count"),
				tern(model.Dot{X: f, Name: "count"}),
				model.If{Conds: []model.Expr{model.Lit{V: model.Int(0)}, model.Dot{X: f, Name: "active"}}, Bodies: [][]model.Stmt{{model.Text{S: "never"}}, {model.Text{S: "[elseif:T]"}}}, Else: []model.Stmt{model.Text{S: "[elseif:F]"}}},
				model.Each{Var: "k", Arr: intArr(1, 2), Body: []model.Stmt{model.Print{E: v("k")}, model.BreakIf{E: model.Dot{X: f, Name: "active"}}, model.ContinueIf{E: model.Dot{X: f, Name: "Count"}}, model.Text{S: ","}}}}, data})
		}
	}
	return out
}
