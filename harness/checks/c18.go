package checks

import (
	"fmt"
	"os"
	"path/filepath"
	"sort"
	"strings"
	"time"

	textwire "github.com/textwire/textwire/v2"
	"github.com/textwire/textwire/v2/config"

	"verif/core"
	"verif/model"
)

// C18 — templates are addressable by relative name; a bad file fails
// loading cleanly.

var c18Exts = []string{".tw", ".tw.html", ".html", ".t", "tw", "_view.html"}

// directory spellings: (what is configured, where the files really are)
var c18Dirs = []struct{ spelled, real string }{
	{"t", "t"}, {"t/", "t"}, {"t//", "t"}, {"./t", "t"}, {"x/../t", "t"}, {"t/in", "t/in"}, {"t/in/", "t/in"}, {"./t/./in", "t/in"},
	{"t/in/..", "t"}, {"t/in/../", "t"}, {"t/in/../in", "t/in"}, {"./x/.././t/", "t"},
}

// base names of template files; the empty one makes a file whose whole name is the extension
var c18Bases = []string{"a", "b", "ab", "a.b", ""}
var c18Subs = []string{"", "sub/", "sub/deep/", "d.tw/", "layouts/"}

// writeFiles creates files (relative paths) under root
func writeFiles(root string, files map[string]string) error {
	for name, content := range files {
		p := filepath.Join(root, name)
		if err := os.MkdirAll(filepath.Dir(p), 0o755); err != nil {
			return err
		}
		if err := os.WriteFile(p, []byte(content), 0o644); err != nil {
			return err
		}
	}
	return nil
}

func newTemplate(c *core.Ctx, dir, ext string) (*textwire.Template, error, bool) {
	textwire.VerifResetConfig()
	var tpl *textwire.Template
	var err error
	c.Eval(1)
	panicked := c.Guard(func() { tpl, err = textwire.NewTemplate(&config.Config{TemplateDir: dir, TemplateExt: ext}) })
	return tpl, err, panicked
}

func init() {
	core.Register(&core.Check{
		ID:    "C18",
		Level: "fault_enumeration",
		Rule: "naming half: directory trees over base names {a, b, ab, a.b} x sub-directories {., sub, sub/deep, d.tw, layouts} x 4 extensions, with decoys whose names only contain the extension (a.tw.bak, x.twig, n.tw~, a directory named like a template), loaded through 8 directory spellings (trailing slashes, ./, parent segments, nested root); the registered name set (verif hook VerifNames) must equal 'files ending in the extension, relative path minus extension', every name must render its own unique content, layouts must not be renderable and unknown names must be reported. " +
			"fault half: for every file of valid trees (page, layout it uses, component it uses, nested page) x {deleted, truncated at every byte offset, replaced by each of 10 garbage strings, dangling symlink, symlink loop, directory in its place}: the tree is first loaded valid, then the fault is applied in place and the tree reloaded in the same process: loading must return (nil, error) naming the faulty file (or the layout/component name when it is absent) and never panic or hang; EvaluateFile(path) is compared with EvaluateString(content) before and after rewriting the file. also a component only the layout refers to, 10 spellings per registered name as unknown names, a layout that names a layout, EvaluateFile over path spellings the OS resolves differently from their cleaned form and over same-size same-mtime rewrites; round 8: 25 complete wrong statements as file contents; round 9: pages sorting before the files they use; scale: 1200 files, depth 40, names of 200 characters; rounds 10-11: same-size replacements, other-case extensions, symbolic links, files over 1 MiB; round 13: extensions without a leading dot; round 14: duplicate inserts in every pairing of forms, line ends inside argument lists; round 15: filling layouts, names ending in the extension, backslash spellings; distinct_nontrivial = distinct (tree, spelling) loads and distinct (file, fault) pairs",
		Assumptions: []string{
			"for a truncation an error is required only when the cut lies inside a block, string, object literal, comment or directive argument list (spans known from the generator); other prefixes may load",
			"a deleted or replaced-by-directory page is simply not registered (nothing uses it); unreadable files are produced with symlinks (the sandbox runs as root, so permission bits do not bite)",
			"relative template directories only (a leading '/' is trimmed by the configuration)",
		},
		CPUBudget: 40,
		Sections: func(tier core.Tier, seed int64) []core.Section {
			var secs []core.Section
			// ---- naming ----
			nSub := 1 << len(c18Subs)
			secs = append(secs, core.Section{Name: "naming", Exhaustive: true, N: len(c18Exts) * len(c18Dirs) * (nSub - 1),
				Run: func(c *core.Ctx, i int) {
					subsMask := i%(nSub-1) + 1
					i /= nSub - 1
					ds := c18Dirs[i%len(c18Dirs)]
					ext := c18Exts[i/len(c18Dirs)]
					os.RemoveAll("t")
					os.RemoveAll("x")
					os.MkdirAll("x", 0o755)
					os.MkdirAll("t/in", 0o755)
					files := map[string]string{}
					want := map[string]string{}
					layouts := map[string]bool{}
					for si, sub := range c18Subs {
						if subsMask&(1<<si) == 0 {
							continue
						}
						for _, b := range c18Bases {
							rel := sub + b
							content := "C:" + rel + ext
							if sub == "layouts/" && b == "ab" {
								content = "L<@reserve(\"r\")>"
								layouts[rel] = true
							}
							files[rel+ext] = content
							want[rel] = content
						}
						if sub == "layouts/" {
							// a file that declares a reserve is a layout, also when it names a layout itself
							files[sub+"mid"+ext] = "@use(\"~ab\")M<@reserve(\"q\")>"
							layouts[sub+"mid"] = true
							// ... and when it fills a reserve of that layout with a block that declares the reserve
							files[sub+"fill"+ext] = "@use(\"~ab\")@insert(\"r\")F<@reserve(\"q\")>@end"
							layouts[sub+"fill"] = true
						}
						// decoys: the extension occurs in the name but not at its end
						files[sub+"a"+ext+".bak"] = "decoy"
						files[sub+"n"+ext+"~"] = "decoy"
						files[sub+"x"+ext+"ig"] = "decoy"
						files[sub+"noext"] = "decoy"
						if up := strings.ToUpper(ext); up != ext {
							// the extension in another letter case is another extension (the content would not even parse)
							files[sub+"upper"+up] = "decoy {{ # }}"
							files[sub+"mixed"+ext[:len(ext)-1]+strings.ToUpper(ext[len(ext)-1:])] = "decoy @if(true)"
						}
						if ext != ".t" {
							files[sub+"short.t"] = "decoy"
						}
					}
					// files outside the configured root must not be seen when the root is nested
					if err := writeFiles("t", files); err != nil {
						c.Inconclusive(err.Error())
						return
					}
					// expected: every file under the real root whose name ends in the
					// extension, under its path relative to the root minus the extension
					expect := map[string]string{}
					for rel, content := range files {
						full := "t/" + rel
						if strings.HasPrefix(full, ds.real+"/") && strings.HasSuffix(rel, ext) {
							expect[strings.TrimSuffix(strings.TrimPrefix(full, ds.real+"/"), ext)] = content
						}
					}
					_ = want
					desc := map[string]any{"dir": ds.spelled, "ext": ext, "files": sortedKeys(files)}
					c.Input(desc)
					if _, err := os.Stat(ds.real); err != nil {
						return // the nested root does not exist in this subset
					}
					tpl, err, panicked := newTemplate(c, ds.spelled, ext)
					c.Nontrivial(fmt.Sprint(desc))
					if i%97 == 0 {
						c.Sample(desc)
					}
					if panicked {
						return
					}
					if err != nil || tpl == nil {
						c.Violation("naming:load-failed", fmt.Sprintf("loading a valid tree failed: %v", err), desc)
						return
					}
					var wantNames []string
					for n := range expect {
						if !strings.Contains(expect[n], "@reserve") {
							wantNames = append(wantNames, n)
						}
					}
					sort.Strings(wantNames)
					got := tpl.VerifNames()
					if strings.Join(got, "\n") != strings.Join(wantNames, "\n") {
						c.Violation("naming:name-set", fmt.Sprintf("registered names %v, want %v", got, wantNames), desc)
						return
					}
					for _, n := range wantNames {
						o, _ := renderPage(c, tpl, n, nil)
						if !o.Panicked && (o.Err != nil || o.Out != expect[n]) {
							c.Violation("naming:wrong-content", fmt.Sprintf("name %q rendered %s, want %q", n, o.Describe(), expect[n]), desc)
						}
					}
					for n := range expect {
						if strings.Contains(expect[n], "@reserve") {
							if o, _ := renderPage(c, tpl, n, nil); !o.Failed() {
								c.Violation("naming:layout-renderable", fmt.Sprintf("layout %q rendered directly", n), desc)
							}
						}
					}
					unknowns := []string{"nosuch", "a" + ext, "sub", "", "../t/a", "a.bak"}
					for k, n := range wantNames {
						if k < 3 || k == len(wantNames)-1 {
							unknowns = append(unknowns, "/"+n, "//"+n, "./"+n, n+"/", n+ext, " "+n, n+" ", strings.ToUpper(n), filepath.Base(n)+"/../"+n, "\\"+n, strings.ReplaceAll(n, "/", "\\"), strings.ReplaceAll("sub/"+n, "/", "\\"), n+"\\", ".\\"+n)
						}
					}
					for _, unknown := range unknowns {
						if _, ok := expect[unknown]; ok {
							continue
						}
						o, fe := renderPage(c, tpl, unknown, nil)
						if o.Panicked {
							continue
						}
						if o.Err == nil {
							c.Violation("naming:unknown-rendered", fmt.Sprintf("unknown name %q rendered %q", unknown, o.Out), desc)
						} else if fe != nil && !strings.Contains(fe.Message(), "not found") {
							c.Violation("naming:unknown-not-reported", fmt.Sprintf("unknown name %q gave %q instead of not found", unknown, fe.Message()), desc)
						}
					}
					c.Count("names_checked", len(wantNames))
				}})
			// ---- fault enumeration ----
			trees := faultTrees()
			type fcase struct {
				tree int
				file string
			}
			var fcases []fcase
			for ti, ft := range trees {
				for _, f := range sortedKeys(ft.files) {
					fcases = append(fcases, fcase{ti, f})
				}
			}
			// many files, deep directories, long names: every file is registered under its own name and renders its own content
			secs = append(secs, core.Section{Name: "large-trees", Exhaustive: true, N: 11,
				Run: func(c *core.Ctx, i int) {
					files := map[string]string{}
					layouts := map[string]bool{}
					links := map[string]string{}   // name -> name of the file it is a symbolic link to
					wantOut := map[string]string{} // name -> expected output where it is not the content itself
					ext := []string{".tw", ".tw.html", ".t"}[i%3]
					switch i {
					case 7: // symbolic links to other templates of the tree (and to a file outside it): every name is a template of its own
						files["home"+ext] = "the home page"
						files["sub/about"+ext] = "the about page"
						links["index"+ext] = "home" + ext
						links["sub/start"+ext] = "../home" + ext
						links["alias/deep/about"+ext] = "../../sub/about" + ext
						links["again"+ext] = "index" + ext
					case 8, 9, 10: // one page, layout or component of more than 1 MiB (and one of exactly 1 MiB) in a valid tree
						filler := strings.Repeat("<li>a row of a long list</li>\n", (1<<20)/30+40)
						exact := strings.Repeat("x", 1<<20)
						files["layouts/big"+ext] = "<@reserve(\"b\")>"
						files["components/big"+ext] = "C"
						files["exact"+ext] = exact
						files["page"+ext] = "@use(\"layouts/big\")@insert(\"b\")page @component(\"components/big\")@end"
						layouts["layouts/big"] = true
						wantOut["page"] = "<page C>"
						switch i {
						case 8:
							files["huge"+ext] = filler + "the end"
						case 9:
							files["layouts/big"+ext] = filler + "<@reserve(\"b\")>"
							wantOut["page"] = filler + "<page C>"
						default:
							files["components/big"+ext] = filler + "C"
							wantOut["page"] = "<page " + filler + "C>"
							wantOut["components/big"] = filler + "C"
						}
					case 0, 1, 2: // 60 / 300 / 1200 pages over 1 / 7 / 40 directories, with a layout and a component in each directory
						nFiles, nDirs := []int{60, 300, 1200}[i], []int{1, 7, 40}[i]
						for d := 0; d < nDirs; d++ {
							files[fmt.Sprintf("d%d/layouts/l%s", d, ext)] = fmt.Sprintf("L%d<@reserve(\"b\")>", d)
							layouts[fmt.Sprintf("d%d/layouts/l", d)] = true
							files[fmt.Sprintf("d%d/components/c%s", d, ext)] = fmt.Sprintf("C%d", d)
						}
						for k := 0; k < nFiles; k++ {
							d := k % nDirs
							switch k % 3 {
							case 0:
								files[fmt.Sprintf("d%d/p%d%s", d, k, ext)] = fmt.Sprintf("page %d", k)
							case 1:
								files[fmt.Sprintf("d%d/p%d%s", d, k, ext)] = fmt.Sprintf("@use(\"d%d/layouts/l\")@insert(\"b\", \"page %d\")", d, k)
							default:
								files[fmt.Sprintf("d%d/sub/p%d%s", d, k, ext)] = fmt.Sprintf("page %d @component(\"d%d/components/c\")", k, d)
							}
						}
					case 3, 4: // directories 12 / 40 levels deep
						depth := []int{12, 40}[i-3]
						dir := ""
						for l := 0; l < depth; l++ {
							dir += fmt.Sprintf("level%d/", l)
							files[dir+"page"+ext] = fmt.Sprintf("page at depth %d", l+1)
						}
					default: // names of 100 / 200 characters, with dots, dashes and the text of the extension inside
						ln := []int{100, 200}[i-5]
						stem := strings.Repeat("long-name.tw.x_", ln/15+1)[:ln]
						files[stem+ext] = "long one"
						files[stem+"2"+ext] = "long two"
						files["sub/"+stem+ext] = "long three"
						files[stem[:ln-1]+ext] = "shorter by one"
					}
					if err := writeFilesFresh("c18big", files); err != nil {
						c.Inconclusive(err.Error())
						return
					}
					defer os.RemoveAll("c18big")
					for name, target := range links {
						os.MkdirAll(filepath.Dir(filepath.Join("c18big", name)), 0o755)
						if err := os.Symlink(target, filepath.Join("c18big", name)); err != nil {
							c.Inconclusive(err.Error())
							return
						}
						// a link renders what its target holds
						resolved := filepath.Join(filepath.Dir(name), target)
						for k := 0; k < 3; k++ {
							if t2, ok := links[resolved]; ok {
								resolved = filepath.Join(filepath.Dir(resolved), t2)
							}
						}
						files[name] = files[filepath.ToSlash(filepath.Clean(resolved))]
					}
					c.Input(map[string]any{"files": len(files), "case": i})
					c.Nontrivial(fmt.Sprint("large-tree", i))
					tpl, err, panicked := newTemplate(c, "c18big", ext)
					if panicked {
						return
					}
					if err != nil || tpl == nil {
						c.Violation("naming:large-tree:load-failed", fmt.Sprintf("a valid tree of %d files did not load: %v", len(files), err), map[string]any{"case": i})
						return
					}
					want := map[string]bool{}
					for f := range files {
						if n := strings.TrimSuffix(f, ext); !layouts[n] {
							want[n] = true // (layouts are not directly renderable: they are not among the names)
						}
					}
					got := map[string]bool{}
					for _, n := range tpl.VerifNames() {
						got[n] = true
					}
					for n := range want {
						if !got[n] {
							c.Violation("naming:large-tree:missing", fmt.Sprintf("the file %q is not registered (%d of %d names are)", n+ext, len(got), len(want)), map[string]any{"case": i})
							return
						}
					}
					for n := range got {
						if !want[n] {
							c.Violation("naming:large-tree:extra", fmt.Sprintf("the name %q is registered but no such file exists", n), map[string]any{"case": i})
							return
						}
					}
					for f, content := range files {
						n := strings.TrimSuffix(f, ext)
						o, _ := renderPage(c, tpl, n, nil)
						if o.Panicked {
							return
						}
						switch {
						case layouts[n]:
							if o.Err == nil {
								c.Violation("naming:large-tree:layout-rendered", fmt.Sprintf("the layout %q rendered directly", n), map[string]any{"case": i})
								return
							}
						case wantOut[n] != "":
							if o.Err != nil || o.Out != wantOut[n] {
								c.Violation("naming:large-tree:wrong-content", fmt.Sprintf("name %q rendered %s (%d bytes), want %d bytes", n, clipS(o.Describe(), 120), len(o.Out), len(wantOut[n])), map[string]any{"case": i})
								return
							}
						case strings.Contains(content, "@"):
							k := strings.TrimPrefix(n[strings.LastIndex(n, "/")+1:], "p")
							if o.Err != nil || !strings.Contains(o.Out, "page "+k) {
								c.Violation("naming:large-tree:wrong-content", fmt.Sprintf("name %q rendered %s", n, clipS(o.Describe(), 200)), map[string]any{"case": i})
								return
							}
						default:
							if o.Err != nil || o.Out != content {
								c.Violation("naming:large-tree:wrong-content", fmt.Sprintf("name %q rendered %s, want %q", n, clipS(o.Describe(), 200), content), map[string]any{"case": i})
								return
							}
						}
					}
					c.Count("large_tree_names_rendered", len(files))
				}})
			// one valid tree whose argument lists span lines, written with LF, CRLF, CR-only and mixed line ends: every
			// spelling loads, and every page renders what the LF spelling renders
			eolTree := map[string]string{
				"layouts/main.tw":    "<html>@reserve(\n\"title\"\n)|@reserve(\"body\")</html>",
				"components/card.tw": "<card>{{ t }}{{ u }}@slot</card>",
				"page.tw":            "@use(\n\"~main\"\n)@insert(\n\"title\",\n\"T\"\n)@insert(\"body\")@component(\"~card\",\n{\n t: 1,\n u: [2,\n 3]\n}\n)@slot x@end@end@end",
				"plain.tw":           "{{\n 1 +\n 2\n}}@if(\n true\n)y@end@each(v in\n [1,\n 2]\n){{ v }}@end@for(k = 0;\n k < 2;\n k++){{ k }}@end{{ \"abc\".contains(\n\"b\"\n) }}",
			}
			eols := []string{"\r\n", "\r", "\n\r", "\r\r\n", " \r \n\t", "\r\t"}
			secs = append(secs, core.Section{Name: "line-ends-inside-argument-lists", Exhaustive: true, N: len(eols),
				Run: func(c *core.Ctx, i int) {
					observeTree := func(eol string) (string, bool) {
						files := map[string]string{}
						for n, src := range eolTree {
							files[n] = strings.ReplaceAll(src, "\n", eol)
						}
						os.RemoveAll("eol")
						if err := writeFiles("eol", files); err != nil {
							c.Inconclusive(err.Error())
							return "", false
						}
						defer os.RemoveAll("eol")
						tpl, err, panicked := newTemplate(c, "eol", ".tw")
						if panicked {
							return "", false
						}
						if err != nil || tpl == nil {
							return fmt.Sprintf("load: %v", err), true
						}
						var obs []string
						for _, n := range []string{"page", "plain"} {
							o, _ := renderPage(c, tpl, n, nil)
							if o.Panicked {
								return "", false
							}
							obs = append(obs, n+" => "+o.Describe())
						}
						return strings.Join(obs, "; "), true
					}
					c.Input(map[string]any{"line_end": fmt.Sprintf("%q", eols[i]), "files": describeFiles(eolTree)})
					c.Nontrivial("eol:" + eols[i])
					lf, ok := observeTree("\n")
					if !ok {
						return
					}
					if want := "page => output \"<html>T|<card>12, 3 x</card></html>\"; plain => output \"3y12011\""; lf != want {
						c.Violation("line-ends:lf", fmt.Sprintf("the tree written with LF gives %s, want %s", lf, want), nil)
						return
					}
					got, ok := observeTree(eols[i])
					if ok && got != lf {
						c.Violation("line-ends", fmt.Sprintf("the tree written with line ends %q gives %s; with LF it gives %s", eols[i], clipS(got, 400), lf), nil)
					}
				}})
			secs = append(secs, core.Section{Name: "faults", Exhaustive: true, N: len(fcases),
				Run: func(c *core.Ctx, i int) {
					fc := fcases[i]
					runFaults(c, trees[fc.tree], fc.file)
				}})
			// ---- the same fault enumeration on generated layout and component trees ----
			nGen := 60
			if tier == core.Thorough {
				nGen = 3000
			}
			secs = append(secs, core.Section{Name: "faults-on-generated-trees", N: nGen,
				Run: func(c *core.Ctx, i int) {
					var t *tmplTree
					if i%2 == 0 {
						t = genLayoutTree(c, 0).tree
					} else {
						t = genComponentTree(c, 0).tree
					}
					ft := faultTree{files: map[string]string{}, spans: map[string][]model.Span{}, role: map[string]string{}, usedBy: map[string]string{}}
					var all strings.Builder
					for name, stmts := range t.files {
						src, spans := model.StripMarks(model.PrintStmts(stmts, model.Style{Layout: model.SpaceLayout, Marks: true}))
						ft.files[name+".tw"] = src
						ft.spans[name+".tw"] = spans
						all.WriteString(src)
					}
					for name := range t.files {
						role := "page"
						short := name[strings.LastIndex(name, "/")+1:]
						if strings.HasPrefix(name, "layouts/") || strings.HasPrefix(name, "shared/") || strings.HasPrefix(name, "components/") || strings.HasPrefix(name, "ui/") {
							// it only matters to loading when some page names it
							if strings.Contains(all.String(), "\""+name+"\"") || strings.Contains(all.String(), "\"~"+short+"\"") {
								role = "used file"
							}
						}
						ft.role[name+".tw"] = role
					}
					names := sortedKeys(ft.files)
					file := names[c.Rng.Intn(len(names))]
					if i < 2 {
						c.Sample(map[string]any{"files": describeFiles(ft.files), "faulted_file": file})
					}
					runFaults(c, ft, file)
				}})
			// ---- EvaluateFile == EvaluateString of the content ----
			nEq := 1500
			if tier == core.Thorough {
				nEq = 40000
			}
			secs = append(secs, core.Section{Name: "evaluate-file", N: nEq,
				Run: func(c *core.Ctx, i int) {
					os.MkdirAll("ef", 0o755)
					path, _ := filepath.Abs("ef/page.tw")
					for round := 0; round < 3; round++ {
						var content string
						switch c.Rng.Intn(3) {
						case 0:
							g := newStmtGen(c.Rng, stmtGenOpts{MaxDepth: 2, IllTyped: 5})
							content = model.PrintStmts(g.program(3), model.Style{Layout: model.SpaceLayout})
						case 1:
							full, _ := corpusTemplate(c)
							content = full[:c.Rng.Intn(len(full)+1)]
						default:
							content = randomAtomString(c.Rng, allAtoms(), 120)
						}
						if strings.Contains(content, "@for") {
							continue
						}
						// sometimes the file begins with a byte order mark or other bytes a tool may add or strip
						if c.Rng.Intn(4) == 0 {
							content = []string{"\ufeff", "\ufeff\ufeff", "\xef\xbb", "\xff\xfe", "\x00", "\r\n", "\u200b"}[c.Rng.Intn(7)] + content
						}
						os.WriteFile(path, []byte(content), 0o644)
						c.Input(map[string]any{"path": path, "content": content, "round": round})
						data := map[string]any{"di": 2, "ds": "s", "db": true, "df": 1.5, "dn": nil, "da": []int{3, 1, 2}, "de": []int{}, "do": map[string]any{"n": 4, "s": "os", "Up": true}}
						var fo, so string
						var fe, se error
						c.Eval(2)
						if c.Guard(func() { fo, fe = textwire.EvaluateFile(path, data) }) {
							continue
						}
						if c.Guard(func() { so, se = textwire.EvaluateString(content, data) }) {
							continue
						}
						c.Nontrivial("ef:" + content)
						if fo != so || (fe == nil) != (se == nil) || (fe != nil && ErrMessage(fe) != ErrMessage(se)) {
							c.Violation("evaluate-file-differs", fmt.Sprintf("EvaluateFile gave (%q, %v), EvaluateString of the content gave (%q, %v)", clipS(fo, 200), fe, clipS(so, 200), se), map[string]any{"content": content, "round": round})
						}
					}
					// the same path rewritten with other text of the same length and the same modification time
					fixed := time.Unix(1700000000, 0)
					for k, content := range []string{"<b>{{ 2 * 3 }}</b> first", "<i>{{ 2 * 5 }}</i> other", "<u>{{ 2 * 7 }}</u> third"} {
						os.WriteFile(path, []byte(content), 0o644)
						os.Chtimes(path, fixed, fixed)
						var fo string
						var fe error
						c.Eval(1)
						if c.Guard(func() { fo, fe = textwire.EvaluateFile(path, nil) }) {
							continue
						}
						so, _ := textwire.EvaluateString(content, nil)
						if fe != nil || fo != so {
							c.Violation("evaluate-file-stale", fmt.Sprintf("rewrite %d (same size, same modification time): EvaluateFile gave (%q, %v), the content evaluates to %q", k, fo, fe, so), map[string]any{"content": content})
						}
					}
					// paths the operating system resolves differently from their lexically cleaned form
					os.RemoveAll("efx")
					os.MkdirAll("efx/real/deep", 0o755)
					os.MkdirAll("efx/other/place", 0o755)
					os.WriteFile("efx/real/page.tw", []byte("real {{ 1 }}"), 0o644)
					os.WriteFile("efx/other/page.tw", []byte("other {{ 2 }}"), 0o644)
					os.Symlink("../other/place", "efx/real/link")
					for _, rel := range []string{"efx/real/page.tw", "efx/real/deep/../page.tw", "efx/real/./page.tw", "efx/real//page.tw", "efx/real/link/../page.tw",
						"efx/real/missing/../page.tw", "efx/real/page.tw/", "efx/real/page.tw/.", "efx/real/page.tw/../page.tw", "efx/real/deep", "efx/real/link"} {
						for _, abs := range []bool{false, true} {
							pth := rel
							if abs {
								wd, _ := os.Getwd()
								pth = wd + "/" + rel
							}
							raw, rerr := os.ReadFile(pth)
							var fo string
							var fe error
							c.Eval(1)
							if c.Guard(func() { fo, fe = textwire.EvaluateFile(pth, nil) }) {
								continue
							}
							c.Nontrivial("efpath:" + pth)
							if rerr != nil {
								if fe == nil {
									c.Violation("evaluate-file-unreadable-path", fmt.Sprintf("the path %q cannot be read (%v) but EvaluateFile returned %q", rel, rerr, fo), map[string]any{"path": rel})
								}
								continue
							}
							so, se := textwire.EvaluateString(string(raw), nil)
							if fo != so || (fe == nil) != (se == nil) {
								c.Violation("evaluate-file-path", fmt.Sprintf("the path %q holds %q: EvaluateFile gave (%q, %v), the content evaluates to (%q, %v)", rel, raw, fo, fe, so, se), map[string]any{"path": rel})
							}
						}
					}
					// a path that does not exist is an error that names it
					c.Guard(func() {
						missing, _ := filepath.Abs("ef/ghost.tw")
						if _, err := textwire.EvaluateFile(missing, nil); err == nil || !strings.Contains(err.Error(), "ghost.tw") {
							c.Violation("evaluate-file-missing", fmt.Sprintf("EvaluateFile of a missing path returned %v", err), nil)
						}
					})
				}})
			return secs
		},
	})
}

func layoutKey(root, name string) string {
	return strings.TrimPrefix(root+"/"+name, "t/")
}

func sortedKeys(m map[string]string) []string {
	var out []string
	for k := range m {
		out = append(out, k)
	}
	sort.Strings(out)
	return out
}

type faultTree struct {
	files  map[string]string       // path relative to the root (with extension) -> content
	spans  map[string][]model.Span // spans of constructs per file, for truncations
	role   map[string]string       // page | layout | component
	usedBy map[string]string       // for layouts/components: a page that uses them
}

// faultTrees builds valid trees: page + layout + component + nested page
func faultTrees() []faultTree {
	var out []faultTree
	mk := func(layoutBody, compBody []model.Stmt, pageExtra []model.Stmt, layoutUsesComponent bool) faultTree {
		ft := faultTree{files: map[string]string{}, spans: map[string][]model.Span{}, role: map[string]string{}, usedBy: map[string]string{}}
		put := func(name, role string, stmts []model.Stmt) {
			marked := model.PrintStmts(stmts, model.Style{Layout: model.SpaceLayout, Marks: true})
			src, spans := model.StripMarks(marked)
			ft.files[name] = src
			ft.spans[name] = spans
			ft.role[name] = role
		}
		put("layouts/main.tw", "layout", layoutBody)
		put("components/card.tw", "component", compBody)
		page := []model.Stmt{model.Use{Name: "~main"}, model.Insert{Name: "title", E: model.StrLit{S: "Home"}},
			model.Insert{Name: "body", Block: append([]model.Stmt{model.Text{S: "<main>"},
				model.Component{Name: "~card", Args: &model.ObjLit{Keys: []string{"t"}, Vals: []model.Expr{model.StrLit{S: "hello"}}},
					Slots: []model.SlotBody{{Name: "", Body: []model.Stmt{model.Text{S: "slot body"}}}}},
				model.Text{S: "</main>"}}, pageExtra...)}}
		put("home.tw", "page", page)
		put("nested/deep/other.tw", "page", []model.Stmt{model.Text{S: "other "}, model.Component{Name: "components/card", Args: &model.ObjLit{Keys: []string{"t"}, Vals: []model.Expr{model.Lit{V: model.Str("x")}}}}, model.Text{S: " end\n"},
			model.If{Conds: []model.Expr{model.Lit{V: model.Bool(true)}}, Bodies: [][]model.Stmt{{model.Text{S: "yes"}, model.Comment{Body: " note "}}}}})
		put("plain.tw", "page", []model.Stmt{model.Text{S: "just text {{ 1 }} here"}})
		ft.files["plain.tw"] = "just text {{ 1 + 2 }} here\n"
		ft.spans["plain.tw"] = nil
		if layoutUsesComponent {
			put("components/hdr.tw", "component", []model.Stmt{model.Text{S: "<hdr>"}, model.If{Conds: []model.Expr{model.Lit{V: model.Bool(true)}}, Bodies: [][]model.Stmt{{model.Text{S: "h"}}}}, model.Text{S: "</hdr>"}})
			ft.usedBy["components/hdr.tw"] = "layouts/main.tw"
		}
		ft.usedBy["layouts/main.tw"] = "home.tw"
		ft.usedBy["components/card.tw"] = "home.tw"
		return ft
	}
	lay1 := []model.Stmt{model.Text{S: "<html><title>"}, model.Reserve{Name: "title"}, model.Text{S: "</title>"},
		model.If{Conds: []model.Expr{model.Lit{V: model.Bool(true)}}, Bodies: [][]model.Stmt{{model.Text{S: "<body>"}, model.Reserve{Name: "body"}, model.Text{S: "</body>"}}}}, model.Text{S: "</html>"}}
	comp1 := []model.Stmt{model.Text{S: "<card>"}, model.Print{E: model.Var{Name: "t"}}, model.Text{S: ":"}, model.SlotRef{Name: ""}, model.Text{S: "</card>"}}
	out = append(out, mk(lay1, comp1, nil, false))
	lay2 := []model.Stmt{model.Comment{Body: " layout "}, model.Each{Var: "k", Arr: intArr(1, 2), Body: []model.Stmt{model.Text{S: "["}, model.Reserve{Name: "title"}, model.Text{S: "]"}}},
		model.Reserve{Name: "body"}, model.Print{E: model.Dot{X: model.ObjLit{Keys: []string{"a"}, Vals: []model.Expr{model.Lit{V: model.Int(1)}}}, Name: "a"}}}
	comp2 := []model.Stmt{model.If{Conds: []model.Expr{model.Var{Name: "t"}}, Bodies: [][]model.Stmt{{model.Text{S: "T="}, model.Print{E: model.Var{Name: "t"}}}}, Else: []model.Stmt{model.Text{S: " none"}}}, model.SlotRef{Name: ""}}
	out = append(out, mk(lay2, comp2, []model.Stmt{model.Each{Var: "q", Arr: intArr(1), Body: []model.Stmt{model.Text{S: "q"}}}}, false))
	// a component that only the layout refers to (on a path that is not taken)
	lay3 := append(append([]model.Stmt{}, lay1...), model.If{Conds: []model.Expr{model.Lit{V: model.Bool(false)}}, Bodies: [][]model.Stmt{{model.Component{Name: "~hdr"}}}})
	out = append(out, mk(lay3, comp1, nil, true))
	// other names: pages that sort before and after the files they use, components and layouts outside the usual directories
	{
		ft := faultTree{files: map[string]string{}, spans: map[string][]model.Span{}, role: map[string]string{}, usedBy: map[string]string{}}
		put := func(name, role string, stmts []model.Stmt) {
			marked := model.PrintStmts(stmts, model.Style{Layout: model.SpaceLayout, Marks: true})
			src, spans := model.StripMarks(marked)
			ft.files[name] = src
			ft.spans[name] = spans
			ft.role[name] = role
		}
		box := model.Component{Name: "widgets/box", Args: &model.ObjLit{Keys: []string{"t"}, Vals: []model.Expr{model.StrLit{S: "hello"}}},
			Slots: []model.SlotBody{{Name: "", Body: []model.Stmt{model.Text{S: "slot body"}}}, {Name: "foot", Body: []model.Stmt{model.Text{S: "foot body"}}}}}
		put("base/frame.tw", "layout", lay1)
		put("widgets/box.tw", "component", []model.Stmt{model.Text{S: "<box>"}, model.Print{E: model.Var{Name: "t"}}, model.Text{S: ":"}, model.SlotRef{Name: ""}, model.Text{S: "|"}, model.SlotRef{Name: "foot"}, model.Text{S: "</box>"}})
		put("ui/badge.tw", "component", []model.Stmt{model.Text{S: "<badge>"}, model.If{Conds: []model.Expr{model.Lit{V: model.Bool(true)}}, Bodies: [][]model.Stmt{{model.Text{S: "b"}}}}, model.Text{S: "</badge>"}})
		put("a.tw", "page", []model.Stmt{model.Use{Name: "base/frame"}, model.Insert{Name: "title", E: model.StrLit{S: "A"}}, model.Insert{Name: "body", Block: []model.Stmt{model.Text{S: "<main>"}, box, model.Component{Name: "ui/badge"}, model.Text{S: "</main>"}}}})
		put("blog/post.tw", "page", []model.Stmt{model.Text{S: "post "}, box, model.Text{S: " end"}})
		put("zz/last.tw", "page", []model.Stmt{model.Text{S: "last "}, box, model.Component{Name: "ui/badge"}, model.Text{S: " end"}})
		ft.usedBy["base/frame.tw"] = "a.tw"
		ft.usedBy["widgets/box.tw"] = "a.tw"
		ft.usedBy["ui/badge.tw"] = "a.tw"
		out = append(out, ft)
	}
	// names that end in the extension themselves (the files carry it twice), next to files whose names are those names
	{
		ft := faultTree{files: map[string]string{}, spans: map[string][]model.Span{}, role: map[string]string{}, usedBy: map[string]string{}}
		put := func(name, role string, stmts []model.Stmt) {
			marked := model.PrintStmts(stmts, model.Style{Layout: model.SpaceLayout, Marks: true})
			src, spans := model.StripMarks(marked)
			ft.files[name] = src
			ft.spans[name] = spans
			ft.role[name] = role
		}
		put("base.tw.tw", "layout", lay1)
		put("parts/card.tw.tw", "component", []model.Stmt{model.Text{S: "<card>"}, model.Print{E: model.Var{Name: "t"}}, model.Text{S: "</card>"}})
		put("index.tw", "page", []model.Stmt{model.Use{Name: "base.tw"}, model.Insert{Name: "title", E: model.StrLit{S: "I"}}, model.Insert{Name: "body", Block: []model.Stmt{model.Text{S: "<main>"},
			model.Component{Name: "parts/card.tw", Args: &model.ObjLit{Keys: []string{"t"}, Vals: []model.Expr{model.StrLit{S: "hello"}}}}, model.Text{S: "</main>"}}}})
		// (the near misses: a second layout with the same reserves, a second component with the same argument)
		put("base.tw", "layout", append([]model.Stmt{model.Text{S: "near miss "}}, lay1...))
		put("parts/card.tw", "component", []model.Stmt{model.Text{S: "<near>"}, model.Print{E: model.Var{Name: "t"}}, model.Text{S: "</near>"}})
		put("zz.tw", "page", []model.Stmt{model.Use{Name: "base"}, model.Insert{Name: "body", Block: []model.Stmt{model.Component{Name: "parts/card", Args: &model.ObjLit{Keys: []string{"t"}, Vals: []model.Expr{model.StrLit{S: "z"}}}}}}})
		// names with the alias character in their middle, at their end, and behind the alias itself
		put("layouts/base~v2.tw", "layout", append([]model.Stmt{model.Text{S: "v2 "}}, lay1...))
		put("components/card~small.tw", "component", []model.Stmt{model.Text{S: "<small>"}, model.Print{E: model.Var{Name: "t"}}, model.Text{S: "</small>"}})
		put("components/~tilde.tw", "component", []model.Stmt{model.Text{S: "<tilde>"}, model.Print{E: model.Var{Name: "t"}}, model.Text{S: "</tilde>"}})
		put("tilde.tw", "page", []model.Stmt{model.Use{Name: "~base~v2"}, model.Insert{Name: "title", E: model.StrLit{S: "T"}}, model.Insert{Name: "body", Block: []model.Stmt{
			model.Component{Name: "components/card~small", Args: &model.ObjLit{Keys: []string{"t"}, Vals: []model.Expr{model.StrLit{S: "a"}}}},
			model.Component{Name: "~card~small", Args: &model.ObjLit{Keys: []string{"t"}, Vals: []model.Expr{model.StrLit{S: "b"}}}},
			model.Component{Name: "~~tilde", Args: &model.ObjLit{Keys: []string{"t"}, Vals: []model.Expr{model.StrLit{S: "c"}}}}}}})
		put("tilde2.tw", "page", []model.Stmt{model.Use{Name: "layouts/base~v2"}, model.Insert{Name: "body", E: model.StrLit{S: "x~y"}}})
		ft.usedBy["layouts/base~v2.tw"] = "tilde.tw"
		ft.usedBy["components/card~small.tw"] = "tilde.tw"
		ft.usedBy["components/~tilde.tw"] = "tilde.tw"
		ft.usedBy["base.tw.tw"] = "index.tw"
		ft.usedBy["parts/card.tw.tw"] = "index.tw"
		ft.usedBy["base.tw"] = "zz.tw"
		ft.usedBy["parts/card.tw"] = "zz.tw"
		out = append(out, ft)
	}
	return out
}

var garbage = []string{"@if(true)x", "{{ \"abc", "{{-- x", "@each(v in", "{{ 1 +", "{{ # }}", "@component(\"x\"", "{{ {a: 1", "@for(;", "@insert(\"a\"",
	// complete statements that are wrong in themselves (no prefix of a valid file looks like them)
	"@component(\"item\", 5)", "@component(\"x\", \"y\")", "@component(\"x\", name)", "@component(\"x\", [1, 2])", "@component(\"x\", {a: 1}, 2)", "@if(a b)x@end", "@each(x y)a@end", "@each(x in)a@end",
	"@for(i = 0; i < 3; i++; j = 1)y@end", "{{ x = }}", "{{ a ? b }}", "@if(a)x@else y@else z@end", "@if(a)x@else y@elseif(b)z@end", "@insert()", "@use()", "@reserve()", "{{ [1 2] }}", "{{ {a 1} }}", "{{ x. }}",
	"{{ 99999999999999999999 }}", "@slot(\"a\", \"b\")", "@breakIf()", "{{ 1 + }} rest of the page", "fine so far\n\n@each(v in [1, 2])\n{{ v }}\n@end\n{{ ) }}",
	// one insert name passed twice, in every pairing of the two forms
	"@insert(\"t\", 1)@insert(\"t\", 2)", "@insert(\"t\", 1)\n@insert(\"t\")x@end", "@insert(\"t\")x@end\n@insert(\"t\")y@end", "@insert(\"t\")x@end@insert(\"t\", 2)", "@insert(\"a\", 1)@insert(\"t\")x@end@insert(\"b\")y@end@insert(\"t\")z@end"}

// runFaults applies every fault to one file of a valid tree
func runFaults(c *core.Ctx, ft faultTree, file string) {
	root := "ft"
	abs := func(f string) string { p, _ := filepath.Abs(filepath.Join(root, f)); return p }
	restore := func() bool {
		os.RemoveAll(root)
		if err := writeFiles(root, ft.files); err != nil {
			c.Inconclusive(err.Error())
			return false
		}
		return true
	}
	role := ft.role[file]
	// what identifies the file in an error: its path; when it is absent also the name it is used by
	short := strings.TrimSuffix(file, ".tw")
	ident := []string{abs(file), short, strings.TrimPrefix(strings.TrimPrefix(short, "layouts/"), "components/")}
	check := func(fault string, mustFail bool, apply func() error) {
		if !restore() {
			return
		}
		// the valid tree loads first, in this process, from these very paths
		if tpl, err, panicked := newTemplate(c, root, ".tw"); panicked || err != nil || tpl == nil {
			if !panicked {
				c.Violation("faults:valid-tree-rejected", fmt.Sprintf("the valid tree did not load: %v", err), map[string]any{"files": describeFiles(ft.files)})
			}
			return
		}
		if err := apply(); err != nil {
			c.Inconclusive("cannot apply fault: " + err.Error())
			return
		}
		desc := map[string]any{"file": file, "role": role, "fault": fault}
		c.Input(desc)
		tpl, err, panicked := newTemplate(c, root, ".tw")
		c.Nontrivial(fmt.Sprint(file, "|", fault, "|", ft.files[file]))
		c.Count("faults_applied", 1)
		if panicked {
			return
		}
		if (tpl == nil) == (err == nil) {
			c.Violation("faults:load-contract", fmt.Sprintf("NewTemplate returned template=%v error=%v", tpl != nil, err), desc)
			return
		}
		if err == nil {
			if mustFail {
				c.Violation("faults:accepted:"+faultClass(fault), fmt.Sprintf("%s %s (%s) but loading succeeded", role, file, fault), desc)
			} else {
				c.Count("faults_tolerated_as_allowed", 1)
			}
			return
		}
		c.Count("faults_reported", 1)
		if !mustFail {
			return
		}
		named := false
		for _, id := range ident {
			if id != "" && strings.Contains(err.Error(), id) {
				named = true
			}
		}
		if !named {
			c.Violation("faults:unidentified:"+faultClass(fault), fmt.Sprintf("the load error does not identify %s: %s", file, err.Error()), desc)
		}
	}
	p := filepath.Join(root, file)
	used := role != "page"
	check("deleted", used, func() error { return os.Remove(p) })
	check("dangling symlink", true, func() error { os.Remove(p); return os.Symlink("no-such-target", p) })
	check("symlink loop", true, func() error {
		os.Remove(p)
		os.Symlink(filepath.Base(p)+".loop", p)
		return os.Symlink(filepath.Base(p), p+".loop")
	})
	check("directory in its place", used, func() error { os.Remove(p); return os.Mkdir(p, 0o755) })
	check("empty file", false, func() error { return os.WriteFile(p, nil, 0o644) })
	for _, g := range garbage {
		g := g
		check("garbage "+g, true, func() error { return os.WriteFile(p, []byte(g), 0o644) })
	}
	src := ft.files[file]
	if len(src) >= 8 {
		// faulty bytes of the same length, written with the modification time the file had when the valid tree was loaded
		for _, head := range []string{"{{ # }}", "@if(x)", "{{ \"ab"} {
			bad := head + strings.Repeat("x", len(src)-len(head))
			check("same-size garbage with the old modification time: "+head, true, func() error {
				st, err := os.Stat(p)
				if err != nil {
					return err
				}
				if err := os.WriteFile(p, []byte(bad), 0o644); err != nil {
					return err
				}
				return os.Chtimes(p, st.ModTime(), st.ModTime())
			})
		}
	}
	for o := 0; o < len(src); o++ {
		o := o
		must := insideSpan(ft.spans[file], o) != ""
		check(fmt.Sprintf("truncated at %d", o), must, func() error { return os.WriteFile(p, []byte(src[:o]), 0o644) })
	}
	os.RemoveAll(root)
}

func faultClass(f string) string {
	if i := strings.IndexByte(f, ' '); i > 0 && (strings.HasPrefix(f, "garbage") || strings.HasPrefix(f, "truncated")) {
		return f[:i]
	}
	return strings.ReplaceAll(f, " ", "-")
}
