package checks

import (
	"fmt"
	"math/rand"
	"sort"
	"strings"

	textwire "github.com/textwire/textwire/v2"
	"github.com/textwire/textwire/v2/fail"

	"verif/core"
	"verif/model"
)

// tmplTree is a template directory as a structure: registered name ->
// statements. It is printed to files for the real loader and handed to the
// model interpreter as it is.
type tmplTree struct {
	files map[string][]model.Stmt
	dir   string // as given to the configuration
	ext   string
}

func newTree(dir, ext string) *tmplTree {
	return &tmplTree{files: map[string][]model.Stmt{}, dir: dir, ext: ext}
}

func (t *tmplTree) names() []string {
	var out []string
	for n := range t.files {
		out = append(out, n)
	}
	sort.Strings(out)
	return out
}

// sources prints every file; keys are paths relative to the directory
func (t *tmplTree) sources(st model.Style) map[string]string {
	out := map[string]string{}
	for n, stmts := range t.files {
		out[n+t.ext] = model.PrintStmts(stmts, st)
	}
	return out
}

func (t *tmplTree) interp() *model.Interp {
	in := model.NewInterp()
	modelTracers(in)
	in.Files = map[string]*model.File{}
	for n, stmts := range t.files {
		in.Files[n] = &model.File{Name: n, Stmts: stmts}
	}
	return in
}

// expectPage is the model's render of one page
func (t *tmplTree) expectPage(name string, data map[string]model.Value) Expect {
	in := t.interp()
	out, err := in.RenderPage(name, data)
	return toExpect(in, out, err)
}

// renderPage renders a page with the loaded real templates
func renderPage(c *core.Ctx, tpl *textwire.Template, name string, data map[string]any) (Outcome, *fail.Error) {
	var o Outcome
	var fe *fail.Error
	c.Eval(1)
	o.Panicked = c.Guard(func() {
		out, e := tpl.String(name, data)
		o.Out = out
		if e != nil {
			fe = e
			o.Err = e.Error()
		}
	})
	if !o.Panicked && fe == nil && !strings.Contains(name, "shuffle") {
		poolAddEntry(c, pooledEval{src: name, data: data, want: outcomeText(o.Out, nil), tpl: tpl})
	}
	// a page that renders is written by Response as it is returned by String (every check that renders pages of a tree
	// sees this entry point too); the tracer log of the caller is left as it was
	if !o.Panicked && fe == nil && len(o.Out) < 64<<10 && !strings.Contains(name, "shuffle") && !strings.Contains(o.Out, "textwire-dump") && c.Check.ID != "C15" && c.Check.ID != "C20" {
		traceMu.Lock()
		saved := append([]model.Event(nil), traceLog...)
		traceMu.Unlock()
		rec := newRecorder()
		var rerr error
		c.Eval(1)
		panicked := c.Guard(func() { rerr = tpl.Response(rec, name, data) })
		traceMu.Lock()
		traceLog = append(traceLog[:0], saved...)
		traceMu.Unlock()
		if !panicked && (rerr != nil || rec.body.String() != o.Out) {
			c.Violation("response-differs-from-string", fmt.Sprintf("Response(%s) wrote %q (error %v), String returns %q", name, clipS(rec.body.String(), 300), rerr, clipS(o.Out, 300)), map[string]any{"page": name})
		}
	}
	return o, fe
}

var treeConfigs = []struct{ dir, cleanDir, ext string }{
	{"tpl", "tpl", ".tw"},
	{"views/nested", "views/nested", ".tw.html"},
	{"tpl/", "tpl", ".html"},
	{"./tpl", "tpl", ".tw"},
	// dots at either end of a directory name, and a spelling that needs cleaning
	{"v1.", "v1.", ".tw"},
	{".hid/tpl.", ".hid/tpl.", ".tw.html"},
	{"./tpl.d/", "tpl.d", ".html"},
	{"tpl/../tpl", "tpl", ".tw"},
}

// dataVariants gives a few data maps for one generated tree
func dataVariants(r *rand.Rand, base map[string]model.Value) []map[string]model.Value {
	alt := map[string]model.Value{}
	for k, v := range base {
		alt[k] = v
	}
	alt["di"] = model.Int(int64(r.Intn(9) - 4))
	alt["ds"] = model.Str([]string{"", "alt", "<i>x</i>"}[r.Intn(3)])
	alt["db"] = model.Bool(!base["db"].B)
	alt["da"] = model.Arr(model.Int(int64(r.Intn(5))), model.Int(8))
	alt["de"] = model.Arr()
	return []map[string]model.Value{base, alt}
}

func describeFiles(files map[string]string) map[string]any {
	out := map[string]any{}
	for k, v := range files {
		out[k] = v
	}
	return out
}

// insertReserves places each reserve once at a random position of the tree:
// top level, inside @if branches or inside @each bodies
func insertReserves(r *rand.Rand, stmts []model.Stmt, names []string) []model.Stmt {
	for _, n := range names {
		stmts = placeStmt(r, stmts, model.Reserve{Name: n}, 3)
	}
	return stmts
}

func placeStmt(r *rand.Rand, stmts []model.Stmt, s model.Stmt, depth int) []model.Stmt {
	// candidate containers at this level
	type slot struct {
		idx  int
		kind int // 0 if-body, 1 if-else, 2 each-body, 3 each-else
		sub  int
	}
	var slots []slot
	if depth > 0 {
		for i, st := range stmts {
			switch n := st.(type) {
			case model.If:
				for b := range n.Bodies {
					slots = append(slots, slot{i, 0, b})
				}
				if n.Else != nil {
					slots = append(slots, slot{i, 1, 0})
				}
			case model.Each:
				slots = append(slots, slot{i, 2, 0})
				if n.Else != nil {
					slots = append(slots, slot{i, 3, 0})
				}
			}
		}
	}
	if len(slots) == 0 || r.Intn(3) == 0 {
		pos := 1
		if len(stmts) > 1 {
			pos = 1 + r.Intn(len(stmts))
		} else {
			pos = len(stmts)
		}
		out := append([]model.Stmt{}, stmts[:pos]...)
		out = append(out, s)
		return append(out, stmts[pos:]...)
	}
	sl := slots[r.Intn(len(slots))]
	out := append([]model.Stmt{}, stmts...)
	switch n := out[sl.idx].(type) {
	case model.If:
		cp := n
		if sl.kind == 0 {
			cp.Bodies = append([][]model.Stmt{}, n.Bodies...)
			cp.Bodies[sl.sub] = placeStmt(r, n.Bodies[sl.sub], s, depth-1)
		} else {
			cp.Else = placeStmt(r, n.Else, s, depth-1)
		}
		out[sl.idx] = cp
	case model.Each:
		cp := n
		if sl.kind == 2 {
			cp.Body = placeStmt(r, n.Body, s, depth-1)
		} else {
			cp.Else = placeStmt(r, n.Else, s, depth-1)
		}
		out[sl.idx] = cp
	}
	return out
}

func fmtNames(prefix string, n int) []string {
	var out []string
	for i := 0; i < n; i++ {
		out = append(out, fmt.Sprintf("%s%d", prefix, i))
	}
	return out
}

// dataLessStep is one render of a page of a loaded tree without any data
type dataLessStep struct {
	page  string
	want  string
	fails bool
}

// judgeDataLessSequence loads the tree once and renders the pages in order, each with nil data (first round) and with an
// empty map (second round) and with alternating ones (third): every render gives what the page gives on its own - what an
// earlier render assigned is gone
func judgeDataLessSequence(c *core.Ctx, dir string, files map[string]string, steps []dataLessStep, kind string) {
	tpl, err := loadTree(c, dir, files, ".tw")
	c.Nontrivial(fmt.Sprint(kind, files, steps))
	if err != nil {
		c.Violation(kind+":load-failed", "a valid tree was rejected: "+err.Error(), map[string]any{"files": describeFiles(files)})
		return
	}
	if tpl == nil {
		return
	}
	for round := 0; round < 3; round++ {
		for k, st := range steps {
			var data map[string]any
			if round == 1 || round == 2 && k%2 == 1 {
				data = map[string]any{}
			}
			got, _ := renderPage(c, tpl, st.page, data)
			if got.Panicked {
				return
			}
			desc := map[string]any{"files": describeFiles(files), "renders_so_far": k + round*len(steps), "page": st.page, "data": fmt.Sprintf("%#v", data)}
			switch {
			case st.fails && got.Err == nil:
				c.Violation(kind+":render-succeeded", fmt.Sprintf("render %d (round %d) of page %q without data gave %q; on its own the page fails (it reads a name nothing in this render binds)", k+1, round+1, st.page, got.Out), desc)
				return
			case !st.fails && (got.Err != nil || got.Out != st.want):
				c.Violation(kind+":render-differs", fmt.Sprintf("render %d (round %d) of page %q without data gave %s, on its own it gives %q", k+1, round+1, st.page, got.Describe(), st.want), desc)
				return
			}
		}
	}
}
