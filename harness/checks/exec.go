package checks

import (
	"errors"
	"fmt"
	"regexp"
	"strconv"
	"strings"
	"sync"

	textwire "github.com/textwire/textwire/v2"

	"verif/core"
	"verif/model"
)

// Outcome of one call into the real code
type Outcome struct {
	Out      string
	Err      error
	Panicked bool
}

func (o Outcome) Failed() bool { return o.Err != nil || o.Panicked }

func (o Outcome) Describe() string {
	if o.Panicked {
		return "panic"
	}
	if o.Err != nil {
		return "error: " + o.Err.Error()
	}
	return fmt.Sprintf("output %q", o.Out)
}

var errHeadRe = regexp.MustCompile(`^\[Textwire ERROR(?: in (.*))?:(\d+)\]:\n`)

// ErrLinePath extracts line and path from the text of a Textwire error
func ErrLinePath(err error) (line int, path string, ok bool) {
	if err == nil {
		return 0, "", false
	}
	m := errHeadRe.FindStringSubmatch(err.Error())
	if m == nil {
		return 0, "", false
	}
	line, _ = strconv.Atoi(m[2])
	return line, m[1], true
}

func ErrMessage(err error) string {
	if err == nil {
		return ""
	}
	return errHeadRe.ReplaceAllString(err.Error(), "")
}

// evalString runs EvaluateString under the panic monitor
func evalString(c *core.Ctx, src string, data map[string]any) Outcome {
	var o Outcome
	c.Eval(1)
	o.Panicked = c.Guard(func() {
		o.Out, o.Err = textwire.EvaluateString(src, data)
	})
	if !o.Panicked {
		poolAdd(c, src, data, o)
	}
	return o
}

// ---- concurrent replay ----
//
// Checks that opt in keep an even sample of what their cases evaluated through evalString (source,
// data, outcome when evaluated alone). Their last section evaluates the sample again from several
// goroutines at once: every evaluation must return what it returned alone. A replay of that section
// alone first runs the head of the other sections to fill the sample.

var replayChecks = map[string]bool{"C01": true, "C02": true, "C03": true, "C04": true, "C05": true, "C06": true, "C07": true, "C09": true, "C10": true, "C12": true, "C13": true}

type pooledEval struct {
	src  string
	data map[string]any
	want string
	// for renders of a page of a loaded Template (successful ones only: what a failing render reports depends on the
	// configuration of the moment)
	tpl *textwire.Template
}

type evalPool struct {
	entries []pooledEval
	seen    int
	stride  int
}

const evalPoolCap = 384

func outcomeText(out string, err error) string {
	if err != nil {
		return "error: " + err.Error()
	}
	return "output: " + out
}

func poolAdd(c *core.Ctx, src string, data map[string]any, o Outcome) {
	poolAddEntry(c, pooledEval{src: src, data: data, want: outcomeText(o.Out, o.Err)})
}

// poolPause keeps what is evaluated until resume() out of the sample (for cases that change their data in place
// between renders: the sample holds the data by reference)
func poolPause(c *core.Ctx) (resume func()) {
	c.State["eval-pool-paused"] = true
	return func() { delete(c.State, "eval-pool-paused") }
}

func poolAddEntry(c *core.Ctx, e pooledEval) {
	src := e.src
	if c.State["eval-pool-paused"] != nil {
		return
	}
	if !replayChecks[c.Check.ID] || len(src) > 32<<10 || len(e.want) > 1<<20 || c.Section == "concurrent-replay" {
		return
	}
	if strings.Contains(src, "shuffle") || strings.Contains(src, "rand") {
		return // the only results that may vary
	}
	if strings.Contains(e.want, "textwire-dump") {
		return // what @dump writes is fixed by no statement (for a failing argument it shows the fault, path included)
	}
	p, _ := c.State["eval-pool"].(*evalPool)
	if p == nil {
		p = &evalPool{stride: 1}
		c.State["eval-pool"] = p
	}
	p.seen++
	if p.seen%p.stride != 0 {
		return
	}
	p.entries = append(p.entries, e)
	if len(p.entries) >= evalPoolCap {
		kept := p.entries[:0]
		for k, e := range p.entries {
			if k%2 == 0 {
				kept = append(kept, e)
			}
		}
		p.entries = kept
		p.stride *= 2
	}
}

func concurrentReplaySection(others func() []core.Section) core.Section {
	return core.Section{Name: "concurrent-replay", N: 32, Run: func(c *core.Ctx, i int) {
		p, _ := c.State["eval-pool"].(*evalPool)
		if (p == nil || len(p.entries) == 0) && c.Replay {
			for _, sec := range others() {
				sec := sec
				for k := 0; k < sec.N && k < 24; k++ {
					c.RunOther(&sec, k)
				}
			}
			p, _ = c.State["eval-pool"].(*evalPool)
		}
		if p == nil || len(p.entries) == 0 {
			c.Count("concurrent_replays_without_a_sample", 1)
			return
		}
		entries := append([]pooledEval(nil), p.entries...)
		const G = 8
		type bad struct {
			e   pooledEval
			got string
		}
		var mu sync.Mutex
		var bads []bad
		var wg sync.WaitGroup
		start := make(chan struct{})
		for g := 0; g < G; g++ {
			wg.Add(1)
			go func(g int) {
				defer wg.Done()
				defer func() {
					if r := recover(); r != nil {
						mu.Lock()
						bads = append(bads, bad{pooledEval{src: "(goroutine)"}, fmt.Sprint("panic: ", r)})
						mu.Unlock()
					}
				}()
				<-start
				for n := range entries {
					e := entries[(n+g*len(entries)/G)%len(entries)]
					var out string
					var err error
					if e.tpl != nil {
						o, fe := e.tpl.String(e.src, e.data)
						out = o
						if fe != nil {
							err = fe.Error()
						}
					} else {
						out, err = textwire.EvaluateString(e.src, e.data)
					}
					if got := outcomeText(out, err); got != e.want {
						mu.Lock()
						bads = append(bads, bad{e, got})
						mu.Unlock()
					}
				}
			}(g)
		}
		close(start)
		wg.Wait()
		c.Eval(G * len(entries))
		c.Count("concurrent_replay_evaluations", G*len(entries))
		c.Nontrivial(fmt.Sprint("concurrent-replay", i, c.Seed, len(entries)))
		if i == 0 {
			c.Sample(map[string]any{"goroutines": G, "sampled_evaluations": len(entries), "sampled_one_in": p.stride})
		}
		for k, b := range bads {
			if k >= 3 {
				break
			}
			c.Violation("concurrent-replay", fmt.Sprintf("evaluated next to other goroutines %q gave %q, alone it gave %q", clipS(b.e.src, 300), clipS(b.got, 300), clipS(b.e.want, 300)), map[string]any{"source": clipS(b.e.src, 2000)})
		}
	}}
}

func init() {
	// (this file's init runs after those of c01.go … c20.go: the checks are registered)
	for id := range replayChecks {
		ch := core.Lookup(id)
		if ch == nil {
			continue
		}
		inner := ch.Sections
		ch.Sections = func(tier core.Tier, seed int64) []core.Section {
			secs := inner(tier, seed)
			return append(secs, concurrentReplaySection(func() []core.Section { return inner(tier, seed) }))
		}
	}
}

// ---- tracer probes ----
//
// tr(id) is registered as a custom function for every receiver type. It
// appends (id, receiver) to an event log and returns its receiver, so a
// render produces a log from inside the evaluator.

var (
	traceMu  sync.Mutex
	traceLog []model.Event
)

func traceReset() {
	traceMu.Lock()
	traceLog = traceLog[:0]
	traceMu.Unlock()
}

func traceTake() []model.Event {
	traceMu.Lock()
	out := append([]model.Event(nil), traceLog...)
	traceLog = traceLog[:0]
	traceMu.Unlock()
	return out
}

func traceAdd(args []any, recv any) {
	var id int64 = -1
	if len(args) > 0 {
		switch t := args[0].(type) {
		case int64:
			id = t
		case int:
			id = int64(t)
		}
	}
	v, _ := model.FromNative(recv)
	traceMu.Lock()
	traceLog = append(traceLog, model.Event{ID: id, Val: v.Describe()})
	traceMu.Unlock()
}

// registerTracers resets the package-level state and registers tr for
// the five receiver types
func registerTracers() error {
	textwire.VerifReset()
	return registerTracersNoReset()
}

func registerTracersNoReset() error {
	var errs []error
	errs = append(errs, textwire.RegisterStrFunc("tr", func(s string, args ...any) string { traceAdd(args, s); return s }))
	errs = append(errs, textwire.RegisterArrFunc("tr", func(a []any, args ...any) []any {
		if a == nil {
			a = []any{}
		}
		traceAdd(args, a)
		return a
	}))
	errs = append(errs, textwire.RegisterIntFunc("tr", func(i int, args ...any) int { traceAdd(args, i); return i }))
	errs = append(errs, textwire.RegisterFloatFunc("tr", func(f float64, args ...any) float64 { traceAdd(args, f); return f }))
	errs = append(errs, textwire.RegisterBoolFunc("tr", func(b bool, args ...any) bool { traceAdd(args, b); return b }))
	return errors.Join(errs...)
}

// modelTracers gives the model interpreter the same probes
func modelTracers(in *model.Interp) {
	for _, k := range []model.Kind{model.KStr, model.KArr, model.KInt, model.KFloat, model.KBool} {
		in.Custom[k.String()+".tr"] = func(recv model.Value, args []model.Value) (model.Value, error) {
			var id int64 = -1
			if len(args) > 0 && args[0].K == model.KInt {
				id = args[0].I
			}
			in.Events = append(in.Events, model.Event{ID: id, Val: recv.Describe()})
			return recv, nil
		}
	}
}

func eventsEqual(a, b []model.Event) bool {
	if len(a) != len(b) {
		return false
	}
	for i := range a {
		if a[i] != b[i] {
			return false
		}
	}
	return true
}

func describeEvents(ev []model.Event) []string {
	out := make([]string, 0, len(ev))
	for i, e := range ev {
		if i >= 40 {
			out = append(out, "…")
			break
		}
		out = append(out, fmt.Sprintf("%d=%s", e.ID, e.Val))
	}
	return out
}

// Expectation of the model for one program
type Expect struct {
	Out         string
	Fails       bool
	Unspecified bool
	Events      []model.Event
}

// expectRun renders statements with the model
func expectRun(stmts []model.Stmt, data map[string]model.Value) Expect {
	in := model.NewInterp()
	modelTracers(in)
	out, err := in.Run(stmts, data)
	return toExpect(in, out, err)
}

func toExpect(in *model.Interp, out string, err error) Expect {
	switch {
	case err == nil:
		return Expect{Out: out, Events: in.Events}
	case errors.Is(err, model.ErrUnspecified):
		return Expect{Unspecified: true}
	default:
		return Expect{Fails: true}
	}
}

// compare judges an outcome of the real code against the model; it
// returns "" when they agree
func compare(exp Expect, got Outcome, withEvents bool, gotEvents []model.Event) string {
	if got.Panicked {
		return "" // already reported by the panic monitor
	}
	if exp.Unspecified {
		return ""
	}
	if exp.Fails {
		if got.Err == nil {
			return fmt.Sprintf("the render must fail with an error but produced %q", got.Out)
		}
		return ""
	}
	if got.Err != nil {
		return fmt.Sprintf("the render must produce %q but failed: %s", exp.Out, got.Err.Error())
	}
	if got.Out != exp.Out {
		return fmt.Sprintf("rendered %q, the model gives %q", got.Out, exp.Out)
	}
	if withEvents && !eventsEqual(exp.Events, gotEvents) {
		return fmt.Sprintf("evaluation trace %v differs from the model's %v", describeEvents(gotEvents), describeEvents(exp.Events))
	}
	return ""
}

// concurrentBurst runs G goroutines that each evaluate N inputs made by mk
// (fresh per goroutine and step) through EvaluateString. Every result must
// equal want. State that the library memoises per name, text or type is
// filled in under contention here; an unsynchronised map usually ends the
// process (the supervisor then reports the case in flight).
func concurrentBurst(c *core.Ctx, G, N int, mk func(g, n int) (src string, data map[string]any, want string)) {
	type bad struct{ src, got, want string }
	var mu sync.Mutex
	var bads []bad
	var wg sync.WaitGroup
	start := make(chan struct{})
	for g := 0; g < G; g++ {
		wg.Add(1)
		go func(g int) {
			defer wg.Done()
			defer func() {
				if r := recover(); r != nil {
					mu.Lock()
					bads = append(bads, bad{"(goroutine)", fmt.Sprint("panic: ", r), ""})
					mu.Unlock()
				}
			}()
			<-start
			for n := 0; n < N; n++ {
				src, data, want := mk(g, n)
				out, err := textwire.EvaluateString(src, data)
				got := out
				if err != nil {
					got = "error: " + err.Error()
				}
				if got != want {
					mu.Lock()
					bads = append(bads, bad{src, got, want})
					mu.Unlock()
				}
			}
		}(g)
	}
	close(start)
	wg.Wait()
	c.Eval(G * N)
	c.Count("concurrent_evaluations", G*N)
	for i, b := range bads {
		if i >= 3 {
			break
		}
		c.Violation("concurrent-burst", fmt.Sprintf("evaluated next to other goroutines %q gave %q, want %q", clipS(b.src, 200), clipS(b.got, 300), clipS(b.want, 300)), map[string]any{"source": b.src})
	}
}

// fmtMarker finds what Go's fmt leaves behind when a finished message is used as a format string
func fmtMarker(s string) string {
	for _, m := range []string{"%!", "(MISSING)", "(EXTRA ", "(NOVERB)", "(BADINDEX)", "(BADWIDTH)", "(BADPREC)"} {
		if strings.Contains(s, m) {
			return m
		}
	}
	return ""
}
