package checks

import (
	"fmt"
	"os"
	"path/filepath"
	"strings"

	textwire "github.com/textwire/textwire/v2"
	"github.com/textwire/textwire/v2/config"

	"verif/core"
	"verif/model"
)

// C17 — Response writes the page or one error page, and leaks no detail
// unless debugging.

const builtinMarker = "<title>Something went wrong</title>"
const customPageSource = "<h1 style=\"width: 100%;\">custom error page CUSTOM-SENTINEL %d %s 50% é中😀</h1>@each(i in [1, 2, 3])<i>{{ i }}</i>@end"
const customPageText = "<h1 style=\"width: 100%;\">custom error page CUSTOM-SENTINEL %d %s 50% é中😀</h1><i>1</i><i>2</i><i>3</i>"

type respPlace struct {
	name string
	// build returns the files and the name to render; fault is the failing construct
	build func(n, i int, fault string) (map[string]string, string)
}

// argExprOf turns a fault written as one {{ }} block into the expression inside it; directives and
// faults made of several statements cannot stand in an argument and are replaced by a division by zero
func argExprOf(fault string) string {
	t := strings.TrimSpace(fault)
	if strings.HasPrefix(t, "@") || strings.Count(t, "{{") != 1 || !strings.HasSuffix(t, "}}") || strings.Contains(t, " = ") {
		return "6 / zero"
	}
	return strings.TrimSuffix(strings.TrimPrefix(t, "{{"), "}}")
}

func sentinelStmts(n, i int, fault string) string {
	var sb strings.Builder
	for k := 0; k < n; k++ {
		if k == i {
			sb.WriteString(fault)
		} else {
			fmt.Fprintf(&sb, "PAGE-SENTINEL-%d 100%% %%d {{ %d }}\n", k, k)
		}
	}
	return sb.String()
}

// tokens that span lines (a comment, a string, a {{ }} block, a directive's arguments) before the statements
const multiLinePrelude = "PAGE-SENTINEL-first\n{{-- a comment\nover three\nlines --}}\n{{ \"x\ny\".len() }}{{\n 1\n}}\n@if(\n true\n)PAGE-SENTINEL-in-if@end {{-- é\n中 --}}\n"

var respPlaces = []respPlace{
	{"top-level", func(n, i int, fault string) (map[string]string, string) {
		return map[string]string{"page.tw": sentinelStmts(n, i, fault)}, "page"
	}},
	{"after-crlf-lines", func(n, i int, fault string) (map[string]string, string) {
		return map[string]string{"page.tw": "PAGE-SENTINEL-first\r\nPAGE-SENTINEL-second\r\n" + sentinelStmts(n, i, fault)}, "page"
	}},
	{"after-multi-line-tokens", func(n, i int, fault string) (map[string]string, string) {
		return map[string]string{"page.tw": multiLinePrelude + sentinelStmts(n, i, fault)}, "page"
	}},
	{"name-ending-in-extension", func(n, i int, fault string) (map[string]string, string) {
		return map[string]string{"page.tw": "PAGE-SENTINEL-other", "report.tw.tw": sentinelStmts(n, i, fault), "report.tw": "PAGE-SENTINEL-near-miss {{ 1 }}"}, "report.tw"
	}},
	{"after-nested-render", func(n, i int, fault string) (map[string]string, string) {
		// a registered function renders another template of the same tree while the page is being rendered
		return map[string]string{"partials/menu.tw": "<menu>{{ 1 + 1 }}</menu>", "page.tw": "PAGE-SENTINEL-top {{ \"partials/menu\".include() }}\n" + sentinelStmts(n, i, fault) + "{{ \"partials/menu\".include() }}"}, "page"
	}},
	{"page-in-dot-directory", func(n, i int, fault string) (map[string]string, string) {
		return map[string]string{".drafts/post.tw": sentinelStmts(n, i, fault), "page.tw": "PAGE-SENTINEL-other"}, ".drafts/post"
	}},
	{"after-nil-insert-arguments", func(n, i int, fault string) (map[string]string, string) {
		// inserts whose arguments evaluate to nil (a nil in the data, an index out of range, a missing character)
		return map[string]string{
			"layouts/main.tw": "PAGE-SENTINEL-layout <@reserve(\"title\")|@reserve(\"sub\")|@reserve(\"third\")|@reserve(\"body\")> PAGE-SENTINEL-layout-end",
			"page.tw":         "@use(\"~main\")@insert(\"title\", nothing)@insert(\"sub\", rows[9])@insert(\"third\", \"\".at(0))@insert(\"body\")" + sentinelStmts(n, i, fault) + "@end",
		}, "page"
	}},
	{"inside-loop-pass", func(n, i int, fault string) (map[string]string, string) {
		// fails in pass i of n
		return map[string]string{"page.tw": fmt.Sprintf("PAGE-SENTINEL-head\n@each(k in rows)PAGE-SENTINEL-row {{ k }}\n@if(k == %d)%s@end@end PAGE-SENTINEL-tail", i, fault)}, "page"
	}},
	{"inside-insert-block", func(n, i int, fault string) (map[string]string, string) {
		return map[string]string{
			"layouts/main.tw": "PAGE-SENTINEL-layout <@reserve(\"body\")> PAGE-SENTINEL-layout-end",
			"page.tw":         "@use(\"~main\")@insert(\"body\")" + sentinelStmts(n, i, fault) + "@end",
		}, "page"
	}},
	{"inside-layout", func(n, i int, fault string) (map[string]string, string) {
		return map[string]string{
			"layouts/main.tw": sentinelStmts(n, i, fault) + "@reserve(\"body\")",
			"page.tw":         "@use(\"~main\")@insert(\"body\", \"PAGE-SENTINEL-insert\")",
		}, "page"
	}},
	{"inside-component-file", func(n, i int, fault string) (map[string]string, string) {
		return map[string]string{
			"components/card.tw": "<card>" + sentinelStmts(n, i, fault) + "</card>",
			"page.tw":            "PAGE-SENTINEL-before @component(\"~card\") PAGE-SENTINEL-after",
		}, "page"
	}},
	{"inside-slot-body", func(n, i int, fault string) (map[string]string, string) {
		return map[string]string{
			"components/card.tw": "<card>PAGE-SENTINEL-comp @slot @slot(\"foot\")</card>",
			"page.tw":            "PAGE-SENTINEL-before @component(\"~card\")@slot" + sentinelStmts(n, i, fault) + "@end@slot(\"foot\")PAGE-SENTINEL-foot@end@end PAGE-SENTINEL-after",
		}, "page"
	}},
	{"inside-slot-body-under-crlf", func(n, i int, fault string) (map[string]string, string) {
		// CRLF line ends; the slots stand on the lines after the component, inside a branch whose @else would fail
		return map[string]string{
			"components/card.tw": "<card>PAGE-SENTINEL-comp @slot @slot(\"foot\")</card>",
			"page.tw": "PAGE-SENTINEL-before\r\n@if(rows)\r\n@component(\"~card\")\r\n\t@slot\r\n" + strings.ReplaceAll(sentinelStmts(n, i, fault), "\n", "\r\n") +
				"@end\r\n@slot(\"foot\")\r\nPAGE-SENTINEL-foot\r\n@end\r\n@end\r\n@else\r\n{{ MISSING_IDENT_SENTINEL }}\r\n@end\r\nPAGE-SENTINEL-after\r\n",
		}, "page"
	}},
	{"inside-component-argument", func(n, i int, fault string) (map[string]string, string) {
		expr := argExprOf(fault)
		if i < 0 {
			expr = "\"fine\""
		}
		return map[string]string{
			"components/card.tw": "<card>PAGE-SENTINEL-comp {{ t }}</card>",
			"page.tw":            "PAGE-SENTINEL-before @component(\"~card\", {t: " + expr + "}) PAGE-SENTINEL-after",
		}, "page"
	}},
	{"inside-unread-component-argument", func(n, i int, fault string) (map[string]string, string) {
		expr := argExprOf(fault)
		if i < 0 {
			expr = "\"fine\""
		}
		return map[string]string{
			"components/card.tw": "<card>PAGE-SENTINEL-comp {{ t }}@if(false){{ later }}@end</card>",
			"page.tw":            "PAGE-SENTINEL-before @component(\"~card\", {t: \"shown\", later: " + expr + ", unread: " + expr + "}) PAGE-SENTINEL-after",
		}, "page"
	}},
	{"inside-insert-argument", func(n, i int, fault string) (map[string]string, string) {
		expr := argExprOf(fault)
		if i < 0 {
			expr = "\"fine\""
		}
		return map[string]string{
			"layouts/main.tw": "PAGE-SENTINEL-layout <@reserve(\"title\")|@reserve(\"body\")> PAGE-SENTINEL-layout-end",
			"page.tw":         "@use(\"~main\")@insert(\"title\", \"PAGE-SENTINEL-title\")@insert(\"body\", " + expr + ")",
		}, "page"
	}},
	{"unknown-name", func(n, i int, fault string) (map[string]string, string) {
		return map[string]string{"page.tw": "PAGE-SENTINEL-0"}, "no/such/NAME-SENTINEL"
	}},
	{"layout-name", func(n, i int, fault string) (map[string]string, string) {
		return map[string]string{"layouts/main.tw": "PAGE-SENTINEL-layout @reserve(\"body\")", "page.tw": "@use(\"~main\")"}, "layouts/main"
	}},
}

var respFaults = []string{"{{ 1 / zero }}\n", "{{ MISSING_IDENT_SENTINEL }}\n", "{{ rows.nofn() }}\n", "{{ \"s\" + 1 }}\n",
	// the failing expression is not the first of a list
	"{{ [\"go\", \"html\", MISSING_IDENT_SENTINEL] }}\n", "{{ \"short text\".truncate(50, MISSING_IDENT_SENTINEL) }}\n", "{{ {a: 1, b: 1 / zero}.a }}\n",
	// the fault sits in a loop-control condition, and in an object value that is never read
	"@each(r in rows)PAGE-SENTINEL-inner@continueIf(r / zero)x@end\n", "@each(r in rows)PAGE-SENTINEL-inner@breakIf(MISSING_IDENT_SENTINEL)x@end\n",
	"@each(r in rows)PAGE-SENTINEL-inner@if(r == 2)@continueIf(r.nofn())@end x@end\n",
	"{{ u = {name: \"n\", age: 1 / zero} }}PAGE-SENTINEL-obj {{ u.name }}\n", "{{ [1, MISSING_IDENT_SENTINEL].len() }}\n",
	// a failing @elseif condition after a false @if; a failing argument of a registered custom function
	"@if(zero)PAGE-SENTINEL-a@elseif(MISSING_IDENT_SENTINEL.here)PAGE-SENTINEL-b@else PAGE-SENTINEL-c@end\n",
	"@if(zero)PAGE-SENTINEL-a@elseif(zero)PAGE-SENTINEL-b@elseif(6 / zero)PAGE-SENTINEL-c@end\n",
	"{{ \"PAGE-SENTINEL-arg\".echo(MISSING_IDENT_SENTINEL) }}\n", "{{ \"PAGE-SENTINEL-arg\".echo(1, 6 / zero) }}\n", "{{ rows.echoarr(rows, MISSING_IDENT_SENTINEL.x) }}\n",
	// a missing property whose name starts with a capital, a digit-like or an underscore; a one-element array
	// literal whose element fails; an object assigned to the reserved name inside a loop
	"{{ user.Nmae }}\n", "{{ user['_id'] }}\n", "{{ user.X9.y }}\n", "@each(r in rows)PAGE-SENTINEL-inner{{ loop.Index }}@end\n",
	"{{ [MISSING_IDENT_SENTINEL] }}\n", "{{ [6 / zero].join('-') }}\n", "@each(t in [MISSING_IDENT_SENTINEL])PAGE-SENTINEL-inner@end\n", "{{ [rows.nofn()].len() }}\n",
	"@each(r in rows)PAGE-SENTINEL-inner{{ loop = {index: 7} }}@end\n", "@each(r in rows)PAGE-SENTINEL-inner{{ saved = loop }}{{ loop = saved }}@end\n",
	// a count whose product with the length overflows; a string operator without meaning
	"{{ \"ab\".repeat(4611686018427387904) }}\n", "{{ \"abcd\".repeat(9223372036854775807) }}\n", "{{ \"ab\".repeat(2147483648 * 2147483648) }}\n", "{{ \"a\" % \"b\" }}\n", "{{ \"100%\" - \"50%\" }}\n",
	// the message holds a percent sign
	"{{ 7 % \"2\" }}\n", "{{ \"a\" % 3 }}\n",
	// a name that holds nil re-assigned with a value of a type; a built-in that lacks its argument on a receiver that is
	// empty at run time (what a control directive outside any loop does to the rest of a file is fixed by no statement:
	// not used as a fault)
	"{{ nv = rows.slice(9).rand() }}PAGE-SENTINEL-mid{{ nv = \"s\" }}\n", "{{ nv = nil }}PAGE-SENTINEL-mid{{ nv = 1 }}\n", "@each(v in [\"a\".at(4), 7])PAGE-SENTINEL-inner@end\n", "{{ nv = user.Missing9 }}\n",
	"{{ [].contains() }}\n", "{{ rows.slice(9).contains() }}\n", "{{ \"\".contains() }}\n", "{{ rows.slice(9).join(1, 2) }}\n", "{{ [].slice(\"x\") }}\n", "{{ \"\".truncate() }}\n", "{{ [].append() }}\n",
	// an argument of the wrong kind behind a first argument that already decides the result
	"{{ rows.slice(9, \"10\") }}\n", "{{ rows.slice(4, nil) }}\n", "{{ rows.slice(\"0\") }}\n", "{{ \"\".truncate(\"x\") }}\n", "{{ \"abc\".at(\"1\") }}\n", "{{ \"\".repeat(\"2\") }}\n", "{{ [].join(1) }}\n",
	// a name of the page re-assigned with another type two, three and four blocks further in
	"{{ tt = 0 }}@each(r in rows)PAGE-SENTINEL-inner@if(r > 1){{ tt = \"many\" }}@end@end\n", "{{ tt = 0 }}@if(true)@if(true)@if(true){{ tt = 1.5 }}@end@end@end\n",
	"{{ tt = \"s\" }}@each(r in rows)@for(k = 0; k < 1; k++)@if(r == 3)@each(q in [1]){{ tt = [1] }}@end@end@end@end\n", "{{ tt = [1] }}@if(zero)x@else@if(zero)y@else{{ tt = {a: 1} }}@end@end\n",
	// the page fails in a later pass of a loop, after the loop has produced output
	"@each(r in rows)PAGE-SENTINEL-inner {{ 6 / (2 - r) }}@end\n",
	// a faulty count or index on a receiver that is empty (round 16): the fault is the argument's, whatever the receiver holds
	"{{ \"\".repeat(-1) }}\n", "{{ \"\".repeat(zero - 3) }}\n", "{{ e = \"\" }}PAGE-SENTINEL-mid{{ e.repeat(0 - 1) }}\n", "{{ rows.slice(9).join(\"\").repeat(-2) }}\n"}

// the last two places render a name that is not a page
var firstNamePlace = len(respPlaces) - 2

// the Template being rendered by the response matrix (the include function renders partials of it)
var c17Current *textwire.Template

var errPageModes = []string{"none", "valid", "missing", "failing"}

func init() {
	core.Register(&core.Check{
		ID:    "C17",
		Level: "exploration",
		Rule: "cases are all combinations of {debug on, off} x {no custom error page, a valid one, one whose file is missing, one that fails at run time} x templates that succeed, fail at statement i of n for every i (n <= 4) at top level, in pass i of a loop, inside an insert block, inside the layout, inside a component file, inside a slot body, inside a component argument, inside a component argument the component never reads, inside the expression of a two-argument insert, or name an unknown template or a layout, x 35 run-time fault kinds (two with a percent sign in the message; the directory name holds one too); sequences of 2-4 configurations without a reset in between that differ in the debug flag only (the last one governs); the configurations follow each other in one process in seeded order (a stale page cached from another configuration would show). " +
			"A recording http.ResponseWriter captures body and writes; pages, identifiers, file names and the scratch directory carry sentinels, so 'part of the failed page', 'the message' and 'a path' are substring tests; the expected page is selected by the table of the statement. round 8: places after multi-line tokens and in a name ending in the extension (absolute path:line), a working error page assigning names the data holds; round 9: nested render, dot directories; scale: pages to 8 MiB; rounds 10-11: nil-holding names, argument-less built-ins, deep re-typing; rounds 12-13: error page that becomes usable, nil insert arguments, wrong-kind arguments behind deciding ones, float divisions by zero that have a value; round 14: two appends on one array, unused truncate arguments; round 15: slots after a component under CRLF; round 16: negative counts on empty receivers among the failing pages; distinct_nontrivial = distinct (configuration, place, fault, position) combinations",
		Assumptions: []string{
			"configuration is set through NewTemplate after the verif reset hook (fields are sticky otherwise)",
			"with debug on the line is only checked for being present as ':<line>' after the path",
		},
		Setup: func(c *core.Ctx) {
			textwire.VerifReset()
			textwire.RegisterStrFunc("echo", func(s string, args ...any) string { return s + fmt.Sprint(args...) })
			textwire.RegisterArrFunc("echoarr", func(a []any, args ...any) []any { return append(a, args...) })
			textwire.RegisterStrFunc("include", func(name string, args ...any) string {
				if c17Current == nil {
					return "no template"
				}
				out, fe := c17Current.String(name, nil)
				if fe != nil {
					return "include failed"
				}
				return out
			})
		},
		Sections: func(tier core.Tier, seed int64) []core.Section {
			type combo struct {
				debug  bool
				mode   int
				place  int
				fault  int
				n, pos int
			}
			var combos []combo
			for _, debug := range []bool{false, true} {
				for mode := range errPageModes {
					for place := range respPlaces {
						for fault := range respFaults {
							for n := 1; n <= 4; n++ {
								for pos := -1; pos < n; pos++ { // -1 = the page succeeds
									if place >= firstNamePlace && (pos != 0 || fault != 0 || n != 1) {
										continue
									}
									combos = append(combos, combo{debug, mode, place, fault, n, pos})
								}
							}
						}
					}
				}
			}
			reps := 1
			if tier == core.Thorough {
				reps = 12
			}
			nRandom := 3000
			if tier == core.Thorough {
				nRandom = 600000
			}
			random := core.Section{Name: "generated-pages", N: nRandom, Run: func(c *core.Ctx, i int) {
				g := newStmtGen(c.Rng, stmtGenOpts{MaxDepth: 1 + c.Rng.Intn(3), IfHeavy: i%2 == 0, LoopHeavy: i%3 == 0})
				prog := sentinelTexts(g.program(2 + c.Rng.Intn(5)))
				fault := []model.Stmt{
					model.Print{E: model.Var{Name: "MISSING_IDENT_SENTINEL"}},
					model.Print{E: model.Binary{Op: "/", L: model.Lit{V: model.Int(1)}, R: model.Var{Name: "zero"}}},
					model.Print{E: model.Call{X: model.Var{Name: "di"}, Name: "nofn"}},
				}[c.Rng.Intn(3)]
				// what resembles a fault and is none: a division of floats by zero has a value, and the page goes on
				if i%4 == 1 {
					near := []model.Stmt{
						model.Print{E: model.Binary{Op: "/", L: model.Lit{V: model.Float(1.5)}, R: model.Var{Name: "fzero"}}},
						model.Print{E: model.Binary{Op: "/", L: model.Lit{V: model.Float(-2.0)}, R: model.Lit{V: model.Float(0.0)}}},
						model.Print{E: model.Binary{Op: "/", L: model.Var{Name: "fzero"}, R: model.Binary{Op: "-", L: model.Var{Name: "fzero"}, R: model.Var{Name: "fzero"}}}},
						model.If{Conds: []model.Expr{model.Binary{Op: ">", L: model.Binary{Op: "/", L: model.Lit{V: model.Float(3.0)}, R: model.Var{Name: "fzero"}}, R: model.Lit{V: model.Float(1.0)}}}, Bodies: [][]model.Stmt{{model.Text{S: "unbounded"}}}},
						// two results of append on one array: each holds its own last element
						model.If{Conds: []model.Expr{model.Lit{V: model.Bool(true)}}, Bodies: [][]model.Stmt{{
							model.Assign{Name: "base9", E: intArr(1, 2, 3)},
							model.Assign{Name: "nums9", E: model.Call{X: model.Var{Name: "base9"}, Name: "append", Args: []model.Expr{model.Lit{V: model.Int(4)}}}},
							model.Assign{Name: "names9", E: model.Call{X: model.Var{Name: "base9"}, Name: "append", Args: []model.Expr{model.StrLit{S: "x"}}}},
							model.Each{Var: "n9", Arr: model.Var{Name: "nums9"}, Body: []model.Stmt{model.Print{E: model.Binary{Op: "+", L: model.Var{Name: "n9"}, R: model.Lit{V: model.Int(1)}}}}},
							model.Print{E: model.Index{X: model.Var{Name: "names9"}, I: model.Lit{V: model.Int(3)}}}}}},
						// arguments that are not looked at: the ellipsis of a truncate that has nothing to cut
						model.Print{E: model.Call{X: model.Var{Name: "short9"}, Name: "truncate", Args: []model.Expr{model.Lit{V: model.Int(40)}, model.Var{Name: "none9"}}}},
						model.Print{E: model.Call{X: model.StrLit{S: "abc"}, Name: "truncate", Args: []model.Expr{model.Lit{V: model.Int(3)}, model.Lit{V: model.Int(5)}}}},
					}[c.Rng.Intn(7)]
					prog = placeStmt(c.Rng, prog, near, 3)
				}
				if i%5 != 0 {
					prog = placeStmt(c.Rng, prog, fault, 3)
				}
				data := map[string]model.Value{}
				for k, v := range g.data {
					data[k] = v
				}
				data["zero"] = model.Int(0)
				data["fzero"] = model.Float(0)
				data["short9"] = model.Str("short title")
				data["none9"] = model.Nil
				exp := expectRun(prog, data)
				if exp.Unspecified {
					return
				}
				debug := c.Rng.Intn(2) == 0
				mode := errPageModes[c.Rng.Intn(len(errPageModes))]
				files := map[string]string{"page.tw": model.PrintStmts(prog, model.Style{Layout: model.SpaceLayout})}
				switch mode {
				case "valid":
					files["errors/oops.tw"] = customPageSource
				case "failing":
					files["errors/oops.tw"] = "CUSTOM-SENTINEL start {{ 1 / 0 }}"
				}
				dir := "c17gen-DIRSENTINEL"
				if err := writeFilesFresh(dir, files); err != nil {
					c.Inconclusive(err.Error())
					return
				}
				textwire.VerifResetConfig()
				cfg := &config.Config{TemplateDir: dir, TemplateExt: ".tw", DebugMode: debug}
				if mode != "none" {
					cfg.ErrorPagePath = "errors/oops"
				}
				desc := map[string]any{"debug": debug, "custom_error_page": mode, "files": describeFiles(files), "data": model.DescribeData(data), "model_expects_failure": exp.Fails}
				c.Input(desc)
				var tpl *textwire.Template
				var lerr error
				c.Eval(1)
				if c.Guard(func() { tpl, lerr = textwire.NewTemplate(cfg) }) {
					return
				}
				if lerr != nil || tpl == nil {
					c.Violation("response:generated:load-failed", fmt.Sprintf("the page did not load: %v", lerr), desc)
					return
				}
				rec := newRecorder()
				var rerr error
				c.Eval(1)
				if c.Guard(func() { rerr = tpl.Response(rec, "page", model.NativeData(data)) }) {
					return
				}
				body := rec.body.String()
				c.Nontrivial(fmt.Sprint(files, debug, mode))
				if !exp.Fails {
					c.Count("successful_responses", 1)
					if rerr != nil || body != exp.Out {
						c.Violation("response:generated:success", fmt.Sprintf("Response gave (%q, %v), the complete page is %q", clipS(body, 300), rerr, clipS(exp.Out, 300)), desc)
					}
					return
				}
				c.Count("failing_responses", 1)
				if rerr == nil {
					c.Violation("response:generated:nil-error", fmt.Sprintf("rendering fails but Response returned nil; body %q", clipS(body, 300)), desc)
					return
				}
				if strings.Contains(body, "PAGE-SENTINEL") {
					c.Violation("response:generated:page-leaked", fmt.Sprintf("the body contains part of the failed page: %q", clipS(body, 400)), desc)
				}
				switch {
				case mode == "valid" && !debug:
					if body != customPageText {
						c.Violation("response:generated:wrong-error-page", fmt.Sprintf("expected the custom error page, body is %q", clipS(body, 300)), desc)
					}
				case mode != "none" && !debug:
					if body != "" {
						c.Violation("response:generated:wrong-error-page", fmt.Sprintf("the custom error page itself fails, the body must be empty but is %q", clipS(body, 300)), desc)
					}
				default:
					if strings.Count(body, builtinMarker) != 1 {
						c.Violation("response:generated:wrong-error-page", fmt.Sprintf("expected exactly one built-in error page, body is %q", clipS(body, 300)), desc)
					}
				}
				if !debug {
					for _, d := range []string{"DIRSENTINEL", "MISSING_IDENT_SENTINEL", "division by zero", "nofn", ".tw", "Textwire ERROR"} {
						if strings.Contains(body, d) {
							c.Violation("response:generated:detail-leaked", fmt.Sprintf("debug mode is off but the body contains %q", d), desc)
							break
						}
					}
				}
			}}
			// several configurations one after the other without a reset in between: the last one governs
			nSeq := 400
			if tier == core.Thorough {
				nSeq = 40000
			}
			sequences := core.Section{Name: "configuration-sequences", N: nSeq, Run: func(c *core.Ctx, i int) {
				mode := errPageModes[c.Rng.Intn(len(errPageModes))]
				// the pages assign at top level before they fail or end; the failing error page reads that name
				// (the calls pass no data: nothing of one render may be left for the next)
				files := map[string]string{"page.tw": "{{ leaked = \"PAGE-SENTINEL-var\" }}{{ note = [1] }}PAGE-SENTINEL-0 {{ MISSING_IDENT_SENTINEL }}", "fine.tw": "{{ leaked = \"PAGE-SENTINEL-var\" }}PAGE-SENTINEL-fine {{ 1 + 1 }}"}
				switch mode {
				case "valid":
					files["errors/oops.tw"] = "{{ note = \"a note\" }}" + customPageSource
				case "failing":
					files["errors/oops.tw"] = "CUSTOM-SENTINEL start {{ leaked }}"
				}
				dir := "c17seq-DIRSENTINEL"
				if err := writeFilesFresh(dir, files); err != nil {
					c.Inconclusive(err.Error())
					return
				}
				textwire.VerifResetConfig()
				steps := 2 + c.Rng.Intn(3)
				var flags []bool
				for k := 0; k < steps; k++ {
					flags = append(flags, c.Rng.Intn(2) == 0)
				}
				if i%2 == 0 {
					flags[0], flags[1] = true, false
				}
				desc := map[string]any{"custom_error_page": mode, "debug_flags_in_order": fmt.Sprint(flags), "files": describeFiles(files)}
				c.Input(desc)
				c.Nontrivial(fmt.Sprint(mode, flags))
				for k, debug := range flags {
					cfg := &config.Config{TemplateDir: dir, TemplateExt: ".tw", DebugMode: debug}
					if mode != "none" {
						cfg.ErrorPagePath = "errors/oops"
					}
					var tpl *textwire.Template
					var lerr error
					c.Eval(1)
					if c.Guard(func() { tpl, lerr = textwire.NewTemplate(cfg) }) {
						return
					}
					if lerr != nil || tpl == nil {
						c.Violation("response:sequence:load-failed", fmt.Sprintf("step %d did not load: %v", k, lerr), desc)
						return
					}
					rec := newRecorder()
					var rerr error
					c.Eval(1)
					if c.Guard(func() { rerr = tpl.Response(rec, "page", nil) }) {
						return
					}
					body := rec.body.String()
					if hp := rec.headerProblem(); hp != "" {
						c.Violation("response:content-length", hp, desc)
					}
					sig := "response:sequence"
					if rerr == nil {
						c.Violation(sig+":nil-error", fmt.Sprintf("step %d: rendering fails but Response returned nil", k), desc)
						return
					}
					if strings.Contains(body, "PAGE-SENTINEL") {
						c.Violation(sig+":page-leaked", fmt.Sprintf("step %d: the body contains part of the failed page: %q", k, clipS(body, 300)), desc)
					}
					switch {
					case debug:
						if strings.Count(body, builtinMarker) != 1 || !strings.Contains(body, "MISSING_IDENT_SENTINEL") || strings.Contains(body, "CUSTOM-SENTINEL") {
							c.Violation(sig+":debug-on", fmt.Sprintf("step %d sets debug mode on: expected the built-in page with the message, body is %q", k, clipS(body, 300)), desc)
						}
					case mode == "valid":
						if body != customPageText {
							c.Violation(sig+":debug-off", fmt.Sprintf("step %d sets debug mode off: expected the custom error page, body is %q", k, clipS(body, 300)), desc)
						}
					case mode == "none":
						if strings.Count(body, builtinMarker) != 1 || strings.Contains(body, "MISSING_IDENT_SENTINEL") || strings.Contains(body, "DIRSENTINEL") {
							c.Violation(sig+":debug-off", fmt.Sprintf("step %d sets debug mode off: expected the built-in page without detail, body is %q", k, clipS(body, 300)), desc)
						}
					default:
						if body != "" {
							c.Violation(sig+":debug-off", fmt.Sprintf("step %d sets debug mode off and the custom page is unusable: the body must be empty but is %q", k, clipS(body, 300)), desc)
						}
					}
					// a page that renders is unaffected by any of it
					rec2 := newRecorder()
					c.Eval(1)
					if c.Guard(func() { rerr = tpl.Response(rec2, "fine", nil) }) {
						return
					}
					if rerr != nil || rec2.body.String() != "PAGE-SENTINEL-fine 2" {
						c.Violation(sig+":success", fmt.Sprintf("step %d: the page that renders gave (%q, %v)", k, clipS(rec2.body.String(), 200), rerr), desc)
					}
				}
			}}
			// pages that write 4 KiB .. 8 MiB before they end or fail: the complete page, or none of it
			pageSizes := []int{4 << 10, 32<<10 - 1, 32 << 10, 64<<10 + 1, 512 << 10, 1<<20 + 7, 8 << 20}
			largePages := core.Section{Name: "large-pages", Exhaustive: true, N: len(pageSizes) * 4,
				Run: func(c *core.Ctx, i int) {
					size := pageSizes[i%len(pageSizes)]
					mode := i / len(pageSizes) // 0: ok, debug off; 1: fails at the end, debug off, custom page; 2: fails, debug on; 3: fails in the last pass of a long loop
					row := "<li>PAGE-SENTINEL row {{ n }} é</li>\n"
					rows := size / (len(row) - 4)
					files := map[string]string{"errors/oops.tw": customPageSource}
					switch mode {
					case 0:
						files["page.tw"] = strings.Repeat(row, rows) + "end of page"
					case 1, 2:
						files["page.tw"] = strings.Repeat(row, rows) + "{{ MISSING_IDENT_SENTINEL }}"
					default:
						files["page.tw"] = "@each(r in many)" + row + "{{ 1 / (total - r) }}@end"
					}
					dir := "c17big-DIRSENTINEL"
					if err := writeFilesFresh(dir, files); err != nil {
						c.Inconclusive(err.Error())
						return
					}
					textwire.VerifResetConfig()
					cfg := &config.Config{TemplateDir: dir, TemplateExt: ".tw", DebugMode: mode == 2, ErrorPagePath: "errors/oops"}
					var tpl *textwire.Template
					var lerr error
					c.Eval(1)
					if c.Guard(func() { tpl, lerr = textwire.NewTemplate(cfg) }) {
						return
					}
					desc := map[string]any{"page_bytes_about": size, "mode": []string{"succeeds", "fails at its end (custom page, debug off)", "fails at its end (debug on)", "fails in the last pass of a loop"}[mode]}
					c.Input(desc)
					c.Nontrivial(fmt.Sprint("large", size, mode))
					if lerr != nil || tpl == nil {
						c.Violation("response:large:load-failed", fmt.Sprintf("the page did not load: %v", lerr), desc)
						return
					}
					passes := size / len(row)
					many := make([]int, passes)
					for k := range many {
						many[k] = k + 1
					}
					data := map[string]any{"n": 7, "many": many, "total": passes}
					rec := newRecorder()
					var rerr error
					c.Eval(1)
					if c.Guard(func() { rerr = tpl.Response(rec, "page", data) }) {
						return
					}
					body := rec.body.String()
					if hp := rec.headerProblem(); hp != "" {
						c.Violation("response:content-length", hp, desc)
					}
					switch mode {
					case 0:
						want := strings.Repeat(strings.Replace(row, "{{ n }}", "7", 1), rows) + "end of page"
						if rerr != nil || body != want {
							c.Violation("response:large:incomplete-page", fmt.Sprintf("Response wrote %d bytes (error %v), the complete page has %d", len(body), rerr, len(want)), desc)
						}
					default:
						if rerr == nil {
							c.Violation("response:large:nil-error", "rendering fails but Response returned nil", desc)
							return
						}
						if strings.Contains(body, "PAGE-SENTINEL") {
							c.Violation("response:large:page-leaked", fmt.Sprintf("the body (%d bytes) contains part of the failed page", len(body)), desc)
						}
						if mode == 2 {
							if strings.Count(body, builtinMarker) != 1 || !strings.Contains(body, "MISSING_IDENT_SENTINEL") {
								c.Violation("response:large:wrong-error-page", fmt.Sprintf("expected the built-in page with the message, body is %q", clipS(body, 200)), desc)
							}
						} else if body != customPageText {
							c.Violation("response:large:wrong-error-page", fmt.Sprintf("expected the custom error page, body is %q", clipS(body, 200)), desc)
						}
					}
				}}
			// the custom error page calls a function that is registered only after the first failure: from then on the page works
			// and is what a failing Response writes (and before that the body is empty)
			becomes := core.Section{Name: "error-page-becomes-usable", Exhaustive: true, N: 4,
				Run: func(c *core.Ctx, i int) {
					fname := fmt.Sprintf("late%d_%d", i, c.Seed)
					files := map[string]string{"page.tw": "PAGE-SENTINEL-0 {{ MISSING_IDENT_SENTINEL }}", "other.tw": "PAGE-SENTINEL-1 {{ 1 / zero }}", "errors/oops.tw": "<custom {{ \"page\"." + fname + "() }}>"}
					dir := "c17late-DIRSENTINEL"
					if err := writeFilesFresh(dir, files); err != nil {
						c.Inconclusive(err.Error())
						return
					}
					textwire.VerifResetConfig()
					var tpl *textwire.Template
					var lerr error
					c.Eval(1)
					if c.Guard(func() {
						tpl, lerr = textwire.NewTemplate(&config.Config{TemplateDir: dir, TemplateExt: ".tw", ErrorPagePath: "errors/oops"})
					}) {
						return
					}
					c.Nontrivial(fmt.Sprint("late", i))
					if lerr != nil || tpl == nil {
						c.Violation("response:late:load-failed", fmt.Sprintf("%v", lerr), nil)
						return
					}
					respond := func(page string) (string, error) {
						rec := newRecorder()
						var rerr error
						c.Eval(1)
						c.Guard(func() { rerr = tpl.Response(rec, page, map[string]any{"zero": 0}) })
						return rec.body.String(), rerr
					}
					pages := []string{"page", "other", "ghost", "page"}
					for k := 0; k <= i; k++ {
						if body, rerr := respond(pages[k%4]); rerr == nil || body != "" {
							c.Violation("response:late:before", fmt.Sprintf("before the function exists the custom page fails: the body must be empty and an error returned; got (%q, %v)", clipS(body, 200), rerr), nil)
							return
						}
					}
					if err := textwire.RegisterStrFunc(fname, func(s string, a ...any) string { return "error " + s }); err != nil {
						c.Inconclusive(err.Error())
						return
					}
					for k := 0; k < 3; k++ {
						if body, rerr := respond(pages[(k+i)%4]); rerr == nil || body != "<custom error page>" {
							c.Violation("response:late:after", fmt.Sprintf("once the function is registered the custom page works: a failing Response must write it; got (%q, %v) after %d earlier failures", clipS(body, 200), rerr, i+1), nil)
							return
						}
					}
				}}
			return []core.Section{random, sequences, largePages, becomes, {Name: "response-matrix", Exhaustive: true, N: len(combos) * reps,
				Run: func(c *core.Ctx, i int) {
					// a seeded permutation, so that configurations alternate inside each worker
					perm := core.NewRng("C17-perm", c.Seed, i/len(combos)).Perm(len(combos))
					cb := combos[perm[i%len(combos)]]
					pl := respPlaces[cb.place]
					fault := respFaults[cb.fault]
					files, name := pl.build(cb.n, cb.pos, fault)
					errPath := "errors/oops"
					if pl.name == "page-in-dot-directory" {
						// the custom error page lives in a dot directory too, with a layout beside it
						errPath = ".system/500"
						switch errPageModes[cb.mode] {
						case "valid":
							files[".system/frame.tw"] = "@reserve(\"body\")"
							files[".system/500.tw"] = "@use(\".system/frame\")@insert(\"body\")" + customPageSource + "@end"
						case "failing":
							files[".system/500.tw"] = "CUSTOM-SENTINEL start {{ 1 / 0 }}"
						}
					}
					switch errPageModes[cb.mode] {
					case "valid":
						// (a page that works on its own: it assigns names of its own choosing - the data of the failed call
						// happens to hold the same names with other types - and reads none)
						files["errors/oops.tw"] = "{{ zero = \"z\" }}{{ rows = 2.5 }}{{ user = [1] }}" + customPageSource
					case "failing":
						files["errors/oops.tw"] = "CUSTOM-SENTINEL start {{ 1 / 0 }}"
					}
					dir := "c17dir-DIRSENTINEL-50%d%s"
					if err := writeFilesFresh(dir, files); err != nil {
						c.Inconclusive(err.Error())
						return
					}
					textwire.VerifResetConfig()
					cfg := &config.Config{TemplateDir: dir, TemplateExt: ".tw", DebugMode: cb.debug}
					if errPageModes[cb.mode] != "none" {
						cfg.ErrorPagePath = errPath
					}
					desc := map[string]any{"debug": cb.debug, "custom_error_page": errPageModes[cb.mode], "place": pl.name, "fault": fault, "statements": cb.n, "failing_statement": cb.pos, "files": describeFiles(files), "render": name}
					c.Input(desc)
					var tpl *textwire.Template
					var lerr error
					c.Eval(1)
					if c.Guard(func() { tpl, lerr = textwire.NewTemplate(cfg) }) {
						return
					}
					if lerr != nil || tpl == nil {
						c.Violation("response:load-failed", fmt.Sprintf("the tree did not load: %v", lerr), desc)
						return
					}
					data := map[string]any{"zero": 0, "rows": []int{0, 1, 2, 3}, "user": map[string]any{"name": "n", "Id": 3}, "nothing": nil}
					c17Current = tpl
					rec := newRecorder()
					var rerr error
					c.Eval(1)
					if c.Guard(func() { rerr = tpl.Response(rec, name, data) }) {
						return
					}
					body := rec.body.String()
					if hp := rec.headerProblem(); hp != "" {
						c.Violation("response:content-length", hp, desc)
					}
					c.Nontrivial(fmt.Sprint(cb))
					if i%499 == 0 {
						c.Sample(map[string]any{"debug": cb.debug, "custom_error_page": errPageModes[cb.mode], "place": pl.name, "failing_statement": cb.pos, "returned_error": rerr != nil, "body_bytes": len(body)})
					}
					succeeds := cb.pos < 0 && cb.place < firstNamePlace
					if pl.name == "inside-loop-pass" {
						succeeds = cb.pos < 0 || cb.pos > 3
					}
					sig := "response:" + pl.name
					if succeeds {
						want, fe := tpl.String(name, data)
						if fe != nil {
							c.Violation(sig+":success-expected", "the page was built to succeed but String fails: "+fe.Message(), desc)
							return
						}
						if rerr != nil {
							c.Violation(sig+":error-on-success", fmt.Sprintf("Response returned %v for a page that renders", rerr), desc)
						}
						if body != want {
							c.Violation(sig+":incomplete-page", fmt.Sprintf("Response wrote %q, the complete page is %q", clipS(body, 300), clipS(want, 300)), desc)
						}
						c.Count("successful_responses", 1)
						return
					}
					c.Count("failing_responses", 1)
					if rerr == nil {
						c.Violation(sig+":nil-error", fmt.Sprintf("rendering fails but Response returned nil; body %q", clipS(body, 300)), desc)
						return
					}
					if strings.Contains(body, "PAGE-SENTINEL") {
						c.Violation(sig+":page-leaked", fmt.Sprintf("the body contains part of the failed page: %q", clipS(body, 400)), desc)
					}
					customWorks := errPageModes[cb.mode] == "valid"
					customSet := errPageModes[cb.mode] != "none"
					switch {
					case customSet && !cb.debug && customWorks:
						if body != customPageText {
							c.Violation(sig+":wrong-error-page", fmt.Sprintf("expected the custom error page, body is %q", clipS(body, 300)), desc)
						}
					case customSet && !cb.debug && !customWorks:
						if body != "" {
							c.Violation(sig+":wrong-error-page", fmt.Sprintf("the custom error page itself fails, the body must be empty but is %q", clipS(body, 300)), desc)
						}
					default:
						if !strings.Contains(body, builtinMarker) || strings.Count(body, builtinMarker) != 1 {
							c.Violation(sig+":wrong-error-page", fmt.Sprintf("expected exactly one built-in error page, body is %q", clipS(body, 300)), desc)
						}
						if strings.Contains(body, "CUSTOM-SENTINEL") {
							c.Violation(sig+":wrong-error-page", "the custom error page appears although debug mode is on or it is not usable", desc)
						}
					}
					absDir, _ := filepath.Abs(dir)
					detail := []string{"DIRSENTINEL", absDir, "MISSING_IDENT_SENTINEL", "NAME-SENTINEL", "division by zero", "nofn", "type mismatch", "not found", ".tw", "Textwire ERROR"}
					if !cb.debug {
						for _, d := range detail {
							if strings.Contains(body, d) {
								c.Violation(sig+":detail-leaked", fmt.Sprintf("debug mode is off but the body contains %q", d), desc)
								break
							}
						}
						return
					}
					// debug on: message, path and line are shown
					if m := fmtMarker(body); m != "" {
						c.Violation(sig+":debug-detail-garbled", fmt.Sprintf("the debug page holds %q: a finished message was used as a format string", m), desc)
					}
					lineBase, file := 0, "page.tw"
					switch pl.name {
					case "after-crlf-lines":
						lineBase = 3
					case "after-multi-line-tokens":
						lineBase = 1 + strings.Count(multiLinePrelude, "\n")
					case "name-ending-in-extension":
						lineBase, file = 1, "report.tw.tw"
					case "after-nested-render":
						lineBase = 2
					case "page-in-dot-directory":
						lineBase, file = 1, ".drafts/post.tw"
					}
					if lineBase > 0 && !strings.Contains(fault, "@each") {
						abs, _ := filepath.Abs(filepath.Join(dir, file))
						if want := fmt.Sprintf("%s:%d", abs, lineBase+cb.pos); !strings.Contains(body, want) {
							c.Violation(sig+":debug-line", fmt.Sprintf("the fault stands on line %d of %s; the debug page does not show %q", lineBase+cb.pos, file, want), desc)
						}
					}
					_, fe := tpl.String(name, data)
					if fe == nil {
						return
					}
					for what, s := range map[string]string{"message": fe.Message(), "path": fe.Filepath(), "line": fmt.Sprintf("%s:%d", fe.Filepath(), fe.Line())} {
						if !strings.Contains(body, s) {
							c.Violation(sig+":debug-detail-missing", fmt.Sprintf("debug mode is on but the body lacks the %s %q", what, s), desc)
						}
					}
				}}}
		},
	})
}

// writeFilesFresh replaces the directory with exactly these files
func writeFilesFresh(dir string, files map[string]string) error {
	os.RemoveAll(dir)
	return writeFiles(dir, files)
}

// sentinelTexts marks every text statement of a program, at any depth
func sentinelTexts(stmts []model.Stmt) []model.Stmt {
	out := make([]model.Stmt, len(stmts))
	for i, st := range stmts {
		switch n := st.(type) {
		case model.Text:
			out[i] = model.Text{S: "PAGE-SENTINEL" + n.S}
		case model.If:
			cp := n
			cp.Bodies = make([][]model.Stmt, len(n.Bodies))
			for b := range n.Bodies {
				cp.Bodies[b] = sentinelTexts(n.Bodies[b])
			}
			if n.Else != nil {
				cp.Else = sentinelTexts(n.Else)
			}
			out[i] = cp
		case model.Each:
			cp := n
			cp.Body = sentinelTexts(n.Body)
			if n.Else != nil {
				cp.Else = sentinelTexts(n.Else)
			}
			out[i] = cp
		case model.For:
			cp := n
			cp.Body = sentinelTexts(n.Body)
			if n.Else != nil {
				cp.Else = sentinelTexts(n.Else)
			}
			out[i] = cp
		default:
			out[i] = st
		}
	}
	return out
}
