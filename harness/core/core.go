// Package core is the shared machinery of the runtime-monitoring harness:
// case lists, isolated worker processes with a CPU/heap watchdog, the
// supervisor that attributes crashes to the case in flight, verdicts,
// witnesses, evidence and known findings.
package core

import (
	"encoding/json"
	"fmt"
	"hash/fnv"
	"math/rand"
	"os"
	"path/filepath"
	"runtime"
	"runtime/debug"
	"sort"
	"strings"
	"sync"
	"sync/atomic"
)

type Tier string

const (
	Quick    Tier = "quick"
	Thorough Tier = "thorough"
)

// Section is a list of N cases; case i is a pure function of
// (property, tier, seed, section, i).
type Section struct {
	Name       string
	N          int
	Exhaustive bool // the section enumerates a finite space completely
	Run        func(c *Ctx, i int)
}

// Check describes the workload and the oracle of one property.
type Check struct {
	ID          string
	Level       string // exploration | fault_enumeration
	Rule        string
	Assumptions []string
	Race        bool // built with -race by run.sh
	MaxWorkers  int  // 0 = default
	// Setup runs once per worker process, before any case
	Setup func(c *Ctx)
	// Sections returns the case list of a tier; it must be deterministic
	Sections func(tier Tier, seed int64) []Section
	// Finish runs in the worker after its last case (e.g. to report
	// monitors that never observed anything)
	Finish func(c *Ctx)
	// CPUBudget overrides the per-case CPU budget in seconds
	CPUBudget float64
}

var registry = map[string]*Check{}

// aux commands run a small piece of a check in a fresh process (`twcheck aux <name> args…`)
var auxRegistry = map[string]func(args []string) int{}

func RegisterAux(name string, fn func(args []string) int) { auxRegistry[name] = fn }

func AuxMain(name string, args []string) int {
	fn := auxRegistry[name]
	if fn == nil {
		fmt.Fprintln(os.Stderr, "unknown aux command", name)
		return 2
	}
	return fn(args)
}

func Register(c *Check) { registry[c.ID] = c }

func Lookup(id string) *Check { return registry[id] }

func IDs() []string {
	var ids []string
	for id := range registry {
		ids = append(ids, id)
	}
	sort.Strings(ids)
	return ids
}

// Violation is one observed refutation of the property
type Violation struct {
	Property string         `json:"property"`
	Sig      string         `json:"sig"`
	What     string         `json:"what"`
	Tier     Tier           `json:"tier"`
	Seed     int64          `json:"seed"`
	Section  string         `json:"section"`
	Index    int            `json:"index"` // index inside the section
	Global   int            `json:"global"`
	Detail   map[string]any `json:"detail,omitempty"`
}

// Ctx is what a case sees
type Ctx struct {
	Check   *Check
	Tier    Tier
	Seed    int64
	Section string
	Index   int
	Global  int
	Rng     *rand.Rand
	WorkDir string // private scratch directory of this worker (also its cwd)
	Replay  bool   // single case re-run: be verbose

	mu         sync.Mutex
	evals      int64
	hashes     map[uint64]struct{}
	counters   map[string]int64
	samples    map[string][]any
	violations []Violation
	violSink   *os.File
	inconcl    []string
	input      atomic.Value // description of the case in flight, for the watchdog
	caseViol   int
	State      map[string]any // per-worker state of the check (set in Setup)
}

func newCtx(ch *Check, tier Tier, seed int64) *Ctx {
	return &Ctx{
		Check: ch, Tier: tier, Seed: seed,
		hashes: map[uint64]struct{}{}, counters: map[string]int64{},
		samples: map[string][]any{}, State: map[string]any{},
	}
}

// Eval counts executions of the real code
func (c *Ctx) Eval(n int) {
	c.mu.Lock()
	c.evals += int64(n)
	c.mu.Unlock()
}

// Nontrivial records a distinct non-trivial case by its key
func (c *Ctx) Nontrivial(key string) {
	h := fnv.New64a()
	h.Write([]byte(c.Check.ID))
	h.Write([]byte{0})
	h.Write([]byte(key))
	c.mu.Lock()
	c.hashes[h.Sum64()] = struct{}{}
	c.mu.Unlock()
}

// Count adds to a named counter that ends up in evidence coverage
func (c *Ctx) Count(name string, n int) {
	c.mu.Lock()
	c.counters[name] += int64(n)
	c.mu.Unlock()
}

// Max keeps the maximum of a named gauge
func (c *Ctx) Max(name string, n int) {
	c.mu.Lock()
	if int64(n) > c.counters["max_"+name] {
		c.counters["max_"+name] = int64(n)
	}
	c.mu.Unlock()
}

// Sample keeps a few of the actual cases per section for the evidence file
func (c *Ctx) Sample(v any) {
	c.mu.Lock()
	defer c.mu.Unlock()
	s := c.samples[c.Section]
	if len(s) < 2 {
		c.samples[c.Section] = append(s, clip(v))
	}
}

// Input publishes the concrete input of the case in flight so that the
// watchdog and the crash attribution can write it into the witness
func (c *Ctx) Input(v any) { c.input.Store(&v) }

func (c *Ctx) currentInput() any {
	p := c.input.Load()
	if p == nil {
		return nil
	}
	return *(p.(*any))
}

// Violation records a refutation. sig identifies the kind of failure (used
// for de-duplication and for matching known findings).
func (c *Ctx) Violation(sig, what string, detail map[string]any) {
	// work on a copy: callers may pass the very map they published as input
	cp := map[string]any{}
	for k, v := range detail {
		cp[k] = clip(v)
	}
	detail = cp
	if _, ok := detail["input"]; !ok {
		if in := c.currentInput(); in != nil {
			detail["input"] = clip(in)
		}
	}
	v := Violation{Property: c.Check.ID, Sig: sig, What: what, Tier: c.Tier, Seed: c.Seed,
		Section: c.Section, Index: c.Index, Global: c.Global, Detail: detail}
	c.mu.Lock()
	c.caseViol++
	c.violations = append(c.violations, v)
	if c.violSink != nil {
		b, err := json.Marshal(v)
		if err != nil {
			v.Detail = map[string]any{"marshal_error": err.Error()}
			b, _ = json.Marshal(v)
		}
		c.violSink.Write(append(b, '\n'))
	}
	c.mu.Unlock()
	if c.Replay {
		b, _ := json.MarshalIndent(v, "", "  ")
		fmt.Printf("violation: %s\n", b)
	}
}

// Inconclusive records that a monitor could not decide a case
func (c *Ctx) Inconclusive(why string) {
	c.mu.Lock()
	c.inconcl = append(c.inconcl, fmt.Sprintf("%s[%d]: %s", c.Section, c.Index, why))
	c.mu.Unlock()
}

func clip(v any) any {
	switch x := v.(type) {
	case string:
		if len(x) > 400 {
			return x[:400] + "…"
		}
		return x
	case map[string]any:
		out := map[string]any{}
		for k, e := range x {
			out[k] = clip(e)
		}
		return out
	case []any:
		var out []any
		for i, e := range x {
			if i >= 12 {
				out = append(out, "…")
				break
			}
			out = append(out, clip(e))
		}
		return out
	case []string:
		var out []any
		for i, e := range x {
			if i >= 12 {
				out = append(out, "…")
				break
			}
			out = append(out, clip(e))
		}
		return out
	}
	return v
}

// ---- deterministic per-case random source (splitmix64) ----

type sm64 struct{ s uint64 }

func (r *sm64) Uint64() uint64 {
	r.s += 0x9e3779b97f4a7c15
	z := r.s
	z = (z ^ (z >> 30)) * 0xbf58476d1ce4e5b9
	z = (z ^ (z >> 27)) * 0x94d049bb133111eb
	return z ^ (z >> 31)
}
func (r *sm64) Int63() int64    { return int64(r.Uint64() >> 1) }
func (r *sm64) Seed(seed int64) { r.s = uint64(seed) }

func caseRng(id string, tier Tier, seed int64, section string, i int) *rand.Rand {
	h := fnv.New64a()
	fmt.Fprintf(h, "%s|%s|%d|%s|%d", id, tier, seed, section, i)
	return rand.New(&sm64{s: h.Sum64()})
}

// NewRng gives checks a deterministic source for building fixed tables
func NewRng(parts ...any) *rand.Rand {
	h := fnv.New64a()
	fmt.Fprint(h, parts...)
	return rand.New(&sm64{s: h.Sum64()})
}

// ---- running one case with the panic monitor ----

// PanicSite returns the innermost frame of stack that lies in the repository
func PanicSite(stack string) string {
	lines := strings.Split(stack, "\n")
	seenPanic := false
	for _, ln := range lines {
		if strings.HasPrefix(ln, "panic(") {
			seenPanic = true
			continue
		}
		if !seenPanic {
			continue
		}
		if strings.HasPrefix(ln, "github.com/textwire/textwire/v2") {
			fn := ln
			if i := strings.LastIndex(fn, "("); i > 0 {
				fn = fn[:i]
			}
			return strings.TrimPrefix(fn, "github.com/textwire/textwire/v2")
		}
	}
	return "unknown"
}

func (c *Ctx) runCase(sec *Section, i, global int) {
	c.Section, c.Index, c.Global = sec.Name, i, global
	c.Rng = caseRng(c.Check.ID, c.Tier, c.Seed, sec.Name, i)
	c.caseViol = 0
	c.input.Store(new(any))
	defer func() {
		if r := recover(); r != nil {
			stack := string(debug.Stack())
			site := PanicSite(stack)
			c.Violation("panic:"+site, fmt.Sprintf("panic while running the real code: %v", r),
				map[string]any{"panic": fmt.Sprint(r), "stack": clipStack(stack)})
		}
	}()
	sec.Run(c, i)
}

// RunOther runs case i of another section of the same check inside the running case (used by
// sections that need what earlier cases left behind when they are replayed alone)
func (c *Ctx) RunOther(sec *Section, i int) {
	savedSec, savedIdx, savedRng := c.Section, c.Index, c.Rng
	defer func() {
		recover()
		c.Section, c.Index, c.Rng = savedSec, savedIdx, savedRng
	}()
	c.Section, c.Index = sec.Name, i
	c.Rng = caseRng(c.Check.ID, c.Tier, c.Seed, sec.Name, i)
	sec.Run(c, i)
}

func clipStack(s string) string {
	if len(s) > 6000 {
		return s[:6000] + "\n…"
	}
	return s
}

// Guard runs fn (a call into the real code) and converts a panic into a
// violation of the running check; it reports whether fn panicked
func (c *Ctx) Guard(fn func()) (panicked bool) {
	defer func() {
		if r := recover(); r != nil {
			panicked = true
			stack := string(debug.Stack())
			site := PanicSite(stack)
			c.Violation("panic:"+site, fmt.Sprintf("panic while running the real code: %v", r),
				map[string]any{"panic": fmt.Sprint(r), "stack": clipStack(stack)})
		}
	}()
	fn()
	return false
}

// ---- worker result files ----

type workerResult struct {
	Evals    int64            `json:"evals"`
	Cases    int64            `json:"cases"`
	Counters map[string]int64 `json:"counters"`
	Samples  map[string][]any `json:"samples"`
	Inconcl  []string         `json:"inconclusive"`
	Hashes   []uint64         `json:"hashes"`
	Done     bool             `json:"done"`
	LastG    int              `json:"last_global"`
}

func (c *Ctx) flush(path string, cases int64, lastG int, done bool) {
	c.mu.Lock()
	r := workerResult{Evals: c.evals, Cases: cases, Counters: map[string]int64{}, Samples: c.samples,
		Inconcl: c.inconcl, Done: done, LastG: lastG}
	for k, v := range c.counters {
		r.Counters[k] = v
	}
	r.Hashes = make([]uint64, 0, len(c.hashes))
	for h := range c.hashes {
		r.Hashes = append(r.Hashes, h)
	}
	c.mu.Unlock()
	b, _ := json.Marshal(r)
	tmp := path + ".tmp"
	if err := os.WriteFile(tmp, b, 0o644); err == nil {
		os.Rename(tmp, path)
	}
}

func totalCases(secs []Section) int {
	n := 0
	for _, s := range secs {
		n += s.N
	}
	return n
}

// locate maps a global case number to (section, index)
func locate(secs []Section, g int) (*Section, int) {
	for k := range secs {
		if g < secs[k].N {
			return &secs[k], g
		}
		g -= secs[k].N
	}
	return nil, 0
}

// ScratchBase returns a directory for scratch files (tmpfs when available)
func ScratchBase() string {
	if d := os.Getenv("VERIF_SCRATCH"); d != "" {
		return d
	}
	if st, err := os.Stat("/dev/shm"); err == nil && st.IsDir() {
		return "/dev/shm"
	}
	return os.TempDir()
}

func numWorkers(ch *Check) int {
	w := runtime.NumCPU()
	if v := os.Getenv("VERIF_WORKERS"); v != "" {
		fmt.Sscan(v, &w)
	}
	if ch.MaxWorkers > 0 && w > ch.MaxWorkers {
		w = ch.MaxWorkers
	}
	if w < 1 {
		w = 1
	}
	return w
}

// VerifRoot is the directory that holds MANIFEST.json (…/verif)
func VerifRoot() string {
	if d := os.Getenv("VERIF_ROOT"); d != "" {
		return d
	}
	exe, err := os.Executable()
	if err == nil {
		// <root>/harness/bin/twcheck
		d := filepath.Dir(filepath.Dir(filepath.Dir(exe)))
		if _, err := os.Stat(filepath.Join(d, "properties.jsonl")); err == nil {
			return d
		}
	}
	return "/verif"
}
