package core

import (
	"bufio"
	"crypto/sha1"
	"encoding/json"
	"fmt"
	"os"
	"os/exec"
	"os/signal"
	"path/filepath"
	"sort"
	"strings"
	"sync"
	"syscall"
	"time"
)

func signalNotify(ch chan os.Signal) { signal.Notify(ch, syscall.SIGTERM, syscall.SIGINT) }

// Finding is an entry of known_findings.json
type Finding struct {
	Status   string `json:"status"` // "finding" | "fixed"
	Property string `json:"property"`
	Sig      string `json:"sig,omitempty"`    // for findings: the violation signature it covers
	Commit   string `json:"commit,omitempty"` // for fixed entries
	What     string `json:"what"`
	Example  any    `json:"example,omitempty"`
}

func loadFindings(root string) []Finding {
	b, err := os.ReadFile(filepath.Join(root, "known_findings.json"))
	if err != nil {
		return nil
	}
	var doc struct {
		Entries []Finding `json:"entries"`
	}
	if json.Unmarshal(b, &doc) != nil {
		return nil
	}
	return doc.Entries
}

type runOpts struct {
	ID      string
	Tier    Tier
	Seed    int64
	WallSec float64
}

// SuperviseMain runs a whole check: workers, crash attribution, merge,
// evidence, verdict. It returns the process exit code.
func SuperviseMain(id string, tier Tier, seed int64) int {
	ch := Lookup(id)
	if ch == nil {
		fmt.Fprintln(os.Stderr, "unknown check", id)
		return 2
	}
	t0 := time.Now()
	root := VerifRoot()
	exe, _ := os.Executable()
	runDir, err := os.MkdirTemp(ScratchBase(), "twv-run-"+id+"-")
	if err != nil {
		fmt.Fprintln(os.Stderr, err)
		return 2
	}
	defer os.RemoveAll(runDir)
	scratch := filepath.Join(runDir, "scratch")
	os.MkdirAll(scratch, 0o755)

	secs := ch.Sections(tier, seed)
	total := totalCases(secs)
	W := numWorkers(ch)
	if W > total {
		W = total
	}
	if W < 1 {
		W = 1
	}
	budget := 20.0
	if ch.CPUBudget > 0 {
		budget = ch.CPUBudget
	}
	wall := 1500.0
	if tier == Thorough {
		wall = 6 * 3600
	}
	if v := os.Getenv("VERIF_WALL"); v != "" {
		fmt.Sscan(v, &wall)
	}
	deadline := t0.Add(time.Duration(wall * float64(time.Second)))
	fmt.Fprintf(os.Stderr, "[%s] tier=%s seed=%d cases=%d sections=%d workers=%d\n", id, tier, seed, total, len(secs), W)

	var mu sync.Mutex
	var suspects []Violation // crashes and budget overruns, after confirmation
	var inconclusive []string
	truncated := false

	var wg sync.WaitGroup
	for w := 0; w < W; w++ {
		wg.Add(1)
		go func(w int) {
			defer wg.Done()
			start := w
			for attempt := 0; start < total; attempt++ {
				if attempt > 200 {
					mu.Lock()
					inconclusive = append(inconclusive, fmt.Sprintf("worker %d restarted too often; stopped at case %d", w, start))
					truncated = true
					mu.Unlock()
					return
				}
				errPath := filepath.Join(runDir, fmt.Sprintf("stderr.w%d.a%d.txt", w, attempt))
				errFile, _ := os.Create(errPath)
				cmd := exec.Command(exe, "worker", id, string(tier), fmt.Sprint(seed), fmt.Sprint(w), fmt.Sprint(W),
					fmt.Sprint(start), runDir, fmt.Sprint(attempt), fmt.Sprint(budget))
				cmd.Env = append(os.Environ(), "VERIF_SCRATCH="+scratch, "VERIF_ROOT="+root)
				if ch.Race {
					// reports go to a log file per process and do not stop the run; the check parses them
					cmd.Env = append(cmd.Env, "GORACE=halt_on_error=0 history_size=4 log_path="+filepath.Join(runDir, "race"), "VERIF_RACE_LOG="+filepath.Join(runDir, "race"))
				}
				cmd.Stdout = errFile
				cmd.Stderr = errFile
				if err := cmd.Start(); err != nil {
					mu.Lock()
					inconclusive = append(inconclusive, "cannot start worker: "+err.Error())
					truncated = true
					mu.Unlock()
					return
				}
				done := make(chan error, 1)
				go func() { done <- cmd.Wait() }()
				var werr error
				stopped := false
				select {
				case werr = <-done:
				case <-time.After(time.Until(deadline)):
					cmd.Process.Signal(syscall.SIGTERM)
					select {
					case werr = <-done:
					case <-time.After(30 * time.Second):
						cmd.Process.Kill()
						werr = <-done
					}
					stopped = true
				}
				errFile.Close()
				code := 0
				if werr != nil {
					code = -1
					if ee, ok := werr.(*exec.ExitError); ok {
						code = ee.ExitCode()
					}
				}
				if stopped || code == exitStopped {
					mu.Lock()
					truncated = true
					mu.Unlock()
					return
				}
				if code == exitOK {
					return
				}
				if ch.Race && code == 66 {
					// the race detector's exit status after it reported races; the worker
					// finished its cases and has already streamed the reports as violations
					if _, st, ok := readJournal(filepath.Join(runDir, fmt.Sprintf("journal.w%d", w))); ok && st == 3 {
						return
					}
				}
				// abnormal end: attribute it to the case in flight
				g, state, ok := readJournal(filepath.Join(runDir, fmt.Sprintf("journal.w%d", w)))
				stderrTail := tailFile(errPath, 6000)
				if !ok || state != 2 || g < 0 || int(g) >= total {
					mu.Lock()
					inconclusive = append(inconclusive, fmt.Sprintf("worker %d ended with code %d outside a case (state %d): %s", w, code, state, firstLine(stderrTail)))
					truncated = true
					mu.Unlock()
					return
				}
				sec, i := locate(secs, int(g))
				// confirmation run: the same case alone, in a fresh process, doubled budget
				v, confirmed, note := confirmCase(exe, root, scratch, runDir, id, tier, seed, int(g), budget*2)
				mu.Lock()
				if confirmed {
					if v.Detail == nil {
						v.Detail = map[string]any{}
					}
					v.Detail["first_run_exit_code"] = code
					v.Detail["first_run_stderr_tail"] = stderrTail
					v.Section, v.Index, v.Global = sec.Name, i, int(g)
					suspects = append(suspects, v)
				} else {
					inconclusive = append(inconclusive, fmt.Sprintf("%s[%d] (global %d) ended its worker with code %d but ran clean when repeated alone: %s", sec.Name, i, g, code, note))
				}
				mu.Unlock()
				start = int(g) + W
			}
		}(w)
	}
	wg.Wait()

	// ---- merge ----
	var evals, cases int64
	counters := map[string]int64{}
	samples := map[string][]any{}
	hashes := map[uint64]struct{}{}
	files, _ := filepath.Glob(filepath.Join(runDir, "res.w*.json"))
	sort.Strings(files)
	for _, f := range files {
		b, err := os.ReadFile(f)
		if err != nil {
			continue
		}
		var r workerResult
		if json.Unmarshal(b, &r) != nil {
			continue
		}
		evals += r.Evals
		cases += r.Cases
		for k, v := range r.Counters {
			if strings.HasPrefix(k, "max_") {
				if v > counters[k] {
					counters[k] = v
				}
			} else {
				counters[k] += v
			}
		}
		for k, v := range r.Samples {
			if len(samples[k]) < 2 {
				samples[k] = append(samples[k], v...)
			}
		}
		inconclusive = append(inconclusive, r.Inconcl...)
		for _, h := range r.Hashes {
			hashes[h] = struct{}{}
		}
	}
	var viols []Violation
	vfiles, _ := filepath.Glob(filepath.Join(runDir, "viol.w*.jsonl"))
	sort.Strings(vfiles)
	for _, f := range vfiles {
		fh, err := os.Open(f)
		if err != nil {
			continue
		}
		sc := bufio.NewScanner(fh)
		sc.Buffer(make([]byte, 1<<20), 64<<20)
		for sc.Scan() {
			var v Violation
			if json.Unmarshal(sc.Bytes(), &v) == nil {
				viols = append(viols, v)
			}
		}
		fh.Close()
	}
	viols = append(viols, suspects...)
	sort.SliceStable(viols, func(a, b int) bool { return viols[a].Global < viols[b].Global })

	// ---- verdict ----
	findings := loadFindings(root)
	known := map[string]Finding{}
	for _, f := range findings {
		if f.Status == "finding" && f.Property == id {
			known[f.Sig] = f
		}
	}
	bySig := map[string][]Violation{}
	var sigOrder []string
	for _, v := range viols {
		if _, ok := bySig[v.Sig]; !ok {
			sigOrder = append(sigOrder, v.Sig)
		}
		bySig[v.Sig] = append(bySig[v.Sig], v)
	}
	newViolations := 0
	knownHits := 0
	// VERIF_OUT redirects evidence and replay files (used by self-tests on scratch copies)
	outRoot := root
	if d := os.Getenv("VERIF_OUT"); d != "" {
		outRoot = d
	}
	os.MkdirAll(filepath.Join(outRoot, "replay"), 0o755)
	for _, sig := range sigOrder {
		vs := bySig[sig]
		if f, ok := known[sig]; ok {
			fmt.Printf("KNOWN-FINDING: property=%s %s (sig %s, seen %d time(s) in this run)\n", id, f.What, sig, len(vs))
			knownHits++
			continue
		}
		newViolations++
		v := vs[0]
		sum := sha1.Sum([]byte(fmt.Sprintf("%s|%s|%s|%d|%d", id, sig, tier, seed, v.Global)))
		path := filepath.Join(outRoot, "replay", fmt.Sprintf("%s-%x.json", id, sum[:6]))
		doc := map[string]any{"property": id, "sig": sig, "occurrences_in_run": len(vs), "violation": v,
			"replay": fmt.Sprintf("./run.sh replay %s", path)}
		b, _ := json.MarshalIndent(doc, "", "  ")
		os.WriteFile(path, b, 0o644)
		fmt.Printf("VIOLATION property=%s replay=%s\n", id, path)
		fmt.Fprintf(os.Stderr, "  sig=%s what=%s (x%d)\n", sig, clipStr(v.What, 300), len(vs))
	}
	for _, s := range inconclusive {
		fmt.Fprintf(os.Stderr, "INCONCLUSIVE: %s\n", clipStr(s, 400))
	}
	if truncated {
		fmt.Fprintf(os.Stderr, "INCONCLUSIVE: explored %d of %d cases\n", cases, total)
	}

	// ---- evidence ----
	exhaustive := !truncated && len(secs) > 0
	for _, s := range secs {
		if !s.Exhaustive {
			exhaustive = false
		}
	}
	var sampleList []any
	var secNames []string
	for k := range samples {
		secNames = append(secNames, k)
	}
	sort.Strings(secNames)
	for _, k := range secNames {
		for _, s := range samples[k] {
			if len(sampleList) < 16 {
				sampleList = append(sampleList, map[string]any{"section": k, "case": s})
			}
		}
	}
	secInfo := []any{}
	for _, s := range secs {
		secInfo = append(secInfo, map[string]any{"name": s.Name, "cases": s.N, "exhaustive": s.Exhaustive})
	}
	cov := map[string]any{
		"evaluations":         evals,
		"distinct_nontrivial": len(hashes),
		"rule":                ch.Rule,
		"samples":             sampleList,
		"exhaustive":          exhaustive,
		"cases_run":           cases,
		"cases_planned":       total,
		"truncated":           truncated,
		"sections":            secInfo,
		"workers":             W,
		"inconclusive_cases":  len(inconclusive),
		"known_findings_seen": knownHits,
	}
	for k, v := range counters {
		cov[k] = v
	}
	ev := map[string]any{
		"property_id": id,
		"tier":        string(tier),
		"seed":        seed,
		"level":       ch.Level,
		"coverage":    cov,
		"assumptions": ch.Assumptions,
		"wall_s":      time.Since(t0).Seconds(),
		"violations":  newViolations,
	}
	b, _ := json.MarshalIndent(ev, "", " ")
	os.MkdirAll(filepath.Join(outRoot, "evidence"), 0o755)
	os.WriteFile(filepath.Join(outRoot, "evidence", id+".json"), append(b, '\n'), 0o644)
	fmt.Fprintf(os.Stderr, "[%s] cases=%d/%d evaluations=%d distinct_nontrivial=%d violations=%d known=%d inconclusive=%d wall=%.1fs\n",
		id, cases, total, evals, len(hashes), newViolations, knownHits, len(inconclusive), time.Since(t0).Seconds())

	if newViolations > 0 {
		return 1
	}
	if evals == 0 || len(hashes) < 2 {
		fmt.Fprintf(os.Stderr, "[%s] BROKEN RUN: the monitors observed nothing (evaluations=%d distinct=%d)\n", id, evals, len(hashes))
		return 2
	}
	return 0
}

func confirmCase(exe, root, scratch, runDir, id string, tier Tier, seed int64, g int, budget float64) (Violation, bool, string) {
	out := filepath.Join(runDir, fmt.Sprintf("confirm.%d.json", g))
	witness := filepath.Join(runDir, fmt.Sprintf("confirm.%d.witness.txt", g))
	errPath := filepath.Join(runDir, fmt.Sprintf("confirm.%d.stderr.txt", g))
	errFile, _ := os.Create(errPath)
	cmd := exec.Command(exe, "one", id, string(tier), fmt.Sprint(seed), fmt.Sprint(g), fmt.Sprint(budget))
	cmd.Env = append(os.Environ(), "VERIF_SCRATCH="+scratch, "VERIF_ROOT="+root, "VERIF_ONE_OUT="+out, "VERIF_ONE_WITNESS="+witness)
	cmd.Stdout = errFile
	cmd.Stderr = errFile
	err := cmd.Run()
	errFile.Close()
	code := 0
	if err != nil {
		code = -1
		if ee, ok := err.(*exec.ExitError); ok {
			code = ee.ExitCode()
		}
	}
	switch code {
	case 0:
		return Violation{}, false, "clean"
	case 1:
		// the case reported ordinary violations when run alone; take the first
		b, _ := os.ReadFile(out)
		var vs []Violation
		json.Unmarshal(b, &vs)
		if len(vs) > 0 {
			return vs[0], true, ""
		}
		return Violation{}, false, "exit 1 without a violation record"
	case exitBudget:
		w := tailFileHead(witness, 8000)
		reason := firstLine(w)
		var rec map[string]any
		json.Unmarshal([]byte(reason), &rec)
		v := Violation{Property: id, Sig: "budget:" + budgetSite(w), Tier: tier, Seed: seed,
			What:   "the real code did not finish within the resource budget (confirmed alone with a doubled budget)",
			Detail: map[string]any{"watchdog": rec, "goroutines": w}}
		if rec != nil {
			v.Detail["input"] = rec["input"]
		}
		return v, true, ""
	default:
		tail := tailFile(errPath, 8000)
		v := Violation{Property: id, Sig: "fatal:" + fatalSite(tail), Tier: tier, Seed: seed,
			What:   fmt.Sprintf("the process running the real code died (exit code %d), confirmed alone", code),
			Detail: map[string]any{"stderr_tail": tail}}
		return v, true, ""
	}
}

// budgetSite names the innermost repository frame of the goroutine dump
func budgetSite(dump string) string {
	for _, ln := range strings.Split(dump, "\n") {
		if strings.HasPrefix(ln, "github.com/textwire/textwire/v2") {
			fn := ln
			if i := strings.LastIndex(fn, "("); i > 0 {
				fn = fn[:i]
			}
			return strings.TrimPrefix(fn, "github.com/textwire/textwire/v2")
		}
	}
	return "unknown"
}

func fatalSite(stderr string) string {
	first := ""
	for _, ln := range strings.Split(stderr, "\n") {
		if strings.HasPrefix(ln, "fatal error:") || strings.HasPrefix(ln, "runtime: goroutine stack exceeds") {
			first = strings.TrimSpace(ln)
			break
		}
	}
	return first + "@" + budgetSite(stderr)
}

func tailFile(path string, n int) string {
	b, err := os.ReadFile(path)
	if err != nil {
		return ""
	}
	if len(b) > n {
		// keep the head (fatal error line, first goroutine) rather than the tail
		return string(b[:n]) + "\n…"
	}
	return string(b)
}

func tailFileHead(path string, n int) string { return tailFile(path, n) }

func firstLine(s string) string {
	if i := strings.IndexByte(s, '\n'); i >= 0 {
		return s[:i]
	}
	return s
}

func clipStr(s string, n int) string {
	if len(s) > n {
		return s[:n] + "…"
	}
	return s
}

// ReplayMain re-runs the case recorded in a replay file
func ReplayMain(path string) int {
	b, err := os.ReadFile(path)
	if err != nil {
		fmt.Fprintln(os.Stderr, err)
		return 2
	}
	var doc struct {
		Property  string    `json:"property"`
		Violation Violation `json:"violation"`
	}
	if err := json.Unmarshal(b, &doc); err != nil {
		fmt.Fprintln(os.Stderr, err)
		return 2
	}
	v := doc.Violation
	fmt.Printf("replaying %s %s[%d] tier=%s seed=%d\n", doc.Property, v.Section, v.Index, v.Tier, v.Seed)
	return OneMain(doc.Property, v.Tier, v.Seed, v.Global, 40, true)
}
