package core

import (
	"encoding/binary"
	"encoding/json"
	"fmt"
	"os"
	"path/filepath"
	"runtime"
	"runtime/debug"
	"runtime/pprof"
	"sync/atomic"
	"syscall"
	"time"
)

// Exit codes of a worker process
const (
	exitOK       = 0
	exitBudget   = 3 // the watchdog stopped the case in flight (CPU or heap)
	exitStopped  = 4 // asked to stop by the supervisor (wall-clock limit of the check)
	heapLimitMiB = 2048
)

// journal is a small file mapped into memory: the worker stores the global
// number of the case in flight there, so the supervisor still knows it
// after the worker died in a way recover() cannot see
type journal struct {
	mem []byte
}

func openJournal(path string) (*journal, error) {
	f, err := os.OpenFile(path, os.O_RDWR|os.O_CREATE, 0o644)
	if err != nil {
		return nil, err
	}
	defer f.Close()
	if err := f.Truncate(64); err != nil {
		return nil, err
	}
	mem, err := syscall.Mmap(int(f.Fd()), 0, 64, syscall.PROT_READ|syscall.PROT_WRITE, syscall.MAP_SHARED)
	if err != nil {
		return nil, err
	}
	return &journal{mem: mem}, nil
}

func (j *journal) set(g int64, state uint64) {
	binary.LittleEndian.PutUint64(j.mem[0:8], uint64(g))
	binary.LittleEndian.PutUint64(j.mem[8:16], state)
}

func readJournal(path string) (g int64, state uint64, ok bool) {
	b, err := os.ReadFile(path)
	if err != nil || len(b) < 16 {
		return 0, 0, false
	}
	return int64(binary.LittleEndian.Uint64(b[0:8])), binary.LittleEndian.Uint64(b[8:16]), true
}

func cpuSeconds() float64 {
	var ru syscall.Rusage
	syscall.Getrusage(syscall.RUSAGE_SELF, &ru)
	return float64(ru.Utime.Sec) + float64(ru.Utime.Usec)/1e6 + float64(ru.Stime.Sec) + float64(ru.Stime.Usec)/1e6
}

type watchdog struct {
	caseSerial atomic.Int64 // incremented at every case start
	budget     float64
	ctx        *Ctx
	witness    string
}

// run samples CPU time and heap of this process; a single case that burns
// more than the CPU budget or grows the heap over the limit ends the worker
func (w *watchdog) run() {
	var lastSerial int64 = -1
	var cpuAtStart float64
	for {
		time.Sleep(50 * time.Millisecond)
		serial := w.caseSerial.Load()
		now := cpuSeconds()
		if serial != lastSerial {
			lastSerial = serial
			cpuAtStart = now
			continue
		}
		reason := ""
		if now-cpuAtStart > w.budget {
			reason = fmt.Sprintf("case consumed more than %.0f s of CPU without finishing", w.budget)
		} else {
			var ms runtime.MemStats
			if now-cpuAtStart > 0.5 { // only look at the heap of cases that run long
				runtime.ReadMemStats(&ms)
				if ms.HeapAlloc > heapLimitMiB<<20 {
					reason = fmt.Sprintf("heap grew over %d MiB during one case", heapLimitMiB)
				}
			}
		}
		if reason == "" {
			continue
		}
		f, err := os.Create(w.witness)
		if err == nil {
			rec := map[string]any{"reason": reason, "section": w.ctx.Section, "index": w.ctx.Index,
				"global": w.ctx.Global, "input": w.ctx.currentInput()}
			b, _ := json.Marshal(rec)
			f.Write(append(b, '\n'))
			pprof.Lookup("goroutine").WriteTo(f, 2)
			f.Close()
		}
		os.Exit(exitBudget)
	}
}

// WorkerMain runs cases start, start+stride, … of the check in this process
func WorkerMain(id string, tier Tier, seed int64, w, stride, start int, runDir string, attempt int, budget float64) int {
	ch := Lookup(id)
	if ch == nil {
		fmt.Fprintln(os.Stderr, "unknown check", id)
		return 2
	}
	debug.SetMaxStack(256 << 20)
	debug.SetGCPercent(100)
	c := newCtx(ch, tier, seed)
	work, err := os.MkdirTemp(ScratchBase(), fmt.Sprintf("twv-%s-w%d-", id, w))
	if err != nil {
		fmt.Fprintln(os.Stderr, err)
		return 2
	}
	defer os.RemoveAll(work)
	c.WorkDir = work
	os.Chdir(work)
	sink, err := os.OpenFile(filepath.Join(runDir, fmt.Sprintf("viol.w%d.jsonl", w)), os.O_APPEND|os.O_CREATE|os.O_WRONLY, 0o644)
	if err == nil {
		c.violSink = sink
		defer sink.Close()
	}
	jr, err := openJournal(filepath.Join(runDir, fmt.Sprintf("journal.w%d", w)))
	if err != nil {
		fmt.Fprintln(os.Stderr, "journal:", err)
		return 2
	}
	resPath := filepath.Join(runDir, fmt.Sprintf("res.w%d.a%d.json", w, attempt))
	secs := ch.Sections(tier, seed)
	total := totalCases(secs)

	stop := make(chan os.Signal, 1)
	signalNotify(stop)

	wd := &watchdog{budget: budget, ctx: c, witness: filepath.Join(runDir, fmt.Sprintf("budget.w%d.a%d.txt", w, attempt))}
	jr.set(-1, 1) // setup
	go wd.run()
	if ch.Setup != nil {
		ch.Setup(c)
	}
	var cases int64
	lastFlush := time.Now()
	g := start
	for ; g < total; g += stride {
		select {
		case <-stop:
			c.flush(resPath, cases, g-stride, false)
			os.RemoveAll(work)
			return exitStopped
		default:
		}
		sec, i := locate(secs, g)
		jr.set(int64(g), 2)
		wd.caseSerial.Add(1)
		c.runCase(sec, i, g)
		cases++
		if cases%512 == 0 && time.Since(lastFlush) > 2*time.Second {
			c.flush(resPath, cases, g, false)
			lastFlush = time.Now()
		}
	}
	jr.set(int64(total), 3) // finishing
	wd.caseSerial.Add(1)
	if ch.Finish != nil {
		c.Section, c.Index = "finish", 0
		ch.Finish(c)
	}
	c.flush(resPath, cases, g-stride, true)
	return exitOK
}

// OneMain re-runs a single case (confirmation run or replay)
func OneMain(id string, tier Tier, seed int64, g int, budget float64, verbose bool) int {
	ch := Lookup(id)
	if ch == nil {
		fmt.Fprintln(os.Stderr, "unknown check", id)
		return 2
	}
	debug.SetMaxStack(256 << 20)
	c := newCtx(ch, tier, seed)
	c.Replay = verbose
	work, err := os.MkdirTemp(ScratchBase(), fmt.Sprintf("twv-%s-one-", id))
	if err != nil {
		fmt.Fprintln(os.Stderr, err)
		return 2
	}
	defer os.RemoveAll(work)
	c.WorkDir = work
	os.Chdir(work)
	secs := ch.Sections(tier, seed)
	sec, i := locate(secs, g)
	if sec == nil {
		fmt.Fprintln(os.Stderr, "no such case", g)
		return 2
	}
	wd := &watchdog{budget: budget, ctx: c, witness: filepath.Join(work, "budget.txt")}
	if p := os.Getenv("VERIF_ONE_WITNESS"); p != "" {
		wd.witness = p
	}
	go wd.run()
	if ch.Setup != nil {
		ch.Setup(c)
	}
	wd.caseSerial.Add(1)
	c.runCase(sec, i, g)
	if verbose {
		fmt.Printf("case %s[%d] (global %d): %d violation(s), %d evaluation(s)\n", sec.Name, i, g, len(c.violations), c.evals)
		if in := c.currentInput(); in != nil {
			b, _ := json.MarshalIndent(clip(in), "", "  ")
			fmt.Printf("input: %s\n", b)
		}
	}
	if out := os.Getenv("VERIF_ONE_OUT"); out != "" {
		b, _ := json.Marshal(c.violations)
		os.WriteFile(out, b, 0o644)
	}
	if len(c.violations) > 0 {
		os.RemoveAll(work)
		return 1
	}
	return 0
}
