// twcheck is the single binary of the runtime-monitoring harness.
//
//	twcheck run <ID> <tier> <seed>       supervise a whole check
//	twcheck worker …                     (internal) run a shard of cases
//	twcheck one <ID> <tier> <seed> <g> <budget>   (internal) run one case
//	twcheck replay <file>                re-run the case of a replay file
//	twcheck list                         list the checks
package main

import (
	"fmt"
	"os"
	"strconv"

	_ "verif/checks"
	"verif/core"
)

func atoi(s string) int { n, _ := strconv.Atoi(s); return n }

func main() {
	if len(os.Args) < 2 {
		fmt.Fprintln(os.Stderr, "usage: twcheck run|replay|list …")
		os.Exit(2)
	}
	switch os.Args[1] {
	case "list":
		for _, id := range core.IDs() {
			fmt.Println(id)
		}
	case "run":
		if len(os.Args) < 5 {
			fmt.Fprintln(os.Stderr, "usage: twcheck run <ID> <tier> <seed>")
			os.Exit(2)
		}
		seed, _ := strconv.ParseInt(os.Args[4], 10, 64)
		os.Exit(core.SuperviseMain(os.Args[2], core.Tier(os.Args[3]), seed))
	case "worker":
		a := os.Args[2:]
		seed, _ := strconv.ParseInt(a[2], 10, 64)
		budget, _ := strconv.ParseFloat(a[8], 64)
		os.Exit(core.WorkerMain(a[0], core.Tier(a[1]), seed, atoi(a[3]), atoi(a[4]), atoi(a[5]), a[6], atoi(a[7]), budget))
	case "one":
		a := os.Args[2:]
		seed, _ := strconv.ParseInt(a[2], 10, 64)
		budget, _ := strconv.ParseFloat(a[4], 64)
		os.Exit(core.OneMain(a[0], core.Tier(a[1]), seed, atoi(a[3]), budget, os.Getenv("VERIF_ONE_OUT") == ""))
	case "aux":
		os.Exit(core.AuxMain(os.Args[2], os.Args[3:]))
	case "replay":
		os.Exit(core.ReplayMain(os.Args[2]))
	default:
		fmt.Fprintln(os.Stderr, "unknown command", os.Args[1])
		os.Exit(2)
	}
}
