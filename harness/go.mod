module verif

go 1.22.0

toolchain go1.23.5

require github.com/textwire/textwire/v2 v2.0.0

replace github.com/textwire/textwire/v2 => /repo
