package model

import (
	"errors"
	"fmt"
	"html"
	"math"
	"strconv"
	"strings"
	"unicode"
	"unicode/utf8"
)

// Expression nodes. Literals are never negative: a negative number is
// written as Unary{"-", Lit}. Paren is an explicit, redundant pair of
// parentheses (identity).
type Expr interface{}

type Lit struct{ V Value }
type Var struct{ Name string }
type Unary struct {
	Op string // "-" or "!"
	X  Expr
}
type Postfix struct {
	Op string // "++" or "--"
	X  Expr
}
type Binary struct {
	Op   string
	L, R Expr
}
type Ternary struct{ C, A, B Expr }
type Index struct{ X, I Expr }
type Dot struct {
	X    Expr
	Name string
}
type Call struct {
	X    Expr
	Name string
	Args []Expr
}
type ArrLit struct{ Elems []Expr }
type ObjLit struct {
	Keys []string
	Vals []Expr // nil entry = shorthand {name}
}
type Paren struct{ X Expr }

// StrLit is a string literal with an explicit quote style
type StrLit struct {
	S     string
	Quote byte // '"' or '\''; 0 = '"'
}

// ErrEval is the model's "the render must fail with an error"
var ErrEval = errors.New("model: evaluation error")

// ErrUnspecified means that the property statements leave the result of
// this evaluation open; oracles do not judge such a case
var ErrUnspecified = errors.New("model: result not specified by the property")

func evalErr(format string, a ...any) error {
	return fmt.Errorf("%w: %s", ErrEval, fmt.Sprintf(format, a...))
}

// Event is one observation of a tracer probe
type Event struct {
	ID  int64
	Val string // Describe() of the traced value
}

// CustomFn is the model of a registered custom function
type CustomFn func(recv Value, args []Value) (Value, error)

// Scope is a block scope
type Scope struct {
	vars  map[string]Value
	outer *Scope
}

func NewScope(outer *Scope) *Scope { return &Scope{vars: map[string]Value{}, outer: outer} }

func (s *Scope) Get(name string) (Value, bool) {
	for sc := s; sc != nil; sc = sc.outer {
		if v, ok := sc.vars[name]; ok {
			return v, true
		}
	}
	return Nil, false
}

// Set is an assignment: the name "loop" is reserved, a visible name keeps
// its type, the binding goes into the current block
func (s *Scope) Set(name string, v Value) error {
	if name == "loop" {
		return evalErr("loop is reserved")
	}
	if old, ok := s.Get(name); ok && old.K != v.K {
		return evalErr("variable %s of type %s cannot become %s", name, old.K, v.K)
	}
	s.vars[name] = v
	return nil
}

func (s *Scope) setLoop(v Value) { s.vars["loop"] = v }

// Interp evaluates expressions and statements
type Interp struct {
	Events []Event
	Custom map[string]CustomFn // key: kind name + "." + function name
	Files  map[string]*File    // template tree (components, layouts)
	Steps  int
}

func NewInterp() *Interp { return &Interp{Custom: map[string]CustomFn{}} }

// EscapeLiteral is C10's rule: a string literal reaches the output
// HTML-escaped, quotes stay as written
func EscapeLiteral(s string) string {
	e := html.EscapeString(s)
	e = strings.ReplaceAll(e, "&#34;", `"`)
	e = strings.ReplaceAll(e, "&#39;", `'`)
	return e
}

func (in *Interp) Eval(e Expr, sc *Scope) (Value, error) {
	switch n := e.(type) {
	case Lit:
		if n.V.K == KStr {
			return Str(EscapeLiteral(n.V.S)), nil
		}
		return n.V, nil
	case StrLit:
		return Str(EscapeLiteral(n.S)), nil
	case Paren:
		return in.Eval(n.X, sc)
	case Var:
		v, ok := sc.Get(n.Name)
		if !ok {
			return Nil, evalErr("identifier %s not found", n.Name)
		}
		return v, nil
	case Unary:
		x, err := in.Eval(n.X, sc)
		if err != nil {
			return Nil, err
		}
		return evalUnary(n.Op, x)
	case Postfix:
		x, err := in.Eval(n.X, sc)
		if err != nil {
			return Nil, err
		}
		return evalPostfix(n.Op, x)
	case Binary:
		l, err := in.Eval(n.L, sc)
		if err != nil {
			return Nil, err
		}
		r, err := in.Eval(n.R, sc)
		if err != nil {
			return Nil, err
		}
		return EvalBinary(n.Op, l, r)
	case Ternary:
		c, err := in.Eval(n.C, sc)
		if err != nil {
			return Nil, err
		}
		if c.Truthy() {
			return in.Eval(n.A, sc)
		}
		return in.Eval(n.B, sc)
	case Index:
		x, err := in.Eval(n.X, sc)
		if err != nil {
			return Nil, err
		}
		i, err := in.Eval(n.I, sc)
		if err != nil {
			return Nil, err
		}
		switch {
		case x.K == KArr && i.K == KInt:
			if i.I < 0 || i.I >= int64(len(x.A)) {
				return Nil, nil
			}
			return x.A[i.I], nil
		case x.K == KObj && i.K == KStr:
			return objectField(x, i.S)
		}
		return Nil, evalErr("index %s[%s] not supported", x.K, i.K)
	case Dot:
		x, err := in.Eval(n.X, sc)
		if err != nil {
			return Nil, err
		}
		if x.K != KObj {
			return Nil, evalErr("property access on %s", x.K)
		}
		return objectField(x, n.Name)
	case ArrLit:
		out := make([]Value, 0, len(n.Elems))
		for _, el := range n.Elems {
			v, err := in.Eval(el, sc)
			if err != nil {
				return Nil, err
			}
			out = append(out, v)
		}
		return Arr(out...), nil
	case ObjLit:
		out := map[string]Value{}
		// entries are evaluated in alphabetical key order (deterministic)
		idx := sortedIdx(n.Keys)
		for _, k := range idx {
			var v Value
			var err error
			if n.Vals[k] == nil {
				v, err = in.Eval(Var{n.Keys[k]}, sc)
			} else {
				v, err = in.Eval(n.Vals[k], sc)
			}
			if err != nil {
				return Nil, err
			}
			out[n.Keys[k]] = v
		}
		return Obj(out), nil
	case Call:
		recv, err := in.Eval(n.X, sc)
		if err != nil {
			return Nil, err
		}
		if recv.K == KNil || recv.K == KObj {
			return Nil, evalErr("no functions on %s", recv.K)
		}
		args := make([]Value, 0, len(n.Args))
		for _, a := range n.Args {
			v, err := in.Eval(a, sc)
			if err != nil {
				return Nil, err
			}
			args = append(args, v)
		}
		if fn, ok := Builtins[recv.K.String()+"."+n.Name]; ok {
			return fn(recv, args)
		}
		if fn, ok := in.Custom[recv.K.String()+"."+n.Name]; ok {
			return fn(recv, args)
		}
		return Nil, evalErr("function %s does not exist for %s", n.Name, recv.K)
	}
	return Nil, evalErr("unknown expression node %T", e)
}

func sortedIdx(keys []string) []int {
	idx := make([]int, len(keys))
	for i := range idx {
		idx[i] = i
	}
	for i := 1; i < len(idx); i++ {
		for j := i; j > 0 && keys[idx[j]] < keys[idx[j-1]]; j-- {
			idx[j], idx[j-1] = idx[j-1], idx[j]
		}
	}
	// with duplicate keys the last one in source order wins
	return idx
}

// objectField looks a name up, also with its first letter upper-cased
// (struct fields are reachable with a lower-cased first letter)
func objectField(o Value, name string) (Value, error) {
	if v, ok := o.O[name]; ok {
		return v, nil
	}
	if name != "" {
		first, size := utf8.DecodeRuneInString(name)
		up := string(unicode.ToUpper(first)) + name[size:]
		if v, ok := o.O[up]; ok {
			return v, nil
		}
	}
	return Nil, evalErr("property %q not found", name)
}

func evalUnary(op string, x Value) (Value, error) {
	switch op {
	case "-":
		switch x.K {
		case KInt:
			return Int(-x.I), nil
		case KFloat:
			return Float(-x.F), nil
		}
	case "!":
		switch x.K {
		case KBool:
			return Bool(!x.B), nil
		case KNil:
			return Bool(true), nil
		}
	}
	return Nil, ErrUnspecified
}

func evalPostfix(op string, x Value) (Value, error) {
	d := int64(1)
	if op == "--" {
		d = -1
	}
	switch x.K {
	case KInt:
		return Int(x.I + d), nil
	case KFloat:
		ieee := x.F + float64(d)
		if op == "--" && x.F >= 1 {
			// the pinned suite fixes 4.4-- = 3.4 (the integer part of the
			// decimal text is decremented); where that differs from IEEE
			// x-1 neither is demanded
			if alt, ok := decimalDecrement(x.F); !ok || alt != ieee {
				return Nil, ErrUnspecified
			}
		}
		return Float(ieee), nil
	}
	return Nil, ErrUnspecified
}

func decimalDecrement(f float64) (float64, bool) {
	s := strconv.FormatFloat(f, 'f', -1, 64)
	dot := strings.IndexByte(s, '.')
	if dot < 0 {
		return f - 1, true
	}
	ip, err := strconv.ParseUint(s[:dot], 10, 64)
	if err != nil || ip == 0 {
		return 0, false
	}
	r, err := strconv.ParseFloat(strconv.FormatUint(ip-1, 10)+s[dot:], 64)
	return r, err == nil
}

// EvalBinary applies a binary operator to two values of the same type
func EvalBinary(op string, l, r Value) (Value, error) {
	if l.K != r.K {
		return Nil, evalErr("type mismatch %s %s %s", l.K, op, r.K)
	}
	if Unspecified(op, l.K, r.K) {
		return Nil, ErrUnspecified
	}
	switch l.K {
	case KInt:
		a, b := l.I, r.I
		switch op {
		case "+":
			return Int(a + b), nil
		case "-":
			return Int(a - b), nil
		case "*":
			return Int(a * b), nil
		case "/":
			if b == 0 {
				return Nil, evalErr("division by zero")
			}
			if a == math.MinInt64 && b == -1 {
				return Int(math.MinInt64), nil
			}
			return Int(a / b), nil
		case "%":
			if b == 0 {
				return Nil, evalErr("modulo by zero")
			}
			if b == -1 {
				return Int(0), nil
			}
			return Int(a % b), nil
		case "==":
			return Bool(a == b), nil
		case "!=":
			return Bool(a != b), nil
		case "<":
			return Bool(a < b), nil
		case ">":
			return Bool(a > b), nil
		case "<=":
			return Bool(a <= b), nil
		case ">=":
			return Bool(a >= b), nil
		}
	case KFloat:
		a, b := l.F, r.F
		switch op {
		case "+":
			return Float(a + b), nil
		case "-":
			return Float(a - b), nil
		case "*":
			return Float(a * b), nil
		case "/":
			return Float(a / b), nil
		case "==":
			return Bool(a == b), nil
		case "!=":
			return Bool(a != b), nil
		case "<":
			return Bool(a < b), nil
		case ">":
			return Bool(a > b), nil
		case "<=":
			return Bool(a <= b), nil
		case ">=":
			return Bool(a >= b), nil
		}
	case KStr:
		switch op {
		case "+":
			return Str(l.S + r.S), nil
		case "==":
			return Bool(l.S == r.S), nil
		case "!=":
			return Bool(l.S != r.S), nil
		}
	}
	return Nil, evalErr("operator %s not defined on %s", op, l.K)
}

// Unspecified reports whether evaluating op on these operand kinds is left
// open by the property statement (so generators avoid it and oracles do
// not judge it): float %, comparisons/equality of bool, nil, array, object,
// ordering of strings, "!" on anything but bool and nil.
func Unspecified(op string, l, r Kind) bool {
	if l != r {
		return false // a mixed-type error is specified
	}
	switch l {
	case KFloat:
		return op == "%"
	case KStr:
		return op == "<" || op == ">" || op == "<=" || op == ">=" || op == "-" || op == "*" || op == "/" || op == "%"
	case KBool, KNil, KArr, KObj:
		return true
	}
	return false
}
