// Package model holds the executable reference models. They are written
// from the property statements and operate on structured cases (expression
// and statement trees, Go values); a printer turns the same structures into
// template source for the real code. Nothing here parses template source.
package model

import (
	"fmt"
	"math"
	"sort"
	"strconv"
	"strings"
)

type Kind int

const (
	KNil Kind = iota
	KBool
	KInt
	KFloat
	KStr
	KArr
	KObj
)

func (k Kind) String() string {
	return [...]string{"nil", "bool", "int", "float", "string", "array", "object"}[k]
}

// Value is a template value
type Value struct {
	K Kind
	B bool
	I int64
	F float64
	S string
	A []Value
	O map[string]Value
}

var Nil = Value{K: KNil}

func Bool(b bool) Value     { return Value{K: KBool, B: b} }
func Int(i int64) Value     { return Value{K: KInt, I: i} }
func Float(f float64) Value { return Value{K: KFloat, F: f} }
func Str(s string) Value    { return Value{K: KStr, S: s} }
func Arr(a ...Value) Value {
	if a == nil {
		a = []Value{}
	}
	return Value{K: KArr, A: a}
}
func Obj(o map[string]Value) Value {
	if o == nil {
		o = map[string]Value{}
	}
	return Value{K: KObj, O: o}
}

// Truthy is the truthiness table of C02
func (v Value) Truthy() bool {
	switch v.K {
	case KNil:
		return false
	case KBool:
		return v.B
	case KInt:
		return v.I != 0
	case KFloat:
		return v.F != 0
	case KStr:
		return v.S != ""
	}
	return true
}

// FormatFloat prints a float the way the equal literal is written: an
// integral value with ".0", otherwise the shortest decimal that round-trips
func FormatFloat(f float64) string {
	// (beyond 1e15 no property fixes the form; up to 2^63 the ".0" form is kept so that deep
	// random arithmetic, which can leave the stated domain, raises no false alarm)
	if f == math.Trunc(f) && math.Abs(f) < 9.2e18 {
		return strconv.FormatFloat(f, 'f', 1, 64)
	}
	return strconv.FormatFloat(f, 'f', -1, 64)
}

// Print is the text a value renders to
func (v Value) Print() string {
	switch v.K {
	case KNil:
		return ""
	case KBool:
		if v.B {
			return "1"
		}
		return "0"
	case KInt:
		return strconv.FormatInt(v.I, 10)
	case KFloat:
		return FormatFloat(v.F)
	case KStr:
		return v.S
	case KArr:
		parts := make([]string, len(v.A))
		for i, e := range v.A {
			parts[i] = e.Print()
		}
		return strings.Join(parts, ", ")
	case KObj:
		keys := v.Keys()
		parts := make([]string, len(keys))
		for i, k := range keys {
			parts[i] = k + ": " + v.O[k].Print()
		}
		return "{" + strings.Join(parts, ", ") + "}"
	}
	return ""
}

func (v Value) Keys() []string {
	keys := make([]string, 0, len(v.O))
	for k := range v.O {
		keys = append(keys, k)
	}
	sort.Strings(keys)
	return keys
}

// Equal is structural equality
func (v Value) Equal(w Value) bool {
	if v.K != w.K {
		return false
	}
	switch v.K {
	case KNil:
		return true
	case KBool:
		return v.B == w.B
	case KInt:
		return v.I == w.I
	case KFloat:
		return v.F == w.F || (math.IsNaN(v.F) && math.IsNaN(w.F))
	case KStr:
		return v.S == w.S
	case KArr:
		if len(v.A) != len(w.A) {
			return false
		}
		for i := range v.A {
			if !v.A[i].Equal(w.A[i]) {
				return false
			}
		}
		return true
	case KObj:
		if len(v.O) != len(w.O) {
			return false
		}
		for k, e := range v.O {
			f, ok := w.O[k]
			if !ok || !e.Equal(f) {
				return false
			}
		}
		return true
	}
	return false
}

// Native converts a value to the plain Go value a data map would hold
func (v Value) Native() any {
	switch v.K {
	case KNil:
		return nil
	case KBool:
		return v.B
	case KInt:
		return v.I
	case KFloat:
		return v.F
	case KStr:
		return v.S
	case KArr:
		out := make([]any, len(v.A))
		for i, e := range v.A {
			out[i] = e.Native()
		}
		return out
	case KObj:
		out := map[string]any{}
		for k, e := range v.O {
			out[k] = e.Native()
		}
		return out
	}
	return nil
}

// FromNative converts what a custom function receives back to a value
func FromNative(x any) (Value, bool) {
	switch t := x.(type) {
	case nil:
		return Nil, true
	case bool:
		return Bool(t), true
	case int:
		return Int(int64(t)), true
	case int64:
		return Int(t), true
	case float64:
		return Float(t), true
	case string:
		return Str(t), true
	case []any:
		out := make([]Value, len(t))
		for i, e := range t {
			v, ok := FromNative(e)
			if !ok {
				return Nil, false
			}
			out[i] = v
		}
		return Arr(out...), true
	case map[string]any:
		out := map[string]Value{}
		for k, e := range t {
			v, ok := FromNative(e)
			if !ok {
				return Nil, false
			}
			out[k] = v
		}
		return Obj(out), true
	}
	return Nil, false
}

// Describe is a compact, unambiguous rendering for witnesses
func (v Value) Describe() string {
	switch v.K {
	case KNil:
		return "nil"
	case KBool:
		return fmt.Sprint(v.B)
	case KInt:
		return fmt.Sprintf("int(%d)", v.I)
	case KFloat:
		return fmt.Sprintf("float(%s)", strconv.FormatFloat(v.F, 'g', -1, 64))
	case KStr:
		return fmt.Sprintf("%q", v.S)
	case KArr:
		parts := make([]string, len(v.A))
		for i, e := range v.A {
			parts[i] = e.Describe()
		}
		return "[" + strings.Join(parts, ", ") + "]"
	case KObj:
		keys := v.Keys()
		parts := make([]string, len(keys))
		for i, k := range keys {
			parts[i] = fmt.Sprintf("%q: %s", k, v.O[k].Describe())
		}
		return "{" + strings.Join(parts, ", ") + "}"
	}
	return "?"
}

// DescribeData renders a data map for witnesses
func DescribeData(data map[string]Value) map[string]any {
	out := map[string]any{}
	for k, v := range data {
		out[k] = v.Describe()
	}
	return out
}

// NativeData converts a model data map to what the API takes
func NativeData(data map[string]Value) map[string]any {
	if data == nil {
		return nil
	}
	out := map[string]any{}
	for k, v := range data {
		out[k] = v.Native()
	}
	return out
}
