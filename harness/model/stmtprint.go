package model

import (
	"strings"
)

// PrintStmts turns a statement tree into template source
func PrintStmts(stmts []Stmt, st Style) string {
	var sb strings.Builder
	for _, s := range stmts {
		printStmt(&sb, s, st)
	}
	return sb.String()
}

func braces(inner string, st Style) string {
	if st.Marks {
		return "{{" + st.open("p") + " " + inner + " }}" + st.close()
	}
	if st.Layout == TightLayout {
		if strings.HasPrefix(inner, "-") || strings.HasPrefix(inner, "{") || strings.HasSuffix(inner, "}") {
			return "{{ " + inner + " }}"
		}
		return "{{" + inner + "}}"
	}
	if st.Layout == NewlineLayout && st.Rng != nil && st.Rng.Intn(2) == 0 {
		return "{{\n" + inner + "\n}}"
	}
	return "{{ " + inner + " }}"
}

func printStmt(sb *strings.Builder, s Stmt, st Style) {
	switch n := s.(type) {
	case Text:
		sb.WriteString(n.S)
	case RawStmt:
		sb.WriteString(n.Src)
	case Print:
		sb.WriteString(braces(Source(n.E, st), st))
	case Assign:
		sb.WriteString(braces(Join(append([]string{n.Name, "="}, Tokens(n.E, st)...), st), st))
	case *Assign:
		printStmt(sb, *n, st)
	case Comment:
		sb.WriteString("{{--" + st.open("c") + n.Body + "--}}" + st.close())
	case Dump:
		sb.WriteString("@dump(" + st.open("a"))
		for i, a := range n.Args {
			if i > 0 {
				sb.WriteString(", ")
			}
			sb.WriteString(Source(a, st))
		}
		sb.WriteString(")" + st.close())
	case If:
		for i, c := range n.Conds {
			if i == 0 {
				sb.WriteString("@if(" + st.open("a"))
			} else {
				sb.WriteString("@elseif(" + st.open("a"))
			}
			sb.WriteString(Source(c, st))
			sb.WriteString(")" + st.close())
			if i == 0 {
				sb.WriteString(st.open("b"))
			}
			sb.WriteString(PrintStmts(n.Bodies[i], st))
		}
		if n.Else != nil {
			sb.WriteString("@else")
			sb.WriteString(PrintStmts(n.Else, st))
		}
		sb.WriteString("@end" + st.close())
	case Each:
		sb.WriteString("@each(" + st.open("a") + n.Var + " in " + Source(n.Arr, st) + ")" + st.close() + st.open("b"))
		sb.WriteString(PrintStmts(n.Body, st))
		if n.Else != nil {
			sb.WriteString("@else")
			sb.WriteString(PrintStmts(n.Else, st))
		}
		sb.WriteString("@end" + st.close())
	case For:
		sb.WriteString("@for(" + st.open("a"))
		if n.Init != nil {
			sb.WriteString(Join(append([]string{n.Init.Name, "="}, Tokens(n.Init.E, st)...), st))
		} else if n.InitE != nil {
			sb.WriteString(Source(n.InitE, st))
		}
		sb.WriteString("; ")
		if n.Cond != nil {
			sb.WriteString(Source(n.Cond, st))
		}
		sb.WriteString("; ")
		switch p := n.Post.(type) {
		case Assign:
			sb.WriteString(Join(append([]string{p.Name, "="}, Tokens(p.E, st)...), st))
		case Print:
			sb.WriteString(Source(p.E, st))
		}
		sb.WriteString(")" + st.close() + st.open("b"))
		sb.WriteString(PrintStmts(n.Body, st))
		if n.Else != nil {
			sb.WriteString("@else")
			sb.WriteString(PrintStmts(n.Else, st))
		}
		sb.WriteString("@end" + st.close())
	case Break:
		sb.WriteString("@break")
	case Continue:
		sb.WriteString("@continue")
	case BreakIf:
		sb.WriteString("@breakIf(" + st.open("a") + Source(n.E, st) + ")" + st.close())
	case ContinueIf:
		sb.WriteString("@continueIf(" + st.open("a") + Source(n.E, st) + ")" + st.close())
	case Component:
		sb.WriteString("@component(" + st.open("a") + st.quote(n.Name, '"'))
		if n.Args != nil {
			sb.WriteString(", " + Source(*n.Args, st))
		}
		sb.WriteString(")" + st.close())
		if len(n.Slots) > 0 {
			for si, sl := range n.Slots {
				if si == 0 {
					sb.WriteString(n.GapFirst)
				} else {
					sb.WriteString(n.Gap)
				}
				if sl.Name == "" {
					sb.WriteString("@slot")
				} else {
					sb.WriteString("@slot(" + st.open("a") + st.quote(sl.Name, '"') + ")" + st.close())
				}
				sb.WriteString(st.open("b"))
				sb.WriteString(PrintStmts(sl.Body, st))
				sb.WriteString("@end" + st.close())
			}
			sb.WriteString(n.Gap + "@end")
		}
	case SlotRef:
		if n.Name == "" {
			sb.WriteString("@slot")
		} else {
			sb.WriteString("@slot(" + st.open("a") + st.quote(n.Name, '"') + ")" + st.close())
		}
	case Reserve:
		sb.WriteString("@reserve(" + st.open("a") + st.quote(n.Name, '"') + ")" + st.close())
	case Use:
		sb.WriteString("@use(" + st.open("a") + st.quote(n.Name, '"') + ")" + st.close())
	case Insert:
		if n.Block != nil {
			sb.WriteString("@insert(" + st.open("a") + st.quote(n.Name, '"') + ")" + st.close() + st.open("b"))
			sb.WriteString(PrintStmts(n.Block, st))
			sb.WriteString("@end" + st.close())
		} else {
			sb.WriteString("@insert(" + st.open("a") + st.quote(n.Name, '"') + ", " + Source(n.E, st) + ")" + st.close())
		}
	}
}
