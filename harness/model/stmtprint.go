package model

import (
	"strings"
)

// PrintStmts turns a statement tree into template source
func PrintStmts(stmts []Stmt, st Style) string {
	var sb strings.Builder
	for _, s := range stmts {
		printStmt(&sb, s, st)
	}
	return sb.String()
}

func braces(inner string, st Style) string {
	if st.Marks {
		return "{{" + st.open("p") + " " + inner + " }}" + st.close()
	}
	if st.Layout == TightLayout {
		if strings.HasPrefix(inner, "-") || strings.HasPrefix(inner, "{") || strings.HasSuffix(inner, "}") {
			return "{{ " + inner + " }}"
		}
		return "{{" + inner + "}}"
	}
	if st.Layout == NewlineLayout && st.Rng != nil && st.Rng.Intn(2) == 0 {
		return "{{\n" + inner + "\n}}"
	}
	return "{{ " + inner + " }}"
}

// pad is optional white space inside a directive's parentheses (only in the
// varied layout); name writes a directive's name argument in either quote style
func (st Style) pad() string {
	if st.Marks || st.Layout != NewlineLayout || st.Rng == nil {
		return ""
	}
	return []string{"", "", "", " ", "\n", "\t", "  ", "\r\n", "\r"}[st.Rng.Intn(9)]
}

func (st Style) inKeyword() string {
	if st.Marks || st.Layout != NewlineLayout || st.Rng == nil {
		return " in "
	}
	ws := []string{" ", "\n", "\t", "  ", " \n ", "\r", "\r\n"}
	return ws[st.Rng.Intn(len(ws))] + "in" + ws[st.Rng.Intn(len(ws))]
}

// kwGap is optional white space between a directive keyword and its opening parenthesis
// (never after @slot: there a blank makes the parenthesis text of the default slot)
func (st Style) kwGap() string {
	if st.Marks || st.Layout != NewlineLayout || st.Rng == nil {
		return ""
	}
	return []string{"", "", "", "", " ", "\t", "\n", "  "}[st.Rng.Intn(8)]
}

func (st Style) sep(s string) string {
	if st.Marks || st.Layout != NewlineLayout || st.Rng == nil {
		return s
	}
	return st.pad() + strings.TrimSpace(s) + st.pad()
}

func (st Style) name(n string) string {
	q := byte('"')
	if !st.Marks && st.Layout == NewlineLayout && st.Rng != nil && st.Rng.Intn(2) == 0 && CanQuote(n, '\'') {
		q = '\''
	}
	return st.pad() + st.quote(n, q)
}

func printStmt(sb *strings.Builder, s Stmt, st Style) {
	switch n := s.(type) {
	case Text:
		sb.WriteString(n.S)
	case RawStmt:
		sb.WriteString(n.Src)
	case Print:
		sb.WriteString(braces(Source(n.E, st), st))
	case Assign:
		sb.WriteString(braces(Join(append([]string{n.Name, "="}, Tokens(n.E, st)...), st), st))
	case *Assign:
		printStmt(sb, *n, st)
	case Comment:
		sb.WriteString("{{--" + st.open("c") + n.Body + "--}}" + st.close())
	case Dump:
		sb.WriteString("@dump" + st.kwGap() + "(" + st.open("a") + st.pad())
		for i, a := range n.Args {
			if i > 0 {
				sb.WriteString(st.sep(", "))
			}
			sb.WriteString(Source(a, st))
		}
		sb.WriteString(st.pad() + st.pad() + ")" + st.close())
	case If:
		for i, c := range n.Conds {
			if i == 0 {
				sb.WriteString("@if" + st.kwGap() + "(" + st.open("a") + st.pad())
			} else {
				sb.WriteString("@elseif" + st.kwGap() + "(" + st.open("a") + st.pad())
			}
			sb.WriteString(Source(c, st))
			sb.WriteString(st.pad() + st.pad() + ")" + st.close())
			if i == 0 {
				sb.WriteString(st.open("b"))
			}
			sb.WriteString(PrintStmts(n.Bodies[i], st))
		}
		if n.Else != nil {
			sb.WriteString("@else")
			sb.WriteString(PrintStmts(n.Else, st))
		}
		sb.WriteString("@end" + st.close())
	case Each:
		sb.WriteString("@each" + st.kwGap() + "(" + st.open("a") + st.pad() + n.Var + st.inKeyword() + Source(n.Arr, st) + st.pad() + ")" + st.close() + st.open("b"))
		sb.WriteString(PrintStmts(n.Body, st))
		if n.Else != nil {
			sb.WriteString("@else")
			sb.WriteString(PrintStmts(n.Else, st))
		}
		sb.WriteString("@end" + st.close())
	case For:
		sb.WriteString("@for" + st.kwGap() + "(" + st.open("a") + st.pad())
		if n.Init != nil {
			sb.WriteString(Join(append([]string{n.Init.Name, "="}, Tokens(n.Init.E, st)...), st))
		} else if n.InitE != nil {
			sb.WriteString(Source(n.InitE, st))
		}
		sb.WriteString(st.sep("; "))
		if n.Cond != nil {
			sb.WriteString(Source(n.Cond, st))
		}
		sb.WriteString(st.sep("; "))
		switch p := n.Post.(type) {
		case Assign:
			sb.WriteString(Join(append([]string{p.Name, "="}, Tokens(p.E, st)...), st))
		case Print:
			sb.WriteString(Source(p.E, st))
		}
		sb.WriteString(st.pad() + ")" + st.close() + st.open("b"))
		sb.WriteString(PrintStmts(n.Body, st))
		if n.Else != nil {
			sb.WriteString("@else")
			sb.WriteString(PrintStmts(n.Else, st))
		}
		sb.WriteString("@end" + st.close())
	case Break:
		sb.WriteString("@break")
	case Continue:
		sb.WriteString("@continue")
	case BreakIf:
		sb.WriteString("@breakIf" + st.kwGap() + "(" + st.open("a") + st.pad() + Source(n.E, st) + st.pad() + ")" + st.close())
	case ContinueIf:
		sb.WriteString("@continueIf" + st.kwGap() + "(" + st.open("a") + st.pad() + Source(n.E, st) + st.pad() + ")" + st.close())
	case Component:
		sb.WriteString("@component" + st.kwGap() + "(" + st.open("a") + st.name(n.Name))
		if n.Args != nil {
			sb.WriteString(st.sep(", ") + Source(*n.Args, st))
		}
		sb.WriteString(st.pad() + st.pad() + ")" + st.close())
		if len(n.Slots) > 0 {
			for si, sl := range n.Slots {
				if si == 0 {
					sb.WriteString(n.GapFirst)
				} else {
					sb.WriteString(n.Gap)
				}
				if sl.Name == "" {
					sb.WriteString("@slot")
				} else {
					sb.WriteString("@slot(" + st.open("a") + st.name(sl.Name) + st.pad() + ")" + st.close())
				}
				sb.WriteString(st.open("b"))
				sb.WriteString(PrintStmts(sl.Body, st))
				sb.WriteString("@end" + st.close())
			}
			sb.WriteString(n.Gap + "@end")
		}
	case SlotRef:
		if n.Name == "" {
			sb.WriteString("@slot")
		} else {
			sb.WriteString("@slot(" + st.open("a") + st.name(n.Name) + st.pad() + ")" + st.close())
		}
	case Reserve:
		sb.WriteString("@reserve" + st.kwGap() + "(" + st.open("a") + st.name(n.Name) + st.pad() + ")" + st.close())
	case Use:
		sb.WriteString("@use" + st.kwGap() + "(" + st.open("a") + st.name(n.Name) + st.pad() + ")" + st.close())
	case Insert:
		if n.Block != nil {
			sb.WriteString("@insert" + st.kwGap() + "(" + st.open("a") + st.name(n.Name) + st.pad() + ")" + st.close() + st.open("b"))
			sb.WriteString(PrintStmts(n.Block, st))
			sb.WriteString("@end" + st.close())
		} else {
			sb.WriteString("@insert" + st.kwGap() + "(" + st.open("a") + st.name(n.Name) + st.sep(", ") + Source(n.E, st) + st.pad() + ")" + st.close())
		}
	}
}
