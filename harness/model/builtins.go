package model

import (
	"html"
	"math"
	"strconv"
	"strings"
	"unicode/utf8"
)

// Ref is what the contract of a built-in allows for one call: any of the
// Accept values, and/or an error. Perm / Member widen Accept for the two
// functions whose result may vary.
type Ref struct {
	Accept []Value
	ErrOK  bool
	Perm   *Value // result must be a permutation of this array
	Member *Value // result must be an element of this array (nil when empty)
}

func val(v Value) Ref       { return Ref{Accept: []Value{v}} }
func errRef() Ref           { return Ref{ErrOK: true} }
func valOrErr(v Value) Ref  { return Ref{Accept: []Value{v}, ErrOK: true} }
func isInt(v Value) bool    { return v.K == KInt }
func isStr(v Value) bool    { return v.K == KStr }
func runes(s string) []rune { return []rune(s) }
func argOr(args []Value, i int, def Value) Value {
	if i < len(args) {
		return args[i]
	}
	return def
}

// extra marks calls with more arguments than the contract names: the
// statement is silent, so an error is accepted as well
func extra(r Ref, args []Value, max int) Ref {
	if len(args) > max {
		r.ErrOK = true
	}
	return r
}

const defaultTrim = "\t \n\r"

// BuiltinRefs is one independent reference function per built-in
var BuiltinRefs = map[string]func(recv Value, args []Value) Ref{
	// ---- strings ----
	"string.len": func(r Value, a []Value) Ref {
		return extra(val(Int(int64(utf8.RuneCountInString(r.S)))), a, 0)
	},
	"string.split": func(r Value, a []Value) Ref {
		sep := argOr(a, 0, Str(" "))
		if !isStr(sep) {
			return errRef()
		}
		var out []Value
		for _, p := range strings.Split(r.S, sep.S) {
			out = append(out, Str(p))
		}
		return extra(val(Arr(out...)), a, 1)
	},
	"string.raw": func(r Value, a []Value) Ref { return extra(val(Str(html.UnescapeString(r.S))), a, 0) },
	"string.trim": func(r Value, a []Value) Ref {
		c := argOr(a, 0, Str(defaultTrim))
		if !isStr(c) {
			return errRef()
		}
		return extra(val(Str(strings.Trim(r.S, c.S))), a, 1)
	},
	"string.trimRight": func(r Value, a []Value) Ref {
		c := argOr(a, 0, Str(defaultTrim))
		if !isStr(c) {
			return errRef()
		}
		return extra(val(Str(strings.TrimRight(r.S, c.S))), a, 1)
	},
	"string.trimLeft": func(r Value, a []Value) Ref {
		c := argOr(a, 0, Str(defaultTrim))
		if !isStr(c) {
			return errRef()
		}
		return extra(val(Str(strings.TrimLeft(r.S, c.S))), a, 1)
	},
	"string.upper": func(r Value, a []Value) Ref { return extra(val(Str(strings.ToUpper(r.S))), a, 0) },
	"string.lower": func(r Value, a []Value) Ref { return extra(val(Str(strings.ToLower(r.S))), a, 0) },
	"string.capitalize": func(r Value, a []Value) Ref {
		rs := runes(r.S)
		if len(rs) == 0 {
			return extra(val(Str("")), a, 0)
		}
		return extra(val(Str(strings.ToUpper(string(rs[0]))+string(rs[1:]))), a, 0)
	},
	"string.reverse": func(r Value, a []Value) Ref {
		rs := runes(r.S)
		for i, j := 0, len(rs)-1; i < j; i, j = i+1, j-1 {
			rs[i], rs[j] = rs[j], rs[i]
		}
		return extra(val(Str(string(rs))), a, 0)
	},
	"string.contains": func(r Value, a []Value) Ref {
		if len(a) == 0 || !isStr(a[0]) {
			return errRef()
		}
		return extra(val(Bool(strings.Contains(r.S, a[0].S))), a, 1)
	},
	"string.truncate": func(r Value, a []Value) Ref {
		if len(a) == 0 || !isInt(a[0]) {
			return errRef()
		}
		rs := runes(r.S)
		n := a[0].I
		ell := argOr(a, 1, Str("..."))
		if n >= int64(len(rs)) {
			// nothing to cut; a wrong-kind ellipsis may or may not be reported
			if !isStr(ell) {
				return valOrErr(r)
			}
			return extra(val(r), a, 2)
		}
		if !isStr(ell) {
			return errRef()
		}
		if n < 0 {
			// the contract is silent: an error or the clamped result
			return valOrErr(Str(ell.S))
		}
		return extra(val(Str(string(rs[:n])+ell.S)), a, 2)
	},
	"string.decimal": func(r Value, a []Value) Ref { return decimalRef(r.S, a) },
	"string.at": func(r Value, a []Value) Ref {
		i := argOr(a, 0, Int(0))
		if !isInt(i) {
			return errRef()
		}
		return extra(val(strAt(r.S, i.I)), a, 1)
	},
	"string.first": func(r Value, a []Value) Ref { return extra(val(strAt(r.S, 0)), a, 0) },
	"string.last":  func(r Value, a []Value) Ref { return extra(val(strAt(r.S, -1)), a, 0) },
	"string.repeat": func(r Value, a []Value) Ref {
		if len(a) == 0 || !isInt(a[0]) {
			return errRef()
		}
		n := a[0].I
		if n < 0 {
			return valOrErr(Str(""))
		}
		if n > 0 && len(r.S) > 0 && n > (1<<24)/int64(len(r.S)) {
			// oversized: an error is fine; the harness never asks for the value
			return Ref{ErrOK: true, Accept: nil}
		}
		return extra(val(Str(strings.Repeat(r.S, int(n)))), a, 1)
	},

	// ---- arrays ----
	"array.len": func(r Value, a []Value) Ref { return extra(val(Int(int64(len(r.A)))), a, 0) },
	"array.join": func(r Value, a []Value) Ref {
		sep := argOr(a, 0, Str(","))
		if !isStr(sep) {
			return errRef()
		}
		parts := make([]string, len(r.A))
		for i, e := range r.A {
			parts[i] = e.Print()
		}
		return extra(val(Str(strings.Join(parts, sep.S))), a, 1)
	},
	"array.rand": func(r Value, a []Value) Ref {
		rc := r
		return extra(Ref{Member: &rc}, a, 0)
	},
	"array.reverse": func(r Value, a []Value) Ref {
		out := make([]Value, len(r.A))
		for i, e := range r.A {
			out[len(r.A)-1-i] = e
		}
		return extra(val(Arr(out...)), a, 0)
	},
	"array.slice": func(r Value, a []Value) Ref {
		if len(a) == 0 || !isInt(a[0]) {
			return errRef()
		}
		n := int64(len(r.A))
		start := a[0].I
		if start < 0 {
			start = 0
		}
		if start > n {
			start = n
		}
		if len(a) == 1 {
			return val(Arr(append([]Value{}, r.A[start:]...)...))
		}
		if !isInt(a[1]) {
			return errRef()
		}
		end := a[1].I
		if end < 0 || end > n {
			end = n
		}
		if end < start {
			// the contract is silent: an error or the clamped (empty) result
			return valOrErr(Arr())
		}
		return extra(val(Arr(append([]Value{}, r.A[start:end]...)...)), a, 2)
	},
	"array.shuffle": func(r Value, a []Value) Ref {
		rc := r
		return extra(Ref{Perm: &rc}, a, 0)
	},
	"array.contains": func(r Value, a []Value) Ref {
		if len(a) == 0 {
			return errRef()
		}
		for _, e := range r.A {
			if e.Equal(a[0]) {
				return extra(val(Bool(true)), a, 1)
			}
		}
		return extra(val(Bool(false)), a, 1)
	},
	"array.append": func(r Value, a []Value) Ref {
		if len(a) == 0 {
			return errRef()
		}
		return val(Arr(append(append([]Value{}, r.A...), a...)...))
	},
	"array.prepend": func(r Value, a []Value) Ref {
		if len(a) == 0 {
			return errRef()
		}
		return val(Arr(append(append([]Value{}, a...), r.A...)...))
	},

	// ---- floats ----
	"float.int": func(r Value, a []Value) Ref { return extra(val(Int(int64(math.Trunc(r.F)))), a, 0) },
	"float.str": func(r Value, a []Value) Ref {
		return extra(val(Str(strconv.FormatFloat(r.F, 'f', -1, 64))), a, 0)
	},
	"float.abs":   func(r Value, a []Value) Ref { return extra(val(Float(math.Abs(r.F))), a, 0) },
	"float.ceil":  func(r Value, a []Value) Ref { return extra(val(Int(int64(math.Ceil(r.F)))), a, 0) },
	"float.floor": func(r Value, a []Value) Ref { return extra(val(Int(int64(math.Floor(r.F)))), a, 0) },
	"float.round": func(r Value, a []Value) Ref {
		// nearest integer, halves away from zero
		f := r.F
		var n float64
		if f >= 0 {
			n = math.Floor(f)
			if f-n >= 0.5 {
				n++
			}
		} else {
			n = math.Ceil(f)
			if n-f >= 0.5 {
				n--
			}
		}
		return extra(val(Int(int64(n))), a, 0)
	},

	// ---- integers ----
	"int.float": func(r Value, a []Value) Ref { return extra(val(Float(float64(r.I))), a, 0) },
	"int.abs": func(r Value, a []Value) Ref {
		if r.I < 0 {
			return extra(val(Int(-r.I)), a, 0)
		}
		return extra(val(r), a, 0)
	},
	"int.str": func(r Value, a []Value) Ref { return extra(val(Str(strconv.FormatInt(r.I, 10))), a, 0) },
	"int.len": func(r Value, a []Value) Ref {
		s := strconv.FormatInt(r.I, 10)
		return extra(val(Int(int64(len(strings.TrimPrefix(s, "-"))))), a, 0)
	},
	"int.decimal": func(r Value, a []Value) Ref { return decimalRef(strconv.FormatInt(r.I, 10), a) },

	// ---- booleans ----
	"bool.binary": func(r Value, a []Value) Ref {
		if r.B {
			return extra(val(Int(1)), a, 0)
		}
		return extra(val(Int(0)), a, 0)
	},
	"bool.then": func(r Value, a []Value) Ref {
		if len(a) == 0 {
			return errRef()
		}
		if r.B {
			return extra(val(a[0]), a, 2)
		}
		return extra(val(argOr(a, 1, Nil)), a, 2)
	},
}

func strAt(s string, i int64) Value {
	rs := runes(s)
	n := int64(len(rs))
	if i < 0 {
		i += n
	}
	if i < 0 || i >= n {
		return Nil
	}
	return Str(string(rs[i]))
}

func decimalRef(s string, a []Value) Ref {
	_, err := strconv.Atoi(s)
	notNumber := err != nil
	badArgs := len(a) > 2 || (len(a) >= 1 && !isStr(a[0])) || (len(a) >= 2 && !isInt(a[1]))
	if notNumber {
		// a string that is not an integer stays as it is; wrong arguments
		// may or may not be reported then
		if badArgs {
			return valOrErr(Str(s))
		}
		return val(Str(s))
	}
	if badArgs {
		return errRef()
	}
	sep := argOr(a, 0, Str(".")).S
	n := argOr(a, 1, Int(2)).I
	if n == 0 {
		return val(Str(s))
	}
	if n < 0 {
		return valOrErr(Str(s))
	}
	if n > 1<<26 {
		return Ref{ErrOK: true}
	}
	if n > 1<<20 {
		// a size limit may refuse it; a value, when one is returned, is the whole of it
		return valOrErr(Str(s + sep + strings.Repeat("0", int(n))))
	}
	return val(Str(s + sep + strings.Repeat("0", int(n))))
}

// Builtins gives the interpreter one result per call (the first accepted
// value, or an error); generators only use calls whose contract is definite
var Builtins = map[string]func(recv Value, args []Value) (Value, error){}

func init() {
	for name, ref := range BuiltinRefs {
		ref := ref
		name := name
		Builtins[name] = func(recv Value, args []Value) (Value, error) {
			r := ref(recv, args)
			if len(r.Accept) > 0 {
				return r.Accept[0], nil
			}
			if r.Member != nil {
				if len(r.Member.A) == 0 {
					return Nil, nil
				}
				return r.Member.A[0], nil
			}
			if r.Perm != nil {
				return *r.Perm, nil
			}
			return Nil, evalErr("built-in %s rejects its arguments", name)
		}
	}
}

// BuiltinNames lists the built-in names per receiver kind
func BuiltinNames(k Kind) []string {
	var out []string
	pre := k.String() + "."
	for name := range BuiltinRefs {
		if strings.HasPrefix(name, pre) {
			out = append(out, strings.TrimPrefix(name, pre))
		}
	}
	sortStrings(out)
	return out
}

func sortStrings(s []string) {
	for i := 1; i < len(s); i++ {
		for j := i; j > 0 && s[j] < s[j-1]; j-- {
			s[j], s[j-1] = s[j-1], s[j]
		}
	}
}
