package model

import (
	"path"
	"sort"
	"strings"
)

// Statement nodes
type Stmt interface{}

type Text struct{ S string }
type Print struct{ E Expr }
type Assign struct {
	Name string
	E    Expr
}
type If struct {
	Conds  []Expr   // @if, then one per @elseif
	Bodies [][]Stmt // one per condition
	Else   []Stmt   // nil = no @else
}
type Each struct {
	Var  string
	Arr  Expr
	Body []Stmt
	Else []Stmt
}
type For struct {
	InitE Expr    // an init clause that is not an assignment (evaluated, value dropped); nil otherwise
	Init  *Assign // may be nil
	Cond  Expr    // may be nil
	Post  Stmt    // Assign, Print (expression whose value becomes the init variable) or nil
	Body  []Stmt
	Else  []Stmt
}
type Break struct{}
type Continue struct{}
type BreakIf struct{ E Expr }
type ContinueIf struct{ E Expr }

// Component use: Args in source order; Slots: named slots and the default
// slot (Name "")
type Component struct {
	Name     string // as written, e.g. "~card" or "components/card"
	Args     *ObjLit
	Slots    []SlotBody
	Gap      string // whitespace (and comments) written between the slots and before the closing @end
	GapFirst string // whitespace written before the first @slot
}
type SlotBody struct {
	Name string
	Body []Stmt
}

// SlotRef is a placeholder in a component file: @slot / @slot("name")
type SlotRef struct{ Name string }

// Reserve is a placeholder in a layout; Insert and Use appear in pages
type Reserve struct{ Name string }
type Insert struct {
	Name  string
	Block []Stmt // block form (may be empty); nil when expression form
	E     Expr   // expression form
}
type Use struct{ Name string }

// Comment is {{-- body --}}; Dump is @dump(args) whose output format no
// property fixes
type Comment struct{ Body string }
type Dump struct{ Args []Expr }

// RawStmt is source text the model does not interpret (its render is
// unknown); used for fault injection where only error-ness/lines matter
type RawStmt struct{ Src string }

// File is one template file of a tree
type File struct {
	Name  string // registered name (relative path without extension)
	Stmts []Stmt
}

type control int

const (
	ctlNone control = iota
	ctlBreak
	ctlContinue
)

// Run renders statements in a fresh root scope holding data
func (in *Interp) Run(stmts []Stmt, data map[string]Value) (string, error) {
	if _, reserved := data["loop"]; reserved {
		return "", evalErr("loop cannot be supplied as data")
	}
	root := NewScope(nil)
	for k, v := range data {
		root.vars[k] = v
	}
	var sb strings.Builder
	_, err := in.block(stmts, root, &sb)
	if err != nil {
		return "", err
	}
	return sb.String(), nil
}

// RunIn renders statements in the given scope
func (in *Interp) RunIn(stmts []Stmt, sc *Scope) (string, error) {
	var sb strings.Builder
	_, err := in.block(stmts, sc, &sb)
	if err != nil {
		return "", err
	}
	return sb.String(), nil
}

func (in *Interp) block(stmts []Stmt, sc *Scope, out *strings.Builder) (control, error) {
	for _, s := range stmts {
		ctl, err := in.stmt(s, sc, out)
		if err != nil {
			return ctlNone, err
		}
		if ctl != ctlNone {
			return ctl, nil
		}
	}
	return ctlNone, nil
}

func loopObject(i, n int) Value {
	return Obj(map[string]Value{
		"index": Int(int64(i)),
		"iter":  Int(int64(i + 1)),
		"first": Bool(i == 0),
		"last":  Bool(i == n-1),
	})
}

func (in *Interp) stmt(s Stmt, sc *Scope, out *strings.Builder) (control, error) {
	in.Steps++
	switch n := s.(type) {
	case Text:
		out.WriteString(n.S)
	case Print:
		v, err := in.Eval(n.E, sc)
		if err != nil {
			return ctlNone, err
		}
		out.WriteString(v.Print())
	case Assign:
		v, err := in.Eval(n.E, sc)
		if err != nil {
			return ctlNone, err
		}
		if err := sc.Set(n.Name, v); err != nil {
			return ctlNone, err
		}
	case *Assign:
		return in.stmt(*n, sc, out)
	case If:
		for i, c := range n.Conds {
			v, err := in.Eval(c, sc)
			if err != nil {
				return ctlNone, err
			}
			if v.Truthy() {
				return in.block(n.Bodies[i], NewScope(sc), out)
			}
		}
		if n.Else != nil {
			return in.block(n.Else, NewScope(sc), out)
		}
	case Each:
		loop := NewScope(sc)
		arr, err := in.Eval(n.Arr, loop)
		if err != nil {
			return ctlNone, err
		}
		if arr.K != KArr {
			return ctlNone, evalErr("@each over %s", arr.K)
		}
		if len(arr.A) == 0 {
			if n.Else != nil {
				// control directives in the @else body act on the loop around this loop
				return in.block(n.Else, loop, out)
			}
			return ctlNone, nil
		}
		for i, el := range arr.A {
			if err := loop.Set(n.Var, el); err != nil {
				return ctlNone, err
			}
			loop.setLoop(loopObject(i, len(arr.A)))
			ctl, err := in.block(n.Body, loop, out)
			if err != nil {
				return ctlNone, err
			}
			if ctl == ctlBreak {
				break
			}
		}
	case For:
		loop := NewScope(sc)
		if n.Init != nil {
			if _, err := in.stmt(*n.Init, loop, out); err != nil {
				return ctlNone, err
			}
		} else if n.InitE != nil {
			if _, err := in.Eval(n.InitE, loop); err != nil {
				return ctlNone, err
			}
		}
		if n.Cond != nil {
			c, err := in.Eval(n.Cond, loop)
			if err != nil {
				return ctlNone, err
			}
			if !c.Truthy() && n.Else != nil {
				return in.block(n.Else, loop, out)
			}
		}
		for pass := 0; ; pass++ {
			if pass > 100000 {
				return ctlNone, evalErr("model: loop does not end")
			}
			if n.Cond != nil {
				c, err := in.Eval(n.Cond, loop)
				if err != nil {
					return ctlNone, err
				}
				if !c.Truthy() {
					break
				}
			}
			ctl, err := in.block(n.Body, loop, out)
			if err != nil {
				return ctlNone, err
			}
			if ctl == ctlBreak {
				break
			}
			switch p := n.Post.(type) {
			case nil:
			case Assign:
				if _, err := in.stmt(p, loop, out); err != nil {
					return ctlNone, err
				}
			case Print:
				v, err := in.Eval(p.E, loop)
				if err != nil {
					return ctlNone, err
				}
				if n.Init != nil {
					if err := loop.Set(n.Init.Name, v); err != nil {
						return ctlNone, err
					}
				}
			}
		}
	case Break:
		return ctlBreak, nil
	case Continue:
		return ctlContinue, nil
	case BreakIf:
		v, err := in.Eval(n.E, sc)
		if err != nil {
			return ctlNone, err
		}
		if v.Truthy() {
			return ctlBreak, nil
		}
	case ContinueIf:
		v, err := in.Eval(n.E, sc)
		if err != nil {
			return ctlNone, err
		}
		if v.Truthy() {
			return ctlContinue, nil
		}
	case Component:
		return ctlNone, in.component(n, sc, out)
	case Comment:
		// no output
	case Dump:
		return ctlNone, ErrUnspecified
	case SlotRef:
		// resolved by component(); a bare placeholder renders nothing
	case Reserve, Insert, Use:
		// resolved by RenderPage
	default:
		return ctlNone, evalErr("model: unknown statement %T", s)
	}
	return ctlNone, nil
}

// ResolveName turns "~x" into "<dir>/x"
func ResolveName(name, dir string) string {
	if strings.HasPrefix(name, "~") {
		return dir + "/" + name[1:]
	}
	// spellings the file system resolves to the same file
	if strings.HasPrefix(name, "./") || strings.Contains(name, "//") || strings.Contains(name, "/./") {
		return path.Clean(name)
	}
	return name
}

func (in *Interp) component(n Component, sc *Scope, out *strings.Builder) error {
	file := in.Files[ResolveName(n.Name, "components")]
	if file == nil {
		return evalErr("component %s is not defined", n.Name)
	}
	inner := NewScope(sc)
	if n.Args != nil {
		// arguments are evaluated at the place of use, in alphabetical key order
		for _, k := range sortedIdx(n.Args.Keys) {
			var v Value
			var err error
			if n.Args.Vals[k] == nil {
				v, err = in.Eval(Var{n.Args.Keys[k]}, sc)
			} else {
				v, err = in.Eval(n.Args.Vals[k], sc)
			}
			if err != nil {
				return err
			}
			if err := inner.Set(n.Args.Keys[k], v); err != nil {
				return err
			}
		}
	}
	slots := map[string][]Stmt{}
	for _, sl := range n.Slots {
		slots[sl.Name] = sl.Body
	}
	// the component file is rendered statement by statement; control
	// directives do not leave a component
	for _, s := range file.Stmts {
		if ref, ok := s.(SlotRef); ok {
			if body, ok := slots[ref.Name]; ok {
				if _, err := in.block(body, inner, out); err != nil {
					return err
				}
			}
			continue
		}
		if _, err := in.stmt(s, inner, out); err != nil {
			return err
		}
	}
	return nil
}

// RenderPage is the model of (*Template).String for a page of a tree: a page
// that uses a layout renders the layout with reserves replaced by inserts
func (in *Interp) RenderPage(name string, data map[string]Value) (string, error) {
	page := in.Files[name]
	if page == nil {
		return "", evalErr("template %s not found", name)
	}
	var use *Use
	inserts := map[string]Insert{}
	// @use and @insert are collected wherever they are written in the page
	var collect func([]Stmt)
	collect = func(ss []Stmt) {
		for _, s := range ss {
			switch n := s.(type) {
			case Use:
				u := n
				use = &u
			case Insert:
				inserts[n.Name] = n
			case If:
				for _, b := range n.Bodies {
					collect(b)
				}
				collect(n.Else)
			}
		}
	}
	collect(page.Stmts)
	if use == nil {
		return in.Run(page.Stmts, data)
	}
	layout := in.Files[ResolveName(use.Name, "layouts")]
	if layout == nil {
		return "", evalErr("layout %s not found", use.Name)
	}
	root := NewScope(nil)
	for k, v := range data {
		root.vars[k] = v
	}
	var sb strings.Builder
	_, err := in.layoutBlock(layout.Stmts, inserts, root, &sb)
	if err != nil {
		return "", err
	}
	return sb.String(), nil
}

// layoutBlock runs layout statements, substituting reserves wherever they sit
func (in *Interp) layoutBlock(stmts []Stmt, inserts map[string]Insert, sc *Scope, out *strings.Builder) (control, error) {
	for _, s := range stmts {
		ctl, err := in.layoutStmt(s, inserts, sc, out)
		if err != nil || ctl != ctlNone {
			return ctl, err
		}
	}
	return ctlNone, nil
}

func (in *Interp) layoutStmt(s Stmt, inserts map[string]Insert, sc *Scope, out *strings.Builder) (control, error) {
	switch n := s.(type) {
	case Reserve:
		ins, ok := inserts[n.Name]
		if !ok {
			return ctlNone, nil
		}
		if ins.Block != nil {
			return in.block(ins.Block, sc, out)
		}
		v, err := in.Eval(ins.E, sc)
		if err != nil {
			return ctlNone, err
		}
		out.WriteString(v.Print())
		return ctlNone, nil
	case If:
		for i, c := range n.Conds {
			v, err := in.Eval(c, sc)
			if err != nil {
				return ctlNone, err
			}
			if v.Truthy() {
				return in.layoutBlock(n.Bodies[i], inserts, NewScope(sc), out)
			}
		}
		if n.Else != nil {
			return in.layoutBlock(n.Else, inserts, NewScope(sc), out)
		}
		return ctlNone, nil
	case Each:
		loop := NewScope(sc)
		arr, err := in.Eval(n.Arr, loop)
		if err != nil {
			return ctlNone, err
		}
		if arr.K != KArr {
			return ctlNone, evalErr("@each over %s", arr.K)
		}
		if len(arr.A) == 0 {
			if n.Else != nil {
				return in.layoutBlock(n.Else, inserts, loop, out)
			}
			return ctlNone, nil
		}
		for i, el := range arr.A {
			if err := loop.Set(n.Var, el); err != nil {
				return ctlNone, err
			}
			loop.setLoop(loopObject(i, len(arr.A)))
			ctl, err := in.layoutBlock(n.Body, inserts, loop, out)
			if err != nil {
				return ctlNone, err
			}
			if ctl == ctlBreak {
				break
			}
		}
		return ctlNone, nil
	}
	return in.stmt(s, sc, out)
}

// ReserveNames lists the reserves of a layout at any nesting depth
func ReserveNames(stmts []Stmt) []string {
	seen := map[string]bool{}
	var walk func([]Stmt)
	walk = func(ss []Stmt) {
		for _, s := range ss {
			switch n := s.(type) {
			case Reserve:
				seen[n.Name] = true
			case If:
				for _, b := range n.Bodies {
					walk(b)
				}
				walk(n.Else)
			case Each:
				walk(n.Body)
				walk(n.Else)
			case For:
				walk(n.Body)
				walk(n.Else)
			}
		}
	}
	walk(stmts)
	var names []string
	for k := range seen {
		names = append(names, k)
	}
	sort.Strings(names)
	return names
}
