package model

import (
	"math/rand"
	"strconv"
	"strings"
)

// Binding powers from the statement of C01:
// ternary < equality < comparison < additive < multiplicative < member
// access < prefix < index < postfix
const (
	pLowest = iota
	pTernary
	pEquality
	pComparison
	pAdditive
	pMultiplicative
	pMember
	pPrefix
	pIndex
	pPostfix
	pAtom
)

func binPower(op string) int {
	switch op {
	case "==", "!=":
		return pEquality
	case "<", ">", "<=", ">=":
		return pComparison
	case "+", "-":
		return pAdditive
	case "*", "/", "%":
		return pMultiplicative
	}
	return pLowest
}

// Parens policy of the printer
type ParenStyle int

const (
	MinimalParens   ParenStyle = iota // only where the precedence table requires them
	FullParens                        // around every operator application
	RedundantParens                   // minimal plus random redundant pairs
)

// Layout is how tokens are joined
type Layout int

const (
	SpaceLayout   Layout = iota // one space between tokens
	TightLayout                 // no whitespace unless two tokens would fuse
	NewlineLayout               // random spaces, tabs and newlines between tokens
)

type Style struct {
	Parens ParenStyle
	Layout Layout
	Rng    *rand.Rand // for RedundantParens and NewlineLayout
	// Marks inserts span markers (SpaceLayout only): MarkOpen right after
	// the opening delimiter of a block, string, object literal, comment or
	// directive argument list, MarkClose right after its closing delimiter
	Marks bool
}

const (
	MarkOpen  = "\uE001"
	MarkClose = "\uE002"
)

// Span is a byte range [Open, Close) of cut positions that leave the
// construct unterminated: a prefix s[:o] with Open <= o < Close has the
// opening delimiter but not the closing one
type Span struct {
	Open, Close int
	Kind        string
}

// StripMarks removes the markers and returns the spans they delimit. Kinds
// are taken from the rune following MarkOpen: b(lock) s(tring) o(bject)
// c(omment) a(rgument list)
func StripMarks(marked string) (string, []Span) {
	var sb strings.Builder
	var stack []Span
	var spans []Span
	rs := []rune(marked)
	for i := 0; i < len(rs); i++ {
		switch string(rs[i]) {
		case MarkOpen:
			kind := "?"
			if i+1 < len(rs) {
				kind = string(rs[i+1])
				i++
			}
			stack = append(stack, Span{Open: sb.Len(), Kind: kind})
		case MarkClose:
			if len(stack) > 0 {
				sp := stack[len(stack)-1]
				stack = stack[:len(stack)-1]
				sp.Close = sb.Len()
				spans = append(spans, sp)
			}
		default:
			sb.WriteRune(rs[i])
		}
	}
	return sb.String(), spans
}

func (st Style) open(kind string) string {
	if st.Marks {
		return MarkOpen + kind
	}
	return ""
}

func (st Style) close() string {
	if st.Marks {
		return MarkClose
	}
	return ""
}

// power of the operator at the root of e as seen from the left (what a
// preceding context must respect)
func rootPower(e Expr) int {
	switch n := e.(type) {
	case Binary:
		return binPower(n.Op)
	case Ternary:
		return pTernary
	case Unary:
		return pPrefix
	case Dot, Call:
		return pMember
	case Index:
		return pIndex
	case Postfix:
		return pPostfix
	}
	return pAtom
}

// spineMin is the lowest power among the chain of postfix-like operators
// (member access, call, index, postfix) hanging on the left spine of e,
// or the power of what sits at the bottom of that chain
func spineMin(e Expr) int {
	switch n := e.(type) {
	case Dot:
		return minInt(pMember, spineMin(n.X))
	case Call:
		return minInt(pMember, spineMin(n.X))
	case Index:
		return minInt(pIndex, spineMin(n.X))
	case Postfix:
		return minInt(pPostfix, spineMin(n.X))
	case Unary:
		return pPrefix
	case Binary, Ternary:
		return pAtom // always parenthesised as operand of a postfix-like operator
	}
	return pAtom
}

func minInt(a, b int) int {
	if a < b {
		return a
	}
	return b
}

// Tokens prints an expression as a token list
func Tokens(e Expr, st Style) []string {
	p := &printer{st: st}
	p.expr(e)
	return p.toks
}

type printer struct {
	st   Style
	toks []string
}

func (p *printer) emit(t ...string) { p.toks = append(p.toks, t...) }

func (p *printer) wrapped(e Expr, need bool) {
	if need {
		p.emit("(")
		p.expr(e)
		p.emit(")")
		return
	}
	p.expr(e)
}

func (p *printer) full() bool { return p.st.Parens == FullParens }

func (p *printer) expr(e Expr) {
	if p.st.Parens == RedundantParens && p.st.Rng != nil && p.st.Rng.Intn(4) == 0 {
		p.emit("(")
		p.expr1(e)
		p.emit(")")
		return
	}
	p.expr1(e)
}

func isOperatorNode(e Expr) bool {
	switch e.(type) {
	case Binary, Ternary, Unary, Postfix:
		return true
	}
	return false
}

func (p *printer) expr1(e Expr) {
	switch n := e.(type) {
	case Lit:
		if n.V.K == KStr {
			p.emit(p.st.quote(n.V.S, '"'))
		} else {
			p.emit(litSource(n.V))
		}
	case StrLit:
		q := n.Quote
		if q == 0 {
			q = '"'
		}
		p.emit(p.st.quote(n.S, q))
	case Var:
		p.emit(n.Name)
	case Paren:
		p.emit("(")
		p.expr(n.X)
		p.emit(")")
	case Unary:
		p.emit(n.Op)
		// the operand is parsed at prefix level: binary, ternary and
		// anything with a member access on its left spine needs parentheses
		need := rootPower(n.X) < pPrefix || spineMin(n.X) < pPrefix
		p.wrapped(n.X, need || (p.full() && isOperatorNode(n.X)))
	case Postfix:
		need := rootPower(n.X) < pPostfix && !isPostfixLike(n.X)
		p.wrapped(n.X, need || (p.full() && isOperatorNode(n.X)))
		p.emit(n.Op)
	case Binary:
		pw := binPower(n.Op)
		p.wrapped(n.L, rootPower(n.L) < pw || (p.full() && isOperatorNode(n.L)))
		p.emit(n.Op)
		p.wrapped(n.R, rootPower(n.R) <= pw || (p.full() && isOperatorNode(n.R)))
	case Ternary:
		p.wrapped(n.C, rootPower(n.C) <= pTernary || (p.full() && isOperatorNode(n.C)))
		p.emit("?")
		p.wrapped(n.A, rootPower(n.A) <= pTernary || (p.full() && isOperatorNode(n.A)))
		p.emit(":")
		p.wrapped(n.B, p.full() && isOperatorNode(n.B))
	case Index:
		need := rootPower(n.X) < pIndex && !isPostfixLike(n.X)
		p.wrapped(n.X, need || (p.full() && isOperatorNode(n.X)))
		p.emit("[")
		p.expr(n.I)
		p.emit("]")
	case Dot:
		need := rootPower(n.X) < pMember
		p.wrapped(n.X, need || (p.full() && isOperatorNode(n.X)))
		p.emit(".", n.Name)
	case Call:
		need := rootPower(n.X) < pMember
		p.wrapped(n.X, need || (p.full() && isOperatorNode(n.X)))
		p.emit(".", n.Name, "(")
		for i, a := range n.Args {
			if i > 0 {
				p.emit(",")
			}
			p.expr(a)
		}
		if len(n.Args) > 0 && p.trailingComma() {
			p.emit(",")
		}
		p.emit(")")
	case ArrLit:
		p.emit("[")
		for i, a := range n.Elems {
			if i > 0 {
				p.emit(",")
			}
			p.expr(a)
		}
		if len(n.Elems) > 0 && p.trailingComma() {
			p.emit(",")
		}
		p.emit("]")
	case ObjLit:
		p.emit("{" + p.st.open("o"))
		for i, k := range n.Keys {
			if i > 0 {
				p.emit(",")
			}
			p.emit(k)
			if n.Vals[i] != nil {
				p.emit(":")
				p.expr(n.Vals[i])
			}
		}
		if len(n.Keys) > 0 && p.trailingComma() {
			p.emit(",")
		}
		p.emit("}" + p.st.close())
	default:
		p.emit("<?>")
	}
}

// trailingComma: in the varied layout a list may end in a comma (one argument or element per line)
func (p *printer) trailingComma() bool {
	return !p.st.Marks && p.st.Layout == NewlineLayout && p.st.Rng != nil && p.st.Rng.Intn(4) == 0
}

// isPostfixLike: member access, call, index and postfix chain left to
// right without parentheses
func isPostfixLike(e Expr) bool {
	switch e.(type) {
	case Dot, Call, Index, Postfix:
		return true
	}
	return false
}

func litSource(v Value) string {
	switch v.K {
	case KNil:
		return "nil"
	case KBool:
		if v.B {
			return "true"
		}
		return "false"
	case KInt:
		return strconv.FormatInt(v.I, 10)
	case KFloat:
		s := strconv.FormatFloat(v.F, 'f', -1, 64)
		if !strings.Contains(s, ".") {
			s += ".0"
		}
		return s
	case KStr:
		return QuoteString(v.S, '"')
	}
	return "<?>"
}

func (st Style) quote(s string, q byte) string {
	lit := QuoteString(s, q)
	if !st.Marks {
		return lit
	}
	return lit[:1] + st.open("s") + lit[1:] + st.close()
}

// QuoteString writes a string literal: a backslash goes before every
// occurrence of the delimiter quote. Contents that end in a backslash or
// contain backslash-quote cannot be written (CanQuote).
func QuoteString(s string, q byte) string {
	return string(q) + strings.ReplaceAll(s, string(q), "\\"+string(q)) + string(q)
}

func CanQuote(s string, q byte) bool {
	if strings.HasSuffix(s, "\\") {
		return false
	}
	return !strings.Contains(s, "\\"+string(q))
}

const opChars = "+-=!<>"

func fuses(a, b string) bool {
	if a == "" || b == "" {
		return false
	}
	x, y := a[len(a)-1], b[0]
	isWord := func(c byte) bool {
		return c == '_' || (c >= '0' && c <= '9') || (c >= 'a' && c <= 'z') || (c >= 'A' && c <= 'Z')
	}
	if isWord(x) && isWord(y) {
		return true
	}
	if strings.IndexByte(opChars, x) >= 0 && strings.IndexByte(opChars, y) >= 0 {
		return true
	}
	// closing braces of nested object literals may stand side by side ("{a: {b: 1}}"); the print
	// block itself keeps a blank before its own "}}" (see braces)
	if x == '{' && y == '{' {
		return true
	}
	if x == '{' && y == '-' {
		return true
	}
	return false
}

// Join glues tokens according to the layout
func Join(toks []string, st Style) string {
	var sb strings.Builder
	for i, t := range toks {
		if i > 0 {
			switch st.Layout {
			case SpaceLayout:
				sb.WriteByte(' ')
			case TightLayout:
				if fuses(toks[i-1], t) {
					sb.WriteByte(' ')
				}
			case NewlineLayout:
				ws := []string{" ", "\n", "\t", "  ", "\r\n", " \n ", "\r", "\t\r"}
				if st.Rng != nil {
					k := st.Rng.Intn(len(ws) + 2)
					if k < len(ws) {
						sb.WriteString(ws[k])
					} else if fuses(toks[i-1], t) {
						sb.WriteByte(' ')
					}
				} else {
					sb.WriteByte('\n')
				}
			}
		}
		sb.WriteString(t)
	}
	return sb.String()
}

// Source prints an expression as source text
func Source(e Expr, st Style) string { return Join(Tokens(e, st), st) }
