#!/bin/bash
# runs every check's thorough tier against a scratch worktree of /repo HEAD (so that seeded-change
# trials in /repo itself cannot disturb it); one summary line per check on stdout
# usage: thorough_all.sh [log]     env: VERIF_WORKERS (default 8), VERIF_WALL (default 3000)
set -u
here="$(cd "$(dirname "$0")/.." && pwd)"
log="${1:-/dev/stdout}"
wt=$(mktemp -d /tmp/thorwt.XXXXXX); rmdir "$wt"
git -C /repo worktree add -q --detach "$wt" HEAD || exit 2
trap 'git -C /repo worktree remove --force "$wt" >/dev/null 2>&1; rm -rf "$wt"' EXIT
for id in C13 C17 C07 C06 C03 C02 C12 C14 C18 C20 C19 C01 C04 C09 C15 C11 C05 C10 C08 C16; do
  s=$(date +%s)
  o=$(cd "$here" && VERIF_REPO="$wt" VERIF_WORKERS=${VERIF_WORKERS:-8} VERIF_WALL=${VERIF_WALL:-3000} ./run.sh $id thorough 2>&1); rc=$?
  e=$(date +%s)
  echo "$id rc=$rc $((e-s))s $(echo "$o" | grep -c '^VIOLATION') violations $(echo "$o" | grep -c INCONCLUSIVE) inconclusive | $(echo "$o" | tail -1)" >> "$log"
  if [ $rc -ne 0 ]; then echo "$o" | grep -E "VIOLATION|sig=|INCONCL|BUILD" | head -6 >> "$log"; fi
done
