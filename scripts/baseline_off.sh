#!/bin/bash
# Runs the repository's own test suite with the verif build tag OFF and
# checks that every test of the pinned baseline passes.
set -u
export GOFLAGS=-mod=mod GOPROXY=off GOSUMDB=off GOTOOLCHAIN=local
here="$(cd "$(dirname "$0")" && pwd)"
out="$(mktemp)"
trap 'rm -f "$out"' EXIT
(cd /repo && go test -json -vet=off -count=1 -timeout 25m ./...) >"$out" 2>&1
python3 - "$out" "$here/baseline_names.txt" <<'PY'
import json, sys
passed, failed = set(), set()
for line in open(sys.argv[1], errors="replace"):
    line = line.strip()
    if not line.startswith("{"):
        continue
    try:
        ev = json.loads(line)
    except Exception:
        continue
    if "Test" not in ev:
        continue
    name = ev["Package"] + "::" + ev["Test"]
    if ev.get("Action") == "pass":
        passed.add(name)
    elif ev.get("Action") == "fail":
        failed.add(name)
want = [l.strip() for l in open(sys.argv[2]) if l.strip()]
missing = [n for n in want if n not in passed]
print("baseline tests: %d expected, %d passed, %d failed in run" % (len(want), len(want) - len(missing), len(failed)))
for n in missing:
    print("NOT PASSING:", n)
for n in sorted(failed):
    print("FAILED:", n)
sys.exit(1 if missing or failed else 0)
PY
