#!/usr/bin/env python3
"""usage: gen_seed_prompts.py <round> <outdir> <worktree-root>
Writes <outdir>/<ID>/PROMPT.txt for a fresh sub-agent per property: the property text, the task
(three subtle mutations with demonstrations) and the places earlier rounds already changed.
The agents get nothing from /verif but this text."""
import json, os, re, sys, glob
rnd, out, wt = sys.argv[1], sys.argv[2], sys.argv[3]
props = [json.loads(l) for l in open('/verif/properties.jsonl')]
for p in props:
    pid = p['id']
    earlier = []
    for d in sorted(glob.glob(f'/verif/seeded/{pid}-*')):
        pf = os.path.join(d, 'patch.diff')
        if not os.path.exists(pf):
            continue
        files, funcs = [], []
        for line in open(pf, errors='replace'):
            m = re.match(r'^diff --git a/(\S+)', line)
            if m:
                files.append(m.group(1))
            m = re.match(r'^@@ .* @@ func (?:\([^)]*\) )?(\w+)', line)
            if m and m.group(1) not in funcs:
                funcs.append(m.group(1))
        earlier.append(f"{os.path.basename(d)} in {', '.join(files)}" + (f" ({', '.join(funcs)})" if funcs else ''))
    text = f"""You are working in a scratch git worktree of the Go project "textwire" (a templating language for Go: lexer, Pratt parser, AST, tree-walking evaluator, layouts/components, builtin functions) at {wt}/{pid}. Work ONLY inside {wt}/{pid} and write your deliverables to {out}/{pid}. Never touch /repo or /verif or any other directory, and do not read anything under /verif. Do not use `git stash` (worktrees share it); use `git diff > file` and `git checkout -- .` instead.

Environment: the sandbox is offline. Before any go command run: export GOFLAGS=-mod=mod GOPROXY=off GOSUMDB=off GOTOOLCHAIN=local
The project's existing test suite is run from the worktree root with: go test -vet=off -count=1 ./...   and currently passes. The Go race detector is available (go test -race).

Here is a semantic property of the library that holds on the current code:

PROPERTY {pid} - {p['title']}
{p['statement']}
(Quantified over: {p['quantifier']['text']})

Your task: produce THREE different, independent, realistic code changes ("mutations") to the library's non-test Go source, each of which
 (1) still compiles,
 (2) still passes the ENTIRE existing test suite unchanged (do not edit or add test files in the patch; do not touch files that start with the build tag line "//go:build verif"),
 (3) breaks the property above, but only in a SUBTLE way that needs something specific to manifest. A strong property-based test suite already exists for this property (exhaustive small inputs, random generated templates, differential testing against a reference model, fault injection at every place of template trees, sequences of calls compared with fresh-process baselines), and fourteen earlier rounds of people doing this same exercise (820 attempts) were caught in the end, except a handful that changed behaviour the statement leaves open (which white space an argument-less trim removes, how floats beyond 2^53 are printed, which of two lines of one construct an error names, what two @use statements in one page mean, what @break/@continue do outside any loop, what @dump prints, how maps with non-string keys or two reserves of one name behave, which line an unexpected end of input after a final line break belongs to, whether the keys of an object literal are HTML-escaped like its string values) - those do not count: the change must break the property as literally stated, on inputs the statement covers. So aim for faults that such testing still tends to MISS: a rare combination of THREE features; a value that only arises from a specific built-in or from arithmetic; a boundary in a name, size, depth or count that generators rarely hit (e.g. the 2nd of several layouts, a 3-level nesting, a 17th element, a name that is a prefix of another name, an identifier that starts like a keyword); state carried between calls, between passes of a loop or between files of one load; a fault only on an error path inside another error path; a specific ORDER of operations; a rarely used spelling/syntax form that the documentation/testdata allows; two cooperating code sites that each look fine alone; platform/format corner cases (very large/small numbers, -0, exponents, CR-only line ends, tabs, non-BMP characters, invalid UTF-8).
Each should look like a plausible bug or regression a developer could really introduce (refactoring slip, off-by-one, wrong condition, missing copy, premature optimisation/caching, wrong constant, forgotten case, wrong variable, early return), not sabotage such as `if input == "magic"`. Prefer small diffs (1-15 lines).

Earlier attempts (by other people) already changed these places - do NOT repeat them or close variants; find NEW places and mechanisms: {'; '.join(earlier)}.
Read the whole code base first (lexer, parser, ast, evaluator, object, fail, token, files.go, template.go, textwire.go, parser_utils.go, utils.go, textwire/testdata) to find code that takes part in this property, including rarely exercised clauses of the property statement.

For each mutation i in {{1,2,3}} deliver, in {out}/{pid}/m<i>/ :
  - patch.diff : output of `git diff` relative to HEAD containing ONLY that mutation (must apply with `git apply` on a clean checkout of HEAD);
  - a demonstration: a Go test file named demo_test.go (state in notes.md into which package directory it must be copied, e.g. the root package `textwire`) that FAILS with the mutation applied and PASSES without it; its test function names must contain the word Demo. Use only the public API or same-package access; no third-party modules;
  - notes.md : which clause of the property it breaks, what it needs in order to manifest, and the exact commands you ran.
Verify all of this yourself: with the patch applied: `go build ./...` works, the full existing test suite passes, the demo fails; with the patch reverted: the demo passes.
At the end leave the worktree clean: `git checkout -- .` and delete any demo/test files you copied into it (`git status --short` must print nothing).
Finish with a short summary (what each mutation changes, in which file, what input/sequence exposes it).
"""
    os.makedirs(f'{out}/{pid}', exist_ok=True)
    open(f'{out}/{pid}/PROMPT.txt', 'w').write(text)
print('wrote', len(props), 'prompts')
