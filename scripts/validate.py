#!/opt/veriftools/pyvenv/bin/python3
"""Validates MANIFEST.json and every evidence file against the schemas."""
import json, sys, glob, os
import jsonschema
root = os.path.dirname(os.path.dirname(os.path.abspath(__file__)))
ms = json.load(open('/root/.vp/MANIFEST.schema.json'))
es = json.load(open('/root/.vp/EVIDENCE.schema.json'))
ok = True
try:
    m = json.load(open(os.path.join(root, 'MANIFEST.json')))
    jsonschema.validate(m, ms)
    print('MANIFEST.json valid:', len(m['checks']), 'checks,', len(m.get('not_applicable', [])), 'not applicable')
except Exception as e:
    ok = False
    print('MANIFEST.json INVALID:', str(e)[:500])
for f in sorted(glob.glob(os.path.join(root, 'evidence', '*.json'))):
    try:
        ev = json.load(open(f))
        jsonschema.validate(ev, es)
        c = ev['coverage']
        print('%s valid: tier=%s evaluations=%s distinct=%s violations=%s wall=%.1fs' % (os.path.basename(f), ev['tier'], c.get('evaluations'), c.get('distinct_nontrivial'), ev.get('violations'), ev['wall_s']))
    except Exception as e:
        ok = False
        print(f, 'INVALID:', str(e)[:500])
sys.exit(0 if ok else 1)
