#!/bin/bash
# usage: try_seed.sh <patch.diff> <ID> [tier]   — applies a seeded change to /repo, runs one check, reverts
set -u
patch="$1"; id="$2"; tier="${3:-quick}"
if [ -n "$(git -C /repo status --porcelain)" ]; then echo "/repo is not clean" >&2; exit 2; fi
if ! git -C /repo apply "$patch" 2>/tmp/try_seed.err; then
  if ! git -C /repo apply --3way "$patch" 2>>/tmp/try_seed.err; then echo "patch does not apply: $(cat /tmp/try_seed.err | head -3)"; git -C /repo reset -q --hard; exit 3; fi
fi
git -C /repo reset -q
out=$(cd /verif && VERIF_WALL=${VERIF_WALL:-900} ./run.sh "$id" "$tier" 2>&1)
rc=$?
git -C /repo checkout -- .
git -C /repo status --porcelain | grep -v '^??' 
echo "$out" | grep -E "VIOLATION|KNOWN|BROKEN|BUILD|INCONCL|^\[" | head -${SHOWN:-8}
echo "rc=$rc"
