#!/bin/bash
# usage: verify_seed.sh <seed dir with patch.diff + demo_test.go>
# Confirms in a scratch worktree of /repo HEAD: the patch applies, builds, the existing suite passes
# with it, the demonstration fails with it and passes without it.
set -u
export GOFLAGS=-mod=mod GOPROXY=off GOSUMDB=off GOTOOLCHAIN=local
seed="$1"
wt=$(mktemp -d /tmp/seedwt.XXXXXX)
rmdir "$wt"
git -C /repo worktree add -q --detach "$wt" HEAD || exit 2
cleanup() { git -C /repo worktree remove --force "$wt" >/dev/null 2>&1; rm -rf "$wt"; }
trap cleanup EXIT
cd "$wt"
demo=$(ls "$seed"/demo*_test.go 2>/dev/null | head -1)
pkg=$(grep -m1 '^package ' "$demo" | awk '{print $2}')
case "$pkg" in
  textwire|textwire_test) dest=. ;;
  *) dest=${pkg%_test} ;;
esac
res=""
if git apply "$seed/patch.diff" 2>/dev/null || git apply --3way "$seed/patch.diff" 2>/dev/null; then res="applies"; else echo "RESULT $seed: patch does not apply"; exit 1; fi
git reset -q
if go build ./... 2>/dev/null && go build -tags verif ./... 2>/dev/null; then res="$res builds"; else echo "RESULT $seed: $res BUILD-FAILS"; exit 1; fi
if go test -vet=off -count=1 ./... >/tmp/seedtest.log 2>&1; then res="$res suite-passes"; else echo "RESULT $seed: $res SUITE-FAILS"; tail -5 /tmp/seedtest.log; exit 1; fi
cp "$demo" "$dest/zz_demo_test.go"
racef=""
grep -q "race" "$seed/notes.md" 2>/dev/null && grep -qi "must be run with .-race" "$seed/notes.md" && racef="-race"
if go test -vet=off -count=1 $racef -run 'Demo|C[0-9][0-9]' ./"$dest" >/tmp/seeddemo1.log 2>&1; then res="$res DEMO-PASSES-WITH-PATCH(bad)"; else res="$res demo-fails-with-patch"; fi
git checkout -q -- . 
if go test -vet=off -count=1 $racef -run 'Demo|C[0-9][0-9]' ./"$dest" >/tmp/seeddemo2.log 2>&1; then res="$res demo-passes-without"; else res="$res DEMO-FAILS-WITHOUT-PATCH(bad)"; fi
rm -f "$dest/zz_demo_test.go"
echo "RESULT $seed: $res"
