#!/bin/bash
# runs every registered check once (tier = $1, default quick); prints a summary line per check
tier="${1:-quick}"
cd "$(dirname "$0")/.."
fail=0
for id in $(python3 -c "import json; print(' '.join(c['property_id'] for c in json.load(open('MANIFEST.json'))['checks']))"); do
  start=$(date +%s.%N)
  out=$(./run.sh "$id" "$tier" 2>&1); rc=$?
  end=$(date +%s.%N)
  printf "%s rc=%d %.1fs %s\n" "$id" "$rc" "$(echo "$end - $start" | bc)" "$(echo "$out" | grep -cE '^VIOLATION') violation(s) $(echo "$out" | grep -cE '^KNOWN-FINDING') known $(echo "$out" | grep -c INCONCLUSIVE) inconclusive"
  if [ $rc -ne 0 ]; then fail=1; echo "$out" | grep -E "VIOLATION|sig=|BROKEN|BUILD" | head -8; fi
done
exit $fail
