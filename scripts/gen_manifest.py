#!/usr/bin/env python3
"""Generates /verif/MANIFEST.json from the table below (one entry per claimed check)."""
import json, os, subprocess
root = os.path.dirname(os.path.dirname(os.path.abspath(__file__)))

CHECKS = {
 "C01": dict(
  category="exploration", design_ref="DESIGN.md §4 C01",
  text="Reference-model monitor at the API boundary: expression trees (every pair and triple of the 11 binary operators in every shape, prefix/postfix decorations, ternaries in every position, chains of member access/index/call/prefix/postfix, assignments, the operator x operand-kind error matrix, 64-bit boundaries, random typed trees) are printed in four layouts (minimal/full/redundant parentheses; spaced, tight, newline-broken), rendered by the real EvaluateString and compared with an independent typed evaluator of the tree. Exploration: exhaustive over the stated operator space, sampled over deeper trees.",
  note="Trusts the harness' evaluator and its minimal-parentheses printer (both written from the statement's precedence table). Operations the statement leaves undefined are executed but not judged; error texts are not compared.",
  technique="differential runtime monitor against an independent typed expression evaluator, 4 source layouts per tree"),
 "C02": dict(
  category="exploration", design_ref="DESIGN.md §4 C02",
  text="Runtime monitor with in-evaluation probes: every condition of every generated @if/@elseif/@else, ternary, @breakIf and @continueIf is wrapped in a registered tracer function, so each render of the real evaluator yields an event log of which conditions were evaluated, in which order, with which value. Output and log are compared with an independent interpreter. Exhaustive over shapes (0..3 @elseif, with/without @else) x truthiness vectors x the whole truthiness table at each position x failing conditions at each position x nestings to depth 3; random nestings beyond.",
  note="Trusts the harness' interpreter and the tracer registration (public RegisterXFunc API). nil/object conditions cannot carry a tracer and are judged by output only.",
  technique="tracer-probe event log + reference interpreter over exhaustive branch shapes"),
 "C03": dict(
  category="exploration", design_ref="DESIGN.md §4 C03",
  text="Runtime monitor with in-evaluation probes: loop.index/iter/first/last and the loop variable are traced per pass by registered tracer functions and compared, together with the output, with an independent interpreter. Exhaustive over array lengths 0..6 x element kinds, every position of every control directive in a 4-item body (bare and under @if/@elseif/@else to depth 2), 2/3-level nests of @each/@for with a directive at each level, @else bodies acting on the outer loop, @for start/bound/comparison/step combinations, absent clauses, non-array headers; random loop programs beyond.",
  note="Trusts the harness' interpreter (one scope per loop, control flow as worded in the statement). Loops needing more than 14 passes are not generated.",
  technique="tracer-probe event log + reference interpreter over exhaustive loop/control-flow shapes"),
 "C04": dict(
  category="exploration", design_ref="DESIGN.md §4 C04",
  text="Reference-model monitor: all sequences up to length 4 (quick) / 5 (thorough) over {assign a|b a value of 3 types, read a|b, open @if/@else/@elseif/@each/@for block, close} under all 16 pre-bindings of a and b in the data map, with a distinct value per assignment so that each read identifies the assignment it saw; all 49 type pairs in 8 placements; the reserved name loop in every binding position; random scope-heavy programs. The real render is compared with an interpreter that keeps an explicit scope chain.",
  note="Trusts the harness' scope-chain interpreter. A loop is one block for all its passes. Error texts are not compared.",
  technique="differential runtime monitor against a scope-chain interpreter, exhaustive short programs"),
 "C19": dict(
  category="exploration", design_ref="DESIGN.md §4 C19",
  text="Runtime monitor over the real lexer: every token of every generated input is compared with an independent (line, column)<->offset table (order, no overlap, exact start/end, covered bytes = token text, gaps, EOF position, Position.Contains for every cursor, lexer counters via hook). Exhaustive over all sequences of up to 4 (quick) / 5 (thorough) atoms of the text alphabet and 3 / 4 atoms of the lexeme alphabet, random beyond. Exploration is the right level: the property quantifies over all byte strings and a monitor can only speak for the inputs it lexed.",
  note="Trusts the harness' own position table and text model (removeEscapes, gap grammar). The token stream is taken to end at the first ILLEGAL token. Says nothing about inputs outside the enumerated/sampled space.",
  technique="runtime monitor (independent position table + cursor oracle) over exhaustive/random lexer inputs"),
}

NOT_YET = "no check is registered for this property yet (harness under construction); nothing is claimed"
ALL = ["C%02d" % i for i in range(1, 21)]

def hooks_commits():
    try:
        out = subprocess.check_output(["git", "-C", "/repo", "log", "--format=%H %s"], text=True)
        return [l.split()[0] for l in out.splitlines() if l.split(' ', 1)[1].startswith("verif:")]
    except Exception:
        return []

m = {
 "version": 1,
 "setup_cmd": "./run.sh build",
 "hooks": {
  "guard": "verif (Go build tag)",
  "enable": "go build -tags verif (done by ./run.sh on every call; the harness module replaces github.com/textwire/textwire/v2 with /repo, so /repo's current working tree is what gets compiled)",
  "baseline_off_cmd": "./scripts/baseline_off.sh",
  "source_commits": hooks_commits(),
  "add_only": True,
 },
 "engines": [
  {"name": "twcheck", "path": "harness/cmd/twcheck", "serves_properties": sorted(CHECKS),
   "kind_free_text": "Go binary rebuilt from /repo's working tree on every call: supervisor + isolated worker processes (journal of the case in flight, CPU/heap watchdog, panic monitor), reference-model oracles, tracer probes registered as custom functions, verif-tagged state hooks; Go race detector build for C15"},
 ],
 "checks": [],
 "not_applicable": [],
 "notes": "All commands run from /verif. VERIF_SEED selects the seeded part of every case list; VERIF_WORKERS, VERIF_WALL (seconds) and VERIF_SCRATCH are optional. Exit 0 = held on everything explored, 1 = VIOLATION line(s), 2 = harness could not build/run or observed nothing. Known findings: known_findings.json.",
}
for pid in ALL:
    if pid in CHECKS:
        c = CHECKS[pid]
        m["checks"].append({
            "property_id": pid,
            "quick_cmd": "./run.sh %s quick" % pid,
            "thorough_cmd": "./run.sh %s thorough" % pid,
            "evidence_file": "evidence/%s.json" % pid,
            "replay_cmd_template": "./run.sh replay {path}",
            "engine": "twcheck",
            "level_claimed": {"category": c["category"], "text": c["text"], "design_ref": c["design_ref"]},
            "level_note": c["note"],
            "technique": c["technique"],
        })
    else:
        m["not_applicable"].append({"property_id": pid, "reason": NOT_YET})
json.dump(m, open(os.path.join(root, "MANIFEST.json"), "w"), indent=1)
open(os.path.join(root, "MANIFEST.hooks"), "w").write(
 "guard: Go build tag `verif`\n"
 "files (new files only, no existing line edited):\n"
 "  /repo/verif_hooks.go        VerifReset, VerifResetConfig, VerifState, (*Template).VerifNames, VerifFingerprint, VerifShared\n"
 "  /repo/lexer/verif_hooks.go  (*Lexer).VerifState\n"
 "commits in /repo: " + " ".join(hooks_commits()) + "\n"
 "guard off: ./scripts/baseline_off.sh runs the repository suite without the tag and compares with the pinned baseline (186 tests)\n")
print("wrote MANIFEST.json with", len(m["checks"]), "checks")
