#!/usr/bin/env python3
"""Generates /verif/MANIFEST.json from the table below (one entry per claimed check)."""
import json, os, subprocess
root = os.path.dirname(os.path.dirname(os.path.abspath(__file__)))

CHECKS = {
 "C19": dict(
  category="exploration", design_ref="DESIGN.md §4 C19",
  text="Runtime monitor over the real lexer: every token of every generated input is compared with an independent (line, column)<->offset table (order, no overlap, exact start/end, covered bytes = token text, gaps, EOF position, Position.Contains for every cursor, lexer counters via hook). Exhaustive over all sequences of up to 4 (quick) / 5 (thorough) atoms of the text alphabet and 3 / 4 atoms of the lexeme alphabet, random beyond. Exploration is the right level: the property quantifies over all byte strings and a monitor can only speak for the inputs it lexed.",
  note="Trusts the harness' own position table and text model (removeEscapes, gap grammar). The token stream is taken to end at the first ILLEGAL token. Says nothing about inputs outside the enumerated/sampled space.",
  technique="runtime monitor (independent position table + cursor oracle) over exhaustive/random lexer inputs"),
}

NOT_YET = "no check is registered for this property yet (harness under construction); nothing is claimed"
ALL = ["C%02d" % i for i in range(1, 21)]

def hooks_commits():
    try:
        out = subprocess.check_output(["git", "-C", "/repo", "log", "--format=%H %s"], text=True)
        return [l.split()[0] for l in out.splitlines() if l.split(' ', 1)[1].startswith("verif:")]
    except Exception:
        return []

m = {
 "version": 1,
 "setup_cmd": "./run.sh build",
 "hooks": {
  "guard": "verif (Go build tag)",
  "enable": "go build -tags verif (done by ./run.sh on every call; the harness module replaces github.com/textwire/textwire/v2 with /repo, so /repo's current working tree is what gets compiled)",
  "baseline_off_cmd": "./scripts/baseline_off.sh",
  "source_commits": hooks_commits(),
  "add_only": True,
 },
 "engines": [
  {"name": "twcheck", "path": "harness/cmd/twcheck", "serves_properties": sorted(CHECKS),
   "kind_free_text": "Go binary rebuilt from /repo's working tree on every call: supervisor + isolated worker processes (journal of the case in flight, CPU/heap watchdog, panic monitor), reference-model oracles, tracer probes registered as custom functions, verif-tagged state hooks; Go race detector build for C15"},
 ],
 "checks": [],
 "not_applicable": [],
 "notes": "All commands run from /verif. VERIF_SEED selects the seeded part of every case list; VERIF_WORKERS, VERIF_WALL (seconds) and VERIF_SCRATCH are optional. Exit 0 = held on everything explored, 1 = VIOLATION line(s), 2 = harness could not build/run or observed nothing. Known findings: known_findings.json.",
}
for pid in ALL:
    if pid in CHECKS:
        c = CHECKS[pid]
        m["checks"].append({
            "property_id": pid,
            "quick_cmd": "./run.sh %s quick" % pid,
            "thorough_cmd": "./run.sh %s thorough" % pid,
            "evidence_file": "evidence/%s.json" % pid,
            "replay_cmd_template": "./run.sh replay {path}",
            "engine": "twcheck",
            "level_claimed": {"category": c["category"], "text": c["text"], "design_ref": c["design_ref"]},
            "level_note": c["note"],
            "technique": c["technique"],
        })
    else:
        m["not_applicable"].append({"property_id": pid, "reason": NOT_YET})
json.dump(m, open(os.path.join(root, "MANIFEST.json"), "w"), indent=1)
open(os.path.join(root, "MANIFEST.hooks"), "w").write(
 "guard: Go build tag `verif`\n"
 "files (new files only, no existing line edited):\n"
 "  /repo/verif_hooks.go        VerifReset, VerifResetConfig, VerifState, (*Template).VerifNames, VerifFingerprint, VerifShared\n"
 "  /repo/lexer/verif_hooks.go  (*Lexer).VerifState\n"
 "commits in /repo: " + " ".join(hooks_commits()) + "\n"
 "guard off: ./scripts/baseline_off.sh runs the repository suite without the tag and compares with the pinned baseline (186 tests)\n")
print("wrote MANIFEST.json with", len(m["checks"]), "checks")
