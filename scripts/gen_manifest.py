#!/usr/bin/env python3
"""Generates /verif/MANIFEST.json from the table below (one entry per claimed check)."""
import json, os, subprocess
root = os.path.dirname(os.path.dirname(os.path.abspath(__file__)))

CHECKS = {
 "C01": dict(category="exploration",
  text="Reference-model monitor at the API boundary: expression trees (every pair and triple of the 11 binary operators in every shape, prefix/postfix decorations, ternaries in every position, chains of member access/index/call/prefix/postfix, assignments, the operator x operand-kind error matrix, 64-bit boundaries, random typed trees) are printed in four layouts (minimal/full/redundant parentheses; spaced, tight, newline-broken), rendered by the real EvaluateString and compared with an independent typed evaluator of the tree. Exploration: exhaustive over the stated operator space, sampled over deeper trees.",
  note="Trusts the harness' evaluator and its minimal-parentheses printer (both written from the statement's precedence table). Operations the statement leaves undefined are executed but not judged; error texts are not compared.",
  technique="differential runtime monitor against an independent typed expression evaluator, 4 source layouts per tree"),
 "C02": dict(category="exploration",
  text="Runtime monitor with in-evaluation probes: every condition of every generated @if/@elseif/@else, ternary, @breakIf and @continueIf is wrapped in a registered tracer function, so each render of the real evaluator yields an event log of which conditions were evaluated, in which order, with which value. Output and log are compared with an independent interpreter. Exhaustive over shapes (0..3 @elseif, with/without @else) x truthiness vectors x the whole truthiness table at each position x failing conditions at each position x nestings to depth 3; random nestings beyond. Also: @else bodies glued to the keyword, and the construct inside slot bodies, insert blocks, component files and layouts of loaded template trees (with a failing condition at each position).",
  note="Trusts the harness' interpreter and the tracer registration (public RegisterXFunc API). nil/object conditions cannot carry a tracer and are judged by output only.",
  technique="tracer-probe event log + reference interpreter over exhaustive branch shapes"),
 "C03": dict(category="exploration",
  text="Runtime monitor with in-evaluation probes: loop.index/iter/first/last and the loop variable are traced per pass by registered tracer functions and compared, together with the output, with an independent interpreter. Exhaustive over array lengths 0..6 x element kinds, every position of every control directive in a 4-item body (bare and under @if/@elseif/@else to depth 2), 2/3-level nests of @each/@for with a directive at each level, @else bodies acting on the outer loop, @for start/bound/comparison/step combinations, absent clauses, non-array headers; random loop programs beyond. Also: text glued to @break/@continue.",
  note="Trusts the harness' interpreter (one scope per loop, control flow as worded in the statement). Loops needing more than 14 passes are not generated.",
  technique="tracer-probe event log + reference interpreter over exhaustive loop/control-flow shapes"),
 "C04": dict(category="exploration",
  text="Reference-model monitor: all sequences up to length 4 (quick) / 5 (thorough) over {assign a|b a value of 3 types, read a|b, open @if/@else/@elseif/@each/@for block, close} under all 16 pre-bindings of a and b in the data map, with a distinct value per assignment so that each read identifies the assignment it saw; all 49 type pairs in 8 placements; the reserved name loop in every binding position; random scope-heavy programs. The real render is compared with an interpreter that keeps an explicit scope chain.",
  note="Trusts the harness' scope-chain interpreter. A loop is one block for all its passes. Error texts are not compared.",
  technique="differential runtime monitor against a scope-chain interpreter, exhaustive short programs"),
 "C05": dict(category="exploration",
  text="Runtime monitor over the real render: an independent scanner classifies every string (plain text / escapes only / contains syntax) and gives the expected bytes; plain, escape, comment and splice cases are rendered and compared byte for byte. Exhaustive over all sequences of up to 4 (quick) / 5 (thorough) atoms of an adversarial text alphabet (@, backslash, braces, dashes, quotes, CRLF, UTF-8, directive names and their proper prefixes), comment bodies, and text spliced on both sides of 8 constructs; random beyond. Also: raw control and non-UTF-8 bytes (NUL, 0x01, VT, FF, ESC, DEL, 0x80, 0xa0, 0xc3, 0xff) between every pair of atoms in text, comments and around constructs; every text through template files (page, layout, insert block, component file, slot body, between slots, between a component and a slot) rendered with String and written with Response.",
  note="Trusts the harness' text scanner (the escape and comment rules as stated). Strings containing unescaped syntax are left to C08/C19.",
  technique="byte-for-byte passthrough monitor against an independent text scanner, exhaustive atom sequences"),
 "C06": dict(category="exploration",
  text="Reference-model monitor over template directories written to disk and loaded by the real NewTemplate: layouts with 1..3 reserves at top level / inside @if / inside @each, pages inserting every kind of subset in block, empty-block or expression form, '~' and full spellings, 4 directory/extension settings, 2 data maps per page; the real render is compared with 'the layout run with each reserve replaced by the model render of its insert'. Fault trees (undefined inserts, duplicates, missing layout, layout using a layout, insert into a reserve-less layout) must be reported at load or at render.",
  note="Trusts the harness' tree interpreter and the verif reset hook (package configuration is sticky otherwise).",
  technique="differential runtime monitor on generated template trees (real loader vs tree model) + fault trees"),
 "C07": dict(category="exploration",
  text="Reference-model monitor with probes and an invariant hook: generated trees with 1..2 component files and pages using them 1..4 times (same component several times, slot-less use after slotted use, inside @if/@each/insert blocks, arguments naming surrounding variables that are also keys of the call). Unique argument values and slot sentinels make each use site identifiable in the output; arguments are traced (evaluated once per use-site evaluation, with the values of the place of use); the verif hook VerifShared() (AST nodes reachable from two use sites) is recorded as evidence. Fault trees (undeclared slot, slot passed twice, missing component file) must fail NewTemplate naming the component.",
  note="Trusts the harness' tree interpreter, the tracer probes and the reflective AST walker of the hook. Slot placeholders sit at the top level of component files; slot bodies are non-empty.",
  technique="differential runtime monitor on generated component trees + tracer-probe log (AST-sharing hook as evidence)"),
 "C08": dict(category="exploration",
  text="Crash/hang/contract monitors around the real lexer and parser: logical progress of the lexer (position strictly grows, at most len+2 tokens - no clock), CPU/heap watchdog in an isolated worker with the case in flight journalled (a hang is confirmed alone with a doubled budget), panic monitor, and the contract 'program without errors, or >= 1 error and every error has a line'. Inputs: all sequences of up to 2 (quick) / 3 (thorough) lexemes (+1 over the directive core) glued and spaced, incl. NUL/0xff bytes; every prefix and every single-token deletion/duplication/swap of generated valid templates - a prefix cutting a generated block, string, object literal, comment or directive argument list (spans recorded by the generator) must be rejected; a table of 77 truncations x 7 prefixes; random soups; the same through NewTemplate on a one-file directory. Also: every closed construct (empty and non-empty bodies) inside every unclosed block opener, one and two levels deep, and every truncation followed by a hostile byte and more text.",
  note="Termination is decided as bounded progress (6 s of CPU per input whose median is microseconds; 2 GiB heap). Inputs are at most a few hundred bytes; recursion depth on huge inputs is not claimed.",
  technique="isolated-worker watchdog (CPU/heap, journalled case) + lexer progress monitor + parse contract oracle"),
 "C09": dict(category="exploration",
  text="Crash monitor and contract oracle on evaluation: programs from an untyped generator (any expression kind in any position, @for with every subset of clauses absent) and mostly-typed programs rendered with a hostile data map (every kind, 64-bit extremes, nil pointers/slices/maps, structs); every built-in x 40 receivers x all 0..2-argument tuples (+ sampled triples) from 24 boundary values; data maps with nil pointers and unsupported kinds planted at depth 0..3 (also through object.EnvFromMap directly). Every outcome must be output or a Textwire error value carrying a line; panics are caught with their stack, fatal errors and hangs by the worker supervisor. Also: NaN, infinities, the smallest and largest float under every operator and statement position; 12 failing expressions in 50 places of a loaded template tree (incl. component arguments the component never reads, two-argument inserts, slot bodies, layouts; places that are not reached must not fail).",
  note="Counts are small, negative or absurdly large; the gray zone of merely huge counts is not generated. Errors from building the environment carry no line by design.",
  technique="panic/budget monitors + error-value contract over untyped programs and a built-in x boundary-value matrix"),
 "C10": dict(category="exploration",
  text="Runtime monitor on rendered segments: all literal contents of up to 4 (quick) / 5 (thorough) atoms over an alphabet rich in < > & ; # quotes, letters/digits spelling existing entities, and UTF-8, in both quote styles, in 19 string contexts (printed, concatenated, assigned, array element printed/indexed/iterated, object field, ternary arms, then() arguments, raw() variants) and 7 template-tree contexts (insert argument/block, component argument, slot body, with raw()). The segment is isolated by delimiters and must hold no raw < >, only entity ampersands, the same quotes, and unescape to the literal; raw() must give the literal exactly.",
  note="Trusts html.UnescapeString as the inverse used by the oracle. Literals that cannot be written (trailing backslash, backslash-quote) are skipped.",
  technique="escaping oracle on delimited output segments, exhaustive literal contents x usage contexts"),
 "C11": dict(category="exploration",
  text="Reference-function monitor: one independent reference per built-in (39) gives, for every call, the set of acceptable results (value, permutation, member, and/or error where the contract is silent). Receiver and arguments come from the data map and every render prints receiver before, result, receiver after and the arguments, so purity is observed on the same execution; utf8.ValidString on every output; call sequences (two calls on one receiver, calls chained on slice/reverse results) expose shared storage; a custom function registered under every built-in name must never run. Exhaustive over receivers x 0..2-argument tuples from a 26-value pool, the (len,start,end) cube for slice and (len,n) squares for at/repeat/truncate/decimal; random beyond. Also: one call site evaluated in a loop over receivers of changing kinds.",
  note="Where the statement names no behaviour (split, raw, trim*, upper, lower, join, repeat, rand) the reference is the obvious reading of the name, consistent with the pinned suite. Extra arguments may be ignored or rejected.",
  technique="per-built-in reference functions + before/after purity observation + UTF-8 validity + shadow-function sentinel"),
 "C12": dict(category="exploration",
  text="Reference-model monitor on data conversion: Go values generated by type-directed recursion (all integer widths with extremes, float32/64, strings with markup/UTF-8/template syntax, nil, pointers 1-3 deep and nil at every level, typed/untyped slices, string-keyed maps incl. keys differing only in case, static structs with unexported and interface fields, reflect.StructOf types, unsupported kinds planted anywhere) come with their expected view; up to 24 access paths per value (dot, index, lower-cased first letter, out-of-range, missing and unexported names) are rendered and compared; the value is built twice from one seed and the copy given to the render must stay reflect.DeepEqual to the other after printing, dumping, iterating and calling reverse/append on it. Also: defined map, key and slice types; unsupported values under top-level names no template can spell, with templates that do not touch the data (also the empty template, also through EvaluateFile).",
  note="A nil map is seen as an empty object, a nil slice as an empty array. Named scalar types and non-string map keys are not generated.",
  technique="type-directed value generator with expected view + access-path oracle + deep-equality immutability monitor"),
 "C13": dict(category="exploration",
  text="Constructed-oracle monitor: one faulty construct of every kind (27 single-line and multi-line variants: undefined identifier, mistyped operand, unknown function/property, division/modulo by zero, non-array @each, re-typing, illegal character, unexpected token also after newlines inside a construct, bad literal, undefined insert, unknown component) is injected on a line known by construction after every kind of multi-line token (20 prelude kinds), under 5 block wrappers; exhaustive for last-token x fault x wrapper and for all triples of preludes, random longer preludes; template trees put the fault in the page, an insert block, a slot body, a layout or a component and compare line and absolute path read from the returned error. Also: faults whose offending token is a string literal spanning lines; in trees, other pages (one failing on its own line) are rendered before the faulty one.",
  note="The expected line counts newline bytes of the generated source; for multi-line constructs the offending token's line is used. Run-time faults inside layout/component files are not judged for their path, as the statement restricts.",
  technique="error line/path oracle by construction over multi-line preludes, strings and template trees"),
 "C14": dict(category="exploration",
  text="Repetition monitor: every case is executed 12 (quick) / 40 (thorough) times in one process - trees reloaded from disk after a state reset each time - and as 3 / 8 copies that land in different worker processes and exchange their observation through a shared scratch directory; all observations (output, or error message + line + path) must be byte-identical. Cases are biased to map iteration: objects with up to 12 keys (incl. case-variant keys) printed/dumped/nested, literals and component arguments with 2..4 failing entries, 2..4 undefined/duplicate inserts, slots passed twice, 2..4 faulty files at once (syntax and link faults), plus generated programs. Also: key sets that differ only in case for entries failing together.",
  note="shuffle()/rand() are excluded. A map-ordered choice among k >= 2 candidates survives all repetitions with probability <= 2^-35.",
  technique="in-process and cross-process repetition monitor on map-iteration-heavy cases"),
 "C15": dict(category="exploration",
  text="Go race detector plus offline history check: the harness is built with -race; rounds of 2/8/32 (128 in thorough) goroutines x GOMAXPROCS 1/2/16 issue 200 seeded operations each (String ok/failing/missing/shuffle, Response ok/failing/missing, EvaluateString ok/failing, EvaluateFile, loops failing in a later pass after producing output, data-less renders that assign names at top level next to one that reads the name and must fail) on one loaded tree with goroutine-specific data while a custom function called from inside the templates yields or sleeps. The race log of each worker is parsed and every report with a repository frame is a violation (de-duplicated by the pair of innermost repository frames); every recorded result must equal the stand-alone result of the same call (stateless sequential specification, so linearizability reduces to per-operation equality). Evidence counts operations that overlapped an operation of another kind.",
  note="Only interleavings the scheduler produced; the detector sees races between accesses that executed. porcupine was not used: the specification is stateless (DESIGN.md section 5).",
  technique="Go race detector (log parsed per process) + recorded concurrent history checked against stand-alone baselines"),
 "C16": dict(category="exploration",
  text="History monitor with invariant hooks: all sequences up to length 2 (quick) / 3 (thorough), sampled ones one step longer and random histories of length 30, over 30 concrete operations (one page with prefix-operator call arguments under two data sets, two struct types printing the same type name, a long-lived pointer first holding an unsupported value and then repaired; String on pages reading struct/map/lower-case-map data, failing pages, loops failing in a later pass, data-less renders that assign at top level and renders that read those names, missing and layout names, array built-ins; Response ok/failing/missing; EvaluateString; EvaluateFile) on a fixed tree under 18 configurations (3 directory/extension settings x debug x custom error page none/valid/failing). Each step's observation must equal the same operation issued first on a fresh load; after every step the verif hooks VerifFingerprint (structural hash of all loaded ASTs) and VerifState (configuration) must be unchanged.",
  note="Baseline = result of the operation as the first call of a fresh child process that loaded the same tree with the same configuration (shared between the workers of a run, working directory normalised). Trusts the reflective fingerprint walker.",
  technique="exhaustive operation histories vs fresh-state baselines + AST fingerprint / configuration invariant hooks"),
 "C17": dict(category="exploration",
  text="Recording-writer monitor: all combinations of debug on/off x {no, valid, missing, failing} custom error page x pages that succeed or fail at statement i of n at top level, in loop pass i, in an insert block, in the layout, in a component file, in a slot body, in a component argument, in the expression of a two-argument insert, or name an unknown template or a layout, x 10 fault kinds (two with a percent sign in the message; the directory name holds one too); configurations follow each other in seeded order inside one process, and sequences of 2-4 configurations that differ in the debug flag only follow each other without a reset (the last one governs). A recording http.ResponseWriter captures the body; pages, identifiers, file and directory names carry sentinels so that 'part of the failed page', 'the message' and 'a path' are substring tests; the expected page follows the table of the statement.",
  note="Configuration is set through NewTemplate after the verif reset hook. With debug on, the line is checked as ':<line>' after the path.",
  technique="recording ResponseWriter + sentinel substring oracles over the full configuration x failure-position matrix"),
 "C18": dict(category="fault_enumeration",
  text="Fault enumeration on the real loader plus a naming monitor. Faults: for every file of valid trees (page, layout, component, nested page) x {deleted, dangling symlink, symlink loop, directory in its place, empty, 10 garbage contents, truncated at every byte offset} the tree is first loaded valid, the fault applied in place, and the tree reloaded in the same process: NewTemplate must return (nil, error) naming the file (or the layout/component name when absent), never panic or hang. Naming: every subset of 5 sub-directories x 4 extensions x 8 directory spellings with decoy files whose names only contain the extension; VerifNames() must equal the expected set, every name must render its own content, layouts must not render, unknown names (incl. a registered name with a leading slash, './', a trailing slash, the extension, blanks, other case) must be reported. One fault tree has a component that only the layout refers to. EvaluateFile(path) is compared with EvaluateString(content) across rewrites of one path.",
  note="Unreadable files are produced with symlinks (the sandbox runs as root). A truncation must fail only when it cuts a block, string, object literal, comment or directive argument list. Relative template directories only.",
  technique="in-place file fault enumeration with valid-load-first protocol + exact name-set oracle via hook"),
 "C19": dict(category="exploration",
  text="Runtime monitor over the real lexer: every token of every generated input is compared with an independent (line, column)<->offset table (order, no overlap, exact start/end, covered bytes = token text, gaps, EOF position, Position.Contains for every cursor, lexer counters via hook). Exhaustive over all sequences of up to 4 (quick) / 5 (thorough) atoms of the text alphabet and 3 / 4 atoms of the lexeme alphabet, all pairs of lexemes behind 11 leading byte sequences (byte order marks, NUL, control bytes, zero-width and non-breaking spaces, line separators), random beyond.",
  note="Trusts the harness' own position table and text model (removeEscapes, gap grammar). The token stream is taken to end at the first ILLEGAL token.",
  technique="runtime monitor (independent position table + cursor oracle) over exhaustive/random lexer inputs"),
 "C20": dict(category="exploration",
  text="Offline trace checker against a sequential registry model: all histories up to length 3 over {Register, Call on literal, Call on variable, CallInsideTemplate} x 5 receiver types x names {f, g, a built-in name}, plus LoadTemplates, each replayed from the reset hook; every registered function bakes a unique id into its result so a call reveals which function is bound; unregistered calls must fail naming function and receiver type. Conversion: a recording function captures receiver and up to 3 generated arguments (64-bit extremes, floats, strings, booleans, nil, nested arrays/objects; literals and data) and they are compared with the plain Go values; a function result is rendered next to the same Go value passed as data, printed and probed through the same access paths. Also: a callee that overwrites every map and slice it receives, called repeatedly with the same variables (each call must receive the original content; variables and caller data unchanged); functions returning nil/empty slices whose result is used as an array; registered functions called through EvaluateFile, Template.String and Response (page, insert block, component file, slot body).",
  note="String contents avoid HTML-special characters (C10's concern). An empty array may reach a function as nil or an empty slice.",
  technique="exhaustive registration/call histories vs registry model + recorded argument/result conversion round-trip"),
}
for _k in CHECKS:
    CHECKS[_k]["design_ref"] = "DESIGN.md section 4, " + _k

NOT_YET = "no check is registered for this property yet (harness under construction); nothing is claimed"
ALL = ["C%02d" % i for i in range(1, 21)]

def hooks_commits():
    try:
        out = subprocess.check_output(["git", "-C", "/repo", "log", "--format=%H %s"], text=True)
        return [l.split()[0] for l in out.splitlines() if l.split(' ', 1)[1].startswith("verif:")]
    except Exception:
        return []

m = {
 "version": 1,
 "setup_cmd": "./run.sh build",
 "hooks": {
  "guard": "verif (Go build tag)",
  "enable": "go build -tags verif (done by ./run.sh on every call; the harness module replaces github.com/textwire/textwire/v2 with /repo, so /repo's current working tree is what gets compiled)",
  "baseline_off_cmd": "./scripts/baseline_off.sh",
  "source_commits": hooks_commits(),
  "add_only": True,
 },
 "engines": [
  {"name": "twcheck", "path": "harness/cmd/twcheck", "serves_properties": sorted(CHECKS),
   "kind_free_text": "Go binary rebuilt from /repo's working tree on every call: supervisor + isolated worker processes (journal of the case in flight, CPU/heap watchdog, panic monitor), reference-model oracles, tracer probes registered as custom functions, verif-tagged state hooks; Go race detector build for C15"},
 ],
 "checks": [],
 "not_applicable": [],
 "notes": "All commands run from /verif. VERIF_SEED selects the seeded part of every case list; VERIF_WORKERS, VERIF_WALL (seconds) and VERIF_SCRATCH are optional. Exit 0 = held on everything explored, 1 = VIOLATION line(s), 2 = harness could not build/run or observed nothing. Known findings: known_findings.json.",
}
for pid in ALL:
    if pid in CHECKS:
        c = CHECKS[pid]
        m["checks"].append({
            "property_id": pid,
            "quick_cmd": "./run.sh %s quick" % pid,
            "thorough_cmd": "./run.sh %s thorough" % pid,
            "evidence_file": "evidence/%s.json" % pid,
            "replay_cmd_template": "./run.sh replay {path}",
            "engine": "twcheck",
            "level_claimed": {"category": c["category"], "text": c["text"], "design_ref": c["design_ref"]},
            "level_note": c["note"],
            "technique": c["technique"],
        })
    else:
        m["not_applicable"].append({"property_id": pid, "reason": NOT_YET})
json.dump(m, open(os.path.join(root, "MANIFEST.json"), "w"), indent=1)
open(os.path.join(root, "MANIFEST.hooks"), "w").write(
 "guard: Go build tag `verif`\n"
 "files (new files only, no existing line edited):\n"
 "  /repo/verif_hooks.go        VerifReset, VerifResetConfig, VerifState, (*Template).VerifNames, VerifFingerprint, VerifShared\n"
 "  /repo/lexer/verif_hooks.go  (*Lexer).VerifState\n"
 "commits in /repo: " + " ".join(hooks_commits()) + "\n"
 "guard off: ./scripts/baseline_off.sh runs the repository suite without the tag and compares with the pinned baseline (186 tests)\n")
print("wrote MANIFEST.json with", len(m["checks"]), "checks")
